import BfeVerif.C24.Proofs
/-!
  C24 — accepted HTTP/1 requests have unambiguous framing.  Property theorems only.

  `readRequestHead` / `readBody`  model of bfe's ReadRequest + body reading      (tied to the code by the correspondence run)
  `rfcRequest`                    strict RFC 7230 reference parser                  (the spec oracle of the driver)

  FULL STATEMENT (`C24_full`): every request the code accepts is accepted by the RFC parser.  It is FALSE for the
  unchanged code: each `C24_witness_*` theorem below is a concrete byte stream that the model of the code accepts
  and the RFC parser rejects, one per smuggling class; all of them are replayed on the real ReadRequest
  (corpus/C24/known.ops) and listed as known findings.

  PARTIAL STATEMENT, proved for all inputs: on the decidable clean sub-language `cleanRequest` (Model.lean: request
  line and header block are syntactically RFC lines/fields — CRLF, no bare CR/LF, no obs-fold, token names directly
  before the colon, no CTLs —, token method, HTTP/1.1, at most one Transfer-Encoding / Content-Length field with plain
  ASCII values, no `identity` coding, non-empty Content-Length, chunk-size lines `1*HEXDIG CRLF`, RFC-syntactic
  trailer) the two whole parsers agree: `C24_same_boundaries_partial` (same method, target, field names, body, rest)
  and `C24_rejects_partial` (RFC-reject => bfe rejects).  The clean class fixes only the *syntax* of lines and
  fields; the framing decision (values like `abc`, `+5`, `gzip`, overflow), the target, chunk data and sizes are
  not assumed and are covered by the theorem.  The layers are also stated separately: lines (`C24_line_agree`),
  header block (`C24_header_block_agree`), framing decision (`C24_framing_agree_partial`), chunked body
  (`C24_chunked_body_strict`).
-/
namespace BfeVerif.C24
open BfeVerif.C23 (Bytes)

def codeAccepts (s : Bytes) : Bool := (readRequestHead s).isSome
def rfcRejectsWith (s : Bytes) (w : String) : Bool :=
  match rfcRequest s with
  | .error e => e == w
  | .ok _ => false

/-- the property at full strength (header part): what the code accepts, the RFC parser accepts -/
def C24_full : Prop := ∀ s : Bytes, codeAccepts s = true → ∃ q r, rfcRequest s = .ok (q, r)

-- 'POST / HTTP/1.1\r\nContent-Length : 5\r\n\r\nhello'
def wWsColon : Bytes :=
  [80,79,83,84,32,47,32,72,84,84,80,47,49,46,49,13,10,67,111,110,116,101,110,116,45,76,101,110,103,116,104,32,58,32,53,13,10,13,10,104,101,108,108,111]
-- 'POST / HTTP/1.1\r\nX: a\r\n Content-Length: 5\r\n\r\nhello'
def wObsFold : Bytes :=
  [80,79,83,84,32,47,32,72,84,84,80,47,49,46,49,13,10,88,58,32,97,13,10,32,67,111,110,116,101,110,116,45,76,101,110,103,116,104,58,32,53,13,10,13,10,104,101,108,108,111]
-- 'POST / HTTP/1.1\r\n \r\nContent-Length: 5\r\n\r\nhello'
def wLeadWs : Bytes :=
  [80,79,83,84,32,47,32,72,84,84,80,47,49,46,49,13,10,32,13,10,67,111,110,116,101,110,116,45,76,101,110,103,116,104,58,32,53,13,10,13,10,104,101,108,108,111]
-- 'POST / HTTP/1.1\nContent-Length: 5\n\nhello'
def wBareLF : Bytes :=
  [80,79,83,84,32,47,32,72,84,84,80,47,49,46,49,10,67,111,110,116,101,110,116,45,76,101,110,103,116,104,58,32,53,10,10,104,101,108,108,111]
-- 'POST / HTTP/1.1\r\nTransfer-Encoding: identity, chunked\r\n\r\n0\r\n\r\n'
def wTeIdentity : Bytes :=
  [80,79,83,84,32,47,32,72,84,84,80,47,49,46,49,13,10,84,114,97,110,115,102,101,114,45,69,110,99,111,100,105,110,103,58,32,105,100,101,110,116,105,116,121,44,32,99,104,117,110,107,101,100,13,10,13,10,48,13,10,13,10]
-- 'POST / HTTP/1.1\r\nTransfer-Encoding: chunked\r\nTransfer-Encoding: gzip\r\n\r\n0\r\n\r\n'
def wTeSecond : Bytes :=
  [80,79,83,84,32,47,32,72,84,84,80,47,49,46,49,13,10,84,114,97,110,115,102,101,114,45,69,110,99,111,100,105,110,103,58,32,99,104,117,110,107,101,100,13,10,84,114,97,110,115,102,101,114,45,69,110,99,111,100,105,110,103,58,32,103,122,105,112,13,10,13,10,48,13,10,13,10]
-- 'POST / HTTP/1.1\r\nTransfer-Encoding: chunâ\x84ªed\r\n\r\n0\r\n\r\n'
def wTeKelvin : Bytes :=
  [80,79,83,84,32,47,32,72,84,84,80,47,49,46,49,13,10,84,114,97,110,115,102,101,114,45,69,110,99,111,100,105,110,103,58,32,99,104,117,110,226,132,170,101,100,13,10,13,10,48,13,10,13,10]
-- 'POST / HTTP/1.1\r\nFoo Bar: x\r\n\r\n'
def wBadName : Bytes :=
  [80,79,83,84,32,47,32,72,84,84,80,47,49,46,49,13,10,70,111,111,32,66,97,114,58,32,120,13,10,13,10]
-- 'POST / HTTP/1.1\r\nContent-Length: +5\r\n\r\nhello'
def wClPlus : Bytes :=
  [80,79,83,84,32,47,32,72,84,84,80,47,49,46,49,13,10,67,111,110,116,101,110,116,45,76,101,110,103,116,104,58,32,43,53,13,10,13,10,104,101,108,108,111]
-- 'POST / HTTP/1.1\r\nContent-Length: 5\r\nContent-Length: 6\r\n\r\nhelloX'
def wClDup : Bytes :=
  [80,79,83,84,32,47,32,72,84,84,80,47,49,46,49,13,10,67,111,110,116,101,110,116,45,76,101,110,103,116,104,58,32,53,13,10,67,111,110,116,101,110,116,45,76,101,110,103,116,104,58,32,54,13,10,13,10,104,101,108,108,111,88]
-- 'POST /a HTTP/1.1\r\nHost: x\r\nContent-Length: 5\r\n\r\nhelloGET / HTTP/1.1\r\n\r\n'
def wGood : Bytes :=
  [80,79,83,84,32,47,97,32,72,84,84,80,47,49,46,49,13,10,72,111,115,116,58,32,120,13,10,67,111,110,116,101,110,116,45,76,101,110,103,116,104,58,32,53,13,10,13,10,104,101,108,108,111,71,69,84,32,47,32,72,84,84,80,47,49,46,49,13,10,13,10]

/-! ### for all inputs -/

/-- **lines**: whenever the strict line splitter (CRLF only, no bare CR/LF) accepts, bfe's `ReadLine` returns the
    same line and the same rest — on RFC-conforming input both parsers cut lines at the same places. -/
theorem C24_line_agree (s l r : Bytes) (h : rfcLine s = .ok (l, r)) : readLine s = some (l, r) :=
  readLine_of_rfcLine s l r h

/-- **Content-Length syntax** (repaired): the number parser accepts exactly non-empty digit strings below 2^63 —
    no sign, no blanks, no other bytes. -/
theorem C24_cl_digits_only (s : Bytes) (n : Nat) :
    parseUint63 s = some n ↔ (s.length ≠ 0 ∧ s.all isDigit = true ∧ n = decNat s ∧ n < 2 ^ 63) := by
  unfold parseUint63
  constructor
  · intro h
    split at h
    · cases h
    · rename_i hc
      split at h
      · injection h with h
        subst h
        refine ⟨fun h0 => hc (Or.inl h0), ?_, rfl, by assumption⟩
        cases ha : s.all isDigit with
        | true => rfl
        | false => exact absurd (Or.inr (by simp [ha])) hc
      · cases h
  · rintro ⟨h0, ha, hn, hlt⟩
    have : ¬ (s.length = 0 ∨ ¬ s.all isDigit = true) := by
      intro h; rcases h with h | h
      · exact h0 h
      · exact h ha
    simp only [this, if_false]
    subst hn
    simp [hlt]

/-- **conflicting Content-Length** (repaired): if a later Content-Length field differs (after Go's TrimSpace) from
    the first one, the length decision is an error; such a request can only be accepted with chunked framing
    (where Transfer-Encoding overrides and removes Content-Length, RFC 7230 §3.3.3 (3)). -/
theorem C24_conflicting_cl_rejected (fs : List Field) (a : Bytes) (rest : List Bytes)
    (hv : valuesOf fs sCL = a :: rest) (c : Bytes) (hc : c ∈ rest) (hne : goTrimSpace c ≠ goTrimSpace a) :
    fixLen fs = none ∧ (framing fs = none ∨ framing fs = some .chunked) := by
  have h1 : fixLen fs = none := by
    unfold fixLen
    simp only [hv]
    have : rest.all (fun c => decide (goTrimSpace c = goTrimSpace a)) = false := by
      rw [List.all_eq_false]
      exact ⟨c, hc, by simp [hne]⟩
    simp [this]
  refine ⟨h1, ?_⟩
  unfold framing
  cases hte : fixTE fs with
  | none => left; rfl
  | some b =>
    cases b with
    | true =>
      simp only []
      split
      · right; rfl
      · left; rfl
    | false => left; simp [h1]

/-! ### the two parsers agree on the clean sub-language (all inputs) -/

/-- **same boundaries** (partial: clean sub-language).  If the stream is clean and the model of bfe's ReadRequest
    accepts the header (`readRequestHead`) and reads the body to a clean end (`readBody`), then the RFC parser
    accepts the same stream with the same method, target, field names (case-insensitively), body and unread rest. -/
theorem C24_same_boundaries_partial (s : Bytes) (hc : cleanRequest s = true) (q : Req) (r : Bytes)
    (hh : readRequestHead s = some (q, r)) (body rest : Bytes)
    (hb : readBody q.framing r = (body, some rest)) :
    rfcRequest s = .ok (⟨q.method, q.target, q.keys.map asciiLower, body⟩, rest) :=
  same_boundaries s hc q r hh body rest hb

/-- **rejects** (partial: clean sub-language).  A clean stream that the RFC parser rejects (bad Content-Length
    syntax or size, unsupported transfer coding, malformed or truncated body / chunk / trailer, bad target …) is
    never accepted by bfe: either the header is rejected or the body read ends in an error. -/
theorem C24_rejects_partial (s : Bytes) (hc : cleanRequest s = true) (e : String)
    (hr : rfcRequest s = .error e) :
    ¬ ∃ q r body rest, readRequestHead s = some (q, r) ∧ readBody q.framing r = (body, some rest) := by
  rintro ⟨q, r, body, rest, hh, hb⟩
  rw [same_boundaries s hc q r hh body rest hb] at hr
  cases hr

/-- **header block layer**: whatever the strict RFC field reader accepts (any number of fields, then the empty
    line), bfe's ReadMIMEHeaderAndKeys reads as the same fields (names canonicalised instead of lower-cased, same
    trimmed values) and stops at the same place. -/
theorem C24_header_block_agree (f : Nat) (first : Bool) (s : Bytes) (fs : List Field) (r' : Bytes)
    (h : rfcFields f first s = .ok (fs, r')) :
    ∃ raw : List (Bytes × Bytes), fs = raw.map lowerF ∧
      (∀ p ∈ raw, p.1.length ≠ 0 ∧ p.1.all C23.isTchar = true ∧ trim p.2 = p.2) ∧
      ∀ f2, s.length < f2 → readHeader f2 s = some (raw.map canonF, r') :=
  fields_agree f first s fs r' h

/-- **framing decision layer**: for the same fields (token names; at most one TE / CL, plain values, no identity,
    non-empty CL), whenever bfe's fixTransferEncoding / fixLength / fixTrailer decide a framing, RFC 7230 §3.3.3
    decides the same one. -/
theorem C24_framing_agree_partial (raw : List (Bytes × Bytes))
    (hraw : ∀ p ∈ raw, p.1.length ≠ 0 ∧ p.1.all C23.isTchar = true ∧ trim p.2 = p.2)
    (hclean : cleanFields (raw.map lowerF) = true) (fr : Framing)
    (h : framing (raw.map canonF) = some fr) : rfcFraming 1 (raw.map lowerF) = .ok fr :=
  framing_agree raw hraw hclean fr h

/-- **chunked body layer**: if every chunk-size line is `1*HEXDIG CRLF` (`strictChunks`), a clean end of bfe's
    chunked reader is a success of the STRICT RFC 7230 §4.1 decoder with the same body and rest. -/
theorem C24_chunked_body_strict (s r2 : Bytes) (h : (C23.decode s).err = .eof)
    (hst : strictChunks (s.length + 1) s = some r2) :
    C23.rfcDechunk false s = .ok (C23.decode s).body (C23.decode s).rest ∧ r2 = (C23.decode s).rest :=
  chunked_strict (s.length + 1) s h _ r2 hst (s.length + 1) (by omega)

/-! non-vacuity of the clean class: clean + accepted (Content-Length and chunked with trailer), clean + rejected by
    both, and a stream that is not clean -/
-- 'POST /a HTTP/1.1\r\nHost: x\r\nTransfer-Encoding: Chunked\r\n\r\n5\r\nhello\r\n0\r\nX-T: 1\r\n\r\nGET'
def wCleanChunked : Bytes :=
  [80,79,83,84,32,47,97,32,72,84,84,80,47,49,46,49,13,10,72,111,115,116,58,32,120,13,10,84,114,97,110,115,102,101,114,45,69,110,99,111,100,105,110,103,58,32,67,104,117,110,107,101,100,13,10,13,10,53,13,10,104,101,108,108,111,13,10,48,13,10,88,45,84,58,32,49,13,10,13,10,71,69,84]
-- 'POST /a HTTP/1.1\r\nContent-Length: abc\r\n\r\n'
def wCleanBad : Bytes :=
  [80,79,83,84,32,47,97,32,72,84,84,80,47,49,46,49,13,10,67,111,110,116,101,110,116,45,76,101,110,103,116,104,58,32,97,98,99,13,10,13,10]
example : cleanRequest wGood = true := by decide
example : cleanRequest wCleanChunked = true := by decide
example : (match readRequestHead wCleanChunked with
    | some (q, r) => (q.framing, (readBody q.framing r).1.length, ((readBody q.framing r).2.map List.length))
    | none => (.length 0, 0, none)) = (.chunked, 5, some 3) := by decide
example : cleanRequest wCleanBad = true ∧ codeAccepts wCleanBad = false ∧
    rfcRejectsWith wCleanBad "cl-syntax" = true := by
  refine ⟨?_, ?_, ?_⟩ <;> decide
example : cleanRequest wWsColon = false := by decide

/-! ### segmentation independence (all inputs) -/

/-- **segmentation independence**: `parseOneS segs` reads one request — request line, header block with
    continuation handling and look-ahead, framing decision, Content-Length or chunked body, trailer — from a
    connection whose reads return the pieces `segs` one after the other (cut after a header line, inside a line,
    between CR and LF, inside a chunk-size line / chunk data / the trailer, byte by byte, with empty pieces: any
    list).  The request, the body bytes and the unread rest are exactly those of the whole-stream reader on the
    concatenation, so the parse cannot depend on how the client's bytes are segmented. -/
theorem C24_segmentation_independent (segs : List Bytes) : parseOneS segs = parseOne segs.flatten :=
  parseOneS_eq segs

/-- the header part alone, started in any reader state (bytes already buffered + pieces to come) -/
theorem C24_segmentation_independent_head (x : RS) :
    (readRequestHeadS x).map (fun p => (p.1, norm p.2)) = readRequestHead (norm x) :=
  readRequestHeadS_norm x

-- a request cut exactly after a header line, between CR and LF, inside a name, with an empty piece, inside the body
def wSegs : List Bytes := [[80,79,83,84,32,47,97,32,72,84,84,80,47,49,46,49,13,10], [72,111,115,116,58,32,120,13], [10,67,111,110,116,101,110,116,45,76,101], [], [110,103,116,104,58,32,53,13,10], [13,10], [104,101,108], [108,111,71,69,84]]
example : (parseOneS wSegs).map (fun p => (p.1.framing, p.2.1, p.2.2)) =
    some (.length 5, [104, 101, 108, 108, 111], some [71, 69, 84]) := by decide

/-! ### the full statement fails: one witness per smuggling class (model of the code accepts, RFC parser rejects) -/

theorem C24_witness_ws_before_colon :
    codeAccepts wWsColon = true ∧ rfcRejectsWith wWsColon "ws-before-colon" = true := by
  constructor <;> decide
theorem C24_witness_obs_fold :
    codeAccepts wObsFold = true ∧ rfcRejectsWith wObsFold "obs-fold" = true := by
  constructor <;> decide
theorem C24_witness_leading_ws_line :
    codeAccepts wLeadWs = true ∧ rfcRejectsWith wLeadWs "leading-ws-line" = true := by
  constructor <;> decide
theorem C24_witness_bare_lf :
    codeAccepts wBareLF = true ∧ rfcRejectsWith wBareLF "bare-lf" = true := by
  constructor <;> decide
theorem C24_witness_te_identity :
    codeAccepts wTeIdentity = true ∧ rfcRejectsWith wTeIdentity "te-identity" = true := by
  constructor <;> decide
theorem C24_witness_te_second_line :
    codeAccepts wTeSecond = true ∧ rfcRejectsWith wTeSecond "te-second-line" = true := by
  constructor <;> decide
theorem C24_witness_te_non_ascii :
    codeAccepts wTeKelvin = true ∧ rfcRejectsWith wTeKelvin "te-non-ascii" = true := by
  constructor <;> decide
theorem C24_witness_bad_name_byte :
    codeAccepts wBadName = true ∧ rfcRejectsWith wBadName "bad-name-byte" = true := by
  constructor <;> decide

theorem C24_full_fails : ¬ C24_full := by
  intro h
  obtain ⟨q, r, hq⟩ := h wWsColon C24_witness_ws_before_colon.1
  have := C24_witness_ws_before_colon.2
  unfold rfcRejectsWith at this
  rw [hq] at this
  cases this

/-- the smuggling effect of the first witness: bfe frames the request with length 0 (the 5 body bytes start the
    next request), while the field a lenient peer reads says 5. -/
theorem C24_witness_ws_before_colon_framing :
    (readRequestHead wWsColon).map (fun p => p.1.framing) = some (.length 0) := by decide

/-! ### repaired defects: the model of the fixed code rejects the former witnesses -/
theorem C24_fixed_cl_sign : codeAccepts wClPlus = false := by decide
theorem C24_fixed_cl_conflict : codeAccepts wClDup = false := by decide

/-! ### non-vacuity: a clean pipelined stream is accepted identically by both parsers -/
example : (readRequestHead wGood).map (fun p => (p.1.framing, p.2.length)) = some (.length 5, 23) := by decide
example : (match rfcRequest wGood with | .ok (q, r) => (q.body.length, r.length) | .error _ => (0, 0)) = (5, 18) := by
  decide
example : rfcLine [65, 13, 10, 66] = .ok ([65], [66]) := by rfl

end BfeVerif.C24
