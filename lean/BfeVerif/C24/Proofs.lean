import BfeVerif.C24.Model
/-! Lemmas for C24 (core Lean only). -/
namespace BfeVerif.C24
open BfeVerif.C23 (Bytes splitLF)

/-- the strict line splitter accepts only `l CRLF r` with no CR / LF inside `l` -/
theorem rfcLine_shape : ∀ (s l r : Bytes), rfcLine s = .ok (l, r) →
    s = l ++ 13 :: 10 :: r ∧ ∀ b ∈ l, b.toNat ≠ 10 ∧ b.toNat ≠ 13 := by
  intro s
  induction s with
  | nil => intro l r h; simp [rfcLine] at h
  | cons b t ih =>
    intro l r h
    simp only [rfcLine] at h
    by_cases h10 : b.toNat = 10
    · simp [h10] at h
    · simp only [h10, if_false] at h
      by_cases h13 : b.toNat = 13
      · simp only [h13, if_true] at h
        match t, h with
        | c :: r', h =>
          by_cases hc : c.toNat = 10
          · simp only [hc, if_true] at h
            injection h with h; injection h with h1 h2
            subst h1; subst h2
            have e1 : b = 13 := UInt8.toNat_inj.mp (by simpa using h13)
            have e2 : c = 10 := UInt8.toNat_inj.mp (by simpa using hc)
            simp [e1, e2]
          · simp [hc] at h
      · simp only [h13, if_false] at h
        cases hrec : rfcLine t with
        | error e => simp [hrec] at h
        | ok p =>
          obtain ⟨l', r'⟩ := p
          simp only [hrec] at h
          injection h with h; injection h with h1 h2
          subst h1; subst h2
          obtain ⟨hs, hall⟩ := ih l' r' hrec
          refine ⟨by rw [hs]; simp, ?_⟩
          intro y hy
          rcases List.mem_cons.mp hy with rfl | hy
          · exact ⟨h10, h13⟩
          · exact hall y hy

theorem splitLF_append' : ∀ (l : Bytes) (r : Bytes), (∀ b ∈ l, b.toNat ≠ 10) →
    splitLF (l ++ 10 :: r) = some (l, r) := by
  intro l
  induction l with
  | nil => intro r _; simp [splitLF]
  | cons b t ih =>
    intro r h
    have hb := h b (by simp)
    simp only [List.cons_append, splitLF, hb, if_false]
    rw [ih r (fun y hy => h y (by simp [hy]))]

theorem dropLastCR_append (l : Bytes) : dropLastCR (l ++ [13]) = l := by
  unfold dropLastCR
  simp

end BfeVerif.C24
