import BfeVerif.C24.Model
import BfeVerif.C23.Proofs
/-! Lemmas for C24 (core Lean only). -/
namespace BfeVerif.C24
open BfeVerif.C23 (Bytes splitLF)

/-- the strict line splitter accepts only `l CRLF r` with no CR / LF inside `l` -/
theorem rfcLine_shape : ∀ (s l r : Bytes), rfcLine s = .ok (l, r) →
    s = l ++ 13 :: 10 :: r ∧ ∀ b ∈ l, b.toNat ≠ 10 ∧ b.toNat ≠ 13 := by
  intro s
  induction s with
  | nil => intro l r h; simp [rfcLine] at h
  | cons b t ih =>
    intro l r h
    simp only [rfcLine] at h
    by_cases h10 : b.toNat = 10
    · simp [h10] at h
    · simp only [h10, if_false] at h
      by_cases h13 : b.toNat = 13
      · simp only [h13, if_true] at h
        match t, h with
        | c :: r', h =>
          by_cases hc : c.toNat = 10
          · simp only [hc, if_true] at h
            injection h with h; injection h with h1 h2
            subst h1; subst h2
            have e1 : b = 13 := UInt8.toNat_inj.mp (by simpa using h13)
            have e2 : c = 10 := UInt8.toNat_inj.mp (by simpa using hc)
            simp [e1, e2]
          · simp [hc] at h
      · simp only [h13, if_false] at h
        cases hrec : rfcLine t with
        | error e => simp [hrec] at h
        | ok p =>
          obtain ⟨l', r'⟩ := p
          simp only [hrec] at h
          injection h with h; injection h with h1 h2
          subst h1; subst h2
          obtain ⟨hs, hall⟩ := ih l' r' hrec
          refine ⟨by rw [hs]; simp, ?_⟩
          intro y hy
          rcases List.mem_cons.mp hy with rfl | hy
          · exact ⟨h10, h13⟩
          · exact hall y hy

theorem splitLF_append' : ∀ (l : Bytes) (r : Bytes), (∀ b ∈ l, b.toNat ≠ 10) →
    splitLF (l ++ 10 :: r) = some (l, r) := by
  intro l
  induction l with
  | nil => intro r _; simp [splitLF]
  | cons b t ih =>
    intro r h
    have hb := h b (by simp)
    simp only [List.cons_append, splitLF, hb, if_false]
    rw [ih r (fun y hy => h y (by simp [hy]))]

theorem dropLastCR_append (l : Bytes) : dropLastCR (l ++ [13]) = l := by
  unfold dropLastCR
  simp

/-! ### bytes -/

theorem byte_all (P : UInt8 → Prop) (h : ∀ n, n < 256 → P (UInt8.ofNat n)) (b : UInt8) : P b := by
  have := h b.toNat (UInt8.toNat_lt b)
  simpa using this

theorem eq_of_toNat (b : UInt8) (n : Nat) (hn : n < 256) (h : b.toNat = n) : b = UInt8.ofNat n := by
  apply UInt8.toNat_inj.mp
  rw [h]; simp; omega

/-! ### trimming -/

def ltrim (l : Bytes) : Bytes := l.dropWhile isSPHT
def rtrim (l : Bytes) : Bytes := (l.reverse.dropWhile isSPHT).reverse

theorem trim_eq (l : Bytes) : trim l = rtrim (ltrim l) := rfl

theorem dropWhile_append_cons_not {α} (p : α → Bool) (u : List α) (x : α) (w : List α) (hx : p x = false) :
    (u ++ x :: w).dropWhile p = u.dropWhile p ++ x :: w := by
  induction u with
  | nil => simp [hx]
  | cons y t ih =>
    by_cases hy : p y = true
    · simp only [List.cons_append, List.dropWhile_cons, hy, if_true]; exact ih
    · simp [hy]

theorem dropWhile_append_single {α} (p : α → Bool) (u : List α) (b : α) :
    (u ++ [b]).dropWhile p =
      if u.dropWhile p = [] then (if p b = true then [] else [b]) else u.dropWhile p ++ [b] := by
  induction u with
  | nil => simp [List.dropWhile_cons]
  | cons y t ih =>
    by_cases hy : p y = true
    · simp only [List.cons_append, List.dropWhile_cons, hy, if_true]; exact ih
    · simp [hy]

theorem dropWhile_idem {α} (p : α → Bool) (l : List α) : (l.dropWhile p).dropWhile p = l.dropWhile p := by
  induction l with
  | nil => rfl
  | cons y t ih =>
    by_cases hy : p y = true
    · simp only [List.dropWhile_cons, hy, if_true]; exact ih
    · simp [hy]

theorem rtrim_append_cons (a : Bytes) (x : UInt8) (v : Bytes) (hx : isSPHT x = false) :
    rtrim (a ++ x :: v) = a ++ x :: rtrim v := by
  unfold rtrim
  have : (a ++ x :: v).reverse = v.reverse ++ x :: a.reverse := by simp
  rw [this, dropWhile_append_cons_not _ _ _ _ hx]
  simp

theorem rtrim_cons (b : UInt8) (w : Bytes) :
    rtrim (b :: w) = if rtrim w = [] ∧ isSPHT b = true then [] else b :: rtrim w := by
  unfold rtrim
  rw [List.reverse_cons, dropWhile_append_single]
  by_cases hd : List.dropWhile isSPHT w.reverse = []
  · by_cases hb : isSPHT b = true <;> simp [hd, hb]
  · simp [hd]

theorem ltrim_rtrim_comm (v : Bytes) : ltrim (rtrim v) = rtrim (ltrim v) := by
  induction v with
  | nil => rfl
  | cons b v' ih =>
    rw [rtrim_cons]
    by_cases hb : isSPHT b = true
    · have hl : ltrim (b :: v') = ltrim v' := by simp [ltrim, hb]
      rw [hl, ← ih]
      by_cases hr : rtrim v' = []
      · simp [hr, hb, ltrim]
      · simp [hr, ltrim, hb]
    · have hl : ltrim (b :: v') = b :: v' := by simp [ltrim, hb]
      rw [hl, rtrim_cons]
      simp [hb, ltrim]

theorem rtrim_idem (v : Bytes) : rtrim (rtrim v) = rtrim v := by
  unfold rtrim
  rw [List.reverse_reverse, dropWhile_idem]

theorem trim_idem (v : Bytes) : trim (trim v) = trim v := by
  rw [trim_eq, trim_eq, ltrim_rtrim_comm]
  have : ltrim (ltrim v) = ltrim v := dropWhile_idem _ _
  rw [this, rtrim_idem]

/-- the value as bfe computes it (trailing blanks went with the whole line, then leading blanks) is the
    RFC field value (OWS removed on both sides) -/
theorem value_agree (v : Bytes) : (rtrim v).dropWhile isSPHT = trim v := by
  rw [trim_eq, ← ltrim_rtrim_comm]; rfl

/-! ### splitAt1 -/

theorem splitAt1_spec (c : Nat) : ∀ (l a b : Bytes), splitAt1 c l = some (a, b) →
    ∃ x, x.toNat = c ∧ l = a ++ x :: b ∧ ∀ y ∈ a, y.toNat ≠ c := by
  intro l
  induction l with
  | nil => intro a b h; simp [splitAt1] at h
  | cons y t ih =>
    intro a b h
    simp only [splitAt1] at h
    by_cases hy : y.toNat = c
    · simp only [hy, if_true] at h
      injection h with h; injection h with h1 h2
      subst h1; subst h2
      exact ⟨y, hy, by simp, by simp⟩
    · simp only [hy, if_false] at h
      cases hs : splitAt1 c t with
      | none => simp [hs] at h
      | some q =>
        obtain ⟨a', b'⟩ := q
        simp only [hs] at h
        injection h with h; injection h with h1 h2
        subst h1; subst h2
        obtain ⟨x, hx, hl, hall⟩ := ih a' b' hs
        refine ⟨x, hx, by rw [hl]; simp, ?_⟩
        intro z hz
        rcases List.mem_cons.mp hz with rfl | hz
        · exact hy
        · exact hall z hz

theorem splitAt1_append (c : Nat) : ∀ (a : Bytes) (x : UInt8) (b : Bytes), x.toNat = c →
    (∀ y ∈ a, y.toNat ≠ c) → splitAt1 c (a ++ x :: b) = some (a, b) := by
  intro a
  induction a with
  | nil => intro x b hx _; simp [splitAt1, hx]
  | cons y t ih =>
    intro x b hx h
    have hy := h y (by simp)
    simp only [List.cons_append, splitAt1, hy, if_false]
    rw [ih x b hx (fun z hz => h z (by simp [hz]))]

/-! ### header block: RFC-syntactic fields are read identically by bfe's reader -/

theorem readLine_of_rfcLine (s l r : Bytes) (h : rfcLine s = .ok (l, r)) : readLine s = some (l, r) := by
  obtain ⟨hs, hall⟩ := rfcLine_shape s l r h
  have hsp : C23.splitLF s = some (l ++ [13], r) := by
    have : s = (l ++ [13]) ++ 10 :: r := by rw [hs]; simp
    rw [this]
    apply splitLF_append'
    intro b hb
    rcases List.mem_append.mp hb with hb | hb
    · exact (hall b hb).1
    · have : b = 13 := by simpa using hb
      subst this; decide
  unfold readLine
  cases s with
  | nil => simp at hs
  | cons a t => simp only [hsp, dropLastCR_append]

theorem tchar_not_spht (b : UInt8) : C23.isTchar b = true → isSPHT b = false := by
  revert b; apply byte_all; decide +kernel

theorem tchar_token (b : UInt8) : C23.isTchar b = true → isTokenByte b = true := by
  revert b; apply byte_all; decide +kernel

theorem canonLoop_length : ∀ (k : Bytes) (u : Bool), (canonLoop k u).length = k.length := by
  intro k
  induction k with
  | nil => intro u; rfl
  | cons c t ih => intro u; simp [canonLoop, ih]

theorem canonKey_of_tchar (k : Bytes) (h : k.all C23.isTchar = true) : canonKey k = canonLoop k true := by
  unfold canonKey
  have : k.all isTokenByte = true := by
    rw [List.all_eq_true] at h ⊢
    exact fun b hb => tchar_token b (h b hb)
  simp [this]

theorem contLoop_stop (n : Nat) (acc r : Bytes) (h : (r.head?.map isSPHT).getD false = false) :
    contLoop (n + 1) acc r = (acc, r) := by
  cases r with
  | nil => rfl
  | cons b t =>
    have : isSPHT b = false := by simpa using h
    simp [contLoop, this]

def canonF (p : Bytes × Bytes) : Field := ⟨canonKey p.1, p.2⟩
def lowerF (p : Bytes × Bytes) : Field := ⟨asciiLower p.1, p.2⟩

theorem fields_agree : ∀ (f : Nat) (first : Bool) (s : Bytes) (fs : List Field) (r' : Bytes),
    rfcFields f first s = .ok (fs, r') →
    ∃ raw : List (Bytes × Bytes), fs = raw.map lowerF ∧
      (∀ p ∈ raw, p.1.length ≠ 0 ∧ p.1.all C23.isTchar = true ∧ trim p.2 = p.2) ∧
      ∀ f2, s.length < f2 → readHeader f2 s = some (raw.map canonF, r') := by
  intro f
  induction f with
  | zero => intro first s fs r' h; simp [rfcFields] at h
  | succ f ih =>
    intro first s fs r' h
    rw [rfcFields] at h
    by_cases h0 : (s.head?.map isSPHT).getD false = true
    · simp [h0] at h
    · simp only [h0] at h
      cases hl : rfcLine s with
      | error e => simp [hl] at h
      | ok q =>
        obtain ⟨line, r⟩ := q
        simp only [hl] at h
        have hrl := readLine_of_rfcLine s line r hl
        obtain ⟨hshape, _⟩ := rfcLine_shape s line r hl
        cases line with
        | nil =>
          simp only [] at h
          injection h with h; injection h with h1 h2
          subst h1; subst h2
          refine ⟨[], rfl, by simp, ?_⟩
          intro f2 hf2
          cases f2 with
          | zero => omega
          | succ g => simp [readHeader, readContinued, hrl]
        | cons b0 l0 =>
          simp only [] at h
          by_cases h1 : (r.head?.map isSPHT).getD false = true
          · simp [h1] at h
          · simp only [h1] at h
            cases hsp : splitAt1 58 (b0 :: l0) with
            | none => simp [hsp] at h
            | some kv =>
              obtain ⟨k, v⟩ := kv
              simp only [hsp] at h
              by_cases hk0 : k.length = 0
              · simp [hk0] at h
              · simp only [hk0, if_false] at h
                by_cases hkl : (k.getLast?.map isSPHT).getD false = true
                · simp [hkl] at h
                · simp only [hkl] at h
                  by_cases hkt : k.all C23.isTchar = true
                  · simp only [hkt, not_true_eq_false, if_false] at h
                    by_cases hvv : v.all isFieldVchar = true
                    · simp only [hvv, not_true_eq_false, if_false] at h
                      cases hrec : rfcFields f false r with
                      | error e => simp [hrec] at h
                      | ok q2 =>
                        obtain ⟨fs0, r0⟩ := q2
                        simp only [hrec] at h
                        injection h with h; injection h with h2 h3
                        subst h2; subst h3
                        obtain ⟨raw0, hfs0, hraw0, hread0⟩ := ih false r fs0 r0 hrec
                        refine ⟨(k, trim v) :: raw0, by simp [lowerF, hfs0], ?_, ?_⟩
                        · intro p hp
                          rcases List.mem_cons.mp hp with rfl | hp
                          · exact ⟨hk0, hkt, trim_idem v⟩
                          · exact hraw0 p hp
                        · intro f2 hf2
                          cases f2 with
                          | zero => omega
                          | succ g =>
                            obtain ⟨x, hx, hline, hnoc⟩ := splitAt1_spec 58 _ _ _ hsp
                            have hx58 : isSPHT x = false := by
                              unfold isSPHT; simp [hx]
                            -- trim of the whole line
                            have hk : ∃ k0 k', k = k0 :: k' := by
                              cases k with
                              | nil => simp at hk0
                              | cons k0 k' => exact ⟨k0, k', rfl⟩
                            obtain ⟨k0, k', hkk⟩ := hk
                            have hk0t : isSPHT k0 = false := by
                              apply tchar_not_spht
                              rw [List.all_eq_true] at hkt
                              exact hkt k0 (by rw [hkk]; simp)
                            have htrim : trim (b0 :: l0) = k ++ x :: rtrim v := by
                              rw [hline, trim_eq]
                              have : ltrim (k ++ x :: v) = k ++ x :: v := by
                                rw [hkk]; simp [ltrim, hk0t]
                              rw [this, rtrim_append_cons _ _ _ hx58]
                            have hlen : r.length < g := by
                              have := congrArg List.length hshape
                              simp at this; omega
                            have hcont : readContinued s = some (k ++ x :: rtrim v, r) := by
                              simp only [readContinued, hrl]
                              have : ¬ ((b0 :: l0).length = 0) := by simp
                              simp only [this, if_false]
                              rw [contLoop_stop _ _ _ (by simpa using h1), htrim]
                            have hkey : (canonKey k).length ≠ 0 := by
                              rw [canonKey_of_tchar k hkt, canonLoop_length]; exact hk0
                            rw [readHeader]
                            simp only [hcont]
                            have hne : ¬ ((k ++ x :: rtrim v).length = 0) := by simp
                            simp only [hne, if_false, splitAt1_append 58 k x (rtrim v) hx hnoc,
                              hread0 g hlen, hkey, value_agree]
                            simp [canonF]
                    · simp [hvv] at h
                  · simp [hkt] at h

/-! ### field names: canonical form vs lower case -/

theorem lower_canonByte (u : Bool) (c : UInt8) : lowerByte (canonByte u c) = lowerByte c := by
  revert c; apply byte_all; cases u <;> decide +kernel

theorem canonByte_lower (u : Bool) (c : UInt8) : canonByte u (lowerByte c) = canonByte u c := by
  revert c; apply byte_all; cases u <;> decide +kernel

theorem asciiLower_canonLoop : ∀ (k : Bytes) (u : Bool), asciiLower (canonLoop k u) = asciiLower k := by
  intro k
  induction k with
  | nil => intro u; rfl
  | cons c t ih =>
    intro u
    simp only [canonLoop, asciiLower, List.map_cons, lower_canonByte]
    congr 1
    exact ih _

theorem canonLoop_asciiLower : ∀ (k : Bytes) (u : Bool), canonLoop (asciiLower k) u = canonLoop k u := by
  intro k
  induction k with
  | nil => intro u; rfl
  | cons c t ih =>
    intro u
    simp only [asciiLower, List.map_cons, canonLoop, canonByte_lower]
    congr 1
    exact ih _

theorem asciiLower_canonKey (k : Bytes) (h : k.all C23.isTchar = true) :
    asciiLower (canonKey k) = asciiLower k := by
  rw [canonKey_of_tchar k h, asciiLower_canonLoop]

theorem name_iff (k K : Bytes) (h : k.all C23.isTchar = true) (hK : canonLoop (asciiLower K) true = K) :
    canonKey k = K ↔ asciiLower k = asciiLower K := by
  constructor
  · intro e; rw [← e, asciiLower_canonKey k h]
  · intro e; rw [canonKey_of_tchar k h, ← canonLoop_asciiLower, e, hK]

theorem hK_TE : canonLoop (asciiLower sTE) true = sTE := by decide +kernel
theorem hK_CL : canonLoop (asciiLower sCL) true = sCL := by decide +kernel

theorem valuesOf_agree (K : Bytes) (hK : canonLoop (asciiLower K) true = K) :
    ∀ raw : List (Bytes × Bytes), (∀ p ∈ raw, p.1.all C23.isTchar = true) →
    valuesOf (raw.map canonF) K = valuesOf (raw.map lowerF) (asciiLower K) := by
  intro raw
  induction raw with
  | nil => intro _; rfl
  | cons p t ih =>
    intro h
    have hp := h p (by simp)
    have iht := ih (fun q hq => h q (by simp [hq]))
    unfold valuesOf at iht ⊢
    simp only [List.map_cons, List.filter_cons, canonF, lowerF]
    by_cases e : canonKey p.1 = K
    · have e2 := (name_iff p.1 K hp hK).mp e
      simp only [e, e2, decide_true, if_true, List.map_cons]
      rw [iht]
    · have e2 : ¬ asciiLower p.1 = asciiLower K := fun x => e ((name_iff p.1 K hp hK).mpr x)
      simp only [e, e2, decide_false, Bool.false_eq_true, if_false]
      exact iht

/-! ### Go's TrimSpace / ToLower on plain ASCII values -/

theorem plain_space (b : UInt8) : isPlainByte b = true → isAsciiSpace b = isSPHT b := by
  revert b; apply byte_all; decide +kernel

theorem plain_lt (b : UInt8) : isPlainByte b = true → b.toNat < 128 := by
  revert b; apply byte_all; decide +kernel

theorem mem_dropWhile {α} (p : α → Bool) : ∀ (l : List α) (x : α), x ∈ l.dropWhile p → x ∈ l := by
  intro l
  induction l with
  | nil => intro x h; simpa using h
  | cons y t ih =>
    intro x h
    simp only [List.dropWhile_cons] at h
    by_cases hy : p y = true
    · simp only [hy, if_true] at h; exact List.mem_cons_of_mem _ (ih x h)
    · simp only [hy] at h; exact h

theorem uni_heads : uniSpaces.all (fun u => match u.head? with | some x => decide (x.toNat ≥ 128) | none => false) = true := by
  decide +kernel
theorem uni_lasts : uniSpaces.all (fun u => match u.reverse.head? with | some x => decide (x.toNat ≥ 128) | none => false) = true := by
  decide +kernel

theorem isPrefixOf_head (u : Bytes) (b : UInt8) (t : Bytes) (h : u.isPrefixOf (b :: t) = true) :
    u = [] ∨ u.head? = some b := by
  cases u with
  | nil => left; rfl
  | cons u0 u' =>
    right
    simp only [List.isPrefixOf, Bool.and_eq_true, beq_iff_eq] at h
    simp [h.1]

theorem find_left_none (b : UInt8) (t : Bytes) (hb : b.toNat < 128) :
    uniSpaces.find? (fun u => u.isPrefixOf (b :: t)) = none := by
  rw [List.find?_eq_none]
  intro u hu hp
  have hh := (List.all_eq_true.mp uni_heads) u hu
  rcases isPrefixOf_head u b t (by simpa using hp) with e | e
  · subst e; simp at hh
  · rw [e] at hh; simp at hh; omega

theorem find_right_none (b : UInt8) (t : Bytes) (hb : b.toNat < 128) :
    uniSpaces.find? (fun u => u.reverse.isPrefixOf (b :: t)) = none := by
  rw [List.find?_eq_none]
  intro u hu hp
  have hh := (List.all_eq_true.mp uni_lasts) u hu
  rcases isPrefixOf_head u.reverse b t (by simpa using hp) with e | e
  · rw [e] at hh; simp at hh
  · rw [e] at hh; simp at hh; omega

theorem trimLeftGo_plain : ∀ (f : Nat) (s : Bytes), s.all isPlainByte = true → s.length < f →
    trimLeftGo f s = s.dropWhile isSPHT := by
  intro f
  induction f with
  | zero => intro s _ h; omega
  | succ f ih =>
    intro s hs hf
    cases s with
    | nil => rfl
    | cons b t =>
      have hb : isPlainByte b = true := (List.all_eq_true.mp hs) b (by simp)
      have ht : t.all isPlainByte = true := by
        rw [List.all_eq_true] at hs ⊢; exact fun x hx => hs x (by simp [hx])
      simp only [trimLeftGo, plain_space b hb, List.dropWhile_cons]
      by_cases hsp : isSPHT b = true
      · simp only [hsp, if_true]
        exact ih t ht (by simp at hf; omega)
      · simp only [hsp, Bool.false_eq_true, if_false, find_left_none b t (plain_lt b hb)]

theorem trimRightGo_plain : ∀ (f : Nat) (s : Bytes), s.all isPlainByte = true → s.length < f →
    trimRightGo f s = s.dropWhile isSPHT := by
  intro f
  induction f with
  | zero => intro s _ h; omega
  | succ f ih =>
    intro s hs hf
    cases s with
    | nil => rfl
    | cons b t =>
      have hb : isPlainByte b = true := (List.all_eq_true.mp hs) b (by simp)
      have ht : t.all isPlainByte = true := by
        rw [List.all_eq_true] at hs ⊢; exact fun x hx => hs x (by simp [hx])
      simp only [trimRightGo, plain_space b hb, List.dropWhile_cons]
      by_cases hsp : isSPHT b = true
      · simp only [hsp, if_true]
        exact ih t ht (by simp at hf; omega)
      · simp only [hsp, Bool.false_eq_true, if_false, find_right_none b t (plain_lt b hb)]

theorem goTrimSpace_plain (s : Bytes) (hs : s.all isPlainByte = true) : goTrimSpace s = trim s := by
  unfold goTrimSpace
  simp only []
  rw [trimLeftGo_plain _ s hs (by omega)]
  have h2 : (s.dropWhile isSPHT).reverse.all isPlainByte = true := by
    rw [List.all_eq_true] at hs ⊢
    intro x hx
    exact hs x (mem_dropWhile _ _ _ (by simpa using hx))
  rw [trimRightGo_plain _ _ h2 (by simp)]
  rfl

theorem goToLower_plain : ∀ s : Bytes, s.all isPlainByte = true → goToLower s = asciiLower s := by
  intro s
  induction s with
  | nil => intro _; rfl
  | cons b t ih =>
    intro hs
    have hb : isPlainByte b = true := (List.all_eq_true.mp hs) b (by simp)
    have ht : t.all isPlainByte = true := by
      rw [List.all_eq_true] at hs ⊢; exact fun x hx => hs x (by simp [hx])
    have hlt := plain_lt b hb
    have h1 : b ≠ 0xE2 := by intro e; subst e; revert hlt; decide
    have h2 : b ≠ 0xC4 := by intro e; subst e; revert hlt; decide
    rw [goToLower]
    · simp only [asciiLower, List.map_cons, lowerByte]
      rw [ih ht]; rfl
    · intro t' e _; exact h1 e
    · intro t' e _; exact h2 e

/-! ### framing decision -/

theorem mem_valuesOf_lower : ∀ (raw : List (Bytes × Bytes)) (N v : Bytes),
    v ∈ valuesOf (raw.map lowerF) N → ∃ p ∈ raw, p.2 = v := by
  intro raw N v h
  unfold valuesOf at h
  simp only [List.mem_map, List.mem_filter] at h
  obtain ⟨f, ⟨⟨p, hp, hpf⟩, _⟩, hv⟩ := h
  exact ⟨p, hp, by rw [← hv, ← hpf]; rfl⟩

theorem splitComma_ne_nil : ∀ v : Bytes, splitComma v ≠ [] := by
  intro v
  induction v with
  | nil => simp [splitComma]
  | cons b t ih =>
    rw [splitComma]
    cases h : splitComma t with
    | nil => simp
    | cons a r => by_cases hb : b.toNat = 44 <;> simp [hb]

theorem splitComma_mem : ∀ (v e : Bytes), e ∈ splitComma v → ∀ x ∈ e, x ∈ v := by
  intro v
  induction v with
  | nil => intro e he x hx; simp [splitComma] at he; subst he; simp at hx
  | cons b t ih =>
    intro e he x hx
    rw [splitComma] at he
    cases h : splitComma t with
    | nil => exact absurd h (splitComma_ne_nil t)
    | cons a r =>
      simp only [h] at he
      by_cases hb : b.toNat = 44
      · simp only [hb, if_true] at he
        rcases List.mem_cons.mp he with rfl | he
        · simp at hx
        · exact List.mem_cons_of_mem _ (ih e (by rw [h]; exact he) x hx)
      · simp only [hb, if_false] at he
        rcases List.mem_cons.mp he with rfl | he
        · rcases List.mem_cons.mp hx with rfl | hx
          · simp
          · exact List.mem_cons_of_mem _ (ih a (by rw [h]; simp) x hx)
        · exact List.mem_cons_of_mem _ (ih e (by rw [h]; simp [he]) x hx)

theorem trim_plain (e : Bytes) (h : e.all isPlainByte = true) : (trim e).all isPlainByte = true := by
  rw [List.all_eq_true] at h ⊢
  intro x hx
  unfold trim at hx
  have : x ∈ (e.dropWhile isSPHT).reverse := mem_dropWhile _ _ _ (by simpa using hx)
  exact h x (mem_dropWhile _ _ _ (by simpa using this))

def gcode (e : Bytes) : Bytes := asciiLower (trim e)

theorem go_norm (e : Bytes) (h : e.all isPlainByte = true) : goToLower (goTrimSpace e) = gcode e := by
  rw [goTrimSpace_plain e h, goToLower_plain _ (trim_plain e h)]; rfl

theorem teLoop_plain : ∀ (es : List Bytes) (n : Nat),
    (∀ e ∈ es, e.all isPlainByte = true ∧ gcode e ≠ sIdentity) →
    teLoop es n = if es.all (fun e => decide (gcode e = sChunked)) = true then some (n + es.length) else none := by
  intro es
  induction es with
  | nil => intro n _; simp [teLoop]
  | cons e t ih =>
    intro n h
    obtain ⟨hp, hid⟩ := h e (by simp)
    rw [teLoop]
    simp only [go_norm e hp, hid, if_false]
    by_cases hc : gcode e = sChunked
    · simp only [hc, ne_eq, not_true_eq_false, if_false, List.all_cons, decide_true, Bool.true_and]
      rw [ih (n + 1) (fun x hx => h x (by simp [hx]))]
      simp only [List.length_cons]
      split <;> simp <;> omega
    · simp [hc]

theorem parseUint63_some (s : Bytes) (n : Nat) (h : parseUint63 s = some n) :
    s.length ≠ 0 ∧ s.all isDigit = true ∧ n = decNat s ∧ n < 2 ^ 63 := by
  unfold parseUint63 at h
  split at h
  · cases h
  · rename_i hc
    split at h
    · injection h with h
      subst h
      refine ⟨fun h0 => hc (Or.inl h0), ?_, rfl, by assumption⟩
      cases ha : s.all isDigit with
      | true => rfl
      | false => exact absurd (Or.inr (by simp [ha])) hc
    · cases h

theorem digit_facts (b : UInt8) : isDigit b = true → b.toNat < 128 ∧ b ≠ 43 ∧ b ≠ 45 := by
  revert b; apply byte_all; decide +kernel

theorem goTrimSpace_nil : goTrimSpace [] = [] := by decide +kernel

theorem framing_agree (raw : List (Bytes × Bytes))
    (hraw : ∀ p ∈ raw, p.1.length ≠ 0 ∧ p.1.all C23.isTchar = true ∧ trim p.2 = p.2)
    (hclean : cleanFields (raw.map lowerF) = true) (fr : Framing)
    (h : framing (raw.map canonF) = some fr) : rfcFraming 1 (raw.map lowerF) = .ok fr := by
  have hTE : valuesOf (raw.map canonF) sTE = valuesOf (raw.map lowerF) lTE :=
    valuesOf_agree sTE hK_TE raw (fun p hp => (hraw p hp).2.1)
  have hCL : valuesOf (raw.map canonF) sCL = valuesOf (raw.map lowerF) lCL :=
    valuesOf_agree sCL hK_CL raw (fun p hp => (hraw p hp).2.1)
  unfold cleanFields at hclean
  simp only [Bool.and_eq_true, decide_eq_true_eq, List.all_eq_true] at hclean
  obtain ⟨⟨⟨hte1, hcl1⟩, hteP⟩, hclP⟩ := hclean
  have htrimmed : ∀ N v, v ∈ valuesOf (raw.map lowerF) N → trim v = v := by
    intro N v hv
    obtain ⟨p, hp, e⟩ := mem_valuesOf_lower raw N v hv
    rw [← e]; exact (hraw p hp).2.2
  unfold framing fixTE at h
  rw [hTE] at h
  unfold rfcFraming
  simp only []
  cases htes : valuesOf (raw.map lowerF) lTE with
  | nil =>
    rw [htes] at h
    simp only [] at h
    -- Content-Length path
    unfold fixLen at h
    rw [hCL] at h
    cases hcls : valuesOf (raw.map lowerF) lCL with
    | nil =>
      rw [hcls] at h
      simp only [List.head?_nil, Option.getD_none, goTrimSpace_nil, List.length_nil] at h
      simp only [not_true_eq_false, if_false, if_true] at h
      split at h
      · injection h with h; subst h; rfl
      · cases h
    | cons c rest =>
      rw [hcls] at hcl1 hclP h
      have hrest : rest = [] := by
        cases rest with
        | nil => rfl
        | cons _ _ => simp at hcl1
      subst hrest
      obtain ⟨hcp, hcne⟩ := hclP c (by simp)
      have hct : trim c = c := htrimmed lCL c (by rw [hcls]; simp)
      have hg : goTrimSpace c = c := by rw [goTrimSpace_plain c (List.all_eq_true.mpr hcp), hct]
      simp only [List.all_nil, List.head?_cons, Option.getD_some, hg] at h
      simp only [not_true_eq_false, if_false, hcne] at h
      cases hpu : parseUint63 c with
      | none => simp [hpu] at h
      | some n =>
        simp only [hpu] at h
        obtain ⟨_, hdig, hn, hlt⟩ := parseUint63_some c n hpu
        have hfr : fr = .length n := by
          split at h
          · injection h with h; exact h.symm
          · cases h
        subst hfr
        have hd := List.all_eq_true.mp hdig
        have hhead : ∃ c0 c', c = c0 :: c' := by
          cases c with
          | nil => simp at hcne
          | cons c0 c' => exact ⟨c0, c', rfl⟩
        obtain ⟨c0, c', hcc⟩ := hhead
        have hc0 := digit_facts c0 (hd c0 (by rw [hcc]; simp))
        have e1 : ([c].any fun c => c.any fun b => decide (b.toNat ≥ 128)) = false := by
          simp only [List.any_cons, List.any_nil, Bool.or_false]
          rw [List.any_eq_false]
          intro b hb
          have := (digit_facts b (hd b hb)).1
          simp; omega
        have e2 : ([c].any fun c => decide (c.head? = some 43 ∨ c.head? = some 45)) = false := by
          simp [hcc, hc0.2.1, hc0.2.2]
        have e3 : ([c].any fun c => decide (c.length = 0)) = false := by
          simp only [List.any_cons, List.any_nil, Bool.or_false, decide_eq_false_iff_not]; exact hcne
        have e4 : ([c].any fun c => decide (¬ c.all isDigit = true)) = false := by
          simp only [List.any_cons, List.any_nil, Bool.or_false, hdig]; simp
        have e5 : ¬ (decNat c ≥ 2 ^ 63) := by omega
        simp only [e1, e2, e3, e4, e5, List.any_nil, Bool.false_eq_true, if_false]
        rw [hn]; rfl
  | cons t0 more =>
    rw [htes] at hte1 hteP h
    have hmore : more = [] := by
      cases more with
      | nil => rfl
      | cons _ _ => simp at hte1
    subst hmore
    obtain ⟨htp, hni⟩ := hteP t0 (by simp)
    simp only [] at h
    have hes : ∀ e ∈ splitComma t0, e.all isPlainByte = true ∧ gcode e ≠ sIdentity := by
      intro e he
      refine ⟨?_, ?_⟩
      · rw [List.all_eq_true]
        exact fun x hx => htp x (splitComma_mem t0 e he x hx)
      · unfold noIdentity at hni
        rw [List.all_eq_true] at hni
        have := hni e he
        simpa [gcode] using this
    rw [teLoop_plain _ 0 hes] at h
    by_cases hall : (splitComma t0).all (fun e => decide (gcode e = sChunked)) = true
    · simp only [hall, if_true, Nat.zero_add] at h
      by_cases hlen : (splitComma t0).length > 1
      · simp [hlen] at h
      · simp only [hlen, if_false] at h
        have hone : ∃ e, splitComma t0 = [e] := by
          cases hs : splitComma t0 with
          | nil => exact absurd hs (splitComma_ne_nil t0)
          | cons e r =>
            cases r with
            | nil => exact ⟨e, rfl⟩
            | cons _ _ => rw [hs] at hlen; simp at hlen
        obtain ⟨e, he⟩ := hone
        rw [he] at hall h
        have hce : gcode e = sChunked := by simpa using hall
        have hfr : fr = .chunked := by
          simp at h
          exact h.2.symm
        subst hfr
        have hcod : (([t0].map splitComma).flatten.map fun e => asciiLower (trim e)).filter
            (fun e => decide (e.length > 0)) = [sChunked] := by
          simp only [List.map_cons, List.map_nil, List.flatten_cons, List.flatten_nil, List.append_nil, he]
          have : asciiLower (trim e) = sChunked := hce
          rw [this]; decide
        simp only [hcod, if_true]
        rfl
    · simp [hall] at h

/-! ### chunked body: with strict size lines the reader's result is the strict RFC decoder's result -/

theorem ws_is_cr (ws r : Bytes) (a b : UInt8) (r2 : Bytes) (hws : ∀ x ∈ ws, C23.isBlankCR x = true)
    (h : ws ++ 10 :: r = a :: b :: r2) (ha : a.toNat = 13) (hb : b.toNat = 10) : ws = [a] ∧ r2 = r := by
  cases ws with
  | nil =>
    simp at h
    have : a.toNat = 10 := by rw [← h.1]; rfl
    omega
  | cons w ws' =>
    simp only [List.cons_append, List.cons.injEq] at h
    obtain ⟨hw, h2⟩ := h
    cases ws' with
    | nil =>
      simp at h2
      exact ⟨by rw [hw], h2.2.symm⟩
    | cons w2 ws'' =>
      simp only [List.cons_append, List.cons.injEq] at h2
      have hw2 := hws w2 (by simp)
      rw [h2.1] at hw2
      unfold C23.isBlankCR at hw2
      simp at hw2; omega

theorem chunked_strict : ∀ (f : Nat) (s : Bytes), (C23.decodeAux f s).err = .eof →
    ∀ f3 r2, strictChunks f3 s = some r2 →
    ∀ f2, s.length < f2 →
      C23.rfcAux false f2 s = .ok (C23.decodeAux f s).body (C23.decodeAux f s).rest ∧
      r2 = (C23.decodeAux f s).rest := by
  intro f
  induction f with
  | zero => intro s h; simp [C23.decodeAux] at h
  | succ f ih =>
    intro s h f3 r2 hst f2 hf2
    cases f2 with
    | zero => omega
    | succ g =>
      cases f3 with
      | zero => simp [strictChunks] at hst
      | succ g3 =>
      simp only [C23.decodeAux] at h ⊢
      cases hrl : C23.readLine s with
      | error e =>
        simp only [hrl] at h
        exact absurd h (C23.readLine_err_ne_eof s e hrl)
      | ok p =>
        obtain ⟨line, r⟩ := p
        simp only [hrl] at h ⊢
        cases hp : C23.parseHexUint line with
        | error e =>
          simp only [hp] at h
          exact absurd h (C23.parseHexUint_err_ne_eof line e hp)
        | ok n =>
          simp only [hp] at h ⊢
          obtain ⟨ws, hs, hws⟩ := C23.sizeLine_shape s line r n hrl hp
          obtain ⟨h1, h16, hall, hn⟩ := (C23.parseHex_exact line n).mp hp
          obtain ⟨htk, hdr⟩ := C23.take_drop_hex line ws r hall hws
          simp only [← hs] at htk hdr
          have hl0 : ¬ line.length = 0 := by omega
          have hl16 : ¬ line.length > 16 := by omega
          -- the strict walker pins the line end to CRLF
          rw [strictChunks] at hst
          simp only [htk, hdr] at hst
          cases hwr : ws ++ 10 :: r with
          | nil => simp at hwr
          | cons a t =>
            cases t with
            | nil => rw [hwr] at hst; simp at hst
            | cons b r2' =>
              rw [hwr] at hst
              simp only [] at hst
              by_cases hab : a.toNat = 13 ∧ b.toNat = 10
              · simp only [hab, and_self, if_true] at hst
                obtain ⟨hwsa, hr2⟩ := ws_is_cr ws r a b r2' hws hwr hab.1 hab.2
                subst hr2
                have hle : C23.lineEnd false (ws ++ 10 :: r2') = some r2' := by
                  rw [hwsa]
                  have : (10 : UInt8).toNat = 10 := rfl
                  simp [C23.lineEnd, hab.1]
                rw [C23.rfcAux]
                simp only [htk, hdr, hl0, hl16, if_false, List.length_append, List.length_cons,
                  C23.skipExt_noext ws r2' hws, hle, ← hn]
                rw [← hn] at hst
                by_cases hz : n.toNat = 0
                · simp only [hz, if_true] at h hst ⊢
                  injection hst with hst
                  exact ⟨trivial, hst.symm⟩
                · simp only [hz, if_false] at h hst ⊢
                  by_cases hlt : r2'.length < n.toNat
                  · simp only [hlt, if_true] at h; cases h
                  · simp only [hlt, if_false] at h ⊢
                    cases hd : r2'.drop n.toNat with
                    | nil => simp only [hd] at h; cases h
                    | cons a' t' =>
                      cases t' with
                      | nil => simp only [hd] at h; cases h
                      | cons b' r' =>
                        simp only [hd] at h ⊢
                        by_cases hc : a'.toNat = 13 ∧ b'.toNat = 10
                        · simp only [hc, and_self, if_true] at h ⊢
                          have hlen : r'.length + 2 ≤ r2'.length := by
                            have := congrArg List.length hd
                            simp at this; omega
                          have hrlen : r2'.length + 2 ≤ s.length := by rw [hs]; simp; omega
                          have hdrop : r2'.drop (n.toNat + 2) = r' := by
                            rw [← List.drop_drop, hd]; rfl
                          rw [hdrop] at hst
                          obtain ⟨i1, i2⟩ := ih r' h g3 r2 hst g (by omega)
                          rw [i1]
                          exact ⟨rfl, i2⟩
                        · simp only [hc, if_false] at h; cases h
              · simp [hab] at hst

/-! ### assembling the layers -/

theorem safe_vchar (b : UInt8) : isSafeUriByte b = true → (33 ≤ b.toNat ∧ b.toNat ≤ 126) := by
  revert b; apply byte_all; decide +kernel

theorem uri_accept (t : Bytes) (h : uriClass t = .accept) :
    t.length ≠ 0 ∧ t.all (fun b => decide (33 ≤ b.toNat ∧ b.toNat ≤ 126)) = true := by
  unfold uriClass at h
  split at h
  · cases h
  · split at h
    · cases h
    · rename_i hl
      refine ⟨hl, ?_⟩
      split at h
      · rename_i e; subst e; decide
      · split at h
        · rename_i hs
          rw [List.all_eq_true]
          intro b hb
          have := safe_vchar b ((List.all_eq_true.mp hs.2) b hb)
          simpa using this
        · cases h

theorem map_length_ne (x : Except String Nat) : x.map Framing.length ≠ .ok .chunked := by
  cases x <;> simp [Except.map]

theorem rfcFraming_chunked_tes (m : Nat) (fs : List Field) (h : rfcFraming m fs = .ok .chunked) :
    (valuesOf fs lTE).length ≠ 0 := by
  intro h0
  have : valuesOf fs lTE = [] := List.eq_nil_of_length_eq_zero h0
  unfold rfcFraming at h
  simp only [this] at h
  exact absurd h (map_length_ne _)

theorem trailer_agree (r2 : Bytes) (tfs : List Field) (r3 rest : Bytes)
    (hf : rfcFields (r2.length + 1) false r2 = .ok (tfs, r3)) (ht : readTrailer r2 = some rest) : rest = r3 := by
  obtain ⟨raw, _, _, hread⟩ := fields_agree _ _ _ _ _ hf
  have hrh := hread (r2.length + 1) (by omega)
  unfold readTrailer at ht
  split at ht
  · rename_i r''
    injection ht with ht
    -- the RFC field reader on CRLF … returns immediately
    have : rfcFields ((13 :: 10 :: r'' : Bytes).length + 1) false (13 :: 10 :: r'') = .ok ([], r'') := by
      rw [rfcFields]
      have h1 : (13 : UInt8).toNat = 13 := rfl
      have h2 : (10 : UInt8).toNat = 10 := rfl
      simp [rfcLine, isSPHT, h1, h2]
    rw [this] at hf
    injection hf with hf
    injection hf with _ hf
    rw [← ht, hf]
  · split at ht
    · cases ht
    · split at ht
      · cases ht
      · rw [hrh] at ht
        simp at ht
        exact ht.symm

theorem same_boundaries (s : Bytes) (hc : cleanRequest s = true) (q : Req) (r : Bytes)
    (hh : readRequestHead s = some (q, r)) (body rest : Bytes)
    (hb : readBody q.framing r = (body, some rest)) :
    rfcRequest s = .ok (⟨q.method, q.target, q.keys.map asciiLower, body⟩, rest) := by
  unfold cleanRequest at hc
  cases hl : rfcLine s with
  | error e => simp [hl] at hc
  | ok p0 =>
    obtain ⟨line, r0⟩ := p0
    simp only [hl] at hc
    have hrl := readLine_of_rfcLine s line r0 hl
    cases hs1 : splitAt1 32 line with
    | none => simp [hs1] at hc
    | some p1 =>
      obtain ⟨m, rest1⟩ := p1
      simp only [hs1] at hc
      cases hs2 : splitAt1 32 rest1 with
      | none => simp [hs2] at hc
      | some p2 =>
        obtain ⟨t, p⟩ := p2
        simp only [hs2] at hc
        cases hf : rfcFields (r0.length + 1) true r0 with
        | error e => simp [hf] at hc
        | ok p3 =>
          obtain ⟨fs, r'⟩ := p3
          simp only [hf, Bool.and_eq_true, decide_eq_true_eq] at hc
          obtain ⟨⟨⟨hm0, hmt⟩, hp⟩, hcf, hcb⟩ := hc
          subst hp
          obtain ⟨raw, hfs, hraw, hread⟩ := fields_agree _ _ _ _ _ hf
          have hrh := hread (r0.length + 1) (by omega)
          -- the code's path
          unfold readRequestHead at hh
          simp only [hrl, hs1, hs2] at hh
          cases hv : parseVersion sHTTP11 with
          | none => simp [hv] at hh
          | some vv =>
            simp only [hv] at hh
            by_cases hu : uriClass t = .accept
            · simp only [hu, ne_eq, not_true_eq_false, if_false, hrh] at hh
              cases hfr : framing (raw.map canonF) with
              | none => simp [hfr] at hh
              | some fr =>
                simp only [hfr] at hh
                injection hh with hh
                injection hh with hq hr
                subst hq; subst hr
                have hrf : rfcFraming 1 fs = .ok fr := by
                  rw [hfs]; exact framing_agree raw hraw (by rw [← hfs]; exact hcf) fr hfr
                obtain ⟨ht0, htv⟩ := uri_accept t hu
                have hnames : ((raw.map canonF).map (·.name)).map asciiLower = fs.map (·.name) := by
                  rw [hfs]
                  simp only [List.map_map]
                  apply List.map_congr_left
                  intro p hp
                  simp only [Function.comp, canonF, lowerF]
                  exact asciiLower_canonKey p.1 (hraw p hp).2.1
                -- the RFC parser's path
                unfold rfcRequest
                simp only [hl, hs1, hs2]
                have c1 : ¬ (m.length = 0 ∨ ¬ m.all C23.isTchar = true) := by
                  intro h; rcases h with h | h
                  · exact hm0 h
                  · exact h hmt
                have c2 : ¬ (t.length = 0 ∨ ¬ t.all (fun b => decide (33 ≤ b.toNat ∧ b.toNat ≤ 126)) = true) := by
                  intro h; rcases h with h | h
                  · exact ht0 h
                  · exact h htv
                have c3 : ¬ ¬ (sHTTP11.length = 8 ∧ sHTTP11.take 7 = sHTTP ++ [49, 46] ∧
                    (sHTTP11.drop 7).all isDigit = true) := by decide
                have c4 : decNat (sHTTP11.drop 7) = 1 := by decide
                simp only [c1, c2, c3, if_false, c4, hf, hrf]
                cases fr with
                | length n =>
                  simp only [readBody] at hb
                  by_cases hlt : r'.length < n
                  · simp [hlt] at hb
                  · simp only [hlt, if_false] at hb ⊢
                    injection hb with hb1 hb2
                    injection hb2 with hb2
                    rw [← hb1, ← hb2, hnames]
                | chunked =>
                  simp only [readBody] at hb
                  by_cases he : (C23.decode r').err = .eof
                  · simp only [he, if_true] at hb
                    injection hb with hb1 hb2
                    have hte := rfcFraming_chunked_tes 1 fs hrf
                    unfold cleanBody at hcb
                    simp only [hte, decide_false, Bool.false_or] at hcb
                    cases hsc : strictChunks (r'.length + 1) r' with
                    | none => simp [hsc] at hcb
                    | some r2 =>
                      simp only [hsc] at hcb
                      cases htf : rfcFields (r2.length + 1) false r2 with
                      | error e => simp [htf] at hcb
                      | ok p4 =>
                        obtain ⟨tfs, r3⟩ := p4
                        obtain ⟨i1, i2⟩ := chunked_strict (r'.length + 1) r' he _ r2 hsc (r'.length + 1) (by omega)
                        have hd : C23.rfcDechunk false r' = .ok (C23.decode r').body (C23.decode r').rest := i1
                        subst i2
                        have hrest := trailer_agree _ tfs r3 rest htf hb2
                        have htf' : rfcFields ((C23.decode r').rest.length + 1) false (C23.decode r').rest =
                            .ok (tfs, r3) := htf
                        simp only [hd, htf']
                        rw [← hb1, hrest, hnames]
                  · simp [he] at hb
            · simp [hu] at hh

/-! ### segmentation independence -/

def mapN {α} (o : Option (α × RS)) : Option (α × Bytes) := o.map (fun p => (p.1, norm p.2))

theorem readLine_of_split (s l r : Bytes) (h : C23.splitLF s = some (l, r)) :
    readLine s = some (dropLastCR l, r) := by
  unfold readLine
  cases s with
  | nil => simp [C23.splitLF] at h
  | cons a t => simp only [h]

theorem readLineS_norm : ∀ (segs : List Bytes) (buf : Bytes),
    mapN (readLineS buf segs) = readLine (buf ++ segs.flatten) := by
  intro segs
  induction segs with
  | nil =>
    intro buf
    simp only [readLineS, List.flatten_nil, List.append_nil, mapN, Option.map_map]
    cases readLine buf with
    | none => rfl
    | some q => simp [norm]
  | cons g rest ih =>
    intro buf
    simp only [readLineS, List.flatten_cons]
    cases hs : C23.splitLF buf with
    | some q =>
      obtain ⟨l, r⟩ := q
      simp only []
      rw [readLine_of_split _ l _ (C23.splitLF_append_some buf l r _ hs)]
      simp [mapN, norm]
    | none =>
      simp only []
      rw [ih (buf ++ g), List.append_assoc]

theorem headS_norm : ∀ (segs : List Bytes) (buf : Bytes), headS buf segs = (buf ++ segs.flatten).head? := by
  intro segs
  induction segs with
  | nil => intro buf; cases buf <;> simp [headS]
  | cons g rest ih =>
    intro buf
    cases buf with
    | nil => simp only [headS, List.nil_append, List.flatten_cons]; exact ih g
    | cons b t => simp [headS]

theorem dropWhile_nil_all {α} (p : α → Bool) : ∀ l : List α, l.dropWhile p = [] → ∀ x ∈ l, p x = true := by
  intro l
  induction l with
  | nil => intro _ x hx; simp at hx
  | cons y t ih =>
    intro h x hx
    simp only [List.dropWhile_cons] at h
    by_cases hy : p y = true
    · simp only [hy, if_true] at h
      rcases List.mem_cons.mp hx with rfl | hx
      · exact hy
      · exact ih h x hx
    · simp [hy] at h

theorem dropWhile_cons_append {α} (p : α → Bool) : ∀ (l : List α) (b : α) (t y : List α),
    l.dropWhile p = b :: t → (l ++ y).dropWhile p = b :: t ++ y := by
  intro l
  induction l with
  | nil => intro b t y h; simp at h
  | cons z l' ih =>
    intro b t y h
    simp only [List.dropWhile_cons, List.cons_append] at h ⊢
    by_cases hz : p z = true
    · simp only [hz, if_true] at h ⊢; exact ih b t y h
    · simp [hz] at h ⊢
      obtain ⟨h1, h2⟩ := h
      simp [h1, h2]

theorem skipS_norm : ∀ (segs : List Bytes) (buf : Bytes),
    norm (skipS buf segs) = (buf ++ segs.flatten).dropWhile isSPHT := by
  intro segs
  induction segs with
  | nil => intro buf; simp [skipS, norm]
  | cons g rest ih =>
    intro buf
    simp only [skipS, List.flatten_cons]
    cases hd : buf.dropWhile isSPHT with
    | nil =>
      simp only []
      rw [ih g, C23.dropWhile_append_all isSPHT buf _ (dropWhile_nil_all _ _ hd)]
    | cons b t =>
      simp only []
      rw [dropWhile_cons_append isSPHT buf b t _ hd]
      simp [norm]

theorem contLoopS_norm : ∀ (f : Nat) (acc : Bytes) (x : RS),
    ((contLoopS f acc x).1, norm (contLoopS f acc x).2) = contLoop f acc (norm x) := by
  intro f
  induction f with
  | zero => intro acc x; rfl
  | succ f ih =>
    intro acc x
    rw [contLoopS]
    have hh : headS x.1 x.2 = (norm x).head? := headS_norm x.2 x.1
    cases hn : norm x with
    | nil =>
      rw [hh, hn]
      simp only [List.head?_nil, contLoop]
      rw [hn]
    | cons b t =>
      rw [hh, hn]
      simp only [List.head?_cons, contLoop]
      by_cases hb : isSPHT b = true
      · simp only [hb, if_true]
        have hsk : norm (skipS x.1 x.2) = (b :: t).dropWhile isSPHT := by
          rw [← hn]; exact skipS_norm x.2 x.1
        have hrl := readLineS_norm (skipS x.1 x.2).2 (skipS x.1 x.2).1
        change mapN (readLineS (skipS x.1 x.2).1 (skipS x.1 x.2).2) = readLine (norm (skipS x.1 x.2)) at hrl
        rw [hsk] at hrl
        cases hr : readLineS (skipS x.1 x.2).1 (skipS x.1 x.2).2 with
        | none =>
          rw [hr] at hrl
          simp only [mapN, Option.map_none] at hrl
          rw [← hrl]
          simp only [hsk]
        | some q =>
          obtain ⟨line, r⟩ := q
          rw [hr] at hrl
          simp only [mapN, Option.map_some] at hrl
          rw [← hrl]
          simp only []
          exact ih _ r
      · simp only [hb, if_false, Bool.false_eq_true]
        rw [hn]

theorem readContinuedS_norm (x : RS) : mapN (readContinuedS x) = readContinued (norm x) := by
  unfold readContinuedS readContinued
  have hrl : mapN (readLineS x.1 x.2) = readLine (norm x) := readLineS_norm x.2 x.1
  cases hr : readLineS x.1 x.2 with
  | none =>
    rw [hr] at hrl
    simp only [mapN, Option.map_none] at hrl
    rw [← hrl]; rfl
  | some q =>
    obtain ⟨line, r⟩ := q
    rw [hr] at hrl
    simp only [mapN, Option.map_some] at hrl
    rw [← hrl]
    simp only []
    by_cases hl : line.length = 0
    · simp [hl, mapN]
    · simp only [hl, if_false, mapN, Option.map_some]
      rw [contLoopS_norm]

theorem readHeaderS_norm : ∀ (f : Nat) (x : RS), mapN (readHeaderS f x) = readHeader f (norm x) := by
  intro f
  induction f with
  | zero => intro x; rfl
  | succ f ih =>
    intro x
    rw [readHeaderS, readHeader]
    have hc := readContinuedS_norm x
    cases hr : readContinuedS x with
    | none =>
      rw [hr] at hc
      simp only [mapN, Option.map_none] at hc
      rw [← hc]; rfl
    | some q =>
      obtain ⟨kv, r⟩ := q
      rw [hr] at hc
      simp only [mapN, Option.map_some] at hc
      rw [← hc]
      simp only []
      by_cases hk : kv.length = 0
      · simp [hk, mapN]
      · simp only [hk, if_false]
        cases hsp : splitAt1 58 kv with
        | none => rfl
        | some kvp =>
          obtain ⟨k, v⟩ := kvp
          simp only []
          have hi := ih r
          cases hrec : readHeaderS f r with
          | none =>
            rw [hrec] at hi
            simp only [mapN, Option.map_none] at hi
            rw [← hi]; rfl
          | some q2 =>
            obtain ⟨fs, r'⟩ := q2
            rw [hrec] at hi
            simp only [mapN, Option.map_some] at hi
            rw [← hi]
            simp only []
            split <;> rfl

theorem takeS_norm (n : Nat) (x : RS) :
    (C23.takeSeg n x.1 x.2).1 = (norm x).take n ∧ norm (C23.takeSeg n x.1 x.2).2 = (norm x).drop n :=
  C23.takeSeg_norm x.2 n x.1

theorem readTrailer_crlf (r' : Bytes) : readTrailer (13 :: 10 :: r') = some r' := by
  simp [readTrailer]

theorem readTrailer_other (r : Bytes) (h : ∀ r', r ≠ 13 :: 10 :: r') :
    readTrailer r = if r.length < 2 then none else if ¬ hasDoubleCRLF (r.take 4096) then none
      else (readHeader (r.length + 1) r).map (·.2) := by
  unfold readTrailer
  split
  · rename_i r' ; exact absurd rfl (h r')
  · rfl

theorem readTrailerS_norm (x : RS) : (readTrailerS x).map norm = readTrailer (norm x) := by
  unfold readTrailerS
  obtain ⟨p1, p2⟩ := takeS_norm 2 x
  obtain ⟨q1, _⟩ := takeS_norm 4096 x
  simp only [p1, q1]
  cases hn : norm x with
  | nil => simp [readTrailer_other [] (by intro r' h; cases h)]
  | cons a t =>
    cases t with
    | nil => simp [readTrailer_other [a] (by intro r' h; cases h)]
    | cons b r' =>
      have htk : List.take 2 (a :: b :: r') = [a, b] := rfl
      rw [htk]
      simp only []
      by_cases hc : a.toNat = 13 ∧ b.toNat = 10
      · have ha : a = 13 := UInt8.toNat_inj.mp (by simpa using hc.1)
        have hb : b = 10 := UInt8.toNat_inj.mp (by simpa using hc.2)
        simp only [hc, and_self, if_true, Option.map_some, p2, hn]
        rw [ha, hb, readTrailer_crlf]; rfl
      · have hne : ∀ r'', a :: b :: r' ≠ 13 :: 10 :: r'' := by
          intro r'' h
          injection h with h1 h2
          injection h2 with h2 _
          exact hc ⟨by rw [h1]; rfl, by rw [h2]; rfl⟩
        rw [readTrailer_other _ hne]
        simp only [hc, if_false]
        have hl : ¬ (a :: b :: r').length < 2 := by simp
        simp only [hl, if_false]
        by_cases hd : hasDoubleCRLF (List.take 4096 (a :: b :: r')) = true
        · simp only [hd, not_true_eq_false, if_false]
          have := readHeaderS_norm ((norm x).length + 1) x
          rw [hn] at this
          rw [← this]
          cases readHeaderS ((a :: b :: r').length + 1) x with
          | none => rfl
          | some q => simp [mapN]
        · have hd' : hasDoubleCRLF (List.take 4096 (a :: b :: r')) = false := by simpa using hd
          rw [hd']; simp

theorem readRequestHeadS_norm (x : RS) : mapN (readRequestHeadS x) = readRequestHead (norm x) := by
  unfold readRequestHeadS readRequestHead
  have hrl : mapN (readLineS x.1 x.2) = readLine (norm x) := readLineS_norm x.2 x.1
  cases hr : readLineS x.1 x.2 with
  | none =>
    rw [hr] at hrl
    simp only [mapN, Option.map_none] at hrl
    rw [← hrl]; rfl
  | some q =>
    obtain ⟨line, r⟩ := q
    rw [hr] at hrl
    simp only [mapN, Option.map_some] at hrl
    rw [← hrl]
    simp only []
    cases splitAt1 32 line with
    | none => rfl
    | some q1 =>
      obtain ⟨m, rest1⟩ := q1
      simp only []
      cases splitAt1 32 rest1 with
      | none => rfl
      | some q2 =>
        obtain ⟨t, p⟩ := q2
        simp only []
        cases parseVersion p with
        | none => rfl
        | some v =>
          simp only []
          by_cases hu : uriClass t = .accept
          · simp only [hu, ne_eq, not_true_eq_false, if_false]
            have hh := readHeaderS_norm ((norm r).length + 1) r
            cases hrh : readHeaderS ((norm r).length + 1) r with
            | none =>
              rw [hrh] at hh
              simp only [mapN, Option.map_none] at hh
              rw [← hh]; rfl
            | some q3 =>
              obtain ⟨fs, r'⟩ := q3
              rw [hrh] at hh
              simp only [mapN, Option.map_some] at hh
              rw [← hh]
              simp only []
              cases framing fs <;> rfl
          · simp [hu, mapN]

theorem readBodyS_norm (fr : Framing) (x : RS) :
    ((readBodyS fr x).1, (readBodyS fr x).2.map norm) = readBody fr (norm x) := by
  cases fr with
  | length n =>
    obtain ⟨d1, d2⟩ := takeS_norm n x
    simp only [readBodyS, readBody, d1]
    have hlen : (List.take n (norm x)).length < n ↔ (norm x).length < n := by
      rw [List.length_take]; omega
    by_cases hlt : (norm x).length < n
    · simp only [hlen.mpr hlt, hlt, if_true, Option.map_none]
      rw [List.take_of_length_le (by omega)]
    · have : ¬ (List.take n (norm x)).length < n := fun h => hlt (hlen.mp h)
      simp only [this, hlt, if_false, Option.map_some, d2]
  | chunked =>
    simp only [readBodyS, readBody]
    have hd : (C23.decodeSegS x.1 x.2).toRes = C23.decode (norm x) := C23.decodeSegAux_eq _ x.1 x.2
    have hb : (C23.decodeSegS x.1 x.2).body = (C23.decode (norm x)).body := congrArg C23.Res.body hd
    have he : (C23.decodeSegS x.1 x.2).err = (C23.decode (norm x)).err := congrArg C23.Res.err hd
    have hr : norm ((C23.decodeSegS x.1 x.2).buf, (C23.decodeSegS x.1 x.2).segs) = (C23.decode (norm x)).rest :=
      congrArg C23.Res.rest hd
    rw [he, hb]
    by_cases heof : (C23.decode (norm x)).err = .eof
    · simp only [heof, if_true]
      rw [readTrailerS_norm, hr]
    · simp [heof]

theorem parseOneS_eq (segs : List Bytes) : parseOneS segs = parseOne segs.flatten := by
  unfold parseOneS parseOne
  have hh := readRequestHeadS_norm ([], segs)
  have hn : norm ([], segs) = segs.flatten := by simp [norm]
  rw [hn] at hh
  cases hr : readRequestHeadS ([], segs) with
  | none =>
    rw [hr] at hh
    simp only [mapN, Option.map_none] at hh
    rw [← hh]
  | some q =>
    obtain ⟨rq, x⟩ := q
    rw [hr] at hh
    simp only [mapN, Option.map_some] at hh
    rw [← hh]
    simp only []
    have hb := readBodyS_norm rq.framing x
    rw [← hb]

end BfeVerif.C24
