import BfeVerif.C01.Proofs
/-!
  C01 — smooth weighted round-robin gives exact weight shares.
  Property theorems only (helper lemmas are in `Proofs.lean`).

  Setting of all theorems: `ws` is the ordered list of configured weights of a sub-cluster, all
  positive, non-empty; `g > 0` is the scaling constant of `BackendRR.Init` (100 in the source);
  `initList g ws` is the state `BalanceRR.Init` builds (all backends available, slow start off);
  `W = ws.sum` is the sum of the CONFIGURED weights.  `picks k s` are the results of `k` consecutive
  `smoothBalance` calls from state `s`, `stateAfter k s` the state they leave.
-/
namespace BfeVerif.C01

/-- closed form of every reachable state: after `k` calls backend `i` holds
    `current = g·((k+1)·wᵢ − W·nᵢ(k))`, `nᵢ(k)` = how often it was returned so far. -/
theorem C01_closed_form (g : Int) (hg : 0 < g) (ws : List Int) (hpos : ∀ w ∈ ws, 0 < w) (hne : ws ≠ [])
    (k i : Nat) (w : Int) (hi : ws[i]? = some w) :
    (stateAfter k (initList g ws))[i]? =
      some ⟨g * w, g * (((k : Int) + 1) * w - ws.sum * cnt i (picks k (initList g ws))), true⟩ := by
  have hc := canon_run ws hpos (sum_pos ws hpos hne) k
  rw [initList_scale, stateAfter_scale g hg, picks_scale g hg]
  unfold scaleL
  rw [List.getElem?_map, hc.pt i w hi]
  rfl

/-- a call never fails and always returns a configured backend -/
theorem C01_all_ok (g : Int) (hg : 0 < g) (ws : List Int) (hpos : ∀ w ∈ ws, 0 < w) (hne : ws ≠ [])
    (k : Nat) : ∀ x ∈ picks k (initList g ws), ∃ j, j < ws.length ∧ x = some j := by
  rw [initList_scale, picks_scale g hg]
  exact (canon_run ws hpos (sum_pos ws hpos hne) k).range

/-- Σ current = Σ weight = W in every reachable state (unscaled state; the scaled one is g times it,
    see `C01_closed_form`) -/
theorem C01_sum_inv (ws : List Int) (hpos : ∀ w ∈ ws, 0 < w) (hne : ws ≠ [])
    (k : Nat) : sumCur (stateAfter k (initList 1 ws)) = ws.sum ∧
      sumW (stateAfter k (initList 1 ws)) = ws.sum :=
  ⟨(canon_run ws hpos (sum_pos ws hpos hne) k).sc, (canon_run ws hpos (sum_pos ws hpos hne) k).sw⟩

/-- from ANY state (not only reachable ones): one successful call makes Σ current = Σ weight
    over the eligible backends — the sum heals after one call even after a reload -/
theorem C01_sum_heals (bs : List Backend) (m : Nat) (bs' : List Backend)
    (h : smoothStep bs = some (m, bs')) : sumCur bs' = sumW bs ∧ sumW bs' = sumW bs := by
  obtain ⟨b, hbm, he, _, hbs'⟩ := smoothStep_some bs m bs' h
  have hmapm : (bs.map bump)[m]? = some (bump b) := by simp [hbm]
  rw [hbs', sumCur_modify _ _ m (bump b) hmapm (by rw [eligible_bump]; exact he), sumCur_map_bump,
    sumW_modify, sumW_map_bump]
  exact ⟨by omega, rfl⟩

/-- lower bound on the credit: `current_i > g·(wᵢ − W)` in every reachable state -/
theorem C01_lower (ws : List Int) (hpos : ∀ w ∈ ws, 0 < w) (hne : ws ≠ [])
    (k i : Nat) (w : Int) (hi : ws[i]? = some w) :
    ((k : Int) + 1) * w - ws.sum * cnt i (picks k (initList 1 ws)) > w - ws.sum :=
  (canon_run ws hpos (sum_pos ws hpos hne) k).lb i w hi

/-- **exact shares over one period**: in the first `W` calls backend `i` is returned exactly `wᵢ` times -/
theorem C01_counts (g : Int) (hg : 0 < g) (ws : List Int) (hpos : ∀ w ∈ ws, 0 < w) (hne : ws ≠ [])
    (i : Nat) (w : Int) (hi : ws[i]? = some w) :
    (cnt i (picks ws.sum.toNat (initList g ws)) : Int) = w := by
  rw [initList_scale, picks_scale g hg]
  have hW := sum_pos ws hpos hne
  exact canon_cnt_eq ws hW _ _ (canon_run ws hpos hW ws.sum.toNat) i w hi

/-- **period**: after `W` calls the state is the initial state again -/
theorem C01_period (g : Int) (hg : 0 < g) (ws : List Int) (hpos : ∀ w ∈ ws, 0 < w) (hne : ws ≠ []) :
    stateAfter ws.sum.toNat (initList g ws) = initList g ws := by
  have hW := sum_pos ws hpos hne
  have hc := canon_run ws hpos hW ws.sum.toNat
  have h1 : stateAfter ws.sum.toNat (initList 1 ws) = initList 1 ws := by
    apply List.ext_getElem?
    intro i
    rcases Nat.lt_or_ge i ws.length with hi | hi
    · have hw : ws[i]? = some ws[i] := by simp [hi]
      rw [hc.pt i _ hw, canon_cnt_eq ws hW _ _ hc i _ hw]
      have hk : ((ws.sum.toNat : Nat) : Int) = ws.sum := by omega
      rw [hk]
      simp only [initList, List.getElem?_map, hw, Option.map_some, initBackend, Int.mul_one,
        Option.some.injEq, Backend.mk.injEq, and_true, true_and]
      simp only [Int.add_mul, Int.one_mul]; omega
    · rw [List.getElem?_eq_none (by rw [hc.len]; exact hi),
        List.getElem?_eq_none (by simp [initList]; exact hi)]
  rw [initList_scale, stateAfter_scale g hg, h1]

/-- the result sequence repeats with period `W` -/
theorem C01_periodic (g : Int) (hg : 0 < g) (ws : List Int) (hpos : ∀ w ∈ ws, 0 < w) (hne : ws ≠ [])
    (k : Nat) : picks (ws.sum.toNat + k) (initList g ws)
      = picks ws.sum.toNat (initList g ws) ++ picks k (initList g ws) := by
  rw [picks_add, C01_period g hg ws hpos hne]

/-- **C01 (full strength, steady state)**: EVERY window of `W` consecutive calls — wherever it starts —
    returns backend `i` exactly `wᵢ` times. -/
theorem C01_window (g : Int) (hg : 0 < g) (ws : List Int) (hpos : ∀ w ∈ ws, 0 < w) (hne : ws ≠ [])
    (start i : Nat) (w : Int) (hi : ws[i]? = some w) :
    (cnt i (window start ws.sum.toNat (initList g ws)) : Int) = w := by
  have h1 : picks (start + ws.sum.toNat) (initList g ws)
      = picks start (initList g ws) ++ window start ws.sum.toNat (initList g ws) := by
    unfold window
    have := List.take_append_drop start (picks (start + ws.sum.toNat) (initList g ws))
    rw [picks_add] at this ⊢
    rw [List.take_left' (picks_length _ _)] at this
    rw [List.drop_left' (picks_length _ _)]
  have h2 := C01_periodic g hg ws hpos hne start
  rw [Nat.add_comm] at h2
  have h3 := congrArg (cnt i) (h1.symm.trans h2)
  unfold cnt at h3 ⊢
  rw [List.count_append, List.count_append] at h3
  have h4 := C01_counts g hg ws hpos hne i w hi
  unfold cnt at h4
  omega

/-- the common factor (the ×100 of `Init`, or any gcd of the configured weights) is irrelevant:
    the result sequence only depends on the ordered list of weight RATIOS -/
theorem C01_scale (g : Int) (hg : 0 < g) (k : Nat) (bs : List Backend) :
    picks k (scaleL g bs) = picks k bs := picks_scale g hg k bs

theorem C01_scale_init (g : Int) (hg : 0 < g) (ws : List Int) (k : Nat) :
    picks k (initList g ws) = picks k (initList 1 ws) := by
  rw [initList_scale, picks_scale g hg]

/-- **ineligible members are invisible** (unavailable, or weight ≤ 0 — whatever their `current`):
    the results on ANY list are the results on its eligible sub-list, re-indexed by position -/
theorem C01_filter (k : Nat) (bs : List Backend) :
    picks k bs = (picks k (elig bs)).map (Option.map (embedP (pattern bs))) := picks_filter k bs

/-- … and the eligible sub-list evolves exactly as if it were alone, the eligibility pattern is untouched -/
theorem C01_filter_state (bs : List Backend) :
    elig (stepState bs) = stepState (elig bs) ∧ pattern (stepState bs) = pattern bs :=
  ⟨(step_filter bs).2.1, (step_filter bs).2.2⟩

/-- an ineligible member is never returned -/
theorem C01_never_ineligible (k : Nat) (bs : List Backend) (m : Nat) (hm : some m ∈ picks k bs) :
    (pattern bs)[m]? = some true := by
  induction k generalizing bs with
  | zero => simp [picks] at hm
  | succ k ih =>
    simp only [picks, List.mem_cons] at hm
    rcases hm with hm | hm
    · cases hs : smoothStep bs with
      | none => simp [stepPick, hs] at hm
      | some r =>
        obtain ⟨m', bs'⟩ := r
        simp [stepPick, hs] at hm
        subst hm
        obtain ⟨b, hb, he, _, _⟩ := smoothStep_some bs m bs' hs
        simp [pattern, hb, he]
    · have := ih (stepState bs) hm
      rwa [(step_filter bs).2.2] at this

/-- **C01 with ineligible members present**: if the eligible members of a list are in the state `Init`
    gives them (e.g. some members unavailable or with weight ≤ 0 from the start), every window of `W`
    calls returns the `i`-th eligible member exactly `wᵢ` times; `W` sums the eligible weights only. -/
theorem C01_window_filtered (g : Int) (hg : 0 < g) (ws : List Int) (hpos : ∀ w ∈ ws, 0 < w) (hne : ws ≠ [])
    (bs : List Backend) (hbs : elig bs = initList g ws)
    (start i : Nat) (w : Int) (hi : ws[i]? = some w) :
    (cnt (embedP (pattern bs) i) (window start ws.sum.toNat bs) : Int) = w := by
  have hw : window start ws.sum.toNat bs
      = (window start ws.sum.toNat (initList g ws)).map (Option.map (embedP (pattern bs))) := by
    unfold window
    rw [picks_filter, hbs, List.map_drop]
  have hn : ws.length = ((pattern bs).filter id).length := by
    rw [length_filter_pattern, hbs]; simp [initList]
  rw [hw, cnt_map_embed (pattern bs) ws.length hn _ _ i (lt_of_getElem? hi)]
  · exact C01_window g hg ws hpos hne start i w hi
  · intro x hx
    unfold window at hx
    exact C01_all_ok g hg ws hpos hne _ x (List.mem_of_mem_drop hx)

example : elig [⟨300, 300, true⟩, ⟨0, 0, true⟩, ⟨200, 200, false⟩, ⟨100, 100, true⟩] = initList 100 [3, 1] := by
  decide
example : picks 5 [⟨300, 300, true⟩, ⟨0, 0, true⟩, ⟨200, 200, false⟩, ⟨100, 100, true⟩]
    = [some 0, some 0, some 3, some 0, some 0] := by decide

/-- a reload that changes nothing (same members, same positive weights) leaves every reachable state
    untouched, so all the theorems above continue to hold across it -/
theorem C01_reload_same (g : Int) (hg : 0 < g) (ws : List Int) (hpos : ∀ w ∈ ws, 0 < w) (hne : ws ≠ [])
    (k : Nat) : updateSame g ws (stateAfter k (initList g ws)) = stateAfter k (initList g ws) := by
  apply List.ext_getElem?
  intro i
  unfold updateSame
  rw [List.getElem?_zipWith]
  rcases Nat.lt_or_ge i ws.length with hi | hi
  · have hw : ws[i]? = some ws[i] := by simp [hi]
    rw [C01_closed_form g hg ws hpos hne k i _ hw, hw]
    have : ¬ ws[i] ≤ 0 := by have := hpos ws[i] (by simp); omega
    simp [updateWeight, this, Int.mul_comm]
  · have hc := canon_run ws hpos (sum_pos ws hpos hne) k
    have hl : (stateAfter k (initList g ws)).length = ws.length := by
      rw [initList_scale, stateAfter_scale g hg]; simp [scaleL, hc.len]
    rw [List.getElem?_eq_none hi, List.getElem?_eq_none (by omega)]

/-- The clause "also every starting point after a (re)load", at full strength: after a reload that
    changes weights (members unchanged), every window of `W' = Σ ws'` calls has exact shares. -/
def ReloadExact : Prop :=
  ∀ (ws ws' : List Int), ws.length = ws'.length → (∀ w ∈ ws, 0 < w) → (∀ w ∈ ws', 0 < w) →
    ∀ (k start i : Nat) (w : Int), ws'[i]? = some w →
      (cnt i (window start ws'.sum.toNat (updateSame 100 ws' (stateAfter k (initList 100 ws)))) : Int) = w

/-- The unchanged code violates it: `Update` keeps `current`, so the state after a weight change is
    off the canonical orbit.  Weights (1,1), one call, reload to (3,1): the next 4 calls return
    B A A B — shares 2/2 instead of 3/1.  (replayed on the real code: corpus/C01/known.ops) -/
theorem C01_reload_witness : ¬ ReloadExact := by
  intro h
  have := h [1, 1] [3, 1] rfl (by decide) (by decide) 1 0 0 3 rfl
  revert this
  decide

/-- **what survives a reload (partial result)**.  Take ANY state whose members are all eligible and whose
    currents sum to the sum of the weights `W` — by `C01_sum_heals` that is every state from the first
    call after a reload / availability flip on (`ps` lists weight and current of each member).  Then calls
    never fail, Σ current stays `W`, the closed form `currentᵢ = cᵢ + k·wᵢ − W·nᵢ(k)` holds, and no backend
    ever runs ahead of its share by more than its initial credit surplus:
    `W·nᵢ(k) ≤ k·wᵢ + max 0 (cᵢ − wᵢ + W − 1)`   (for the canonical start `cᵢ = wᵢ` this is `nᵢ(k) < k·wᵢ/W + 1`).
    Exact windows are NOT recovered in general (see `C01_reload_witness`). -/
theorem C01_offorbit_bounded_partial (ps : List (Int × Int)) (W : Int) (hpos : ∀ p ∈ ps, 0 < p.1) (hW : 0 < W)
    (hsc : sumCur (mkState ps) = W) (hsw : sumW (mkState ps) = W)
    (k i : Nat) (w c : Int) (hi : ps[i]? = some (w, c)) :
    (∀ x ∈ picks k (mkState ps), ∃ j, j < ps.length ∧ x = some j) ∧
    sumCur (stateAfter k (mkState ps)) = W ∧
    (stateAfter k (mkState ps))[i]? = some ⟨w, c + (k : Int) * w - W * cnt i (picks k (mkState ps)), true⟩ ∧
    W * cnt i (picks k (mkState ps)) ≤ (k : Int) * w + max 0 (c - w + W - 1) := by
  have h := gcanon_run ps W hpos hW hsc hsw k
  refine ⟨h.range, h.sc, h.pt i w c hi, ?_⟩
  have := h.lb i w c hi
  omega

example : sumCur (mkState [(300, 500), (100, -100)]) = 400 ∧ sumW (mkState [(300, 500), (100, -100)]) = 400 := by
  decide

example : picks 4 (updateSame 100 [3, 1] (stateAfter 1 (initList 100 [1, 1])))
    = [some 1, some 0, some 0, some 1] := by decide

/-! Non-vacuity: the example of the source's header comment, `{a:5, b:1, c:1}` gives `aabacaa`. -/
example : picks 7 (initList 100 [5, 1, 1]) = [some 0, some 0, some 1, some 0, some 2, some 0, some 0] := by
  decide
example : stateAfter 7 (initList 100 [5, 1, 1]) = initList 100 [5, 1, 1] := by decide
example : (∀ w ∈ ([5, 1, 1] : List Int), 0 < w) ∧ ([5, 1, 1] : List Int) ≠ [] := by decide
example : window 3 7 (initList 100 [5, 1, 1]) = [some 0, some 2, some 0, some 0, some 0, some 0, some 1] := by
  decide

/-- **a reload with the IDENTICAL conf is a no-op for the selection sequence, from ANY state** (not only reachable
    ones, any currents, members of any weight): if `conf` lists exactly the members of the list, each with the
    weight it already has, `Update` keeps the list order, adds nothing, and every later result is the same as
    without the reload.  (A member of weight ≤ 0 gets `current = 0`; it is ineligible before and after.) -/
theorem C01_reload_identical_noop (g : Int) (hg : 0 < g) (conf : List (Nat × Int)) (l : List (Nat × SS))
    (hmem : ∀ p ∈ l, ∃ w, conf.lookup p.1 = some w ∧ p.2.b.weight = w * g)
    (hnew : ∀ q ∈ conf, l.any (fun p => p.1 == q.1) = true) :
    updateAdded g conf l = [] ∧
    (updateKept g conf l).map (·.1) = l.map (·.1) ∧
    ∀ k, picks k (backs (updateKept g conf l)) = picks k (backs l) := by
  refine ⟨?_, ?_, ?_⟩
  · unfold updateAdded
    rw [List.map_eq_nil_iff, List.filter_eq_nil_iff]
    intro q hq; simp [hnew q hq]
  · clear hnew
    unfold updateKept
    induction l with
    | nil => rfl
    | cons p l ih =>
      obtain ⟨w, hw, _⟩ := hmem p (by simp)
      have := ih (fun x hx => hmem x (by simp [hx]))
      simp [hw, this]
  · intro k
    have hb : backs (updateKept g conf l) = (backs l).map normB := by
      clear hnew
      unfold backs updateKept
      induction l with
      | nil => rfl
      | cons p l ih =>
        obtain ⟨w, hw, hpw⟩ := hmem p (by simp)
        have := ih (fun x hx => hmem x (by simp [hx]))
        simp [hw, this, updateWeight_same g w hg p.2.b hpw]
    rw [hb, picks_map_normB]

/-! ### slow start.  `el` = time.Since(startTime) in ns is an arbitrary parameter of every call. -/

/-- **during slow start 0 ≤ weight ≤ final**, strictly below `final` while it lasts; `final` never changes -/
theorem C01_slowstart_bounds (el : Int) (s : SS) (hin : s.inSS = true) (hf : 0 ≤ s.final)
    (hT : 0 < s.ssTime) (hel : 0 ≤ el) :
    0 ≤ (updateSlowStart el s).b.weight ∧ (updateSlowStart el s).b.weight ≤ s.final ∧
    ((updateSlowStart el s).inSS = true → (updateSlowStart el s).b.weight < s.final) ∧
    (updateSlowStart el s).final = s.final ∧ (updateSlowStart el s).b.current = s.b.current := by
  have hne : s.ssTime ≠ 0 := by omega
  have hD : 0 ≤ s.ssTime * nsPerSec := Int.mul_nonneg (by omega) (Int.le_of_lt nsPerSec_pos)
  have hw : 0 ≤ (s.final * el).tdiv (s.ssTime * nsPerSec) := Int.tdiv_nonneg (Int.mul_nonneg hf hel) hD
  unfold updateSlowStart
  simp only [hin, if_true, hne, ne_eq, not_false_eq_true]
  split
  · exact ⟨hf, Int.le_refl _, by simp, rfl, rfl⟩
  · rename_i hlt
    have hlt' : (s.final * el).tdiv (s.ssTime * nsPerSec) < s.final := by omega
    exact ⟨hw, Int.le_of_lt hlt', fun _ => hlt', rfl, rfl⟩

theorem C01_slowstart_keeps (el : Int) (s : SS) :
    (updateSlowStart el s).restarted = s.restarted ∧ (updateSlowStart el s).b.avail = s.b.avail ∧
    (updateSlowStart el s).final = s.final ∧ (updateSlowStart el s).b.current = s.b.current := by
  unfold updateSlowStart
  by_cases h : s.inSS = true
  · simp only [h, if_true]
    refine ⟨?_, ?_, ?_, ?_⟩ <;> (repeat' split) <;> rfl
  · simp only [h]
    exact ⟨rfl, rfl, rfl, rfl⟩

/-- the same for the call in which slow start begins (`restarted` set by the health checker / by Update) -/
theorem C01_slowstart_bounds_begin (T el0 el : Int) (s : SS) (hr : s.restarted = true) (hf : 0 ≤ s.final)
    (hT : 0 < T) (hel : 0 ≤ el0) :
    0 ≤ (checkOne T el0 el s).b.weight ∧ (checkOne T el0 el s).b.weight ≤ s.final ∧
    (checkOne T el0 el s).final = s.final ∧ (checkOne T el0 el s).restarted = false := by
  have hne : T ≠ 0 := by omega
  unfold checkOne
  simp only [hr, if_true]
  have h := C01_slowstart_bounds el0 (initSlowStart T { s with restarted := false })
    (by simp [initSlowStart, hne]) (by simpa [initSlowStart, hne] using hf)
    (by simpa [initSlowStart, hne] using hT) hel
  have hfin : (initSlowStart T { s with restarted := false }).final = s.final := by simp [initSlowStart, hne]
  rw [hfin] at h
  refine ⟨h.1, h.2.1, h.2.2.2.1, ?_⟩
  unfold updateSlowStart initSlowStart
  simp only [hne, if_false]
  split <;> (try split) <;> rfl

/-- **slow start ends**: the first call that observes `elapsed ≥ slowStartTime` restores `weight = final`
    and clears `inSlowStart` -/
theorem C01_slowstart_converges_one (el : Int) (s : SS) (hin : s.inSS = true) (hf : 0 ≤ s.final)
    (hT : 0 < s.ssTime) (hel : s.ssTime * nsPerSec ≤ el) :
    (updateSlowStart el s).inSS = false ∧ (updateSlowStart el s).b.weight = s.final := by
  have hne : s.ssTime ≠ 0 := by omega
  have hD : 0 < s.ssTime * nsPerSec := Int.mul_pos hT nsPerSec_pos
  have hnum : 0 ≤ s.final * el := Int.mul_nonneg hf (by omega)
  have hle : s.final ≤ (s.final * el).tdiv (s.ssTime * nsPerSec) := by
    rw [Int.tdiv_eq_ediv_of_nonneg hnum]
    exact Int.le_ediv_of_mul_le hD (Int.mul_le_mul_of_nonneg_left hel hf)
  unfold updateSlowStart
  simp only [hin, if_true, hne, ne_eq, not_false_eq_true]
  split
  · exact ⟨rfl, rfl⟩
  · rename_i h; exact absurd hle h

/-- every backend is out of slow start and no restart is pending -/
def Settled (l : List SS) : Prop := ∀ s ∈ l, s.inSS = false ∧ s.restarted = false

/-- a settled backend is not touched by checkSlowStart, whatever the clock and the configured time -/
theorem C01_slowstart_idle (T el0 el : Int) (l : List SS) (h : Settled l) : checkSlowStart T el0 el l = l := by
  unfold checkSlowStart
  split
  · have : ∀ s ∈ l, checkOne T el0 el s = s := by
      intro s hs
      obtain ⟨h1, h2⟩ := h s hs
      simp [checkOne, h2, updateSlowStart, h1]
    rw [List.map_congr_left this]; simp
  · rfl

/-- **C01_slowstart_converges**: let slow start be on (`T > 0`), no restart pending, `final ≥ 0`, and let
    this call observe `elapsed ≥ slowStartTime` for every backend that is still ramping.  Then after the
    call's checkSlowStart every backend is settled, every ramping backend has `weight = final` (= the
    configured weight × 100, `Init` sets `final = weight` and slow start never changes it) and the others
    are untouched. -/
theorem C01_slowstart_converges (T el0 el : Int) (hT : 0 < T) (l : List SS)
    (h : ∀ s ∈ l, s.restarted = false ∧ (s.inSS = true → 0 ≤ s.final ∧ 0 < s.ssTime ∧ s.ssTime * nsPerSec ≤ el)) :
    Settled (checkSlowStart T el0 el l) ∧
    (checkSlowStart T el0 el l).length = l.length ∧
    ∀ (i : Nat) s, l[i]? = some s →
      ∃ s', (checkSlowStart T el0 el l)[i]? = some s' ∧ s'.final = s.final ∧ s'.b.current = s.b.current ∧
        s'.b.avail = s.b.avail ∧ s'.b.weight = (if s.inSS then s.final else s.b.weight) := by
  have hone : ∀ s ∈ l, (checkOne T el0 el s).inSS = false ∧ (checkOne T el0 el s).restarted = false ∧
      (checkOne T el0 el s).final = s.final ∧ (checkOne T el0 el s).b.current = s.b.current ∧
      (checkOne T el0 el s).b.avail = s.b.avail ∧
      (checkOne T el0 el s).b.weight = (if s.inSS then s.final else s.b.weight) := by
    intro s hs
    obtain ⟨hr, hin⟩ := h s hs
    unfold checkOne
    simp only [hr, Bool.false_eq_true, if_false]
    by_cases hi : s.inSS = true
    · obtain ⟨hf, hTs, hel⟩ := hin hi
      have hc := C01_slowstart_converges_one el s hi hf hTs hel
      have hb := C01_slowstart_bounds el s hi hf hTs (by
        have := Int.mul_pos hTs nsPerSec_pos; omega)
      have hk := C01_slowstart_keeps el s
      exact ⟨hc.1, by rw [hk.1]; exact hr, hb.2.2.2.1, hb.2.2.2.2, hk.2.1, by simp [hi, hc.2]⟩
    · have hi' : s.inSS = false := by simpa using hi
      simp [updateSlowStart, hi', hr]
  unfold checkSlowStart
  simp only [hT, if_true]
  refine ⟨?_, by simp, ?_⟩
  · intro s' hs'
    obtain ⟨s, hs, rfl⟩ := List.mem_map.mp hs'
    exact ⟨(hone s hs).1, (hone s hs).2.1⟩
  · intro i s hi
    refine ⟨checkOne T el0 el s, by simp [hi], ?_⟩
    have := hone s (List.mem_of_getElem? hi)
    exact ⟨this.2.2.1, this.2.2.2.1, this.2.2.2.2.1, this.2.2.2.2.2⟩

/-- **after slow start the steady-state model applies again**: once every backend is settled, every further
    `Balance` call — whatever the clock, whatever `SetSlowStart` sets — is exactly one `smoothBalance` step on
    the weight/current list, so the results are `picks` and the states `stateAfter` of that list: all theorems
    about `picks` (C01_sum_heals, C01_offorbit_bounded_partial, C01_filter, and C01_window when the currents are
    on the canonical orbit) hold for the real call sequence.  `balanceSS` never changes a weight by itself
    (`stepState_weight`), so the weights stay the configured ones. -/
theorem C01_slowstart_steady (calls : List (Int × Int × Int)) (l : List SS) (h : Settled l) :
    (runSS calls l).1 = picks calls.length (ssBackends l) ∧
    ssBackends (runSS calls l).2 = stateAfter calls.length (ssBackends l) ∧
    Settled (runSS calls l).2 := by
  induction calls generalizing l with
  | nil => exact ⟨rfl, rfl, h⟩
  | cons c rest ih =>
    obtain ⟨T, el0, el⟩ := c
    have hidle := C01_slowstart_idle T el0 el l h
    have hlen : (stepState (ssBackends l)).length = l.length := by
      rw [stepState_length]; simp [ssBackends]
    have hset : Settled (ssPut l (stepState (ssBackends l))) := by
      intro s hs
      unfold ssPut at hs
      obtain ⟨i, hi, hget⟩ := List.getElem_of_mem hs
      simp only [List.getElem_zipWith] at hget
      have hil : i < l.length := by simp at hi; omega
      rw [← hget]
      exact h l[i] (List.getElem_mem hil)
    have := ih (ssPut l (stepState (ssBackends l))) hset
    rw [ssBackends_ssPut _ _ hlen] at this
    simp only [runSS, balanceSS, hidle, picks, stateAfter, List.length_cons]
    exact ⟨by rw [this.1], this.2.1, this.2.2⟩

/-- a call never changes a weight or an availability by itself -/
theorem C01_step_keeps_weight (bs : List Backend) :
    (stepState bs).map (fun b => (b.weight, b.avail)) = bs.map (fun b => (b.weight, b.avail)) :=
  stepState_weight bs

/-! non-vacuity: weight 3 (final 300), slow start 30 s: 0 at 0 s, 150 at 15 s, 300 and done at 45 s -/
example : (updateSlowStart 0 ⟨⟨1, 1, true⟩, 300, true, 30, false⟩).b.weight = 0 := by decide
example : (updateSlowStart (15 * nsPerSec) ⟨⟨1, 1, true⟩, 300, true, 30, false⟩).b.weight = 150 := by decide
example : updateSlowStart (45 * nsPerSec) ⟨⟨150, 7, true⟩, 300, true, 30, false⟩
    = ⟨⟨300, 7, true⟩, 300, false, 30, false⟩ := by decide

end BfeVerif.C01
