import BfeVerif.Common.Proto
import BfeVerif.C01.Model
/-!
  C01 driver.  op = a scripted history on one `BalanceRR`, ops separated by `|`:
    `init 5,1,1`        BalanceRR.Init with configured weights (backend ids 0,1,2,…; `-` = empty list)
    `ginit 5,1,1`       the same, but the whole history runs through BalanceGslb with one sub-cluster
    `bal 7`             7 consecutive Balance(WrrSmooth) calls
    `av 1 0`            SetAvail(false) on backend id 1
    `upd 0:3,2:1,5:4`   BalanceRR.Update with this conf (id:weight; members kept/dropped/added)
  result per op, joined by `|`:  `ok`  or, for `bal`, `p=<ids returned, e = error>;c=<current of every list entry>`
-/
namespace BfeVerif.C01
open BfeVerif.Proto

inductive Op where
  | init (ws : List Int)
  | bal (k : Nat)
  | av (id : Nat) (v : Bool)
  | upd (c : List (Nat × Int))

def parseInts (s : String) : Option (List Int) :=
  if s == "-" then some [] else (s.splitOn ",").mapM fun x => x.toInt?

def parsePairs (s : String) : Option (List (Nat × Int)) :=
  if s == "-" then some [] else
  (s.splitOn ",").mapM fun x =>
    match x.splitOn ":" with
    | [a, b] => do
      let i ← a.toNat?
      let w ← b.toInt?
      pure (i, w)
    | _ => none

def parseOp (s : String) : Option Op :=
  match s.splitOn " " with
  | ["init", ws] => (parseInts ws).map Op.init
  | ["ginit", ws] => (parseInts ws).map Op.init   -- same history through BalanceGslb (single sub-cluster)
  | ["bal", k] => k.toNat?.map Op.bal
  | ["av", i, v] => i.toNat?.map fun i => Op.av i (v == "1")
  | ["upd", c] => (parsePairs c).map Op.upd
  | _ => none

def parseOps (s : String) : Option (List Op) := (s.splitOn "|").mapM parseOp

/-! ### the model side -/

structure St where
  ids : List Nat
  bs : List Backend

def joinC (l : List String) : String := if l.isEmpty then "-" else ",".intercalate l

def showPick (ids : List Nat) : Option Nat → String
  | none => "e"
  | some i => toString (ids.getD i 9999)

/-- `BalanceRR.Update`: walk the old list in order (keep + UpdateWeight, or drop), then append the new members -/
def updateModel (conf : List (Nat × Int)) (st : St) : St :=
  let kept := (st.ids.zip st.bs).filterMap fun (id, b) =>
    match conf.lookup id with
    | some w => some (id, updateWeight 100 w b)
    | none => none
  let added := (conf.filter fun (id, _) => !st.ids.contains id).map fun (id, w) => (id, initBackend 100 w)
  let all := kept ++ added
  { ids := all.map (·.1), bs := all.map (·.2) }

def modelOp (st : St) : Op → St × String
  | .init ws => ({ ids := List.range ws.length, bs := initList 100 ws }, "ok")
  | .bal k =>
    let ps := picks k st.bs
    let bs' := stateAfter k st.bs
    ({ st with bs := bs' },
      "p=" ++ joinC (ps.map (showPick st.ids)) ++ ";c=" ++ joinC (bs'.map fun b => toString b.current))
  | .av id v =>
    let i := st.ids.idxOf id
    ((if i < st.ids.length then { st with bs := setAvail i v st.bs } else st), "ok")
  | .upd c => (updateModel c st, "ok")

def modelRun (ops : List Op) : String :=
  let r := ops.foldl (fun (acc : St × List String) o =>
    let r := modelOp acc.1 o
    (r.1, r.2 :: acc.2)) (({ ids := [], bs := [] } : St), [])
  "|".intercalate r.2.reverse

/-! ### the spec oracle: judges the IMPLEMENTATION's result string, knows nothing of `current` -/

structure Ent where
  id : Nat
  w : Int
  avail : Bool
deriving BEq

structure OSt where
  cfg : List Ent := []
  phase : String := "steady"      -- steady | reload | flip
  pristine : Bool := true          -- no Balance call since Init
  seq : Array (Option Nat) := #[]  -- results since the last change of weights / availability
  fails : List String := []
  fullWindows : Nat := 0           -- number of complete W-windows judged in steady phase with ≥ 2 eligible
  tags : List String := []

def countId (a : Array (Option Nat)) (lo hi : Nat) (id : Nat) : Nat :=
  (List.range (hi - lo)).foldl (fun c j => if a[lo + j]? == some (some id) then c + 1 else c) 0

/-- judge the results collected since the last change -/
def judge (o : OSt) : OSt :=
  if o.seq.isEmpty then o else
  let elig := o.cfg.filter fun e => e.avail && decide (0 < e.w)
  let fail (c : String) : OSt := { o with fails := (o.phase ++ "-" ++ c) :: o.fails, seq := #[] }
  if elig.isEmpty then
    if o.seq.all (· == none) then { o with seq := #[], tags := "alldown" :: o.tags } else fail "pick-when-all-down"
  else if o.seq.any (· == none) then fail "error-while-available"
  else if o.seq.any (fun x => match x with | some id => !(elig.any (·.id == id)) | none => true) then
    fail "pick-ineligible"
  else
    let W := (elig.foldl (fun (s : Int) (e : Ent) => s + e.w) 0).toNat
    let n := o.seq.size
    if n < W then
      -- no complete window: each backend at most `w` times (necessary for every containing window)
      if elig.all fun e => decide ((countId o.seq 0 n e.id : Int) ≤ e.w) then { o with seq := #[] }
      else fail "window"
    else
      -- every window exact  ⇔  first window exact ∧ the sequence has period W
      let firstOk := elig.all fun e => decide ((countId o.seq 0 W e.id : Int) = e.w)
      let perOk := (List.range (n - W)).all fun s => o.seq[s]? == o.seq[s + W]?
      if firstOk && perOk then
        { o with seq := #[],
                 fullWindows := o.fullWindows + (if o.phase == "steady" && elig.length ≥ 2 then n - W + 1 else 0) }
      else fail "window"

def parsePicks (s : String) : Option (Array (Option Nat)) :=
  -- s = "p=...;c=..."
  match s.splitOn ";" with
  | [p, _] =>
    if p.startsWith "p=" then
      let body := (p.drop 2).toString
      if body == "-" then some #[] else
      ((body.splitOn ",").mapM fun x => if x == "e" then some none else x.toNat?.map some).map List.toArray
    else none
  | _ => none

def oracleOp (o : OSt) (op : Op) (res : String) : OSt :=
  match op with
  | .init ws =>
    let o := judge o
    { o with cfg := (List.range ws.length).zip ws |>.map (fun (i, w) => ⟨i, w, true⟩),
             phase := "steady", pristine := true, seq := #[] }
  | .bal _ =>
    match parsePicks res with
    | none => { o with fails := ("bad-result") :: o.fails }
    | some ps => { o with seq := o.seq ++ ps, pristine := false }
  | .av id v =>
    match o.cfg.find? (·.id == id) with
    | none => o
    | some e =>
      if e.avail == v then o else
      let o := judge o
      { o with cfg := o.cfg.map (fun e => if e.id == id then { e with avail := v } else e),
               phase := if o.pristine then o.phase else "flip", tags := "flip" :: o.tags }
  | .upd c =>
    let same := c.length == o.cfg.length && o.cfg.all fun e => c.lookup e.id == some e.w
    if same then { o with tags := "upd-same" :: o.tags } else
    let o := judge o
    let kept := o.cfg.filterMap fun e => (c.lookup e.id).map fun w => { e with w := w }
    let added := (c.filter fun (id, _) => !(o.cfg.any (·.id == id))).map fun (id, w) => (⟨id, w, true⟩ : Ent)
    { o with cfg := kept ++ added, phase := "reload", tags := "upd" :: o.tags }

def oracleRun (ops : List Op) (impl : String) : OSt :=
  let rs := impl.splitOn "|"
  if rs.length != ops.length then { fails := ["bad-result"] } else
  judge ((ops.zip rs).foldl (fun o (p : Op × String) => oracleOp o p.1 p.2) {})

def dedup (l : List String) : List String := l.foldl (fun acc x => if acc.contains x then acc else acc ++ [x]) []

def run (op impl : String) : Ans :=
  match parseOps op with
  | none => { model := "bad-op", verdict := "skip" }
  | some ops =>
    let m := modelRun ops
    if impl.startsWith "PANIC" || impl.startsWith "HANG" then
      { model := m, verdict := "FAIL:crash", tags := ["crash"] }
    else
    let o := oracleRun ops impl
    let fs := dedup o.fails.reverse
    let n := match ops.head? with
      | some (.init ws) => ws.length
      | _ => 0
    let sz := if n == 0 then "n0" else if n == 1 then "n1" else if n ≤ 4 then "n2-4" else "n5+"
    { model := m
      verdict := match fs with
        | [] => "ok"
        | f :: _ => "FAIL:" ++ f
      tags := [sz] ++ (if op.startsWith "ginit" then ["gslb"] else []) ++ dedup o.tags ++ (if o.fullWindows > 0 then ["nt"] else []) }

end BfeVerif.C01
