import BfeVerif.Common.Proto
import BfeVerif.C01.Model
/-!
  C01 driver.  op = a scripted history on one `BalanceRR`, ops separated by `|`:
    `init 5,1,1`        BalanceRR.Init with configured weights (backend ids 0,1,2,…; `-` = empty list)
    `ginit 5,1,1`       the same, but the whole history runs through BalanceGslb with one sub-cluster
    `bal 7`             7 consecutive Balance(WrrSmooth) calls
    `bal 7@500000`      the same; before each call `startTime` of every backend in slow start is moved to
                        now − 500000 s (hook), i.e. updateSlowStart observes elapsed = 500000 s
    `ss 1000000`        SetSlowStart(1000000)   (seconds; 0 = off)
    `rs 2`              SetRestart(true) on backend id 2 (what the health checker does when it comes back)
    `sticky`            one Balance(WrrSticky, "k") call: ensureSortedUnlocked sorts the list by AddrInfo (string order)
    `av 1 0`            SetAvail(false) on backend id 1
    `upd 0:3,2:1,5:4`   BalanceRR.Update with this conf (id:weight; members kept/dropped/added)
  result per op, joined by `|`:  `ok`  or, for `bal`, `p=<ids returned, e = error>;c=<current>;w=<weight>;s=<inSlowStart 0/1>;f=<weightSS.final>` of every list entry
-/
namespace BfeVerif.C01
open BfeVerif.Proto

inductive Op where
  | init (ws : List Int) (table : Bool)   -- table: the history runs through the real BalTable (files, loaders)
  | bal (k : Nat) (e : Nat)      -- k calls; every backend in slow start observes `e` seconds elapsed
  | ss (t : Int)                -- SetSlowStart(t)
  | rs (id : Nat)               -- backend.SetRestart(true), as the health checker does
  | sticky                      -- one Balance(WrrSticky, key) call on the same BalanceRR: it SORTS brr.backends by AddrInfo
  | av (id : Nat) (v : Bool)
  | upd (c : List (Nat × Int))

def parseInts (s : String) : Option (List Int) :=
  if s == "-" then some [] else (s.splitOn ",").mapM fun x => x.toInt?

def parsePairs (s : String) : Option (List (Nat × Int)) :=
  if s == "-" then some [] else
  (s.splitOn ",").mapM fun x =>
    match x.splitOn ":" with
    | [a, b] => do
      let i ← a.toNat?
      let w ← b.toInt?
      pure (i, w)
    | _ => none

def parseOp (s : String) : Option Op :=
  match s.splitOn " " with
  | ["init", ws] => (parseInts ws).map (Op.init · false)
  | ["ginit", ws] => (parseInts ws).map (Op.init · false)   -- same history through BalanceGslb (single sub-cluster)
  | ["tinit", ws] => (parseInts ws).map (Op.init · true)    -- … through BalTable: conf FILES → real loaders → Init / BalTableReload → Lookup → Balance
  | ["bal", k] =>
    match k.splitOn "@" with
    | [k] => k.toNat?.map fun k => Op.bal k 0
    | [k, e] => do
      let k ← k.toNat?
      let e ← e.toNat?
      pure (Op.bal k e)
    | _ => none
  | ["ss", t] => t.toInt?.map Op.ss
  | ["rs", i] => i.toNat?.map Op.rs
  | ["sticky"] => some Op.sticky
  | ["av", i, v] => i.toNat?.map fun i => Op.av i (v == "1")
  | ["upd", c] => (parsePairs c).map Op.upd
  | _ => none

def parseOps (s : String) : Option (List Op) := (s.splitOn "|").mapM parseOp

/-! ### the model side -/

def parseField (name : String) (s : String) : Option (List Int) :=
  match (s.splitOn ";").find? (·.startsWith (name ++ "=")) with
  | none => none
  | some f => parseInts (f.drop (name.length + 1)).toString


structure St where
  ids : List Nat
  l : List SS
  T : Int := 0
  table : Bool := false

def joinC (l : List String) : String := if l.isEmpty then "-" else ",".intercalate l

def showPick (ids : List Nat) : Option Nat → String
  | none => "e"
  | some i => toString (ids.getD i 9999)

/-- `BalanceRR.Update`: walk the old list in order (keep + UpdateWeight, or drop), then append the new members -/
def updateModel (conf : List (Nat × Int)) (implIds : List Nat) (st : St) : St :=
  let kept := updateKept 100 conf (st.ids.zip st.l)                  -- weightSS.final is NOT updated
  let added0 := updateAdded 100 conf (st.ids.zip st.l)               -- backend.SetRestart(true)
  -- new members are appended in Go MAP ORDER: an arbitrary permutation, taken from the implementation's list
  let implNew := implIds.filter fun id => added0.any (·.1 == id)
  let added := if implNew.length == added0.length && added0.all (fun p => implNew.contains p.1) then
      implNew.filterMap fun id => added0.find? (·.1 == id)
    else added0
  let all := kept ++ added
  { st with ids := all.map (·.1), l := all.map (·.2) }

/-- AddrInfo of backend `id` in the harness: "10.0.<id/250>.<id%250>:80"; BackendListSorter compares these STRINGS -/
def addrInfo (id : Nat) : String := "10.0." ++ toString (id / 250) ++ "." ++ toString (id % 250) ++ ":80"

def insertByAddr (x : Nat × SS) : List (Nat × SS) → List (Nat × SS)
  | [] => [x]
  | y :: ys => if addrInfo x.1 < addrInfo y.1 then x :: y :: ys else y :: insertByAddr x ys

/-- sort.Sort(BackendListSorter): the keys are distinct, so the result is unique -/
def sortByAddr : List (Nat × SS) → List (Nat × SS)
  | [] => []
  | x :: xs => insertByAddr x (sortByAddr xs)

def showDump (st : St) : String :=
  "c=" ++ joinC (st.l.map fun s => toString s.b.current)
    ++ ";w=" ++ joinC (st.l.map fun s => toString s.b.weight)
    ++ ";s=" ++ joinC (st.l.map fun s => if s.inSS then "1" else "0")
    ++ ";f=" ++ joinC (st.l.map fun s => toString s.final)
    ++ ";i=" ++ joinC (st.ids.map toString)

/-- the conf loaders (ClusterTableConfCheck) reject a sub-cluster without a backend of weight > 0 -/
def loaderRejects (c : List (Nat × Int)) : Bool := !(c.any fun p => decide (0 < p.2))

def modelOp (st : St) (res : String) : Op → St × String
  | .init ws table =>
    let st' : St := { ids := List.range ws.length, l := ws.map (initSS 100), table := table }
    (st', "ok;" ++ showDump st')
  | .bal k e =>
    let r := runSS (List.replicate k (st.T, 0, (e : Int) * nsPerSec)) st.l
    let st' := { st with l := r.2 }
    (st', "p=" ++ joinC (r.1.map (showPick st.ids)) ++ ";" ++ showDump st')
  | .av id v =>
    let i := st.ids.idxOf id
    ((if i < st.ids.length then
        { st with l := st.l.modify i fun s => { s with b := { s.b with avail := v } } } else st), "ok")
  | .upd c =>
    if st.table && loaderRejects c then (st, "rej;" ++ showDump st)     -- rejected reload: nothing changes
    else
      let st' := updateModel c (((parseField "i" res).getD []).map Int.toNat) st
      (st', "ok;" ++ showDump st')
  | .ss t => ({ st with T := t }, "ok")
  | .sticky =>
    let srt := sortByAddr (st.ids.zip st.l)
    let st' := { st with ids := srt.map (·.1), l := srt.map (·.2) }
    (st', "ok;" ++ showDump st')
  | .rs id =>
    let i := st.ids.idxOf id
    ((if i < st.ids.length then { st with l := st.l.modify i fun s => { s with restarted := true } } else st), "ok")

def modelRun (ops : List Op) (impl : String) : String :=
  let rs := impl.splitOn "|"
  let rs := rs ++ List.replicate (ops.length - rs.length) ""
  let r := (ops.zip rs).foldl (fun (acc : St × List String) (o : Op × String) =>
    let r := modelOp acc.1 o.2 o.1
    (r.1, r.2 :: acc.2)) (({ ids := [], l := [] } : St), [])
  "|".intercalate r.2.reverse

/-! ### the spec oracle: judges the IMPLEMENTATION's result string, knows nothing of `current` -/

structure Ent where
  id : Nat
  w : Int
  avail : Bool
  pend : Bool := false       -- restart flag set, slow start begins at the next call with slowStartTime > 0
  ramp : Bool := false       -- in slow start: no call has observed elapsed ≥ slowStartTime yet
  stale : Bool := false      -- its conf weight was changed by a reload (UpdateWeight does not update weightSS.final)
  staleRamp : Bool := false  -- … and it went through slow start afterwards
deriving BEq

structure OSt where
  cfg : List Ent := []
  T : Int := 0                     -- brr.slowStartTime
  phase : String := "steady"      -- steady | reload | flip | slowstart
  pristine : Bool := true          -- no Balance call since Init
  seq : Array (Option Nat) := #[]  -- results since the last change of weights / availability
  fails : List String := []
  lastC : List Int := []          -- `current` vector reported after the previous segment (aligned with cfg)
  table : Bool := false           -- history through BalTable: the loaders reject a conf without a positive weight
  dIds : List Nat := []           -- last dump of the implementation: ids in LIST order, current, weight
  dC : List Int := []
  dW : List Int := []
  fullWindows : Nat := 0           -- number of complete W-windows judged in steady phase with ≥ 2 eligible
  tags : List String := []

def countId (a : Array (Option Nat)) (lo hi : Nat) (id : Nat) : Nat :=
  (List.range (hi - lo)).foldl (fun c j => if a[lo + j]? == some (some id) then c + 1 else c) 0

/-- judge the results collected since the last change -/
def judge (o : OSt) : OSt :=
  if o.seq.isEmpty then o else
  let elig := o.cfg.filter fun e => e.avail && decide (0 < e.w)
  let fail (c : String) : OSt := { o with fails := (o.phase ++ "-" ++ c) :: o.fails, seq := #[] }
  if elig.isEmpty then
    if o.seq.all (· == none) then { o with seq := #[], tags := "alldown" :: o.tags } else fail "pick-when-all-down"
  else if o.seq.any (· == none) then fail "error-while-available"
  else if o.seq.any (fun x => match x with | some id => !(elig.any (·.id == id)) | none => true) then
    fail "pick-ineligible"
  else
    let W := (elig.foldl (fun (s : Int) (e : Ent) => s + e.w) 0).toNat
    let n := o.seq.size
    if n < W then
      -- no complete window: each backend at most `w` times (necessary for every containing window)
      if elig.all fun e => decide ((countId o.seq 0 n e.id : Int) ≤ e.w) then { o with seq := #[] }
      else fail "window"
    else
      -- every window exact  ⇔  first window exact ∧ the sequence has period W
      let firstOk := elig.all fun e => decide ((countId o.seq 0 W e.id : Int) = e.w)
      let perOk := (List.range (n - W)).all fun s => o.seq[s]? == o.seq[s + W]?
      if firstOk && perOk then
        { o with seq := #[],
                 fullWindows := o.fullWindows + (if o.phase == "steady" && elig.length ≥ 2 then n - W + 1 else 0) }
      else fail "window"

def parsePicks (s : String) : Option (Array (Option Nat)) :=
  -- s = "p=...;c=...;w=...;s=...;f=..."
  match s.splitOn ";" with
  | p :: _ =>
    if p.startsWith "p=" then
      let body := (p.drop 2).toString
      if body == "-" then some #[] else
      ((body.splitOn ",").mapM fun x => if x == "e" then some none else x.toNat?.map some).map List.toArray
    else none
  | _ => none

/-- the dump `c=..;w=..;..;i=..` of a result: ids in list order, current, weight -/
def parseDump (res : String) : Option (List Nat × List Int × List Int) :=
  match parseField "i" res, parseField "c" res, parseField "w" res with
  | some i, some c, some w =>
    if i.length == c.length && c.length == w.length && i.all (fun x => decide (0 ≤ x)) then some (i.map Int.toNat, c, w) else none
  | _, _, _ => none

def recordDump (o : OSt) (res : String) : OSt :=
  match parseDump res with
  | some (i, c, w) => { o with dIds := i, dC := c, dW := w }
  | none => { o with fails := "bad-result" :: o.fails }

/-- value of a dumped vector for backend `id` -/
def atId (ids : List Nat) (v : List Int) (id : Nat) : Option Int := (ids.zip v).lookup id

/-- sum of the eligible configured weights (the period) -/
def periodOf (cfg : List Ent) : Nat :=
  ((cfg.filter fun e => e.avail && decide (0 < e.w)).foldl (fun (s : Int) (e : Ent) => s + e.w) 0).toNat

def oracleOp (o : OSt) (op : Op) (res : String) : OSt :=
  match op with
  | .init ws table =>
    let o := judge o
    let o := recordDump o res
    -- Init contract: list order = conf order, weight = current = conf×100
    let okInit := o.dIds == List.range ws.length && o.dW == ws.map (· * 100) && o.dC == ws.map (· * 100)
    { o with cfg := (List.range ws.length).zip ws |>.map (fun (i, w) => ({ id := i, w := w, avail := true } : Ent)),
             phase := "steady", pristine := true, seq := #[], table := table,
             fails := if okInit then o.fails else "init-contract" :: o.fails }
  | .bal k e =>
    match parsePicks res, parseDump res with
    | some ps, some (dI, dCv, dWv) =>
      let o := { o with dIds := dI, dC := dCv, dW := dWv }
      -- align the reported vectors with the configuration BY ID (the list order is the implementation's business)
      let wv := o.cfg.filterMap fun x => atId dI dWv x.id
      let members := dI.length == o.cfg.length && wv.length == o.cfg.length
      let active := decide (o.T > 0) && o.cfg.any fun x => x.pend || x.ramp
      -- slow-start bookkeeping from the op alone: a pending restart starts ramping at the first call
      -- (it observes ~0 s), every ramping backend is finished by a call that observes e ≥ slowStartTime
      let o1 := if active then judge o else o
      let cfg1 := if active then o1.cfg.map fun x =>
          let started := x.pend
          let x := if x.pend then { x with pend := false, ramp := true, staleRamp := x.staleRamp || x.stale } else x
          let sees := if started then decide (k ≥ 2) else decide (k ≥ 1)
          if x.ramp && sees && decide ((e : Int) ≥ o.T) then { x with ramp := false } else x
        else o1.cfg
      -- the weights the implementation reports after the segment
      let wfails := ((cfg1.zip wv).filterMap fun (x, w) =>
        if x.ramp && decide (o.T > 0) then
          (if decide (0 ≤ x.w) && !(decide (0 ≤ w) && decide (w ≤ x.w * 100)) then
            some (if x.staleRamp then "slowstart-stale-final" else "slowstart-range") else none)
        else if w == x.w * 100 then none
        else if x.ramp then some "slowstart-frozen-by-disable"
        else if x.staleRamp then some "slowstart-stale-final"
        else if o.phase == "slowstart" || active then some "slowstart-weight"
        else some "weight")
      let wfails := if members then wfails else ["list-members"]
      if active then
        { o1 with cfg := cfg1, phase := "slowstart", seq := #[], pristine := false, lastC := [],
                  fails := wfails.reverse ++ o1.fails, tags := "ss" :: o1.tags }
      else
        -- consequences of C01_sum_heals / C01_offorbit_bounded_partial that must hold in EVERY phase once at least
        -- one call was made since the last change (o.seq non-empty) and slow start is over:
        --   Σ current = Σ weight over the eligible members, and  W·nᵢ ≤ k·wᵢ + max 0 (cᵢ − wᵢ + W − 1)
        let cv := o.cfg.filterMap fun x => atId dI dCv x.id
        let el := (o.cfg.zip (o.lastC.zip cv)).filter fun (x, _) => x.avail && decide (0 < x.w)
        let W : Int := el.foldl (fun (a : Int) (p : Ent × Int × Int) => a + p.1.w * 100) 0
        let k : Int := ps.size
        let hold := !o.seq.isEmpty && wfails.isEmpty && o.lastC.length == o.cfg.length && cv.length == o.cfg.length
          && !el.isEmpty
        let sumOk := el.foldl (fun (a : Int) (p : Ent × Int × Int) => a + p.2.2) 0 == W
        let startOk := el.foldl (fun (a : Int) (p : Ent × Int × Int) => a + p.2.1) 0 == W
        let boundOk := el.all fun (x, c0, _) =>
          let n : Int := countId ps 0 ps.size x.id
          let w := x.w * 100
          decide (W * n ≤ k * w + max 0 (c0 - w + W - 1))
        let extra := if !hold then [] else if !sumOk then [o.phase ++ "-sum-invariant"]
          else if startOk && !boundOk then [o.phase ++ "-share-bound"] else []
        { o with seq := o.seq ++ ps, pristine := false, lastC := cv, fails := extra ++ wfails.reverse ++ o.fails }
    | _, _ => { o with fails := ("bad-result") :: o.fails }
  | .ss t => { o with T := t, tags := "ss-set" :: o.tags }
  | .sticky =>
    let oldI := o.dIds
    let oldC := o.dC
    let oldW := o.dW
    let o := recordDump o res
    -- a sticky call may only re-order the list: same members, same weight and current per member
    let sameVals := o.dIds.length == oldI.length && oldI.all fun id =>
      atId o.dIds o.dC id == atId oldI oldC id && atId o.dIds o.dW id == atId oldI oldW id && (atId o.dIds o.dW id).isSome
    let o := if sameVals then o else { o with fails := "sticky-changed-state" :: o.fails }
    if o.dIds == oldI then { o with tags := "sticky" :: o.tags } else
    -- the list order = the tie-break order of smoothBalance changed.  At a period boundary of a steady run every
    -- current equals its weight and the run continues as the canonical run of the re-ordered list (exact windows);
    -- anywhere else the change of the tie-break rule in mid-period is a transient (known finding sticky-sort-window)
    let W := periodOf o.cfg
    let boundary := o.phase == "steady" && (o.pristine || (W > 0 && o.seq.size % W == 0))
    let o := judge o
    { o with phase := if boundary then o.phase else "sticky-sort", lastC := [],
             tags := (if boundary then "sticky-sort-boundary" else "sticky-sort") :: o.tags }
  | .rs id =>
    if o.cfg.any (·.id == id) then
      { o with cfg := o.cfg.map (fun x => if x.id == id then { x with pend := true } else x) }
    else o
  | .av id v =>
    match o.cfg.find? (·.id == id) with
    | none => o
    | some e =>
      if e.avail == v then o else
      -- a flip exactly at a period boundary of a steady run: the state is the initial state again (C01_period), so the
      -- eligible members are in the state Init gives them and the windows stay exact (C01_window_filtered)
      let W := periodOf o.cfg
      let boundary := o.phase == "steady" && (o.pristine || (W > 0 && o.seq.size % W == 0))
      let o := judge o
      { o with cfg := o.cfg.map (fun e => if e.id == id then { e with avail := v } else e),
               phase := if boundary then o.phase else "flip",
               tags := (if boundary && !o.pristine then "flip-boundary" else "flip") :: o.tags }
  | .upd c =>
    let oldI := o.dIds
    let oldC := o.dC
    let oldW := o.dW
    let o := recordDump o res
    let same := c.length == o.cfg.length && o.cfg.all fun e => c.lookup e.id == some e.w
    if o.table && loaderRejects c then
      -- a REJECTED reload (the loaders refuse a sub-cluster without a positive weight) must change nothing
      let ok := res.startsWith "rej;" && o.dIds == oldI && o.dC == oldC && o.dW == oldW
      { o with tags := "upd-rejected" :: o.tags, fails := if ok then o.fails else "rejected-reload-changed-state" :: o.fails }
    else if same then
      -- a reload with the IDENTICAL conf must be a no-op: same list order, same weights, same currents
      -- (only a member of weight ≤ 0 gets current = 0, it is ineligible anyway)
      let expC := (oldI.zip oldC).map fun (id, cur) =>
        match c.lookup id with
        | some w => if w ≤ 0 then 0 else cur
        | none => cur
      let ok := res.startsWith "ok;" && o.dIds == oldI && o.dW == oldW && o.dC == expC
      { o with tags := "upd-same" :: o.tags, fails := if ok then o.fails else "reload-same-not-noop" :: o.fails }
    else
    -- Update contract: surviving members keep their relative order and their current (0 if the new weight is ≤ 0),
    -- removed members are gone, new members follow (in any order) with current = weight; weight = conf×100 for all
    let keptIds := oldI.filter fun id => (c.lookup id).isSome
    let newIds := (c.map (·.1)).filter fun id => !oldI.contains id
    let orderOk := o.dIds.take keptIds.length == keptIds &&
      (o.dIds.drop keptIds.length).length == newIds.length && newIds.all fun id => (o.dIds.drop keptIds.length).contains id
    let valsOk := o.dIds.all fun id =>
      match c.lookup id with
      | none => false
      | some w =>
        atId o.dIds o.dW id == some (w * 100) &&
        (if oldI.contains id then atId o.dIds o.dC id == (if w ≤ 0 then some 0 else atId oldI oldC id)
         else atId o.dIds o.dC id == some (w * 100))
    let ok := res.startsWith "ok;" && orderOk && valsOk
    let o := judge o
    let kept := o.cfg.filterMap fun e => (c.lookup e.id).map fun w =>
      { e with w := w, stale := e.stale || (w != e.w) }
    let added := (c.filter fun (id, _) => !(o.cfg.any (·.id == id))).map fun (id, w) =>
      ({ id := id, w := w, avail := true, pend := true } : Ent)
    { o with cfg := kept ++ added, phase := "reload", tags := "upd" :: o.tags, lastC := [],
             fails := if ok then o.fails else "reload-contract" :: o.fails }

def oracleRun (ops : List Op) (impl : String) : OSt :=
  let rs := impl.splitOn "|"
  if rs.length != ops.length then { fails := ["bad-result"] } else
  judge ((ops.zip rs).foldl (fun o (p : Op × String) => oracleOp o p.1 p.2) {})

def dedup (l : List String) : List String := l.foldl (fun acc x => if acc.contains x then acc else acc ++ [x]) []

def run (op impl : String) : Ans :=
  match parseOps op with
  | none => { model := "bad-op", verdict := "skip" }
  | some ops =>
    let m := modelRun ops impl
    if impl == "timing-unstable" then { model := impl, verdict := "skip", tags := ["timing-unstable"] } else
    if impl.startsWith "PANIC" || impl.startsWith "HANG" then
      { model := m, verdict := "FAIL:crash", tags := ["crash"] }
    else
    let o := oracleRun ops impl
    let fs := dedup o.fails.reverse
    let n := match ops.head? with
      | some (.init ws _) => ws.length
      | _ => 0
    let sz := if n == 0 then "n0" else if n == 1 then "n1" else if n ≤ 4 then "n2-4" else "n5+"
    { model := m
      verdict := match fs with
        | [] => "ok"
        | f :: _ => "FAIL:" ++ f
      tags := [sz] ++ (if op.startsWith "ginit" then ["gslb"] else if op.startsWith "tinit" then ["table"] else []) ++ dedup o.tags ++ (if o.fullWindows > 0 then ["nt"] else []) }

end BfeVerif.C01
