/-
  C01 — model of `smoothBalance` (bfe_balance/bal_slb/bal_rr.go), `BackendRR.Init`,
  `BackendRR.UpdateWeight` / `BalanceRR.Update` (bfe_balance/bal_slb/backend_rr.go, bal_rr.go).
  Core-only.  Mirrors the Go code:

    func smoothBalance(backs BackendList) (*backend.BfeBackend, error) {
        var best *BackendRR
        total, max := 0, 0
        for _, backendRR := range backs {
            if !backend.Avail() || backendRR.weight <= 0 { continue }
            if best == nil || backendRR.current > max { best = backendRR; max = backendRR.current }
            total += backendRR.current            // PRE-increment current
            backendRR.current += backendRR.weight
        }
        if best == nil { return nil, fmt.Errorf("rr_bal:all backend is down") }
        best.current -= total                     // sum of CURRENTS, not of weights
        return best.backend, nil
    }
    Init:          weight = conf.Weight * 100; current = weight
    UpdateWeight:  weight = w * 100; if w <= 0 { current = 0 }   (current otherwise untouched)

  Go `int` is modelled as `Int` (no overflow: |current| < 2·ΣW is a consequence of the invariants,
  far below 2^63 for any real configuration; stated as an assumption).
-/
namespace BfeVerif.C01

structure Backend where
  weight : Int
  current : Int
  avail : Bool
deriving Repr, DecidableEq, Inhabited

/-- loop variables of `smoothBalance`: `best` (as index into `backs`), `max`, `total` -/
structure Acc where
  best : Option Nat
  max : Int
  total : Int
deriving Repr, DecidableEq

def Acc.init : Acc := ⟨none, 0, 0⟩

/-- negation of the `continue` test -/
def eligible (b : Backend) : Bool := !(!b.avail || decide (b.weight ≤ 0))

/-- loop body effect on the backend itself -/
def bump (b : Backend) : Backend :=
  if eligible b then { b with current := b.current + b.weight } else b

/-- the `for range` loop; `i` is the index of the head of the remaining list.
    Returns the updated backends and the final loop variables. -/
def scan : List Backend → Nat → Acc → List Backend × Acc
  | [], _, a => ([], a)
  | b :: bs, i, a =>
    if eligible b then
      let a1 : Acc := if a.best.isNone || decide (b.current > a.max) then ⟨some i, b.current, a.total⟩ else a
      let a2 : Acc := { a1 with total := a1.total + b.current }
      let r := scan bs (i + 1) a2
      ({ b with current := b.current + b.weight } :: r.1, r.2)
    else
      let r := scan bs (i + 1) a
      (b :: r.1, r.2)

def subTotal (t : Int) (b : Backend) : Backend := { b with current := b.current - t }

/-- one call of `smoothBalance`: `none` = error "all backend is down" (state untouched) -/
def smoothStep (bs : List Backend) : Option (Nat × List Backend) :=
  let r := scan bs 0 Acc.init
  match r.2.best with
  | none => none
  | some i => some (i, r.1.modify i (subTotal r.2.total))

def stepPick (bs : List Backend) : Option Nat := (smoothStep bs).map (·.1)

def stepState (bs : List Backend) : List Backend :=
  match smoothStep bs with
  | none => bs
  | some r => r.2

/-- state after `k` consecutive calls -/
def stateAfter : Nat → List Backend → List Backend
  | 0, bs => bs
  | k + 1, bs => stateAfter k (stepState bs)

/-- results of `k` consecutive calls (`none` = error) -/
def picks : Nat → List Backend → List (Option Nat)
  | 0, _ => []
  | k + 1, bs => stepPick bs :: picks k (stepState bs)

/-- `BackendRR.Init` for a configured weight; `scale` is the constant 100 of the source -/
def initBackend (scale : Int) (w : Int) : Backend := ⟨w * scale, w * scale, true⟩

/-- `BalanceRR.Init` (all backends start available: `NewBfeBackend` sets avail = true) -/
def initList (scale : Int) (ws : List Int) : List Backend := ws.map (initBackend scale)

/-- `UpdateWeight` -/
def updateWeight (scale : Int) (w : Int) (b : Backend) : Backend :=
  if w ≤ 0 then { b with weight := w * scale, current := 0 } else { b with weight := w * scale }

/-- `Update` restricted to "same members in the same order, new weights" (members that stay keep
    their `current`; removal / addition is handled by the driver on the list level) -/
def updateSame (scale : Int) (ws : List Int) (bs : List Backend) : List Backend :=
  List.zipWith (updateWeight scale) ws bs

def setAvail (i : Nat) (v : Bool) (bs : List Backend) : List Backend :=
  bs.modify i fun b => { b with avail := v }

/-- number of times index `i` is returned in a list of results -/
def cnt (i : Nat) (l : List (Option Nat)) : Nat := l.count (some i)

/-- the window of `len` results starting after `start` calls, from state `bs` -/
def window (start len : Nat) (bs : List Backend) : List (Option Nat) :=
  (picks (start + len) bs).drop start

/-! ### slow start (`checkSlowStart`, `initSlowStart`, `updateSlowStart`, `SetSlowStart`, `SetRestart`)

    func (brr *BalanceRR) checkSlowStart() {            // first thing Balance does (not for WrrSticky)
        if brr.slowStartTime > 0 {
            for _, backendRR := range brr.backends {
                if backend.GetRestart() { backend.SetRestart(false); backendRR.initSlowStart(brr.slowStartTime) }
                backendRR.updateSlowStart() } } }
    initSlowStart(T):  weightSS.slowStartTime = T
                       if T == 0 { inSlowStart = false } else { startTime = now; inSlowStart = true; weight = 1; current = 1 }
    updateSlowStart(): if inSlowStart {
                         cur := Duration(final) * time.Since(startTime)
                         if weightSS.slowStartTime != 0 { cur /= Duration(slowStartTime) * time.Second; weight = int(cur) }
                         else { weight = final }
                         if weight >= final { weight = final; inSlowStart = false } }
    Init: weightSS.final = weight (= conf*100).   UpdateWeight does NOT touch weightSS.final.

    The clock is an explicit parameter: `el` = time.Since(startTime) in nanoseconds, chosen per call
    (the harness moves `startTime` into the past through the verif hook; the code itself calls time.Now()). -/

structure SS where
  b : Backend
  final : Int          -- weightSS.final
  inSS : Bool          -- inSlowStart
  ssTime : Int         -- weightSS.slowStartTime (seconds)
  restarted : Bool     -- backend.restarted (set by the health checker / by Update for new members)
deriving Repr, DecidableEq, Inhabited

def nsPerSec : Int := 1000000000

def initSlowStart (T : Int) (s : SS) : SS :=
  if T = 0 then { s with ssTime := T, inSS := false }
  else { s with ssTime := T, inSS := true, b := { s.b with weight := 1, current := 1 } }

/-- `el` = time.Since(startTime) in ns; Go integer division truncates towards zero -/
def updateSlowStart (el : Int) (s : SS) : SS :=
  if s.inSS then
    let w := if s.ssTime ≠ 0 then (s.final * el).tdiv (s.ssTime * nsPerSec) else s.final
    if w ≥ s.final then { s with b := { s.b with weight := s.final }, inSS := false }
    else { s with b := { s.b with weight := w } }
  else s

/-- loop body of checkSlowStart; a backend whose slow start begins in this very call observes `el0`
    (a few microseconds), every other one `el` -/
def checkOne (T el0 el : Int) (s : SS) : SS :=
  if s.restarted then updateSlowStart el0 (initSlowStart T { s with restarted := false })
  else updateSlowStart el s

def checkSlowStart (T el0 el : Int) (l : List SS) : List SS :=
  if T > 0 then l.map (checkOne T el0 el) else l

def ssBackends (l : List SS) : List Backend := l.map (·.b)

/-- write the balancer's new weight/current back -/
def ssPut (l : List SS) (bs : List Backend) : List SS :=
  List.zipWith (fun s b => { s with b := b }) l bs

/-- one `Balance(WrrSmooth)` call with slow-start time `T` (brr.slowStartTime): result and new state -/
def balanceSS (T el0 el : Int) (l : List SS) : Option Nat × List SS :=
  let l1 := checkSlowStart T el0 el l
  (stepPick (ssBackends l1), ssPut l1 (stepState (ssBackends l1)))

def initSS (scale : Int) (w : Int) : SS := ⟨initBackend scale w, w * scale, false, 0, false⟩

/-- histories of `Balance` calls with slow start: per call `(T, el0, el)` -/
def runSS : List (Int × Int × Int) → List SS → List (Option Nat) × List SS
  | [], l => ([], l)
  | (T, el0, el) :: rest, l =>
    let r := balanceSS T el0 el l
    let q := runSS rest r.2
    (r.1 :: q.1, q.2)

/-! ### `BalanceRR.Update(conf)` on the list of (backend id, BackendRR)

    for index := 0; index < len(brr.backends); index++ {          // old list IN ORDER
        if bkConf, ok := confMap[key]; ok && match { backendRR.UpdateWeight(*bkConf.Weight); keep; delete(confMap, key) }
        else { backendRR.Release() } }
    for _, bkConf := range confMap { new BackendRR: Init; backend.SetRestart(true); append }   // Go MAP order
    brr.backends = backendsNew; brr.sorted = false; brr.next = 0                                                  -/

def updateKept (scale : Int) (conf : List (Nat × Int)) (l : List (Nat × SS)) : List (Nat × SS) :=
  l.filterMap fun p => (conf.lookup p.1).map fun w => (p.1, { p.2 with b := updateWeight scale w p.2.b })

/-- the new members in conf order; the implementation appends them in map-iteration order (any permutation) -/
def updateAdded (scale : Int) (conf : List (Nat × Int)) (l : List (Nat × SS)) : List (Nat × SS) :=
  (conf.filter fun p => !(l.any fun q => q.1 == p.1)).map fun p => (p.1, { initSS scale p.2 with restarted := true })

def backs (l : List (Nat × SS)) : List Backend := l.map (·.2.b)

end BfeVerif.C01
