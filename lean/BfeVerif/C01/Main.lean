import BfeVerif.C01.Driver
def main : IO Unit := BfeVerif.Proto.driverMain BfeVerif.C01.run
