import BfeVerif.C01.Model
/-! Lemmas for C01 (core Lean only). -/
namespace BfeVerif.C01

/-! ### sums over the eligible backends -/

def sumCur : List Backend → Int
  | [] => 0
  | b :: bs => (if eligible b then b.current else 0) + sumCur bs

def sumW : List Backend → Int
  | [] => 0
  | b :: bs => (if eligible b then b.weight else 0) + sumW bs

theorem eligible_bump (b : Backend) : eligible (bump b) = eligible b := by
  unfold bump; split <;> simp_all [eligible]

theorem eligible_subTotal (t : Int) (b : Backend) : eligible (subTotal t b) = eligible b := rfl

@[simp] theorem subTotal_weight (t : Int) (b : Backend) : (subTotal t b).weight = b.weight := rfl
@[simp] theorem subTotal_current (t : Int) (b : Backend) : (subTotal t b).current = b.current - t := rfl

theorem sumCur_map_bump (bs : List Backend) : sumCur (bs.map bump) = sumCur bs + sumW bs := by
  induction bs with
  | nil => simp [sumCur, sumW]
  | cons b bs ih =>
    simp only [List.map_cons, sumCur, sumW, eligible_bump, ih]
    by_cases h : eligible b = true
    · simp [h, bump] <;> omega
    · simp [h] <;> omega

theorem sumW_map_bump (bs : List Backend) : sumW (bs.map bump) = sumW bs := by
  induction bs with
  | nil => simp [sumW]
  | cons b bs ih =>
    simp only [List.map_cons, sumW, eligible_bump, ih]
    by_cases h : eligible b = true
    · simp [h, bump]
    · simp [h]

theorem sumCur_modify (t : Int) (bs : List Backend) (m : Nat) (b : Backend)
    (hm : bs[m]? = some b) (he : eligible b = true) :
    sumCur (bs.modify m (subTotal t)) = sumCur bs - t := by
  induction bs generalizing m with
  | nil => simp at hm
  | cons x xs ih =>
    cases m with
    | zero =>
      simp at hm; subst hm
      simp only [List.modify_zero_cons, sumCur, eligible_subTotal, he, if_true, subTotal_current]; omega
    | succ m =>
      simp at hm
      simp only [List.modify_succ_cons, sumCur, ih m hm]; omega

theorem sumW_modify (t : Int) (bs : List Backend) (m : Nat) :
    sumW (bs.modify m (subTotal t)) = sumW bs := by
  induction bs generalizing m with
  | nil => simp [sumW]
  | cons x xs ih =>
    cases m with
    | zero => simp only [List.modify_zero_cons, sumW, eligible_subTotal, subTotal_weight]; rfl
    | succ m => simp only [List.modify_succ_cons, sumW, ih m]

theorem sumCur_le_zero (bs : List Backend) (M : Int) (hM : M ≤ 0)
    (h : ∀ (j : Nat) b, bs[j]? = some b → eligible b = true → b.current ≤ M) : sumCur bs ≤ 0 := by
  induction bs with
  | nil => simp [sumCur]
  | cons x xs ih =>
    have h0 := h 0 x (by simp : (x :: xs)[0]? = some x)
    have ih' := ih (fun j b hj he => h (j + 1) b (by simpa using hj) he)
    simp only [sumCur]
    by_cases hx : eligible x = true
    · have := h0 hx; simp [hx]; omega
    · simp [hx]; omega

/-! ### what the loop computes -/

theorem scan_fst (bs : List Backend) (i : Nat) (a : Acc) : (scan bs i a).1 = bs.map bump := by
  induction bs generalizing i a with
  | nil => simp [scan]
  | cons b bs ih =>
    unfold scan
    by_cases h : eligible b = true
    · simp [h, ih, bump]
    · simp [h, ih, bump]

theorem scan_total (bs : List Backend) (i : Nat) (a : Acc) :
    (scan bs i a).2.total = a.total + sumCur bs := by
  induction bs generalizing i a with
  | nil => simp [scan, sumCur]
  | cons b bs ih =>
    unfold scan
    by_cases h : eligible b = true
    · simp only [h, if_true, sumCur, ih]
      split <;> (try simp) <;> omega
    · simp [h, ih, sumCur]

/-- loop invariant on `best`/`max` after the first `i` elements of `L` -/
def AccInv (L : List Backend) (i : Nat) (a : Acc) : Prop :=
  match a.best with
  | none => ∀ j b, j < i → L[j]? = some b → eligible b = false
  | some m => m < i ∧ ∃ b, L[m]? = some b ∧ eligible b = true ∧ b.current = a.max ∧
      ∀ j b', j < i → L[j]? = some b' → eligible b' = true → b'.current ≤ a.max

theorem scan_inv (L : List Backend) (bs : List Backend) (i : Nat) (a : Acc)
    (hd : L.drop i = bs) (ha : AccInv L i a) : AccInv L (i + bs.length) (scan bs i a).2 := by
  induction bs generalizing i a with
  | nil => simpa [scan] using ha
  | cons b bs ih =>
    have hi : L[i]? = some b := by
      have := congrArg (fun l => l[0]?) hd
      simpa using this
    have hd' : L.drop (i + 1) = bs := by
      have := congrArg List.tail hd
      simpa using this
    have hlen : i + (b :: bs).length = (i + 1) + bs.length := by simp; omega
    rw [hlen]
    unfold scan
    by_cases h : eligible b = true
    · simp only [h, if_true]
      apply ih (i + 1) _ hd'
      unfold AccInv at ha ⊢
      cases hb : a.best with
      | none =>
        simp only [Option.isNone_none, Bool.true_or, if_true]
        refine ⟨by omega, b, hi, h, rfl, ?_⟩
        intro j b' hj hj' he
        by_cases hji : j = i
        · subst hji; rw [hi] at hj'; cases hj'; exact Int.le_refl _
        · rw [hb] at ha; simp only [] at ha
          have := ha j b' (by omega) hj'; rw [this] at he; cases he
      | some m =>
        rw [hb] at ha; simp only [] at ha
        obtain ⟨hm, bm, hbm, hem, hcm, hall⟩ := ha
        by_cases hgt : b.current > a.max
        · simp only [Option.isNone_some, Bool.false_or, hgt, decide_true, if_true]
          refine ⟨by omega, b, hi, h, rfl, ?_⟩
          intro j b' hj hj' he
          by_cases hji : j = i
          · subst hji; rw [hi] at hj'; cases hj'; exact Int.le_refl _
          · have := hall j b' (by omega) hj' he; omega
        · simp only [Option.isNone_some, Bool.false_or, hgt, decide_false, Bool.false_eq_true, ↓reduceIte, hb]
          refine ⟨by omega, bm, hbm, hem, hcm, ?_⟩
          intro j b' hj hj' he
          by_cases hji : j = i
          · subst hji; rw [hi] at hj'; cases hj'; omega
          · exact hall j b' (by omega) hj' he
    · simp only [h]
      apply ih (i + 1) _ hd'
      unfold AccInv at ha ⊢
      cases hb : a.best with
      | none =>
        rw [hb] at ha; simp only [] at ha ⊢
        intro j b' hj hj'
        by_cases hji : j = i
        · subst hji; rw [hi] at hj'; cases hj'; simpa using h
        · exact ha j b' (by omega) hj'
      | some m =>
        rw [hb] at ha; simp only [] at ha ⊢
        obtain ⟨hm, bm, hbm, hem, hcm, hall⟩ := ha
        refine ⟨by omega, bm, hbm, hem, hcm, ?_⟩
        intro j b' hj hj' he
        by_cases hji : j = i
        · subst hji; rw [hi] at hj'; cases hj'; rw [he] at h; exact absurd rfl h
        · exact hall j b' (by omega) hj' he

theorem lt_of_getElem? {α} {l : List α} {j : Nat} {b : α} (h : l[j]? = some b) : j < l.length := by
  rcases Nat.lt_or_ge j l.length with h' | h'
  · exact h'
  · rw [List.getElem?_eq_none h'] at h; cases h

/-- one call, when it succeeds: the winner is eligible, has the greatest `current` among the eligible,
    and the new state is "everybody eligible += weight, winner -= Σ eligible current". -/
theorem smoothStep_some (bs : List Backend) (m : Nat) (bs' : List Backend)
    (h : smoothStep bs = some (m, bs')) :
    ∃ b, bs[m]? = some b ∧ eligible b = true ∧
      (∀ (j : Nat) b', bs[j]? = some b' → eligible b' = true → b'.current ≤ b.current) ∧
      bs' = (bs.map bump).modify m (subTotal (sumCur bs)) := by
  unfold smoothStep at h
  have hinv := scan_inv bs bs 0 Acc.init (by simp) (by unfold AccInv Acc.init; simp)
  simp only [] at h
  cases hb : (scan bs 0 Acc.init).2.best with
  | none => rw [hb] at h; simp at h
  | some m' =>
    rw [hb] at h
    simp only [Option.some.injEq, Prod.mk.injEq] at h
    obtain ⟨h1, h2⟩ := h
    subst h1
    unfold AccInv at hinv; rw [hb] at hinv; simp only [] at hinv
    obtain ⟨hm, b, hbm, he, hc, hall⟩ := hinv
    refine ⟨b, hbm, he, ?_, ?_⟩
    · intro j b' hj he'
      have hjl := lt_of_getElem? hj
      have := hall j b' (by omega) hj he'; omega
    · rw [← h2, scan_fst, scan_total]; simp [Acc.init]

theorem smoothStep_none (bs : List Backend) (h : smoothStep bs = none) :
    ∀ (j : Nat) b, bs[j]? = some b → eligible b = false := by
  unfold smoothStep at h
  have hinv := scan_inv bs bs 0 Acc.init (by simp) (by unfold AccInv Acc.init; simp)
  simp only [] at h
  cases hb : (scan bs 0 Acc.init).2.best with
  | none =>
    unfold AccInv at hinv; rw [hb] at hinv; simp only [] at hinv
    intro j b hj
    exact hinv j b (by have := lt_of_getElem? hj; omega) hj
  | some m' => rw [hb] at h; simp at h

/-! ### runs -/

theorem picks_add (a b : Nat) (s : List Backend) :
    picks (a + b) s = picks a s ++ picks b (stateAfter a s) := by
  induction a generalizing s with
  | zero => simp [picks, stateAfter]
  | succ a ih =>
    have : a + 1 + b = (a + b) + 1 := by omega
    rw [this]; simp only [picks, stateAfter, ih, List.cons_append]

theorem stateAfter_add (a b : Nat) (s : List Backend) :
    stateAfter (a + b) s = stateAfter b (stateAfter a s) := by
  induction a generalizing s with
  | zero => simp [stateAfter]
  | succ a ih =>
    have : a + 1 + b = (a + b) + 1 := by omega
    rw [this]; simp only [stateAfter, ih]

theorem picks_length (k : Nat) (s : List Backend) : (picks k s).length = k := by
  induction k generalizing s with
  | zero => simp [picks]
  | succ k ih => simp [picks, ih]

theorem picks_succ_right (k : Nat) (s : List Backend) :
    picks (k + 1) s = picks k s ++ [stepPick (stateAfter k s)] := by
  rw [picks_add]; simp [picks]

theorem stateAfter_succ_right (k : Nat) (s : List Backend) :
    stateAfter (k + 1) s = stepState (stateAfter k s) := by
  rw [stateAfter_add]; simp [stateAfter]

theorem cnt_append_singleton (i : Nat) (l : List (Option Nat)) (x : Option Nat) :
    cnt i (l ++ [x]) = cnt i l + (if x = some i then 1 else 0) := by
  unfold cnt
  rw [List.count_append]
  by_cases h : x = some i
  · subst h; simp
  · simp [h]

/-! ### the canonical orbit -/

/-- state after `k` calls with result list `l`, started from `current = weight = ws`, `W = Σ ws` -/
structure Canon (ws : List Int) (W : Int) (k : Nat) (l : List (Option Nat)) (bs : List Backend) : Prop where
  len : bs.length = ws.length
  pt : ∀ (i : Nat) w, ws[i]? = some w → bs[i]? = some ⟨w, ((k : Int) + 1) * w - W * cnt i l, true⟩
  lb : ∀ (i : Nat) w, ws[i]? = some w → ((k : Int) + 1) * w - W * cnt i l > w - W
  sc : sumCur bs = W
  sw : sumW bs = W
  range : ∀ x ∈ l, ∃ j, j < ws.length ∧ x = some j
  llen : l.length = k

theorem sum_init (ws : List Int) (hpos : ∀ w ∈ ws, 0 < w) :
    sumCur (initList 1 ws) = ws.sum ∧ sumW (initList 1 ws) = ws.sum := by
  induction ws with
  | nil => simp [initList, sumCur, sumW]
  | cons w ws ih =>
    have hw : 0 < w := hpos w (by simp)
    have ih' := ih (fun x hx => hpos x (by simp [hx]))
    unfold initList at ih' ⊢
    have he : eligible (initBackend 1 w) = true := by simp [eligible, initBackend]; omega
    simp only [List.map_cons, sumCur, sumW, he, if_true, ih'.1, ih'.2, List.sum_cons]
    simp [initBackend]

theorem canon_init (ws : List Int) (hpos : ∀ w ∈ ws, 0 < w) (hW : 0 < ws.sum) :
    Canon ws ws.sum 0 [] (initList 1 ws) where
  len := by simp [initList]
  pt := by
    intro i w hi
    simp [initList, hi, initBackend, cnt]
  lb := by intro i w hi; simp [cnt]; omega
  sc := (sum_init ws hpos).1
  sw := (sum_init ws hpos).2
  range := by simp
  llen := rfl

theorem canon_step (ws : List Int) (W : Int) (hpos : ∀ w ∈ ws, 0 < w) (hW : 0 < W)
    (k : Nat) (l : List (Option Nat)) (bs : List Backend) (h : Canon ws W k l bs) :
    ∃ m, stepPick bs = some m ∧ Canon ws W (k + 1) (l ++ [some m]) (stepState bs) := by
  cases hs : smoothStep bs with
  | none =>
    have hne := smoothStep_none bs hs
    have := sumCur_le_zero bs 0 (Int.le_refl 0) (fun j b hj he => by rw [hne j b hj] at he; cases he)
    have := h.sc; omega
  | some r =>
    obtain ⟨m, bs'⟩ := r
    obtain ⟨b, hbm, he, hmax, hbs'⟩ := smoothStep_some bs m bs' hs
    have hml : m < ws.length := by have := lt_of_getElem? hbm; have := h.len; omega
    have hbpos : 0 < b.current := by
      rcases Int.lt_or_le 0 b.current with h' | h'
      · exact h'
      · have := sumCur_le_zero bs b.current h' hmax
        have := h.sc; omega
    have hmapm : (bs.map bump)[m]? = some (bump b) := by simp [hbm]
    refine ⟨m, by simp [stepPick, hs], ?_⟩
    have hst : stepState bs = bs' := by simp [stepState, hs]
    rw [hst, hbs']
    constructor
    · simp [h.len]
    · intro i w hi
      have hw : 0 < w := hpos w (List.mem_of_getElem? hi)
      have hbi := h.pt i w hi
      have hel : eligible (⟨w, ((k : Int) + 1) * w - W * cnt i l, true⟩ : Backend) = true := by
        simp [eligible]; omega
      have hb1 : bump ⟨w, ((k : Int) + 1) * w - W * cnt i l, true⟩
          = ⟨w, ((k : Int) + 1) * w - W * cnt i l + w, true⟩ := by
        unfold bump; rw [hel]; rfl
      rw [List.getElem?_modify, List.getElem?_map, hbi, cnt_append_singleton, Option.map_some, hb1]
      by_cases hmi : m = i
      · subst hmi
        have e : ((k : Int) + 1) * w - W * cnt m l + w - sumCur bs
            = (((k + 1 : Nat) : Int) + 1) * w - W * ((cnt m l + 1 : Nat) : Int) := by
          rw [h.sc]; push_cast
          simp only [Int.add_mul, Int.mul_add, Int.one_mul, Int.mul_one]
          omega
        simp only [if_true, Option.map_eq_map, Option.map_some, subTotal]
        rw [e]
      · have hne : ¬ (some m = some i) := by simpa using hmi
        have e : ((k : Int) + 1) * w - W * cnt i l + w
            = (((k + 1 : Nat) : Int) + 1) * w - W * ((cnt i l + 0 : Nat) : Int) := by
          push_cast
          simp only [Int.add_mul, Int.mul_add, Int.one_mul, Int.mul_zero]
          omega
        simp only [hmi, hne, if_false]
        rw [e]; rfl
    · intro i w hi
      have hw : 0 < w := hpos w (List.mem_of_getElem? hi)
      have hlb := h.lb i w hi
      rw [cnt_append_singleton]
      by_cases hmi : m = i
      · subst hmi
        have hbi := h.pt m w hi
        rw [hbm] at hbi
        simp only [Option.some.injEq] at hbi
        have hc : b.current = ((k : Int) + 1) * w - W * cnt m l := by rw [hbi]
        simp only [if_true]
        push_cast
        simp only [Int.add_mul, Int.mul_add, Int.one_mul, Int.mul_one] at hc hlb ⊢
        omega
      · have : ¬ (some m = some i) := by simpa using hmi
        simp only [this, if_false]
        push_cast
        simp only [Int.add_mul, Int.mul_add, Int.one_mul, Int.mul_zero] at hlb ⊢
        omega
    · rw [sumCur_modify _ _ m (bump b) hmapm (by rw [eligible_bump]; exact he), sumCur_map_bump,
        h.sc, h.sw]; omega
    · rw [sumW_modify, sumW_map_bump, h.sw]
    · intro x hx
      rw [List.mem_append] at hx
      rcases hx with hx | hx
      · exact h.range x hx
      · simp at hx; exact ⟨m, hml, hx⟩
    · simp [h.llen]

theorem canon_run (ws : List Int) (hpos : ∀ w ∈ ws, 0 < w) (hW : 0 < ws.sum) (k : Nat) :
    Canon ws ws.sum k (picks k (initList 1 ws)) (stateAfter k (initList 1 ws)) := by
  induction k with
  | zero => exact canon_init ws hpos hW
  | succ k ih =>
    obtain ⟨m, hp, hc⟩ := canon_step ws ws.sum hpos hW k _ _ ih
    rw [picks_succ_right, stateAfter_succ_right, hp]
    exact hc

/-! ### counting -/

def sumTo : Nat → (Nat → Int) → Int
  | 0, _ => 0
  | n + 1, f => sumTo n f + f n

theorem sumTo_add (n : Nat) (f g : Nat → Int) :
    sumTo n (fun i => f i + g i) = sumTo n f + sumTo n g := by
  induction n with
  | zero => simp [sumTo]
  | succ n ih => simp only [sumTo, ih]; omega

theorem sumTo_congr (n : Nat) (f g : Nat → Int) (h : ∀ i, i < n → f i = g i) :
    sumTo n f = sumTo n g := by
  induction n with
  | zero => simp [sumTo]
  | succ n ih => simp only [sumTo]; rw [ih (fun i hi => h i (by omega)), h n (by omega)]

theorem sumTo_ind (n j : Nat) :
    sumTo n (fun i => if some j = some i then (1 : Int) else 0) = if j < n then 1 else 0 := by
  induction n with
  | zero => simp [sumTo]
  | succ n ih =>
    simp only [sumTo, ih]
    by_cases h1 : j < n
    · have : ¬ (some j = some n) := by simp; omega
      simp [h1, this]; omega
    · by_cases h2 : j = n
      · subst h2; simp
      · have : ¬ (some j = some n) := by simp; omega
        have h3 : ¬ (j < n + 1) := by omega
        simp [h1, this, h3]

theorem sumTo_cnt (n : Nat) (l : List (Option Nat)) (h : ∀ x ∈ l, ∃ j, j < n ∧ x = some j) :
    sumTo n (fun i => (cnt i l : Int)) = l.length := by
  induction l with
  | nil => simp [cnt]; induction n with
    | zero => simp [sumTo]
    | succ n ih => simp [sumTo, ih]
  | cons x l ih =>
    obtain ⟨j, hj, rfl⟩ := h x (by simp)
    have ih' := ih (fun y hy => h y (by simp [hy]))
    have : (fun i => ((cnt i (some j :: l) : Nat) : Int))
        = fun i => (cnt i l : Int) + (if some j = some i then (1 : Int) else 0) := by
      funext i
      unfold cnt
      rw [List.count_cons]
      by_cases hji : j = i
      · subst hji; simp
      · have : ¬ (some j = some i) := by simpa using hji
        simp [hji]
    rw [this, sumTo_add, ih', sumTo_ind]
    simp [hj]

theorem sumTo_mono (n : Nat) (f g : Nat → Int) (h : ∀ i, i < n → f i ≤ g i) :
    sumTo n f ≤ sumTo n g := by
  induction n with
  | zero => simp [sumTo]
  | succ n ih =>
    have := ih (fun i hi => h i (by omega))
    have := h n (by omega)
    simp only [sumTo]; omega

theorem sumTo_eq_of_le (n : Nat) (f g : Nat → Int) (h : ∀ i, i < n → f i ≤ g i)
    (hs : sumTo n f = sumTo n g) : ∀ i, i < n → f i = g i := by
  induction n with
  | zero => intro i hi; omega
  | succ n ih =>
    have h1 := sumTo_mono n f g (fun i hi => h i (by omega))
    have h2 := h n (by omega)
    simp only [sumTo] at hs
    intro i hi
    by_cases hin : i = n
    · subst hin; omega
    · exact ih (fun i hi => h i (by omega)) (by omega) i (by omega)

theorem sumTo_shift (n : Nat) (f : Nat → Int) :
    sumTo (n + 1) f = f 0 + sumTo n (fun i => f (i + 1)) := by
  induction n with
  | zero => simp [sumTo]
  | succ n ih => rw [sumTo, ih]; simp only [sumTo]; omega

theorem sumTo_getD (ws : List Int) : sumTo ws.length (fun i => ws.getD i 0) = ws.sum := by
  induction ws with
  | nil => simp [sumTo]
  | cons w ws ih =>
    rw [List.length_cons, sumTo_shift]
    simp only [List.getD_eq_getElem?_getD] at ih
    simp [ih]

/-- from the closed form and the lower bound: after `W` calls nobody was chosen more than `w` times -/
theorem canon_cnt_le (ws : List Int) (W : Int) (hW : 0 < W) (l : List (Option Nat)) (bs : List Backend)
    (h : Canon ws W W.toNat l bs) (i : Nat) (w : Int) (hi : ws[i]? = some w) : (cnt i l : Int) ≤ w := by
  have hlb := h.lb i w hi
  have hk : ((W.toNat : Nat) : Int) = W := by omega
  rw [hk] at hlb
  rcases Int.lt_or_le w (cnt i l : Int) with hc | hc
  · exfalso
    have h1 : w - (cnt i l : Int) + 1 ≤ 0 := by omega
    have h2 := Int.mul_le_mul_of_nonneg_left h1 (Int.le_of_lt hW)
    simp only [Int.mul_add, Int.mul_sub, Int.mul_zero, Int.mul_one, Int.add_mul, Int.one_mul] at h2 hlb
    omega
  · exact hc

theorem canon_cnt_eq (ws : List Int) (hW : 0 < ws.sum) (l : List (Option Nat)) (bs : List Backend)
    (h : Canon ws ws.sum ws.sum.toNat l bs) (i : Nat) (w : Int) (hi : ws[i]? = some w) :
    (cnt i l : Int) = w := by
  have hle : ∀ j, j < ws.length → (cnt j l : Int) ≤ ws.getD j 0 := by
    intro j hj
    have hj' : ws[j]? = some (ws.getD j 0) := by simp [List.getD, hj]
    exact canon_cnt_le ws ws.sum hW l bs h j _ hj'
  have hs : sumTo ws.length (fun j => (cnt j l : Int)) = sumTo ws.length (fun j => ws.getD j 0) := by
    rw [sumTo_cnt ws.length l h.range, sumTo_getD, h.llen]; omega
  have hil := lt_of_getElem? hi
  have := sumTo_eq_of_le ws.length _ _ hle hs i hil
  rw [this]; simp [List.getD, hi]

/-! ### scaling all weights and currents by a positive factor changes nothing observable -/

def scaleB (g : Int) (b : Backend) : Backend := ⟨g * b.weight, g * b.current, b.avail⟩
def scaleL (g : Int) (bs : List Backend) : List Backend := bs.map (scaleB g)
def scaleA (g : Int) (a : Acc) : Acc := ⟨a.best, g * a.max, g * a.total⟩

theorem mul_pos_iff' (g x : Int) (hg : 0 < g) : g * x ≤ 0 ↔ x ≤ 0 := by
  have := @Int.mul_lt_mul_left g 0 x hg
  simp only [Int.mul_zero] at this
  omega

theorem eligible_scaleB (g : Int) (hg : 0 < g) (b : Backend) : eligible (scaleB g b) = eligible b := by
  simp only [eligible, scaleB]
  have := mul_pos_iff' g b.weight hg
  by_cases h : b.weight ≤ 0
  · simp [h, this.mpr h]
  · have h' : ¬ g * b.weight ≤ 0 := fun hc => h (this.mp hc)
    simp [h, h']

theorem scan_scale (g : Int) (hg : 0 < g) (bs : List Backend) (i : Nat) (a : Acc) :
    scan (scaleL g bs) i (scaleA g a) = (scaleL g (scan bs i a).1, scaleA g (scan bs i a).2) := by
  induction bs generalizing i a with
  | nil => simp [scan, scaleL]
  | cons b bs ih =>
    unfold scaleL at ih ⊢
    rw [List.map_cons]
    unfold scan
    rw [eligible_scaleB g hg]
    by_cases h : eligible b = true
    · simp only [h, if_true]
      have hcmp : decide ((scaleB g b).current > (scaleA g a).max) = decide (b.current > a.max) := by
        have := @Int.mul_lt_mul_left g a.max b.current hg
        simp only [scaleB, scaleA, gt_iff_lt, decide_eq_decide]; exact this
      have hacc : ({ (if (scaleA g a).best.isNone || decide ((scaleB g b).current > (scaleA g a).max)
            then (⟨some i, (scaleB g b).current, (scaleA g a).total⟩ : Acc) else scaleA g a) with
            total := (if (scaleA g a).best.isNone || decide ((scaleB g b).current > (scaleA g a).max)
            then (⟨some i, (scaleB g b).current, (scaleA g a).total⟩ : Acc) else scaleA g a).total
              + (scaleB g b).current } : Acc)
          = scaleA g { (if a.best.isNone || decide (b.current > a.max)
            then (⟨some i, b.current, a.total⟩ : Acc) else a) with
            total := (if a.best.isNone || decide (b.current > a.max)
            then (⟨some i, b.current, a.total⟩ : Acc) else a).total + b.current } := by
        rw [hcmp]
        have : (scaleA g a).best = a.best := rfl
        rw [this]
        split <;> simp [scaleA, scaleB, Int.mul_add]
      rw [hacc, ih]
      simp [scaleB, Int.mul_add]
    · simp only [h]
      rw [ih]
      simp

theorem map_modify_comm {α} (f g h : α → α) (hc : ∀ x, g (f x) = f (h x)) (l : List α) (i : Nat) :
    (l.map f).modify i g = (l.modify i h).map f := by
  induction l generalizing i with
  | nil => simp
  | cons x xs ih =>
    cases i with
    | zero => simp [hc]
    | succ i => simp [ih]

theorem smoothStep_scale (g : Int) (hg : 0 < g) (bs : List Backend) :
    smoothStep (scaleL g bs) = (smoothStep bs).map (fun r => (r.1, scaleL g r.2)) := by
  have hsc : scan (scaleL g bs) 0 Acc.init
      = (scaleL g (scan bs 0 Acc.init).1, scaleA g (scan bs 0 Acc.init).2) := by
    have := scan_scale g hg bs 0 Acc.init
    have h0 : scaleA g Acc.init = Acc.init := by simp [Acc.init, scaleA]
    rw [h0] at this; exact this
  unfold smoothStep
  simp only []
  rw [hsc]
  have hbest : (scaleA g (scan bs 0 Acc.init).2).best = (scan bs 0 Acc.init).2.best := rfl
  simp only [hbest]
  cases hb : (scan bs 0 Acc.init).2.best with
  | none => simp
  | some m =>
    simp only [Option.map_some, Option.some.injEq, Prod.mk.injEq, true_and]
    unfold scaleL
    apply map_modify_comm
    intro x; simp [subTotal, scaleB, scaleA, Int.mul_sub]

theorem stepPick_scale (g : Int) (hg : 0 < g) (bs : List Backend) :
    stepPick (scaleL g bs) = stepPick bs := by
  unfold stepPick; rw [smoothStep_scale g hg]; cases smoothStep bs <;> simp

theorem stepState_scale (g : Int) (hg : 0 < g) (bs : List Backend) :
    stepState (scaleL g bs) = scaleL g (stepState bs) := by
  unfold stepState; rw [smoothStep_scale g hg]; cases smoothStep bs <;> simp

theorem picks_scale (g : Int) (hg : 0 < g) (k : Nat) (bs : List Backend) :
    picks k (scaleL g bs) = picks k bs := by
  induction k generalizing bs with
  | zero => simp [picks]
  | succ k ih => simp only [picks, stepPick_scale g hg, stepState_scale g hg, ih]

theorem stateAfter_scale (g : Int) (hg : 0 < g) (k : Nat) (bs : List Backend) :
    stateAfter k (scaleL g bs) = scaleL g (stateAfter k bs) := by
  induction k generalizing bs with
  | zero => simp [stateAfter]
  | succ k ih => simp only [stateAfter, stepState_scale g hg, ih]

theorem initList_scale (g : Int) (ws : List Int) : initList g ws = scaleL g (initList 1 ws) := by
  unfold initList scaleL
  rw [List.map_map]
  apply List.map_congr_left
  intro w _
  simp [initBackend, scaleB, Int.mul_comm]

theorem sum_pos (ws : List Int) (hpos : ∀ w ∈ ws, 0 < w) (hne : ws ≠ []) : 0 < ws.sum := by
  cases ws with
  | nil => exact absurd rfl hne
  | cons w ws =>
    have h0 : 0 < w := hpos w (by simp)
    have : ∀ l : List Int, (∀ x ∈ l, 0 < x) → 0 ≤ l.sum := by
      intro l hl
      induction l with
      | nil => simp
      | cons x xs ih =>
        have := hl x (by simp)
        have := ih (fun y hy => hl y (by simp [hy]))
        simp only [List.sum_cons]; omega
    have := this ws (fun x hx => hpos x (by simp [hx]))
    simp only [List.sum_cons]; omega

/-! ### ineligible members (unavailable or weight ≤ 0) are invisible -/

/-- index in the full list of the `q`-th `true` of an eligibility pattern -/
def embedP : List Bool → Nat → Nat
  | [], _ => 0
  | true :: _, 0 => 0
  | true :: p, q + 1 => 1 + embedP p q
  | false :: p, q => 1 + embedP p q

def pattern (bs : List Backend) : List Bool := bs.map eligible

def elig (bs : List Backend) : List Backend := bs.filter eligible

theorem scan_filter (bs : List Backend) (i r : Nat) (a a' : Acc)
    (hmax : a.max = a'.max) (hnone : a.best.isNone = a'.best.isNone)
    (hlt : ∀ q, a'.best = some q → q < r) :
    (scan bs i a).2.max = (scan (elig bs) r a').2.max ∧
    (scan bs i a).2.best.isNone = (scan (elig bs) r a').2.best.isNone ∧
    (∀ q, (scan (elig bs) r a').2.best = some q → q < r + (elig bs).length) ∧
    (∀ q, (scan (elig bs) r a').2.best = some q →
      if q < r then ((scan (elig bs) r a').2.best = a'.best ∧ (scan bs i a).2.best = a.best)
      else (scan bs i a).2.best = some (i + embedP (pattern bs) (q - r))) := by
  induction bs generalizing i r a a' with
  | nil =>
    simp only [elig, List.filter_nil, scan, List.length_nil, Nat.add_zero]
    refine ⟨hmax, hnone, hlt, ?_⟩
    intro q hq
    have := hlt q hq
    simp [this]
  | cons b bs ih =>
    by_cases h : eligible b = true
    · have hf : elig (b :: bs) = b :: elig bs := by simp [elig, h]
      have hp : pattern (b :: bs) = true :: pattern bs := by simp [pattern, h]
      rw [hf, hp]
      unfold scan
      simp only [h, if_true]
      -- the two accumulators after the head
      have hcond : (a.best.isNone || decide (b.current > a.max))
          = (a'.best.isNone || decide (b.current > a'.max)) := by rw [hmax, hnone]
      by_cases hc : (a'.best.isNone || decide (b.current > a'.max)) = true
      · have hc0 : (a.best.isNone || decide (b.current > a.max)) = true := by rw [hcond]; exact hc
        simp only [hc, hc0, if_true]
        have := ih (i + 1) (r + 1) ⟨some i, b.current, a.total + b.current⟩
          ⟨some r, b.current, a'.total + b.current⟩ rfl rfl
          (by intro q hq; simp at hq; omega)
        obtain ⟨h1, h2, h3, h4⟩ := this
        refine ⟨h1, h2, ?_, ?_⟩
        · intro q hq; have := h3 q hq; simp only [List.length_cons]; omega
        · intro q hq
          have h4q := h4 q hq
          have hr : ¬ q < r := by
            intro hqr
            have : q < r + 1 := by omega
            simp only [this, if_true] at h4q
            have := h4q.1; rw [hq] at this; simp at this; omega
          simp only [hr, if_false]
          by_cases hq1 : q < r + 1
          · simp only [hq1, if_true] at h4q
            have hqr : q = r := by omega
            subst hqr
            rw [h4q.2]; simp [embedP]
          · simp only [hq1, if_false] at h4q
            rw [h4q]
            have : q - r = (q - (r + 1)) + 1 := by omega
            rw [this]; simp only [embedP]
            congr 1; omega
      · have hc0 : ¬ (a.best.isNone || decide (b.current > a.max)) = true := by rw [hcond]; exact hc
        simp only [hc, hc0, Bool.false_eq_true, ↓reduceIte]
        have := ih (i + 1) (r + 1) { a with total := a.total + b.current }
          { a' with total := a'.total + b.current } hmax hnone
          (by intro q hq; have := hlt q hq; omega)
        obtain ⟨h1, h2, h3, h4⟩ := this
        refine ⟨h1, h2, ?_, ?_⟩
        · intro q hq; have := h3 q hq; simp only [List.length_cons]; omega
        · intro q hq
          have h4q := h4 q hq
          by_cases hq1 : q < r + 1
          · simp only [hq1, if_true] at h4q
            have hqr : q < r := by
              have := h4q.1; rw [hq] at this
              exact hlt q this.symm
            simp only [hqr, if_true]
            exact h4q
          · simp only [hq1, if_false] at h4q
            have hr : ¬ q < r := by omega
            simp only [hr, if_false]
            rw [h4q]
            have : q - r = (q - (r + 1)) + 1 := by omega
            rw [this]; simp only [embedP]
            congr 1; omega
    · have hf : elig (b :: bs) = elig bs := by simp [elig, h]
      have hp : pattern (b :: bs) = false :: pattern bs := by simp [pattern, h]
      rw [hf, hp]
      have hs : (scan (b :: bs) i a).2 = (scan bs (i + 1) a).2 := by
        conv => lhs; unfold scan
        simp [h]
      rw [hs]
      obtain ⟨h1, h2, h3, h4⟩ := ih (i + 1) r a a' hmax hnone hlt
      refine ⟨h1, h2, h3, ?_⟩
      intro q hq
      have h4q := h4 q hq
      by_cases hqr : q < r
      · simp only [hqr, if_true] at h4q ⊢; exact h4q
      · simp only [hqr, if_false] at h4q ⊢
        rw [h4q]; simp only [embedP]; congr 1; omega

theorem elig_map_bump (bs : List Backend) : elig (bs.map bump) = (elig bs).map bump := by
  induction bs with
  | nil => simp [elig]
  | cons b bs ih =>
    unfold elig at ih ⊢
    by_cases h : eligible b = true
    · simp [eligible_bump, h, ih]
    · simp [eligible_bump, h, ih]

theorem pattern_map_bump (bs : List Backend) : pattern (bs.map bump) = pattern bs := by
  simp [pattern, List.map_map, Function.comp_def, eligible_bump]

theorem sumCur_elig (bs : List Backend) : sumCur (elig bs) = sumCur bs := by
  induction bs with
  | nil => simp [elig]
  | cons b bs ih =>
    unfold elig at ih ⊢
    by_cases h : eligible b = true
    · simp [h, sumCur, ih]
    · simp [h, sumCur, ih]

theorem pattern_modify (t : Int) (l : List Backend) (j : Nat) :
    pattern (l.modify j (subTotal t)) = pattern l := by
  induction l generalizing j with
  | nil => simp [pattern]
  | cons x xs ih =>
    unfold pattern at ih ⊢
    cases j with
    | zero => simp [eligible_subTotal]
    | succ j => simp [ih j]

theorem elig_modify_embed (t : Int) (l : List Backend) (q : Nat) (hq : q < (elig l).length) :
    elig (l.modify (embedP (pattern l) q) (subTotal t)) = (elig l).modify q (subTotal t) := by
  induction l generalizing q with
  | nil => simp [elig] at hq
  | cons x xs ih =>
    by_cases h : eligible x = true
    · have hp : pattern (x :: xs) = true :: pattern xs := by simp [pattern, h]
      have hf : elig (x :: xs) = x :: elig xs := by simp [elig, h]
      rw [hf] at hq
      rw [hp, hf]
      cases q with
      | zero => simp [embedP, elig, eligible_subTotal, h]
      | succ q =>
        have hq' : q < (elig xs).length := by simp at hq; omega
        have e : 1 + embedP (pattern xs) q = embedP (pattern xs) q + 1 := by omega
        simp only [embedP, e, List.modify_succ_cons]
        have := ih q hq'
        unfold elig at this ⊢
        simp [h, this]
    · have hp : pattern (x :: xs) = false :: pattern xs := by simp [pattern, h]
      have hf : elig (x :: xs) = elig xs := by simp [elig, h]
      rw [hp]
      rw [hf] at hq ⊢
      have e : 1 + embedP (pattern xs) q = embedP (pattern xs) q + 1 := by omega
      simp only [embedP, e, List.modify_succ_cons]
      have := ih q hq
      unfold elig at this ⊢
      simp [h, this]

/-- one call on the full list = one call on the eligible sub-list, re-indexed -/
theorem step_filter (bs : List Backend) :
    stepPick bs = (stepPick (elig bs)).map (embedP (pattern bs)) ∧
    elig (stepState bs) = stepState (elig bs) ∧
    pattern (stepState bs) = pattern bs := by
  obtain ⟨_, h2, h3, h4⟩ := scan_filter bs 0 0 Acc.init Acc.init rfl rfl (by simp [Acc.init])
  unfold stepPick stepState smoothStep
  simp only []
  cases hb' : (scan (elig bs) 0 Acc.init).2.best with
  | none =>
    rw [hb'] at h2
    have hb : (scan bs 0 Acc.init).2.best = none := by simpa using h2
    simp [hb]
  | some q =>
    have hq := h3 q hb'
    have hb := h4 q hb'
    simp only [Nat.not_lt_zero, if_false, Nat.zero_add, Nat.sub_zero] at hb hq
    simp only [hb, Option.map_some, true_and]
    rw [scan_fst, scan_fst, scan_total, scan_total, sumCur_elig, pattern_modify, pattern_map_bump]
    refine ⟨?_, rfl⟩
    have := elig_modify_embed (Acc.init.total + sumCur bs) (bs.map bump) q
      (by rw [elig_map_bump]; simpa using hq)
    rw [pattern_map_bump, elig_map_bump] at this
    exact this

theorem picks_filter (k : Nat) (bs : List Backend) :
    picks k bs = (picks k (elig bs)).map (Option.map (embedP (pattern bs))) := by
  induction k generalizing bs with
  | zero => simp [picks]
  | succ k ih =>
    obtain ⟨h1, h2, h3⟩ := step_filter bs
    simp only [picks, List.map_cons]
    rw [ih (stepState bs), h1, h2, h3]

/-- number of eligible members -/
theorem embedP_lt (p : List Bool) (q : Nat) (hq : q < (p.filter id).length) :
    embedP p q < p.length ∧ p[embedP p q]? = some true := by
  induction p generalizing q with
  | nil => simp at hq
  | cons x xs ih =>
    cases x with
    | true =>
      cases q with
      | zero => simp [embedP]
      | succ q =>
        have := ih q (by simp at hq; omega)
        have e : 1 + embedP xs q = embedP xs q + 1 := by omega
        simp only [embedP, e, List.length_cons, List.getElem?_cons_succ]
        exact ⟨by omega, this.2⟩
    | false =>
      have := ih q (by simpa using hq)
      have e : 1 + embedP xs q = embedP xs q + 1 := by omega
      simp only [embedP, e, List.length_cons, List.getElem?_cons_succ]
      exact ⟨by omega, this.2⟩

theorem embedP_inj (p : List Bool) (q q' : Nat) (hq : q < (p.filter id).length)
    (hq' : q' < (p.filter id).length) (h : embedP p q = embedP p q') : q = q' := by
  induction p generalizing q q' with
  | nil => simp at hq
  | cons x xs ih =>
    cases x with
    | true =>
      cases q with
      | zero =>
        cases q' with
        | zero => rfl
        | succ q' => simp [embedP] at h <;> omega
      | succ q =>
        cases q' with
        | zero => simp [embedP] at h <;> omega
        | succ q' =>
          simp only [embedP] at h
          have := ih q q' (by simp at hq; omega) (by simp at hq'; omega) (by omega)
          omega
    | false =>
      simp only [embedP] at h
      exact ih q q' (by simpa using hq) (by simpa using hq') (by omega)

theorem cnt_map_embed (p : List Bool) (n : Nat) (hn : n = (p.filter id).length)
    (l : List (Option Nat)) (hl : ∀ x ∈ l, ∃ j, j < n ∧ x = some j) (i : Nat) (hi : i < n) :
    cnt (embedP p i) (l.map (Option.map (embedP p))) = cnt i l := by
  induction l with
  | nil => simp [cnt]
  | cons x xs ih =>
    obtain ⟨j, hj, rfl⟩ := hl x (by simp)
    have ih' := ih (fun y hy => hl y (by simp [hy]))
    unfold cnt at ih' ⊢
    simp only [List.map_cons, Option.map_some, List.count_cons, ih']
    by_cases hji : j = i
    · subst hji; simp
    · have : embedP p j ≠ embedP p i := fun hc =>
        hji (embedP_inj p j i (by omega) (by omega) hc)
      simp [hji, this]

theorem length_filter_pattern (bs : List Backend) : ((pattern bs).filter id).length = (elig bs).length := by
  induction bs with
  | nil => simp [pattern, elig]
  | cons b bs ih =>
    unfold pattern elig at ih ⊢
    by_cases h : eligible b = true
    · simp [h, ih]
    · simp [h, ih]

/-! ### any start state with Σ current = Σ weight (e.g. one call after a reload): bounded unfairness -/

def mkState (ps : List (Int × Int)) : List Backend := ps.map fun p => ⟨p.1, p.2, true⟩

/-- state after `k` calls from `mkState ps` (pairs weight, initial current), `W = Σ weight = Σ current` -/
structure GCanon (ps : List (Int × Int)) (W : Int) (k : Nat) (l : List (Option Nat)) (bs : List Backend) : Prop where
  len : bs.length = ps.length
  pt : ∀ (i : Nat) w c, ps[i]? = some (w, c) → bs[i]? = some ⟨w, c + (k : Int) * w - W * cnt i l, true⟩
  lb : ∀ (i : Nat) w c, ps[i]? = some (w, c) →
    c ≤ c + (k : Int) * w - W * cnt i l ∨ w - W + 1 ≤ c + (k : Int) * w - W * cnt i l
  sc : sumCur bs = W
  sw : sumW bs = W
  range : ∀ x ∈ l, ∃ j, j < ps.length ∧ x = some j
  llen : l.length = k

theorem gcanon_init (ps : List (Int × Int)) (W : Int) (hsc : sumCur (mkState ps) = W)
    (hsw : sumW (mkState ps) = W) : GCanon ps W 0 [] (mkState ps) where
  len := by simp [mkState]
  pt := by intro i w c hi; simp [mkState, hi, cnt]
  lb := by intro i w c hi; left; simp [cnt]
  sc := hsc
  sw := hsw
  range := by simp
  llen := rfl

theorem gcanon_step (ps : List (Int × Int)) (W : Int) (hpos : ∀ p ∈ ps, 0 < p.1) (hW : 0 < W)
    (k : Nat) (l : List (Option Nat)) (bs : List Backend) (h : GCanon ps W k l bs) :
    ∃ m, stepPick bs = some m ∧ GCanon ps W (k + 1) (l ++ [some m]) (stepState bs) := by
  cases hs : smoothStep bs with
  | none =>
    have hne := smoothStep_none bs hs
    have := sumCur_le_zero bs 0 (Int.le_refl 0) (fun j b hj he => by rw [hne j b hj] at he; cases he)
    have := h.sc; omega
  | some r =>
    obtain ⟨m, bs'⟩ := r
    obtain ⟨b, hbm, he, hmax, hbs'⟩ := smoothStep_some bs m bs' hs
    have hml : m < ps.length := by have := lt_of_getElem? hbm; have := h.len; omega
    have hbpos : 0 < b.current := by
      rcases Int.lt_or_le 0 b.current with h' | h'
      · exact h'
      · have := sumCur_le_zero bs b.current h' hmax
        have := h.sc; omega
    have hmapm : (bs.map bump)[m]? = some (bump b) := by simp [hbm]
    refine ⟨m, by simp [stepPick, hs], ?_⟩
    have hst : stepState bs = bs' := by simp [stepState, hs]
    rw [hst, hbs']
    constructor
    · simp [h.len]
    · intro i w c hi
      have hw : 0 < w := hpos (w, c) (List.mem_of_getElem? hi)
      have hbi := h.pt i w c hi
      have hel : eligible (⟨w, c + (k : Int) * w - W * cnt i l, true⟩ : Backend) = true := by
        simp [eligible]; omega
      have hb1 : bump ⟨w, c + (k : Int) * w - W * cnt i l, true⟩
          = ⟨w, c + (k : Int) * w - W * cnt i l + w, true⟩ := by
        unfold bump; rw [hel]; rfl
      rw [List.getElem?_modify, List.getElem?_map, hbi, cnt_append_singleton, Option.map_some, hb1]
      by_cases hmi : m = i
      · subst hmi
        have e : c + (k : Int) * w - W * cnt m l + w - sumCur bs
            = c + ((k + 1 : Nat) : Int) * w - W * ((cnt m l + 1 : Nat) : Int) := by
          rw [h.sc]; push_cast
          simp only [Int.add_mul, Int.mul_add, Int.one_mul, Int.mul_one]
          omega
        simp only [if_true, Option.map_eq_map, Option.map_some, subTotal]
        rw [e]
      · have hne : ¬ (some m = some i) := by simpa using hmi
        have e : c + (k : Int) * w - W * cnt i l + w
            = c + ((k + 1 : Nat) : Int) * w - W * ((cnt i l + 0 : Nat) : Int) := by
          push_cast
          simp only [Int.add_mul, Int.mul_add, Int.one_mul, Int.mul_zero]
          omega
        simp only [hmi, hne, if_false]
        rw [e]; rfl
    · intro i w c hi
      have hw : 0 < w := hpos (w, c) (List.mem_of_getElem? hi)
      have hlb := h.lb i w c hi
      rw [cnt_append_singleton]
      by_cases hmi : m = i
      · subst hmi
        have hbi := h.pt m w c hi
        rw [hbm] at hbi
        simp only [Option.some.injEq] at hbi
        have hc : b.current = c + (k : Int) * w - W * cnt m l := by rw [hbi]
        simp only [if_true]
        push_cast
        simp only [Int.add_mul, Int.mul_add, Int.one_mul, Int.mul_one] at hc hlb ⊢
        omega
      · have : ¬ (some m = some i) := by simpa using hmi
        simp only [this, if_false]
        push_cast
        simp only [Int.add_mul, Int.mul_add, Int.one_mul, Int.mul_zero] at hlb ⊢
        omega
    · rw [sumCur_modify _ _ m (bump b) hmapm (by rw [eligible_bump]; exact he), sumCur_map_bump,
        h.sc, h.sw]; omega
    · rw [sumW_modify, sumW_map_bump, h.sw]
    · intro x hx
      rw [List.mem_append] at hx
      rcases hx with hx | hx
      · exact h.range x hx
      · simp at hx; exact ⟨m, hml, hx⟩
    · simp [h.llen]

theorem gcanon_run (ps : List (Int × Int)) (W : Int) (hpos : ∀ p ∈ ps, 0 < p.1) (hW : 0 < W)
    (hsc : sumCur (mkState ps) = W) (hsw : sumW (mkState ps) = W) (k : Nat) :
    GCanon ps W k (picks k (mkState ps)) (stateAfter k (mkState ps)) := by
  induction k with
  | zero => exact gcanon_init ps W hsc hsw
  | succ k ih =>
    obtain ⟨m, hp, hc⟩ := gcanon_step ps W hpos hW k _ _ ih
    rw [picks_succ_right, stateAfter_succ_right, hp]
    exact hc

/-! ### slow start -/

theorem map_modify_invariant {α β} (g : α → β) (f : α → α) (h : ∀ x, g (f x) = g x) (l : List α) (i : Nat) :
    (l.modify i f).map g = l.map g := by
  induction l generalizing i with
  | nil => simp
  | cons x xs ih => cases i with
    | zero => simp [h]
    | succ i => simp [ih]

theorem bump_weight (b : Backend) : (bump b).weight = b.weight := by
  unfold bump; split <;> rfl

theorem bump_avail (b : Backend) : (bump b).avail = b.avail := by
  unfold bump; split <;> rfl

theorem stepState_weight (bs : List Backend) :
    (stepState bs).map (fun b => (b.weight, b.avail)) = bs.map (fun b => (b.weight, b.avail)) := by
  unfold stepState
  cases hs : smoothStep bs with
  | none => rfl
  | some r =>
    obtain ⟨m, bs'⟩ := r
    obtain ⟨_, _, _, _, hbs'⟩ := smoothStep_some bs m bs' hs
    simp only [hbs']
    rw [map_modify_invariant _ _ (fun x => by simp [subTotal])]
    simp [List.map_map, Function.comp_def, bump_weight, bump_avail]

theorem stepState_length (bs : List Backend) : (stepState bs).length = bs.length := by
  have := congrArg List.length (stepState_weight bs)
  simpa using this

theorem ssBackends_ssPut (l : List SS) (bs : List Backend) (h : bs.length = l.length) :
    ssBackends (ssPut l bs) = bs := by
  unfold ssBackends ssPut
  induction l generalizing bs with
  | nil => cases bs with
    | nil => rfl
    | cons b bs => simp at h
  | cons s l ih => cases bs with
    | nil => simp at h
    | cons b bs => simp at h; simp [ih bs h]

theorem nsPerSec_pos : 0 < nsPerSec := by decide

/-! ### reload with an identical conf -/

/-- what UpdateWeight does to a backend whose weight is unchanged -/
def normB (b : Backend) : Backend := if b.weight ≤ 0 then { b with current := 0 } else b

theorem eligible_normB (b : Backend) : eligible (normB b) = eligible b := by
  unfold normB; split <;> simp [eligible]

theorem normB_of_eligible (b : Backend) (h : eligible b = true) : normB b = b := by
  unfold normB
  have : ¬ b.weight ≤ 0 := by simp [eligible] at h; omega
  simp [this]

theorem elig_map_normB (bs : List Backend) : elig (bs.map normB) = elig bs := by
  induction bs with
  | nil => rfl
  | cons b bs ih =>
    unfold elig at ih ⊢
    by_cases h : eligible b = true
    · simp [List.filter_cons, eligible_normB, h, ih, normB_of_eligible b h]
    · simp [List.filter_cons, eligible_normB, h, ih]

theorem pattern_map_normB (bs : List Backend) : pattern (bs.map normB) = pattern bs := by
  simp [pattern, List.map_map, Function.comp_def, eligible_normB]

theorem picks_map_normB (k : Nat) (bs : List Backend) : picks k (bs.map normB) = picks k bs := by
  rw [picks_filter k (bs.map normB), picks_filter k bs, elig_map_normB, pattern_map_normB]

theorem updateWeight_same (g w : Int) (hg : 0 < g) (b : Backend) (hb : b.weight = w * g) :
    updateWeight g w b = normB b := by
  have hiff := mul_pos_iff' g w hg
  unfold updateWeight normB
  rw [hb]
  by_cases hw : w ≤ 0
  · have : w * g ≤ 0 := by rw [Int.mul_comm]; exact hiff.mpr hw
    simp [hw, this]
  · have : ¬ w * g ≤ 0 := by rw [Int.mul_comm]; exact fun h => hw (hiff.mp h)
    simp only [hw, this, if_false]
    cases b; simp_all

end BfeVerif.C01
