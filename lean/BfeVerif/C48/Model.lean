import BfeVerif.Generated.C48
/-!
  C48 — module callbacks run in order and verdicts are honoured.

  Model of
  * `bfe_module.HandlerList.Filter{Accept,Request,Forward,Response,Finish}` (`runChain`): walk the list front to
    back; an element of the right filter type is called and stops the walk unless it returns `BfeHandlerGoOn`;
    an element of another type stops the walk with the verdict seen so far (which is then GoOn); the response
    returned by `FilterRequest` is the one of the LAST filter called (the variable is overwritten on every call);
  * the reaction of `bfe_server` to the verdict at each callback point.  The statements of every `case` arm
    are NOT written here: they come from `BfeVerif.Generated.C48.armsT`, re-extracted from
    `reverseproxy.go` / `http_conn.go` on every check run, and are interpreted by `interp`.  What is written here is
    the skeleton those arms are embedded in: the order of the callback points in `conn.serve`, `serveRequest`,
    `ServeHTTP`, `clusterInvoke`, `FinishReq`, and the labels `response_got`, `send_response`.
-/
namespace BfeVerif.C48
open BfeVerif.Generated.C48 (Tok armsT)

/-! ### constants (checked against the generated const blocks by `C48_constants`) -/
def vFinish : Nat := 0
def vGoOn : Nat := 1
def vRedirect : Nat := 2
def vResponse : Nat := 3
def vClose : Nat := 4
def aKeepAlive : Nat := 0
def aCloseAfterReply : Nat := 1
def aCloseDirectly : Nat := 2
def pAccept : Nat := 0
def pHandshake : Nat := 1
def pBeforeLocation : Nat := 2
def pFoundProduct : Nat := 3
def pAfterLocation : Nat := 4
def pForward : Nat := 5
def pReadResponse : Nat := 6
def pRequestFinish : Nat := 7
def pFinish : Nat := 8

/-! ### HandlerList.Filter* -/

/-- one element of a HandlerList: a filter of the list's type returning verdict `v` (and, for request filters,
    a response iff `r`), or an element of another filter type. -/
inductive Elem where
  | f (v : Nat) (r : Bool)
  | bad
  /-- a filter of the list's type that panics when called -/
  | boom
  deriving DecidableEq, Repr

structure ChainRes where
  /-- the returned verdict -/
  ret : Nat
  /-- indices of the filters that were called, in call order -/
  calls : List Nat
  /-- index of the filter whose response is returned (FilterRequest), if any -/
  res : Option Nat
  /-- the last filter called panicked (Filter* has no recover: the panic reaches the caller) -/
  boom : Bool := false
  deriving DecidableEq, Repr

/-- the `LOOP:` of `FilterXxx`; `i` is the index of the head element. -/
def runChain : Nat → List Elem → ChainRes
  | _, [] => { ret := vGoOn, calls := [], res := none }
  | _, .bad :: _ => { ret := vGoOn, calls := [], res := none }
  | i, .boom :: _ => { ret := vGoOn, calls := [i], res := none, boom := true }
  | i, .f v r :: rest =>
    if v ≠ vGoOn then { ret := v, calls := [i], res := if r then some i else none }
    else
      let t := runChain (i + 1) rest
      { ret := t.ret, calls := i :: t.calls, res := if t.calls.isEmpty then (if r then some i else none) else t.res,
        boom := t.boom }

/-! ### the server's reaction -/

/-- what the client can receive for one request -/
inductive Resp where
  | module (pt idx : Nat)     -- the response object returned by filter `idx` at point `pt`
  | backend                   -- the backend's response
  | internalErr               -- bfe_basic.CreateInternalSrvErrResp (500)
  | redirect (pt idx : Nat)   -- Redirect(...) to the URL set by filter `idx` at point `pt`
  | default200                -- nothing was written by ServeHTTP: finishRequest writes an empty 200
  | redirectPlus (pt idx : Nat) -- status and Location of that redirect, but the body is NOT exactly the redirect note
  | other
  deriving DecidableEq, Repr

inductive Flow where
  | next | ret | toSend | toGot
  deriving DecidableEq, Repr

/-- local state of ServeHTTP / clusterInvoke / FinishReq -/
structure St where
  action : Nat := 0
  res : Option Resp := none
  wrote : Option Resp := none
  isRedirect : Bool := false
  backend : Nat := 0
  calls : List (Nat × Nat) := []
  /-- the generated arms contain something the skeleton below cannot interpret -/
  unknown : Bool := false
  /-- a filter panicked: everything up to conn.serve's deferred functions is unwound -/
  panicked : Bool := false
  deriving DecidableEq, Repr

/-- the arm of the verdict `switch` / `if` at point `pt` selected by verdict `v` (none: no arm, fall through) -/
def armFor (pt v : Nat) : Option (List Tok) :=
  (armsT.find? fun a => a.1 == pt && a.2.1.contains v).map (·.2.2)

def interp (pt idx : Nat) : List Tok → St → St × Flow
  | [], s => (s, .next)
  | .setAction a :: ts, s => interp pt idx ts { s with action := a }
  | .ret :: _, s => (s, .ret)
  | .gotoSend :: _, s => (s, .toSend)
  | .gotoGot :: _, s => (s, .toGot)
  | .redirect :: ts, s => interp pt idx ts { s with wrote := some (.redirect pt idx) }
  | .isRedirect :: ts, s => interp pt idx ts { s with isRedirect := true }
  | .unknown :: ts, s => interp pt idx ts { s with unknown := true }

/-- `hl = GetHandlerList(pt); retVal[,res] = hl.FilterXxx(..); switch retVal {..}` -/
def atPoint (ρ : Nat → ChainRes) (pt : Nat) (s : St) : St × Flow × ChainRes :=
  let r := ρ pt
  let s := { s with calls := s.calls ++ r.calls.map fun i => (pt, i) }
  if r.boom then ({ s with panicked := true }, .ret, r) else
  match armFor pt r.ret with
  | none => (s, .next, r)
  | some toks =>
    let (s', fl) := interp pt (r.calls.getLast?.getD 0) toks s
    (s', fl, r)

/-- label `send_response` -/
def sendResponse (s : St) : St :=
  if s.isRedirect then s
  else match s.res with
    | some r => { s with wrote := some r }
    | none => s

/-- label `response_got` (HandleReadResponse), falling through to `send_response` -/
def responseGot (ρ : Nat → ChainRes) (s : St) : St :=
  match s.res with
  | none => { s with unknown := true }   -- Go: nil dereference at `defer res.Body.Close()`
  | some _ =>
    let (s, fl, _) := atPoint ρ pReadResponse s
    match fl with
    | .ret => s
    | .toSend => sendResponse s
    | .next => sendResponse s
    | .toGot => { s with unknown := true }

/-- one of HandleBeforeLocation / HandleFoundProduct / HandleAfterLocation, then `k` -/
def reqPoint (ρ : Nat → ChainRes) (pt : Nat) (s : St) (k : St → St) : St :=
  let r := ρ pt
  let s := { s with res := r.res.map (Resp.module pt) }
  let (s, fl, _) := atPoint ρ pt s
  match fl with
  | .ret => s
  | .toSend => sendResponse s
  | .toGot => responseGot ρ s
  | .next => k s

/-- clusterInvoke with a healthy backend: HandleForward, then one RoundTrip -/
def clusterInvoke (ρ : Nat → ChainRes) (s : St) : St :=
  let (s, fl, _) := atPoint ρ pForward { s with action := 0, res := none }
  match fl with
  | .next => { s with backend := s.backend + 1, res := some .backend }
  | .ret => s
  | _ => { s with unknown := true }

/-- ReverseProxy.ServeHTTP for a request whose product and cluster are found -/
def serveHTTP (ρ : Nat → ChainRes) : St :=
  reqPoint ρ pBeforeLocation {} fun s =>
  reqPoint ρ pFoundProduct s fun s =>
  reqPoint ρ pAfterLocation s fun s =>
    let s := clusterInvoke ρ s
    if s.panicked then s else
    responseGot ρ { s with res := some (s.res.getD .internalErr) }

structure ReqOut where
  out : Option Resp
  keep : Bool
  backend : Nat
  calls : List (Nat × Nat)
  unknown : Bool
  panicked : Bool := false
  deriving DecidableEq, Repr

/-- conn.serveRequest: ServeHTTP, finishRequest / prepareForCloseConn, FinishReq -/
def serveRequest (ρ : Nat → ChainRes) : ReqOut :=
  let s := serveHTTP ρ
  if s.panicked then
    -- nothing of this request's response was finished; conn.serve's deferred functions run next
    { out := none, keep := false, backend := s.backend, calls := s.calls, unknown := s.unknown, panicked := true }
  else
  let out := if s.action == aCloseDirectly then none else some (s.wrote.getD .default200)
  let (s2, _, _) := atPoint ρ pRequestFinish { s with action := 0 }
  { out := out, keep := s.action == aKeepAlive && s2.action == aKeepAlive && !s2.panicked, backend := s2.backend,
    calls := s2.calls, unknown := s2.unknown, panicked := s2.panicked }

structure ConnOut where
  calls : List (Nat × Nat)
  outs : List Resp
  backend : Nat
  served : Nat
  unknown : Bool
  /-- the connection was closed when conn.serve returned -/
  closed : Bool := true
  deriving DecidableEq, Repr

def serveLoop (ρ : Nat → ChainRes) : Nat → ConnOut → ConnOut
  | 0, acc => acc
  | k + 1, acc =>
    let r := serveRequest ρ
    let acc := { acc with calls := acc.calls ++ r.calls, outs := acc.outs ++ r.out.toList,
                          backend := acc.backend + r.backend, served := acc.served + 1,
                          unknown := acc.unknown || r.unknown }
    if r.keep then serveLoop ρ k acc else acc

/-- conn.serve on a plain (non-TLS) connection carrying `n` pipelined requests, then EOF -/
def serveConnR (n : Nat) (ρ : Nat → ChainRes) : ConnOut :=
  let (s, fl, _) := atPoint ρ pAccept {}
  let acc : ConnOut := { calls := s.calls, outs := [], backend := 0, served := 0, unknown := s.unknown }
  let acc := if fl == .ret then acc else serveLoop ρ n acc
  -- deferred c.finish(): HandleFinish, verdict discarded
  -- `c.close()` is itself deferred inside that function (fix 95335f7): it also runs when a finish filter panics
  let z := ρ pFinish
  { acc with calls := acc.calls ++ z.calls.map fun i => (pFinish, i), closed := true }

/-- the connection with filter chains `ch pt` registered at the callback points: every point sees its chain only
    through the result of `HandlerList.FilterXxx` -/
def serveConn (n : Nat) (ch : Nat → List Elem) : ConnOut := serveConnR n fun pt => runChain 0 (ch pt)

/-! ### specification -/

def isGoOn : Elem → Bool
  | .f v _ => v == vGoOn
  | .bad => false
  | .boom => false

/-- what `FilterXxx` must do, stated without recursion over the walk: the filters before the first element that
    is not a GoOn-filter are called, plus that element if it is a filter; its verdict is returned; the response
    handed back is the one of the last filter called.  (`i` = index of the first element.) -/
def specOf (i : Nat) (p d : List Elem) : ChainRes :=
  match d with
  | .f v r :: _ => { ret := v, calls := List.range' i (p.length + 1), res := if r then some (i + p.length) else none }
  | .boom :: _ => { ret := vGoOn, calls := List.range' i (p.length + 1), res := none, boom := true }
  | _ => { ret := vGoOn, calls := List.range' i p.length,
           res := match p.getLast? with
             | some (.f _ true) => some (i + p.length - 1)
             | _ => none }

def specChainFrom (i : Nat) (c : List Elem) : ChainRes :=
  specOf i (c.takeWhile isGoOn) (c.dropWhile isGoOn)

def specChain (c : List Elem) : ChainRes := specChainFrom 0 c

/-- verdicts a callback point can meaningfully return (documented prototype has the means to express it):
    connection-level points have no request (only Close applies); ForwardFilter returns no response object;
    at HandleReadResponse `Response` = "send the response" is what GoOn does too; at HandleRequestFinish the reply
    is already sent; at HandleFinish the connection is already closed. -/
def applicable (pt v : Nat) : Bool :=
  if pt == pAccept || pt == pHandshake then v == vClose
  else if pt == pBeforeLocation || pt == pFoundProduct || pt == pAfterLocation then
    v == vFinish || v == vRedirect || v == vResponse || v == vClose
  else if pt == pForward || pt == pReadResponse then v == vFinish || v == vRedirect || v == vClose
  else if pt == pRequestFinish then v == vFinish || v == vClose
  else false

/-- points on the path of one request over a plain connection, in order -/
def path : List Nat := [pAccept, pBeforeLocation, pFoundProduct, pAfterLocation, pForward, pReadResponse, pRequestFinish]

/-- the first applicable non-GoOn verdict on the path: (point, verdict, index of the stopping filter, did it
    return a response) -/
def stops (pt v : Nat) : Bool := v != vGoOn && applicable pt v

def firstStopR (σ : Nat → ChainRes) : List Nat → Option (Nat × Nat × Nat × Option Nat)
  | [] => none
  | pt :: rest =>
    let r := σ pt
    if stops pt r.ret then some (pt, r.ret, r.calls.getLast?.getD 0, r.res)
    else firstStopR σ rest

def firstStop (ch : Nat → List Elem) (l : List Nat) : Option (Nat × Nat × Nat × Option Nat) :=
  firstStopR (fun pt => specChain (ch pt)) l

def quietAtR (σ : Nat → ChainRes) (pt : Nat) : Bool := !stops pt (σ pt).ret

def quietAt (ch : Nat → List Elem) (pt : Nat) : Bool := quietAtR (fun pt => specChain (ch pt)) pt

/-- bytes of one request of the harness: `GET /r<i> HTTP/1.1\r\nHost: example.org\r\n\r\n` -/
def reqBytes : Nat := 39

/-- The documented reaction (docs/en_us/development/module/bfe_callback.md: Finish = send response, then close;
    Redirect = redirect directly; Response = send response; Close = close without sending response), judged on
    what the client saw (every response is compared byte for byte: status, source marker / Location, and the whole
    body — a redirect whose body is anything else than the redirect note is `redirectPlus`) (`outs`), the number of backend contacts and the client bytes never read. -/
def judgeR (n : Nat) (σ : Nat → ChainRes) (outs : List Resp) (backend unread : Nat) : Option String :=
  if n == 0 then
    (if outs.isEmpty && backend == 0 then none else some "output-without-request")
  else
  match firstStopR σ path with
  | none =>
    if outs.length == n && unread == 0 then none else some "quiet-not-served"
  | some (pt, v, idx, res) =>
    let hasRes := res.isSome
    let resp := Resp.module pt (res.getD 0)
    let closedAfterFirst := unread == reqBytes * (n - 1)
    let preForward := pt == pBeforeLocation || pt == pFoundProduct || pt == pAfterLocation
    if pt == pAccept then
      -- Close at accept
      if outs.isEmpty && backend == 0 && unread == reqBytes * n then none else some "close-accept"
    else if v == vClose then
      if pt == pRequestFinish then
        (if closedAfterFirst then none else some "close-ignored-requestfinish")
      else if outs.isEmpty && closedAfterFirst && (backend == 0 || pt == pReadResponse) then none
      else if pt == pForward then some "close-ignored-forward"
      else if pt == pReadResponse then some "close-ignored-readresponse"
      else some "close-not-honoured"
    else if v == vFinish then
      if !(outs.length == 1 && closedAfterFirst) then some "finish-no-reply-or-no-close"
      else if (preForward || pt == pForward) && backend != 0 then some "finish-backend-contacted"
      else if preForward && hasRes && quietAtR σ pReadResponse && outs != [resp] then some "finish-drops-response"
      else if pt == pReadResponse && outs != [.backend] then some "finish-drops-response"
      else none
    else if v == vRedirect then
      if pt == pForward then
        (if backend == 0 && outs.head? == some (.redirect pt idx) then none else some "redirect-ignored-forward")
      else if outs.head? == some (.redirectPlus pt idx) then some "redirect-not-exact"
      else if outs.head? != some (.redirect pt idx) then some "redirect-not-sent"
      else if preForward && backend != 0 then some "redirect-backend-contacted"
      else none
    else
      -- Response at BeforeLocation / FoundProduct / AfterLocation
      if backend != 0 then some "response-backend-contacted"
      else if quietAtR σ pReadResponse && outs.head? != some resp then some "response-not-sent"
      else none

def judge (n : Nat) (ch : Nat → List Elem) (outs : List Resp) (backend unread : Nat) : Option String :=
  judgeR n (fun pt => specChain (ch pt)) outs backend unread

/-- one filter returning `v` (with a response object iff `r`) at point `pt`, nothing registered elsewhere -/
def single (pt v : Nat) (r : Bool) : Nat → List Elem := fun q => if q == pt then [.f v r] else []

/-- the model's behaviour for two pipelined requests with `single pt v r` satisfies the documented reaction -/
def rowOK (pt v : Nat) (r : Bool) : Bool :=
  let o := serveConn 2 (single pt v r)
  !o.unknown && (judge 2 (single pt v r) o.outs o.backend (reqBytes * (2 - o.served))).isNone

def rowClass (pt v : Nat) (r : Bool) : Option String :=
  let o := serveConn 2 (single pt v r)
  judge 2 (single pt v r) o.outs o.backend (reqBytes * (2 - o.served))

/-- callback points reachable on a plain connection, and the defined verdicts -/
def allPoints : List Nat := [pAccept, pBeforeLocation, pFoundProduct, pAfterLocation, pForward, pReadResponse, pRequestFinish, pFinish]
def allVerdicts : List Nat := [vFinish, vGoOn, vRedirect, vResponse, vClose]

/-- rows (point, verdict, response returned) where the code does not do what the documentation says -/
def divergentRows : List (Nat × Nat × Bool) :=
  [ (pForward, vClose, false), (pForward, vClose, true), (pForward, vRedirect, false), (pForward, vRedirect, true),
    (pReadResponse, vClose, false), (pReadResponse, vClose, true),
    (pRequestFinish, vClose, false), (pRequestFinish, vClose, true),
    (pReadResponse, vFinish, false), (pReadResponse, vFinish, true),
    (pBeforeLocation, vFinish, true), (pFoundProduct, vFinish, true), (pAfterLocation, vFinish, true) ]

end BfeVerif.C48
