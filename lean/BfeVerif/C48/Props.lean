import BfeVerif.C48.General
/-!
  C48 — property theorems.

  Property: at each callback point, module filters run in registration order and the first verdict other than
  continue stops the chain; Close sends nothing to the client, Redirect / Response send exactly that response
  without contacting a backend, Finish closes the connection after replying.
-/
namespace BfeVerif.C48
open BfeVerif.Generated

/-- **Order and stop** (all chains, all lengths): `HandlerList.FilterXxx` calls exactly the filters up to and
    including the first one that does not return GoOn, in registration order, returns that verdict (GoOn if there is
    none, also when an element of a foreign filter type ends the walk), and `FilterRequest` hands back the response of
    the last filter called. -/
theorem C48_order_stop (c : List Elem) : runChain 0 c = specChain c :=
  runChain_eq_spec c 0

/-- nothing is called after the first non-GoOn element, and calls are a prefix in registration order -/
theorem C48_nothing_after_stop (c : List Elem) :
    (runChain 0 c).calls = List.range' 0 (runChain 0 c).calls.length ∧
    (runChain 0 c).calls.length ≤ (c.takeWhile isGoOn).length + 1 := by
  rw [C48_order_stop]
  unfold specChain specChainFrom specOf
  split <;> simp

/-- the generated const blocks carry the values the model uses -/
theorem C48_constants :
    C48.verdicts.map (·.2) = [vFinish, vGoOn, vRedirect, vResponse, vClose] ∧
    C48.callbackPoints.map (·.2) = [pAccept, pHandshake, pBeforeLocation, pFoundProduct, pAfterLocation, pForward,
      pReadResponse, pRequestFinish, pFinish] ∧
    C48.actions.map (·.2) = [aKeepAlive, aCloseAfterReply, aCloseDirectly] := by decide

/-- every statement of every extracted arm is one the skeleton interprets; every callback point occurs exactly once
    in bfe_server and its block is guarded by nothing but `hl != nil` (`pointGuards = []`: no point is conditional), HandleFinish's verdict is discarded, the others are inspected; ServeHTTP visits its four points in
    the order the skeleton assumes. -/
theorem C48_reactions_understood :
    C48.armsT.all (fun a => !a.2.2.contains .unknown) = true ∧
    C48.pointsT = [(pAccept, true), (pHandshake, true), (pBeforeLocation, true), (pFoundProduct, true),
      (pAfterLocation, true), (pForward, true), (pReadResponse, true), (pRequestFinish, true), (pFinish, false)] ∧
    C48.serveHTTPOrder.length = 4 ∧ C48.pointGuards = [] := by decide

/-- **The skeleton is the source's**: in every function the model's skeleton mirrors, the callback points, the labels
    `response_got` / `send_response` and the calls (findProduct, findCluster, clusterInvoke, RoundTrip, sendResponse,
    ServeHTTP, prepareForCloseConn / finishRequest, FinishReq, readRequest, serveRequest, deferred finish/close) occur
    in exactly the order `serveConnR` / `serveRequest` / `serveHTTP` / `clusterInvoke` perform them, and the guards
    (`!isRedirect && res != nil`, `err != nil || res == nil`, `ret1 == closeDirectly`, the keep-alive conjunction and
    the loop break) are textually present — re-extracted from the current source on every run.  (Which `return` / `goto`
    ends each arm is part of `armsT`, see `C48_reactions_understood`.) -/
theorem C48_skeleton_as_modelled :
    C48.events =
      [("conn.serve", ["call:finish", "point:Accept", "call:Handshake", "point:Handshake", "call:readRequest",
          "call:serveRequest"]),
       ("conn.serveRequest", ["call:ServeHTTP", "call:prepareForCloseConn", "call:finishRequest", "call:FinishReq"]),
       ("conn.finish", ["point:Finish"]),
       ("ReverseProxy.ServeHTTP", ["point:BeforeLocation", "call:findProduct", "point:FoundProduct", "call:findCluster",
          "point:AfterLocation", "call:clusterInvoke", "label:response_got", "point:ReadResponse", "label:send_response",
          "call:sendResponse"]),
       ("ReverseProxy.clusterInvoke", ["call:Balance", "point:Forward", "call:RoundTrip"]),
       ("ReverseProxy.FinishReq", ["point:RequestFinish"])] ∧
    C48.guards.all (·.2) = true := by decide

/-- `interp` never touches the call trace -/
theorem interp_calls (pt idx : Nat) (toks : List C48.Tok) (s : St) : (interp pt idx toks s).1.calls = s.calls := by
  induction toks generalizing s with
  | nil => rfl
  | cons t ts ih => cases t <;> simp [interp, ih]

/-- **HandleRequestFinish runs for every request, on every path, exactly once and last**: whatever the chains at the
    other points return (Close, Finish, Redirect, Response, anything) — unless a filter panicked — the trace of one request
    ends with exactly the calls `HandlerList.FilterResponse` makes on the RequestFinish chain. -/
theorem C48_request_finish_always_runs (ρ : Nat → ChainRes) (h : (serveHTTP ρ).panicked = false) :
    (serveRequest ρ).calls = (serveHTTP ρ).calls ++ (ρ pRequestFinish).calls.map (fun i => (pRequestFinish, i)) := by
  simp only [serveRequest, h, Bool.false_eq_true, ↓reduceIte, atPoint]
  split
  · rfl
  · split
    · rfl
    · simp [interp_calls]

/-- **HandleFinish runs exactly once per connection, last** (it is deferred: also after Close at accept and after a
    panic), and HandleAccept first. -/
theorem C48_accept_first_finish_last (n : Nat) (ρ : Nat → ChainRes) :
    ∃ mid, (serveConnR n ρ).calls =
      (ρ pAccept).calls.map (fun i => (pAccept, i)) ++ mid ++ (ρ pFinish).calls.map (fun i => (pFinish, i)) := by
  have hloop : ∀ k (acc : ConnOut), ∃ m, (serveLoop ρ k acc).calls = acc.calls ++ m := by
    intro k
    induction k with
    | zero => intro acc; exact ⟨[], by simp [serveLoop]⟩
    | succ k ih =>
      intro acc
      simp only [serveLoop]
      split
      · obtain ⟨m, hm⟩ := ih { acc with calls := acc.calls ++ (serveRequest ρ).calls, outs := acc.outs ++ (serveRequest ρ).out.toList, backend := acc.backend + (serveRequest ρ).backend, served := acc.served + 1, unknown := acc.unknown || (serveRequest ρ).unknown }
        exact ⟨(serveRequest ρ).calls ++ m, by rw [hm]; simp⟩
      · exact ⟨(serveRequest ρ).calls, rfl⟩
  have hA : ∀ s : St, s.calls = [] → (atPoint ρ pAccept s).1.calls = (ρ pAccept).calls.map (fun i => (pAccept, i)) := by
    intro s hs
    simp only [atPoint, hs, List.nil_append]
    split
    · rfl
    · split
      · rfl
      · simp [interp_calls]
  simp only [serveConnR]
  split
  · obtain ⟨m, hm⟩ := hloop n { calls := (atPoint ρ pAccept {}).1.calls, outs := [], backend := 0, served := 0, unknown := (atPoint ρ pAccept {}).1.unknown }
    first
      | exact ⟨[], by simp [hA {} rfl]⟩
      | exact ⟨m, by simp_all [hA {} rfl]⟩
  · obtain ⟨m, hm⟩ := hloop n { calls := (atPoint ρ pAccept {}).1.calls, outs := [], backend := 0, served := 0, unknown := (atPoint ρ pAccept {}).1.unknown }
    first
      | exact ⟨m, by simp_all [hA {} rfl]⟩
      | exact ⟨[], by simp [hA {} rfl]⟩

/-- a panicking filter (model; the real code is driven on the same rows): the connection is closed, the panicking
    request gets no reply unless the panic is at HandleRequestFinish (reply already sent), later pipelined requests are
    not served, HandleFinish still runs; a panic INSIDE HandleFinish closes the connection too (since fix 95335f7;
    before it `c.close()` was skipped, class `conn-left-open-after-panic-in-finish`). -/
theorem C48_panic_rows :
    (∀ pt ∈ [pAccept, pBeforeLocation, pFoundProduct, pAfterLocation, pForward, pReadResponse],
      let o := serveConn 3 (fun q => if q == pt then [.boom] else if q == pFinish then [.f 1 false] else []);
      o.outs = [] ∧ o.closed = true ∧ o.calls.getLast? = some (pFinish, 0)) ∧
    (let o := serveConn 3 (fun q => if q == pRequestFinish then [.boom] else []);
      o.outs = [.backend] ∧ o.closed = true ∧ o.served = 1) ∧
    (let o := serveConn 3 (fun q => if q == pFinish then [.boom] else []);
      o.outs = [.backend, .backend, .backend] ∧ o.closed = true) := by decide

/-- HandleHandshake (TLS connections; not driven by the harness) reacts to every verdict exactly like HandleAccept -/
theorem C48_handshake_like_accept : ∀ v ∈ allVerdicts, armFor pHandshake v = armFor pAccept v := by decide

/-- the full table statement: for every callback point and verdict the reaction is the documented one
    (for verdicts a point cannot express, `applicable = false`, the verdict is ignored and the request is served). -/
def C48_table_full : Prop :=
  ∀ pt ∈ allPoints, ∀ v ∈ allVerdicts, ∀ r : Bool, (v = vResponse → r = true) → rowOK pt v r = true

/-- **Reaction table** over the arms extracted from the current source: documented reaction at every
    (point, verdict) except the rows listed in `divergentRows`. -/
theorem C48_table_partial :
    ∀ pt ∈ allPoints, ∀ v ∈ allVerdicts, ∀ r : Bool, (v = vResponse → r = true) →
      (pt, v, r) ∉ divergentRows → rowOK pt v r = true := by decide

/-- every listed row really diverges (so the exception list is tight) … -/
theorem C48_witness_divergent : ∀ row ∈ divergentRows, rowOK row.1 row.2.1 row.2.2 = false := by decide

/-- … and the full statement is false for the code as it is. -/
theorem C48_table_full_false : ¬ C48_table_full := by
  intro h
  have := h pForward (by decide) vClose (by decide) false (by decide)
  revert this
  decide

/-- is the first applicable stopping verdict on the request path one of the rows of `divergentRows`? -/
def divergentFirst (ch : Nat → List Elem) : Bool := divergentStop fun pt => specChain (ch pt)

/-- **The table lifted to every configuration**: for EVERY assignment of filter chains (any length, any verdict
    values, foreign-type elements) to every callback point and EVERY number `n` of pipelined requests, the model of
    conn.serve interprets only arms it understands, and what the client observes (responses, backend contacts,
    unread bytes = connection closed) is the documented reaction to the FIRST applicable non-GoOn verdict in callback
    order (`judge`), unless that first verdict is one of the `divergentRows`.  Composes `C48_order_stop` (each chain
    acts through `specChain`) with the extracted per-point arms.  Hypothesis: a Response verdict at a request point
    comes with a response object (otherwise ServeHTTP dereferences nil), and no filter that is reached panics
    (panics: `C48_panic_rows`). -/
theorem C48_general (n : Nat) (ch : Nat → List Elem)
    (hb : ∀ pt, (specChain (ch pt)).boom = false)
    (hwf : ∀ pt, (pt = pBeforeLocation ∨ pt = pFoundProduct ∨ pt = pAfterLocation) →
      (specChain (ch pt)).ret = vResponse → ∃ j, (specChain (ch pt)).res = some j) :
    (serveConn n ch).unknown = false ∧
    (divergentFirst ch = false →
      judge n ch (serveConn n ch).outs (serveConn n ch).backend (reqBytes * (n - (serveConn n ch).served)) = none) := by
  have hρ : (fun pt => runChain 0 (ch pt)) = fun pt => specChain (ch pt) := by
    funext pt; exact C48_order_stop (ch pt)
  have := goal_all n (fun pt => specChain (ch pt)) hb hwf
  simpa only [GoalAt, serveConn, judge, divergentFirst, hρ] using this

/-- non-vacuity of `C48_general`: a three-point configuration with long chains meets the hypotheses and is not
    divergent -/
example : divergentFirst (fun pt => if pt = 3 then [.f 1 true, .f 1 false, .f 3 true, .f 4 false] else
    if pt = 6 then [.f 1 false, .f 2 false] else if pt = 7 then [.f 0 false] else []) = false := by decide

/-- Close before the request is forwarded: nothing is written, no backend is contacted, the second pipelined
    request is never served (concrete rows of the table, for readability). -/
theorem C48_close_rows :
    ∀ pt ∈ [pBeforeLocation, pFoundProduct, pAfterLocation],
      (serveConn 2 (single pt vClose false)).outs = [] ∧ (serveConn 2 (single pt vClose false)).backend = 0 ∧
      (serveConn 2 (single pt vClose false)).served = 1 := by decide

/-- Redirect / Response before forwarding: exactly that response, no backend contact. -/
theorem C48_redirect_response_rows :
    ∀ pt ∈ [pBeforeLocation, pFoundProduct, pAfterLocation],
      (serveConn 1 (single pt vRedirect false)).outs = [.redirect pt 0] ∧ (serveConn 1 (single pt vRedirect false)).backend = 0 ∧
      (serveConn 1 (single pt vResponse true)).outs = [.module pt 0] ∧ (serveConn 1 (single pt vResponse true)).backend = 0 := by
  decide

/-- non-vacuity: a quiet configuration serves both requests from the backend -/
example : (serveConn 2 (fun _ => [])).outs = [.backend, .backend] ∧ (serveConn 2 (fun _ => [])).backend = 2 := by decide
example : runChain 0 [.f 1 true, .f 1 false, .f 4 false, .f 0 true] = { ret := 4, calls := [0, 1, 2], res := none } := by decide
example : runChain 0 [.f 1 true, .bad, .f 4 false] = { ret := 1, calls := [0], res := some 0 } := by decide

end BfeVerif.C48
