import BfeVerif.C48.Driver
def main : IO Unit := BfeVerif.Proto.driverMain BfeVerif.C48.run
