import BfeVerif.Common.Proto
import BfeVerif.C48.Model
/-!
  C48 driver.  ops (see harness/cmd/c48/main.go):
    `fl <kind> <elems>`                                   result `ret=<int> calls=<idx,..|-> res=<idx|->`
    `sv <n> A=.. B=.. P=.. L=.. F=.. R=.. Q=.. Z=..`      result `calls=.. out=.. backend=.. closed=1 unread=..`
-/
namespace BfeVerif.C48
open BfeVerif.Proto

def parseElem (t : String) : Option Elem :=
  if t == "x" then some .bad
  else if t == "p" then some .boom
  else
    let (num, r) := if t.endsWith "r" then ((t.dropEnd 1).toString, true) else (t, false)
    num.toNat?.map fun v => .f v r

def parseChain (s : String) : Option (List Elem) :=
  if s == "-" then some [] else (s.splitOn ",").mapM parseElem

def joinOr (xs : List String) (sep : String := ",") : String :=
  if xs.isEmpty then "-" else sep.intercalate xs

def renderChain (r : ChainRes) : String :=
  if r.boom then "panic calls=" ++ joinOr (r.calls.map toString) else
  "ret=" ++ toString r.ret ++ " calls=" ++ joinOr (r.calls.map toString) ++ " res=" ++
    (match r.res with | some i => toString i | none => "-")

def letterOf (pt : Nat) : String :=
  if pt == pAccept then "A" else if pt == pHandshake then "H" else if pt == pBeforeLocation then "B"
  else if pt == pFoundProduct then "P" else if pt == pAfterLocation then "L" else if pt == pForward then "F"
  else if pt == pReadResponse then "R" else if pt == pRequestFinish then "Q" else if pt == pFinish then "Z" else "?"

def pointOfLetter (l : String) : Option Nat :=
  [pAccept, pHandshake, pBeforeLocation, pFoundProduct, pAfterLocation, pForward, pReadResponse, pRequestFinish, pFinish].find?
    fun p => letterOf p == l

def hexOfString (t : String) : String := hexField t.toUTF8.toList

/-- the note `Redirect()` writes for a GET: `<a href="URL">Found</a>.\n` + Fprintln's newline -/
def redirectBody (loc : String) : String := hexOfString ("<a href=\"" ++ loc ++ "\">Found</a>.\n\n")

/-- `status|marker|body in hex`; the bodies are the ones the harness' fake modules / backend produce -/
def renderResp : Resp → String
  | .module pt i => "200|" ++ letterOf pt ++ toString i ++ "|" ++ hexOfString "m"
  | .backend => "200|backend|" ++ hexOfString "backend-body"
  | .internalErr => "500|-|-"
  | .redirect pt i => "302|L=/to" ++ letterOf pt ++ toString i ++ "|" ++ redirectBody ("/to" ++ letterOf pt ++ toString i)
  | .default200 => "200|-|-"
  | .redirectPlus pt i => "302|L=/to" ++ letterOf pt ++ toString i ++ "|?"
  | .other => "other"

def parseName (s : String) : Option (Nat × Nat) :=
  match pointOfLetter (s.take 1).toString, (s.drop 1).toString.toNat? with
  | some p, some i => some (p, i)
  | _, _ => none

/-- a response the client read; anything that is not byte for byte one of the expected responses is `other`,
    except a 302 with the right Location and a different body: `redirectPlus` -/
def parseResp (s : String) : Resp :=
  match s.splitOn "|" with
  | [code, src, _] =>
    let cand : Resp :=
      if code == "200" && src == "backend" then .backend
      else if code == "500" && src == "-" then .internalErr
      else if code == "200" && src == "-" then .default200
      else if code == "302" && src.startsWith "L=/to" then
        (match parseName (src.drop 5).toString with | some (p, i) => .redirect p i | none => .other)
      else if code == "200" then
        (match parseName src with | some (p, i) => .module p i | none => .other)
      else .other
    if renderResp cand == s then cand
    else match cand with
      | .redirect p i => .redirectPlus p i
      | _ => .other
  | _ => .other

def renderConn (n : Nat) (o : ConnOut) : String :=
  if o.unknown then "model:unknown-reaction" else
  "calls=" ++ joinOr (o.calls.map fun c => letterOf c.1 ++ toString c.2) ++
  " out=" ++ joinOr (o.outs.map renderResp) ";" ++
  " backend=" ++ toString o.backend ++ " closed=" ++ (if o.closed then "1" else "0") ++ " unread=" ++ toString (reqBytes * (n - o.served))

def field (impl key : String) : Option String :=
  ((impl.splitOn " ").find? fun f => f.startsWith (key ++ "=")).map fun f => (f.drop (key.length + 1)).toString

def chainsOf (fs : List String) : Option (Nat → List Elem) :=
  let go := fs.mapM fun f =>
    match pointOfLetter (f.take 1).toString, parseChain (f.drop 2).toString with
    | some p, some c =>
      -- the harness attaches a response object to every Response verdict of a request filter
      let c : List Elem := c.map fun e => match e with | Elem.f v r => Elem.f v (r || v == vResponse) | e => e
      if (f.drop 1).toString.startsWith "=" then some (p, c) else none
    | _, _ => none
  go.map fun l pt => ((l.find? fun e => e.1 == pt).map (·.2)).getD []

def stopTag (ch : Nat → List Elem) : String :=
  match firstStop ch path with
  | none => "quiet"
  | some (pt, v, _, _) => letterOf pt ++ toString v

def parseCalls (s : String) : List (Nat × Nat) :=
  if s == "-" then [] else (s.splitOn ",").filterMap parseName

/-- The trace the property demands, judged on the implementation's `calls=`: every registered callback point runs
    exactly once per request it applies to — HandleAccept and HandleFinish once per connection, HandleBeforeLocation and
    HandleRequestFinish once for EVERY request read (also requests ended early by Close / Finish / Redirect /
    Response), HandleFoundProduct / AfterLocation / Forward once per request iff every earlier request-side point
    said continue, never otherwise — each time calling exactly the filters `specChain` names, in registration order;
    and conn.serve leaves the connection closed.  With a panicking filter only the per-connection points and the
    closed connection are demanded. -/
def judgeTrace (n : Nat) (ch : Nat → List Elem) (calls : List (Nat × Nat)) (unread : Nat) (closed : Bool) : Option String :=
  let served := n - unread / reqBytes
  let σ := fun pt => specChain (ch pt)
  let panic := (path ++ [pFinish]).any fun pt => (σ pt).boom
  let block (pt : Nat) : List Nat := (calls.filter (·.1 == pt)).map (·.2)
  let rep (k : Nat) (l : List Nat) : List Nat := (List.replicate k l).flatten
  let stop (pt : Nat) : Bool := stops pt (σ pt).ret
  let check (pt want : Nat) : Option String :=
    let c := (σ pt).calls
    if c.isEmpty then (if (block pt).isEmpty then none else some ("point-repeated-" ++ letterOf pt))
    else if block pt == rep want c then none
    else
      let got := (block pt).count 0
      if got < want then some ("point-skipped-" ++ (if pt == pRequestFinish then "requestfinish" else letterOf pt))
      else if got > want then some ("point-repeated-" ++ letterOf pt)
      else some ("chain-calls-" ++ letterOf pt)
  let first (l : List (Option String)) : Option String := l.findSome? id
  if !closed then some "conn-left-open-after-panic-in-finish"
  else if panic then first [check pFinish 1]
  else
    let acceptClosed := stop pAccept
    let s := if acceptClosed then 0 else served
    let bq := !stop pBeforeLocation
    let pq := bq && !stop pFoundProduct
    let lq := pq && !stop pAfterLocation
    first [check pAccept 1, check pFinish 1, check pBeforeLocation s, check pRequestFinish s,
           check pFoundProduct (if bq then s else 0), check pAfterLocation (if pq then s else 0),
           check pForward (if lq then s else 0),
           (if lq && !stop pForward then check pReadResponse s else none)]

def run (op impl : String) : Ans :=
  match op.splitOn " " with
  | ["fl", kind, chain] =>
    match parseChain chain with
    | none => { model := "bad-op", verdict := "skip" }
    | some c =>
      let c := if kind == "req" then c else c.map fun e => match e with | .f v _ => .f v false | e => e
      let m := renderChain (runChain 0 c)
      let s := renderChain (specChain c)
      let stops := c.any fun e => !isGoOn e
      { model := m
        verdict := if impl == s then "ok" else "FAIL:chain-order"
        tags := ["fl", "fl-" ++ kind] ++ (if c.contains .bad then ["badelem"] else []) ++
                (if c.length > 8 then ["long"] else []) ++ (if stops then ["nt"] else []) }
  | "sv" :: ns :: fs0 =>
    let seg := fs0.any fun f => f.startsWith "seg="
    let fs := fs0.filter fun f => !f.startsWith "seg="
    match ns.toNat?, chainsOf fs with
    | some n, some ch =>
      if fs.length != 8 then { model := "bad-op", verdict := "skip" } else
      let m := renderConn n (serveConn n ch)
      let hasPanic := (path ++ [pFinish]).any fun pt => (specChain (ch pt)).boom
      let v :=
        match field impl "out", (field impl "backend").bind (·.toNat?), (field impl "unread").bind (·.toNat?),
              field impl "calls", field impl "closed" with
        | some o, some b, some u, some cs, some cl =>
          let outs := if o == "-" then [] else (o.splitOn ";").map parseResp
          let doc := if hasPanic then none else judge n ch outs b u
          match doc with
          | some c => "FAIL:" ++ c
          | none =>
            match judgeTrace n ch (parseCalls cs) u (cl == "1") with
            | some c => "FAIL:" ++ c
            | none => "ok"
        | _, _, _, _, _ => "FAIL:unparsable-result"
      let st := stopTag ch
      let multi := (path.filter fun p => !quietAt ch p).length
      { model := m, verdict := v
        tags := ["sv", "n" ++ toString n, st] ++ (if multi > 1 then ["multi"] else []) ++
                (if hasPanic then ["panic"] else []) ++ (if seg then ["segmented"] else []) ++
                (if st != "quiet" && n > 0 then ["nt"] else []) }
    | _, _ => { model := "bad-op", verdict := "skip" }
  | _ => { model := "bad-op", verdict := "skip" }

end BfeVerif.C48
