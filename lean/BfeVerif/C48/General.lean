import BfeVerif.C48.Proofs
/-! C48: lifting the reaction table to arbitrary chain results at every point and any number of requests. -/
namespace BfeVerif.C48
open BfeVerif.Generated.C48 (Tok armsT)

/-- no arm anywhere for an undefined verdict -/
theorem armFor_ge5 (pt v : Nat) : armFor pt (v + 5) = none := by
  simp [armFor, armsT]

theorem stops_ge5 (pt v : Nat) : stops pt (v + 5) = false := by
  simp [stops, applicable, vGoOn, vClose, vFinish, vRedirect, vResponse]

abbrev Quiet (pt v : Nat) : Prop := armFor pt v = none ∧ stops pt v = false

theorem arm_A (v : Nat) : v = 4 ∨ Quiet 0 v := by
  match v with
  | 0 | 1 | 2 | 3 => right; decide
  | 4 => left; rfl
  | v + 5 => right; exact ⟨armFor_ge5 _ _, stops_ge5 _ _⟩

theorem arm_req (pt : Nat) (hpt : pt = 2 ∨ pt = 3 ∨ pt = 4) (v : Nat) : v = 0 ∨ v = 2 ∨ v = 3 ∨ v = 4 ∨ Quiet pt v := by
  match v with
  | 0 => simp
  | 1 => rcases hpt with h | h | h <;> subst h <;> (right; right; right; right; decide)
  | 2 => simp
  | 3 => simp
  | 4 => simp
  | v + 5 => right; right; right; right; exact ⟨armFor_ge5 _ _, stops_ge5 _ _⟩

theorem arm_F (v : Nat) : v = 0 ∨ v = 2 ∨ v = 4 ∨ Quiet 5 v := by
  match v with
  | 0 => simp
  | 1 | 3 => right; right; right; decide
  | 2 => simp
  | 4 => simp
  | v + 5 => right; right; right; exact ⟨armFor_ge5 _ _, stops_ge5 _ _⟩

theorem arm_R (v : Nat) : v = 0 ∨ v = 2 ∨ v = 4 ∨ Quiet 6 v := by
  match v with
  | 0 => simp
  | 1 | 3 => right; right; right; decide
  | 2 => simp
  | 4 => simp
  | v + 5 => right; right; right; exact ⟨armFor_ge5 _ _, stops_ge5 _ _⟩

theorem arm_Q (v : Nat) : v = 0 ∨ v = 4 ∨ Quiet 7 v := by
  match v with
  | 0 => simp
  | 1 | 2 | 3 => right; right; decide
  | 4 => simp
  | v + 5 => right; right; exact ⟨armFor_ge5 _ _, stops_ge5 _ _⟩


/-! ### values of the extracted table (all by kernel evaluation) -/
theorem armFor_0_0 : armFor 0 0 = none := by decide
theorem armFor_0_1 : armFor 0 1 = none := by decide
theorem armFor_0_2 : armFor 0 2 = none := by decide
theorem armFor_0_3 : armFor 0 3 = none := by decide
theorem armFor_0_4 : armFor 0 4 = some [.ret] := by decide
theorem armFor_2_0 : armFor 2 0 = some [.setAction 1, .ret] := by decide
theorem armFor_2_1 : armFor 2 1 = none := by decide
theorem armFor_2_2 : armFor 2 2 = some [.redirect, .isRedirect, .gotoSend] := by decide
theorem armFor_2_3 : armFor 2 3 = some [.gotoGot] := by decide
theorem armFor_2_4 : armFor 2 4 = some [.setAction 2, .ret] := by decide
theorem armFor_3_0 : armFor 3 0 = some [.setAction 1, .ret] := by decide
theorem armFor_3_1 : armFor 3 1 = none := by decide
theorem armFor_3_2 : armFor 3 2 = some [.redirect, .isRedirect, .gotoSend] := by decide
theorem armFor_3_3 : armFor 3 3 = some [.gotoGot] := by decide
theorem armFor_3_4 : armFor 3 4 = some [.setAction 2, .ret] := by decide
theorem armFor_4_0 : armFor 4 0 = some [.setAction 1, .ret] := by decide
theorem armFor_4_1 : armFor 4 1 = none := by decide
theorem armFor_4_2 : armFor 4 2 = some [.redirect, .isRedirect, .gotoSend] := by decide
theorem armFor_4_3 : armFor 4 3 = some [.gotoGot] := by decide
theorem armFor_4_4 : armFor 4 4 = some [.setAction 2, .ret] := by decide
theorem armFor_5_0 : armFor 5 0 = some [.setAction 1, .ret] := by decide
theorem armFor_5_1 : armFor 5 1 = none := by decide
theorem armFor_5_2 : armFor 5 2 = none := by decide
theorem armFor_5_3 : armFor 5 3 = none := by decide
theorem armFor_5_4 : armFor 5 4 = none := by decide
theorem armFor_6_0 : armFor 6 0 = some [.setAction 1, .ret] := by decide
theorem armFor_6_1 : armFor 6 1 = none := by decide
theorem armFor_6_2 : armFor 6 2 = some [.redirect, .isRedirect, .gotoSend] := by decide
theorem armFor_6_3 : armFor 6 3 = none := by decide
theorem armFor_6_4 : armFor 6 4 = none := by decide
theorem armFor_7_0 : armFor 7 0 = some [.setAction 1, .ret] := by decide
theorem armFor_7_1 : armFor 7 1 = none := by decide
theorem armFor_7_2 : armFor 7 2 = none := by decide
theorem armFor_7_3 : armFor 7 3 = none := by decide
theorem armFor_7_4 : armFor 7 4 = none := by decide

theorem stops_0_0 : stops 0 0 = false := by decide
theorem stops_0_1 : stops 0 1 = false := by decide
theorem stops_0_2 : stops 0 2 = false := by decide
theorem stops_0_3 : stops 0 3 = false := by decide
theorem stops_0_4 : stops 0 4 = true := by decide
theorem stops_2_0 : stops 2 0 = true := by decide
theorem stops_2_1 : stops 2 1 = false := by decide
theorem stops_2_2 : stops 2 2 = true := by decide
theorem stops_2_3 : stops 2 3 = true := by decide
theorem stops_2_4 : stops 2 4 = true := by decide
theorem stops_3_0 : stops 3 0 = true := by decide
theorem stops_3_1 : stops 3 1 = false := by decide
theorem stops_3_2 : stops 3 2 = true := by decide
theorem stops_3_3 : stops 3 3 = true := by decide
theorem stops_3_4 : stops 3 4 = true := by decide
theorem stops_4_0 : stops 4 0 = true := by decide
theorem stops_4_1 : stops 4 1 = false := by decide
theorem stops_4_2 : stops 4 2 = true := by decide
theorem stops_4_3 : stops 4 3 = true := by decide
theorem stops_4_4 : stops 4 4 = true := by decide
theorem stops_5_0 : stops 5 0 = true := by decide
theorem stops_5_1 : stops 5 1 = false := by decide
theorem stops_5_2 : stops 5 2 = true := by decide
theorem stops_5_3 : stops 5 3 = false := by decide
theorem stops_5_4 : stops 5 4 = true := by decide
theorem stops_6_0 : stops 6 0 = true := by decide
theorem stops_6_1 : stops 6 1 = false := by decide
theorem stops_6_2 : stops 6 2 = true := by decide
theorem stops_6_3 : stops 6 3 = false := by decide
theorem stops_6_4 : stops 6 4 = true := by decide
theorem stops_7_0 : stops 7 0 = true := by decide
theorem stops_7_1 : stops 7 1 = false := by decide
theorem stops_7_2 : stops 7 2 = false := by decide
theorem stops_7_3 : stops 7 3 = false := by decide
theorem stops_7_4 : stops 7 4 = true := by decide

/-! ### the request loop -/

theorem keep_out (ρ : Nat → ChainRes) (h : (serveRequest ρ).keep = true) : ∃ x, (serveRequest ρ).out = some x := by
  by_cases hp : (serveHTTP ρ).panicked = true
  · simp [serveRequest, hp] at h
  · simp only [serveRequest, hp, Bool.false_eq_true, ↓reduceIte, aKeepAlive, aCloseDirectly, Bool.and_eq_true,
      beq_iff_eq] at h ⊢
    simp [h.1.1]

theorem loop_stop (ρ : Nat → ChainRes) (h : (serveRequest ρ).keep = false) (k : Nat) (acc : ConnOut) :
    (serveLoop ρ (k + 1) acc).outs = acc.outs ++ (serveRequest ρ).out.toList ∧
    (serveLoop ρ (k + 1) acc).backend = acc.backend + (serveRequest ρ).backend ∧
    (serveLoop ρ (k + 1) acc).served = acc.served + 1 ∧
    (serveLoop ρ (k + 1) acc).unknown = (acc.unknown || (serveRequest ρ).unknown) := by
  simp [serveLoop, h]

theorem loop_keep (ρ : Nat → ChainRes) (hk : (serveRequest ρ).keep = true) (x : Resp)
    (hx : (serveRequest ρ).out = some x) : ∀ (k : Nat) (acc : ConnOut),
    (serveLoop ρ k acc).outs = acc.outs ++ List.replicate k x ∧
    (serveLoop ρ k acc).backend = acc.backend + k * (serveRequest ρ).backend ∧
    (serveLoop ρ k acc).served = acc.served + k ∧
    (serveLoop ρ k acc).unknown = (acc.unknown || (decide (0 < k) && (serveRequest ρ).unknown)) := by
  intro k
  induction k with
  | zero => intro acc; simp [serveLoop]
  | succ k ih =>
    intro acc
    simp only [serveLoop, hk, ↓reduceIte]
    refine ⟨?_, ?_, ?_, ?_⟩
    · rw [(ih _).1]; simp [hx, List.replicate_succ]
    · rw [(ih _).2.1]; simp only [Nat.succ_mul]; omega
    · rw [(ih _).2.2.1]; simp only; omega
    · rw [(ih _).2.2.2]; cases acc.unknown <;> cases (serveRequest ρ).unknown <;> simp


/-! ### from one request to the connection -/

def divergentStop (σ : Nat → ChainRes) : Bool :=
  match firstStopR σ path with
  | some (pt, v, _, res) => divergentRows.contains (pt, v, res.isSome)
  | none => false

/-- the statement for `n` requests -/
def GoalAt (n : Nat) (ρ : Nat → ChainRes) : Prop :=
  (serveConnR n ρ).unknown = false ∧
  (divergentStop ρ = false →
    judgeR n ρ (serveConnR n ρ).outs (serveConnR n ρ).backend (reqBytes * (n - (serveConnR n ρ).served)) = none)

/-- the same statement written with the result of ONE `serveRequest` -/
def GoalReq (m : Nat) (ρ : Nat → ChainRes) : Prop :=
  (serveRequest ρ).unknown = false ∧
  (divergentStop ρ = false →
    judgeR (m + 1) ρ
      (if (serveRequest ρ).keep then List.replicate (m + 1) ((serveRequest ρ).out.getD .other) else (serveRequest ρ).out.toList)
      (if (serveRequest ρ).keep then (m + 1) * (serveRequest ρ).backend else (serveRequest ρ).backend)
      (reqBytes * (m + 1 - (if (serveRequest ρ).keep then m + 1 else 1))) = none)

theorem conn_of_req (m : Nat) (ρ : Nat → ChainRes) (hA : armFor pAccept (ρ pAccept).ret = none)
    (hbA : (ρ pAccept).boom = false) (h : GoalReq m ρ) : GoalAt (m + 1) ρ := by
  unfold GoalAt
  have hconn : ∀ (P : List Resp → Nat → Nat → Bool → Prop),
      (∀ acc : ConnOut, acc.outs = [] → acc.backend = 0 → acc.served = 0 → acc.unknown = false →
        P (serveLoop ρ (m + 1) acc).outs (serveLoop ρ (m + 1) acc).backend (serveLoop ρ (m + 1) acc).served
          (serveLoop ρ (m + 1) acc).unknown) →
      P (serveConnR (m + 1) ρ).outs (serveConnR (m + 1) ρ).backend (serveConnR (m + 1) ρ).served
        (serveConnR (m + 1) ρ).unknown := by
    intro P hP
    simp only [serveConnR, atPoint, hA, hbA, Bool.false_eq_true, ↓reduceIte]
    exact hP _ rfl rfl rfl rfl
  apply hconn (fun outs backend served unknown => unknown = false ∧
    (divergentStop ρ = false → judgeR (m + 1) ρ outs backend (reqBytes * (m + 1 - served)) = none))
  intro acc ho hb hs hu
  obtain ⟨hunk, hj⟩ := h
  cases hk : (serveRequest ρ).keep with
  | false =>
    obtain ⟨h1, h2, h3, h4⟩ := loop_stop ρ hk m acc
    rw [h1, h2, h3, h4, ho, hb, hs, hu, hunk]
    simp only [hk] at hj
    simpa using hj
  | true =>
    obtain ⟨x, hx⟩ := keep_out ρ hk
    obtain ⟨h1, h2, h3, h4⟩ := loop_keep ρ hk x hx (m + 1) acc
    rw [h1, h2, h3, h4, ho, hb, hs, hu, hunk]
    simp only [hk, hx] at hj
    simpa using hj

/-- everything a leaf has to unfold -/
macro "leaf" : tactic => `(tactic|
  simp_all [List.replicate_succ, GoalReq, serveRequest, serveHTTP, reqPoint, atPoint, clusterInvoke, responseGot, sendResponse, interp,
    judgeR, firstStopR, path, divergentStop, divergentRows, quietAtR, reqBytes, stops_0_0, stops_0_1, stops_0_2, stops_0_3, stops_0_4, stops_2_0, stops_2_1, stops_2_2, stops_2_3, stops_2_4, stops_3_0, stops_3_1, stops_3_2, stops_3_3, stops_3_4, stops_4_0, stops_4_1, stops_4_2, stops_4_3, stops_4_4, stops_5_0, stops_5_1, stops_5_2, stops_5_3, stops_5_4, stops_6_0, stops_6_1, stops_6_2, stops_6_3, stops_6_4, stops_7_0, stops_7_1, stops_7_2, stops_7_3, stops_7_4,
    vFinish, vGoOn, vRedirect, vResponse, vClose, aKeepAlive, aCloseAfterReply, aCloseDirectly,
    pAccept, pHandshake, pBeforeLocation, pFoundProduct, pAfterLocation, pForward, pReadResponse, pRequestFinish, pFinish,
    armFor_0_0, armFor_0_1, armFor_0_2, armFor_0_3, armFor_0_4, armFor_2_0, armFor_2_1, armFor_2_2, armFor_2_3, armFor_2_4, armFor_3_0, armFor_3_1, armFor_3_2, armFor_3_3, armFor_3_4, armFor_4_0, armFor_4_1, armFor_4_2, armFor_4_3, armFor_4_4, armFor_5_0, armFor_5_1, armFor_5_2, armFor_5_3, armFor_5_4, armFor_6_0, armFor_6_1, armFor_6_2, armFor_6_3, armFor_6_4, armFor_7_0, armFor_7_1, armFor_7_2, armFor_7_3, armFor_7_4])

/-- one request, arbitrary chain results at every point: no uninterpreted arm, and the documented reaction
    unless the first stopping verdict is one of the divergent rows -/
theorem req_general (m : Nat) (ρ : Nat → ChainRes) (hA : Quiet 0 (ρ 0).ret) (hb : ∀ pt, (ρ pt).boom = false)
    (hwf : ∀ pt, (pt = 2 ∨ pt = 3 ∨ pt = 4) → (ρ pt).ret = 3 → ∃ j, (ρ pt).res = some j) : GoalReq m ρ := by
  obtain ⟨hA1, hA2⟩ := hA
  have hQ := arm_Q (ρ 7).ret
  have hR := arm_R (ρ 6).ret
  rcases arm_req 2 (by simp) (ρ 2).ret with hB | hB | hB | hB | ⟨hB1, hB2⟩
  · cases hres : (ρ 2).res <;> rcases hQ with q | q | ⟨q1, q2⟩ <;> leaf
  · rcases hQ with q | q | ⟨q1, q2⟩ <;> leaf
  · obtain ⟨j, hj⟩ := hwf 2 (by simp) hB
    rcases hR with r | r | r | ⟨r1, r2⟩ <;> rcases hQ with q | q | ⟨q1, q2⟩ <;> leaf
  · rcases hQ with q | q | ⟨q1, q2⟩ <;> leaf
  · rcases arm_req 3 (by simp) (ρ 3).ret with hP | hP | hP | hP | ⟨hP1, hP2⟩
    · cases hres : (ρ 3).res <;> rcases hQ with q | q | ⟨q1, q2⟩ <;> leaf
    · rcases hQ with q | q | ⟨q1, q2⟩ <;> leaf
    · obtain ⟨j, hj⟩ := hwf 3 (by simp) hP
      rcases hR with r | r | r | ⟨r1, r2⟩ <;> rcases hQ with q | q | ⟨q1, q2⟩ <;> leaf
    · rcases hQ with q | q | ⟨q1, q2⟩ <;> leaf
    · rcases arm_req 4 (by simp) (ρ 4).ret with hL | hL | hL | hL | ⟨hL1, hL2⟩
      · cases hres : (ρ 4).res <;> rcases hQ with q | q | ⟨q1, q2⟩ <;> leaf
      · rcases hQ with q | q | ⟨q1, q2⟩ <;> leaf
      · obtain ⟨j, hj⟩ := hwf 4 (by simp) hL
        rcases hR with r | r | r | ⟨r1, r2⟩ <;> rcases hQ with q | q | ⟨q1, q2⟩ <;> leaf
      · rcases hQ with q | q | ⟨q1, q2⟩ <;> leaf
      · rcases arm_F (ρ 5).ret with hF | hF | hF | ⟨hF1, hF2⟩
        · rcases hR with r | r | r | ⟨r1, r2⟩ <;> rcases hQ with q | q | ⟨q1, q2⟩ <;> leaf
        · rcases hR with r | r | r | ⟨r1, r2⟩ <;> rcases hQ with q | q | ⟨q1, q2⟩ <;> leaf
        · rcases hR with r | r | r | ⟨r1, r2⟩ <;> rcases hQ with q | q | ⟨q1, q2⟩ <;> leaf
        · rcases hR with r | r | r | ⟨r1, r2⟩ <;> rcases hQ with q | q | ⟨q1, q2⟩ <;> leaf


theorem goal_zero (ρ : Nat → ChainRes) (hb : (ρ 0).boom = false) : GoalAt 0 ρ := by
  rcases arm_A (ρ 0).ret with h | ⟨h1, h2⟩
  · simp [GoalAt, serveConnR, atPoint, h, hb, armFor_0_4, interp, judgeR, pAccept]
  · simp [GoalAt, serveConnR, atPoint, h1, hb, serveLoop, judgeR, pAccept]

theorem goal_accept_close (m : Nat) (ρ : Nat → ChainRes) (hb : (ρ 0).boom = false) (h : (ρ 0).ret = 4) :
    GoalAt (m + 1) ρ := by
  simp [GoalAt, serveConnR, atPoint, h, hb, armFor_0_4, interp, judgeR, firstStopR, path, stops_0_4, pAccept, reqBytes]

theorem goal_all (n : Nat) (ρ : Nat → ChainRes) (hb : ∀ pt, (ρ pt).boom = false)
    (hwf : ∀ pt, (pt = 2 ∨ pt = 3 ∨ pt = 4) → (ρ pt).ret = 3 → ∃ j, (ρ pt).res = some j) : GoalAt n ρ := by
  cases n with
  | zero => exact goal_zero ρ (hb 0)
  | succ m =>
    rcases arm_A (ρ 0).ret with h | h
    · exact goal_accept_close m ρ (hb 0) h
    · exact conn_of_req m ρ h.1 (hb 0) (req_general m ρ h hb hwf)

end BfeVerif.C48
