import BfeVerif.C48.Model
namespace BfeVerif.C48

theorem specOf_step (i : Nat) (r : Bool) (p d : List Elem) :
    ({ ret := (specOf (i + 1) p d).ret, calls := i :: (specOf (i + 1) p d).calls,
       res := if (specOf (i + 1) p d).calls.isEmpty then (if r then some i else none) else (specOf (i + 1) p d).res,
       boom := (specOf (i + 1) p d).boom } : ChainRes)
      = specOf i (.f vGoOn r :: p) d := by
  cases d with
  | nil =>
    cases p with
    | nil => cases r <;> simp [specOf, List.range'_succ]
    | cons a as =>
      simp only [specOf, List.length_cons, List.range'_succ, List.getLast?_cons_cons]
      cases (a :: as).getLast? with
      | none => simp
      | some l => cases l with
        | bad => simp
        | boom => simp
        | f v b => cases b <;> simp <;> omega
  | cons e ds =>
    cases e with
    | bad =>
      cases p with
      | nil => cases r <;> simp [specOf, List.range'_succ]
      | cons a as =>
        simp only [specOf, List.length_cons, List.range'_succ, List.getLast?_cons_cons]
        cases (a :: as).getLast? with
        | none => simp
        | some l => cases l with
          | bad => simp
          | boom => simp
          | f v b => cases b <;> simp <;> omega
    | boom =>
      simp [specOf, List.range'_succ]
    | f v' r' =>
      simp only [specOf, List.length_cons, List.range'_succ]
      cases r' <;> simp <;> omega

theorem runChain_eq_spec (c : List Elem) : ∀ i, runChain i c = specChainFrom i c := by
  induction c with
  | nil => intro i; simp [runChain, specChainFrom, specOf]
  | cons e rest ih =>
    intro i
    cases e with
    | bad => simp [runChain, specChainFrom, specOf, isGoOn]
    | boom => simp [runChain, specChainFrom, specOf, isGoOn]
    | f v r =>
      by_cases hv : v = vGoOn
      · subst hv
        have hg : isGoOn (.f vGoOn r) = true := by simp [isGoOn]
        rw [runChain]
        simp only [ne_eq, not_true_eq_false, ↓reduceIte, ih (i + 1)]
        simp only [specChainFrom, List.takeWhile_cons, List.dropWhile_cons, hg, ↓reduceIte]
        exact specOf_step i r _ _
      · have hg : isGoOn (.f v r) = false := by simp [isGoOn, hv]
        simp [runChain, specChainFrom, specOf, hg, hv]

end BfeVerif.C48
