import BfeVerif.C10.Proofs
/-! C10: the request-host normalisation of `findHostRoute` ignores the port, one trailing dot and ASCII case. -/
namespace BfeVerif.C10

/-- ASCII upper-casing (only used to state case-insensitivity) -/
def upperAscii (c : Char) : Char :=
  if 97 ≤ c.toNat ∧ c.toNat ≤ 122 then Char.ofNat (c.toNat - 32) else c

theorem lowerC_ne_of_nonletter (c d : Char) (hd : d.toNat < 97 ∨ 122 < d.toNat) (hdu : d.toNat < 65 ∨ 90 < d.toNat)
    (h : c ≠ d) : lowerC c ≠ d := by
  unfold lowerC
  split
  · next hr =>
    have key : ∀ k : Fin 26, (Char.ofNat (k.val + 97)).toNat = k.val + 97 := by decide
    have hk := key ⟨c.toNat - 65, by omega⟩
    have he : c.toNat - 65 + 97 = c.toNat + 32 := by omega
    simp only [he] at hk
    intro hcd
    rw [hcd] at hk
    omega
  · exact h

theorem lowerC_ne_colon (c : Char) (h : c ≠ ':') : lowerC c ≠ ':' :=
  lowerC_ne_of_nonletter c ':' (by decide) (by decide) h

theorem lowerC_ne_dot (c : Char) (h : c ≠ '.') : lowerC c ≠ '.' :=
  lowerC_ne_of_nonletter c '.' (by decide) (by decide) h

/-- the rune map leaves the two separators alone and maps nothing else onto them (true of `unicode.ToLower`) -/
def KeepsSep (lc : Char → Char) : Prop :=
  lc ':' = ':' ∧ lc '.' = '.' ∧ (∀ c, c ≠ ':' → lc c ≠ ':') ∧ (∀ c, c ≠ '.' → lc c ≠ '.')

theorem lowerC_keepsSep : KeepsSep lowerC :=
  ⟨by decide, by decide, lowerC_ne_colon, lowerC_ne_dot⟩

theorem colon_not_mem_lower (lc : Char → Char) (hk : KeepsSep lc) (h : List Char) (hh : ':' ∉ h) :
    ':' ∉ lower lc h := by
  intro hm
  simp only [lower, List.mem_map] at hm
  obtain ⟨c, hc, hcl⟩ := hm
  by_cases he : c = ':'
  · exact hh (he ▸ hc)
  · exact hk.2.2.1 c he hcl

theorem stripPort_append (h port : List Char) (hh : ':' ∉ h) : stripPort (h ++ ':' :: port) = h := by
  induction h with
  | nil => simp [stripPort]
  | cons c cs ih =>
    have hc : c ≠ ':' := fun e => hh (by simp [e])
    have hcs : ':' ∉ cs := fun e => hh (by simp [e])
    have ih' := ih hcs
    simp [stripPort] at ih' ⊢
    simp [hc, ih']

theorem stripPort_self (h : List Char) (hh : ':' ∉ h) : stripPort h = h := by
  induction h with
  | nil => simp [stripPort]
  | cons c cs ih =>
    have hc : c ≠ ':' := fun e => hh (by simp [e])
    have hcs : ':' ∉ cs := fun e => hh (by simp [e])
    have ih' := ih hcs
    simp [stripPort] at ih' ⊢
    simp [hc, ih']

theorem probePath_port (lc : Char → Char) (hk : KeepsSep lc) (h port : List Char) (hh : ':' ∉ h) :
    probePath lc (h ++ ':' :: port) = probePath lc h := by
  unfold probePath
  have hl : lower lc (h ++ ':' :: port) = lower lc h ++ ':' :: lower lc port := by
    simp [lower, hk.1]
  rw [hl, stripPort_append _ _ (colon_not_mem_lower lc hk h hh), stripPort_self _ (colon_not_mem_lower lc hk h hh)]

theorem reverseFqdn_snoc_dot (x : List Char) : reverseFqdn (x ++ ['.']) = x.reverse := by
  simp [reverseFqdn]

theorem reverseFqdn_nodot (x : List Char) (h : x.getLast? ≠ some '.') : reverseFqdn x = x.reverse := by
  unfold reverseFqdn
  split
  · next r hr =>
    exfalso; apply h
    have := congrArg List.reverse hr
    simp at this
    rw [this]; simp
  · rfl

theorem getLast?_lower (lc : Char → Char) (hk : KeepsSep lc) (h : List Char) (hd : h.getLast? ≠ some '.') :
    (lower lc h).getLast? ≠ some '.' := by
  unfold lower
  rw [List.getLast?_map]
  cases hg : h.getLast? with
  | none => simp
  | some c =>
    simp only [Option.map_some, ne_eq, Option.some.injEq]
    have : c ≠ '.' := by intro e; apply hd; rw [hg, e]
    exact hk.2.2.2 c this

theorem probePath_dot (lc : Char → Char) (hk : KeepsSep lc) (h : List Char) (hh : ':' ∉ h)
    (hd : h.getLast? ≠ some '.') : probePath lc (h ++ ['.']) = probePath lc h := by
  unfold probePath
  have hl : lower lc (h ++ ['.']) = lower lc h ++ ['.'] := by simp [lower, hk.2.1]
  have hc : ':' ∉ lower lc h ++ ['.'] := by
    intro hm
    rcases List.mem_append.mp hm with h1 | h1
    · exact colon_not_mem_lower lc hk h hh h1
    · simp at h1
  rw [hl, stripPort_self _ hc, stripPort_self _ (colon_not_mem_lower lc hk h hh), reverseFqdn_snoc_dot,
    reverseFqdn_nodot _ (getLast?_lower lc hk h hd)]

theorem lowerC_upperAscii (c : Char) : lowerC (upperAscii c) = lowerC c := by
  unfold upperAscii
  split
  · next hr =>
    have key : ∀ k : Fin 26, lowerC (Char.ofNat (k.val + 65)) = Char.ofNat (k.val + 97) := by decide
    have hk := key ⟨c.toNat - 97, by omega⟩
    have h1 : c.toNat - 97 + 65 = c.toNat - 32 := by omega
    have h2 : c.toNat - 97 + 97 = c.toNat := by omega
    simp only [h1, h2] at hk
    rw [hk]
    have : lowerC c = c := by
      unfold lowerC
      split
      · next h3 => omega
      · rfl
    rw [this]
    exact Char.ofNat_toNat c
  · rfl

theorem probePath_case (h : List Char) : probePath lowerC (h.map upperAscii) = probePath lowerC h := by
  unfold probePath
  have : lower lowerC (h.map upperAscii) = lower lowerC h := by
    simp [lower, List.map_map, Function.comp_def, lowerC_upperAscii]
  rw [this]

end BfeVerif.C10

namespace BfeVerif.C10

theorem specExact_eq_some_iff (ps : List (List Label × Route)) (hnd : (ps.map (·.1)).Nodup)
    (l : List Label) (r : Route) : specExact ps l = some r ↔ (l, r) ∈ ps := by
  induction ps with
  | nil => simp [specExact]
  | cons p ps ih =>
    simp only [List.map_cons, List.nodup_cons] at hnd
    have ih' := ih hnd.2
    unfold specExact at ih' ⊢
    simp only [List.find?_cons]
    by_cases hp : p.1 = l
    · simp only [hp, decide_true, Option.map_some, Option.some.injEq, List.mem_cons]
      constructor
      · intro h; left; rw [← h, ← hp]
      · rintro (h | h)
        · rw [← h]
        · exfalso; apply hnd.1; rw [hp]; exact List.mem_map_of_mem (f := (·.1)) h
    · simp only [hp, decide_false, List.mem_cons]
      rw [ih']
      constructor
      · intro h; right; exact h
      · rintro (h | h)
        · exfalso; apply hp; rw [← h]
        · exact h

theorem specExact_perm (ps ps' : List (List Label × Route)) (hp : ps.Perm ps')
    (hnd : (ps.map (·.1)).Nodup) (l : List Label) : specExact ps l = specExact ps' l := by
  have hnd' : (ps'.map (·.1)).Nodup := (List.Perm.nodup_iff (hp.map _)).mp hnd
  cases h : specExact ps' l with
  | some r =>
    rw [specExact_eq_some_iff ps hnd]
    exact hp.mem_iff.mpr ((specExact_eq_some_iff ps' hnd' l r).mp h)
  | none =>
    cases h2 : specExact ps l with
    | none => rfl
    | some r =>
      have := (specExact_eq_some_iff ps' hnd' l r).mpr (hp.mem_iff.mp ((specExact_eq_some_iff ps hnd l r).mp h2))
      rw [h] at this; cases this

theorem patterns_perm (lc : Char → Char) (es es' : List Entry) (hp : es.Perm es') : (patterns lc es).Perm (patterns lc es') :=
  hp.filterMap _


/-- without a leading `[` the specification's host part is the code's (cut at the first colon) -/
theorem specHostPart_eq_stripPort (s : List Char) (h : s.head? ≠ some '[') : specHostPart s = stripPort s := by
  unfold specHostPart stripPort
  split
  · next rest => simp at h
  · rfl

theorem specProbeLabels_eq (lc : Char → Char) (host : List Char) (h : (lower lc host).head? ≠ some '[') :
    specProbeLabels lc host = probeLabels lc host := by
  unfold specProbeLabels probeLabels
  rw [specHostPart_eq_stripPort _ h]

theorem lookup_eq_some_iff {α β} [BEq α] [LawfulBEq α] (l : List (α × β)) (hnd : (l.map (·.1)).Nodup) (k : α) (v : β) :
    l.lookup k = some v ↔ (k, v) ∈ l := by
  induction l with
  | nil => simp [List.lookup]
  | cons p ps ih =>
    obtain ⟨a, b⟩ := p
    simp only [List.map_cons, List.nodup_cons] at hnd
    have ih' := ih hnd.2
    by_cases hk : k = a
    · subst hk
      simp only [List.lookup, beq_self_eq_true, Option.some.injEq, List.mem_cons, Prod.mk.injEq, true_and]
      constructor
      · intro e; left; exact e.symm
      · rintro (e | e)
        · exact e.symm
        · exact absurd (List.mem_map_of_mem (f := (·.1)) e) hnd.1
    · have hb : (k == a) = false := by simpa using hk
      simp only [List.lookup, hb, ih', List.mem_cons, Prod.mk.injEq, hk, false_and, false_or]

end BfeVerif.C10
