/-
  C10 — model of host → product resolution (bfe_route/host_table.go, bfe_route/trie/trie.go,
  bfe_util/string_reverse).  Core-only.

  Host names are `List Char` (ASCII in the correspondence run).  The trie mirrors trie.go:

    func (t *Trie) Get(path) (entry, ok) {
        if len(path) == 0 { return t.Entry, t.Entry != nil }
        res, ok := t.Children[path[0]]
        if ok { entry, ok = res.Get(path[1:]) }
        if entry == nil && t.SplatEntry != nil { entry = t.SplatEntry; ok = true }
        return }
    func (t *Trie) Set(path, value) error {
        if len(path) == 0 { t.Entry = value; return nil }
        if path[0] == "*" { if len(path) != 1 { return error }; t.SplatEntry = value }
        res, ok := t.Children[path[0]]; if !ok { res = NewTrie(); t.Children[path[0]] = res }
        return res.Set(path[1:], value) }
-/
namespace BfeVerif.C10

abbrev Label := List Char

def star : Label := ['*']

inductive Trie (V : Type) where
  | node (entry : Option V) (splat : Option V) (children : List (Label × Trie V))

namespace Trie
variable {V : Type}

def empty : Trie V := .node none none []

/-- `t.Children[k]` (a Go map, modelled as an association list with unique keys) -/
def lookupChild (k : Label) : List (Label × Trie V) → Option (Trie V)
  | [] => none
  | (k', c) :: rest => if k = k' then some c else lookupChild k rest

/-- `t.Children[k] = c` -/
def setChild (k : Label) (c : Trie V) : List (Label × Trie V) → List (Label × Trie V)
  | [] => [(k, c)]
  | (k', c') :: rest => if k = k' then (k, c) :: rest else (k', c') :: setChild k c rest

/-- `Trie.Get` (the `ok` result is `isSome`) -/
def get : List Label → Trie V → Option V
  | [], .node e _ _ => e
  | k :: ks, .node _ s ch =>
    match (match lookupChild k ch with
           | some c => get ks c
           | none => none) with
    | some v => some v
    | none => s

/-- `Trie.Set`; the error return ("* should be last element") is ignored by `buildHostRoute`, the nodes
    created on the way down stay. -/
def set : List Label → V → Trie V → Trie V
  | [], v, .node _ s ch => .node (some v) s ch
  | k :: ks, v, .node e s ch =>
    if k = star ∧ ks ≠ [] then .node e s ch
    else
      let s' := if k = star then some v else s
      let c := (lookupChild k ch).getD empty
      .node e s' (setChild k (set ks v c) ch)

end Trie

/-! ### host normalisation as coded -/

/-- `strings.ToLower` on ASCII -/
def lowerC (c : Char) : Char :=
  if 65 ≤ c.toNat ∧ c.toNat ≤ 90 then Char.ofNat (c.toNat + 32) else c

/-- `strings.ToLower` = decode, map `unicode.ToLower` rune-wise, encode.  `lc` is the rune map: `lowerC` on ASCII,
    Go's `unicode.ToLower` elsewhere (external table, a parameter of the model). -/
def lower (lc : Char → Char) (s : List Char) : List Char := s.map lc

/-- `hostnameStrip`: `strings.Split(hostname, ":")[0]` -/
def stripPort (s : List Char) : List Char := s.takeWhile (· ≠ ':')

/-- `string_reverse.ReverseFqdnHost`: reverse, then drop one leading dot -/
def reverseFqdn (s : List Char) : List Char :=
  match s.reverse with
  | '.' :: r => r
  | r => r

/-- `strings.Split(s, ".")` -/
def splitDot : List Char → List Label
  | [] => [[]]
  | c :: cs =>
    if c = '.' then [] :: splitDot cs
    else match splitDot cs with
      | l :: ls => (c :: l) :: ls
      | [] => [[c]]

structure Route where
  product : String
  tag : String
deriving DecidableEq, Repr

/-- one `HostMap` entry together with `HostTagMap[tag]` -/
structure Entry where
  host : List Char
  route : Route

/-- path used by `buildHostRoute` for a configured host -/
def confPath (lc : Char → Char) (host : List Char) : List Label := splitDot (reverseFqdn (lower lc host))

/-- path used by `findHostRoute` for a request host -/
def probePath (lc : Char → Char) (host : List Char) : List Label := splitDot (reverseFqdn (stripPort (lower lc host)))

/-- `buildHostRoute`: the entries in the (arbitrary) order in which Go's `range` over `HostMap` yields them -/
def buildHostRoute (lc : Char → Char) (es : List Entry) : Trie Route :=
  es.foldl (fun t e => Trie.set (confPath lc e.host) e.route t) Trie.empty

def findHostRoute (lc : Char → Char) (t : Trie Route) (host : List Char) : Option Route := Trie.get (probePath lc host) t

/-- `IP.To16()`: a 16-byte address is itself, a 4-byte address is its IPv4-mapped form, anything else has none -/
def to16 (ip : List UInt8) : Option (List UInt8) :=
  if ip.length = 16 then some ip
  else if ip.length = 4 then some ([0, 0, 0, 0, 0, 0, 0, 0, 0, 0, 255, 255] ++ ip)
  else none

/-- `findVipRoute`.  The Go table is keyed by `net.IP.String()` of the configured address and probed with
    `vip.String()`; the model keys it by the 16-byte form (`String` is injective on 16-byte forms, prints a
    4-byte address like its IPv4-mapped form and prints other lengths as `?…`, which no key equals — trusted,
    exercised). -/
def findVipRoute (vips : List (List UInt8 × String)) (vip : List UInt8) : Option Route :=
  if vips.length = 0 then none
  else match to16 vip with
    | none => none
    | some k => (vips.lookup k).map fun p => { product := p, tag := "" }

/-- result of `LookupHostTagAndProduct`: `none` = ErrNoProduct (HostTag/Product are then empty) -/
def lookupHostTagAndProduct (lc : Char → Char) (es : List Entry) (vips : List (List UInt8 × String))
    (defaultProduct : String) (host : List Char) (vip : Option (List UInt8)) : Option Route :=
  let r := findHostRoute lc (buildHostRoute lc es) host
  let r := match r with
    | some x => some x
    | none => match vip with
      | some v => findVipRoute vips v
      | none => none
  match r with
  | some x => some x
  | none => if defaultProduct ≠ "" then some { product := defaultProduct, tag := "" } else none

/-! ### Specification, written from the property statement and docs (host_rule.data.md, vip_rule.data.md)

  normalised name = lower-case, port removed, one trailing dot removed; labels = split at ".".
  1. the entry whose (normalised) name has exactly the request's labels;
  2. else the wildcard entry `*.s` with the longest label sequence `s` that is a proper suffix of the
     request's labels (the wildcard stands for one *or more* labels; a lone `*` has the empty suffix);
  3. else the product of the VIP; 4. else the default product; 5. else no product.
  A configured name with a `*` label anywhere but in first position is not a wildcard host and is ignored. -/

def dropTrailingDot (s : List Char) : List Char :=
  match s.reverse with
  | '.' :: r => r.reverse
  | _ => s

def confLabels (lc : Char → Char) (host : List Char) : List Label := splitDot (dropTrailingDot (lower lc host))

/-- the labels the CODE extracts from a request host (cut at the first colon) -/
def probeLabels (lc : Char → Char) (host : List Char) : List Label := splitDot (dropTrailingDot (stripPort (lower lc host)))

/-- host part of a Host header value as the SPECIFICATION reads it: a bracketed IPv6 literal `[…]` is kept whole
    (RFC 3986 host), otherwise everything before the first colon -/
def specHostPart (s : List Char) : List Char :=
  match s with
  | '[' :: rest => if rest.contains ']' then '[' :: rest.takeWhile (· ≠ ']') ++ [']'] else s.takeWhile (· ≠ ':')
  | _ => s.takeWhile (· ≠ ':')

def specProbeLabels (lc : Char → Char) (host : List Char) : List Label :=
  splitDot (dropTrailingDot (specHostPart (lower lc host)))

def validPattern (ls : List Label) : Bool := ls.tail.all (· ≠ star)

/-- the configured patterns that mean something, with their routes -/
def patterns (lc : Char → Char) (es : List Entry) : List (List Label × Route) :=
  es.filterMap fun e =>
    let p := confLabels lc e.host
    if validPattern p then some (p, e.route) else none

/-- proper suffixes, longest first -/
def properSuffixes {α : Type} : List α → List (List α)
  | [] => []
  | _ :: xs => xs :: properSuffixes xs

def specExact (ps : List (List Label × Route)) (l : List Label) : Option Route :=
  (ps.find? (fun p => p.1 = l)).map (·.2)

def specWild (ps : List (List Label × Route)) (l : List Label) : Option Route :=
  (properSuffixes l).findSome? fun s => specExact ps (star :: s)

/-- exact entry, else longest-suffix wildcard entry, for given request labels -/
def specFindHostAt (ps : List (List Label × Route)) (l : List Label) : Option Route :=
  match specExact ps l with
  | some r => some r
  | none => specWild ps l

def specFindHost (lc : Char → Char) (es : List Entry) (host : List Char) : Option Route :=
  specFindHostAt (patterns lc es) (specProbeLabels lc host)

def specLookup (lc : Char → Char) (es : List Entry) (vips : List (List UInt8 × String)) (defaultProduct : String)
    (host : List Char) (vip : Option (List UInt8)) : Option Route :=
  match specFindHost lc es host with
  | some r => some r
  | none =>
    -- the product configured for the address the connection arrived on (IPv4 = IPv4-mapped IPv6)
    match vip.bind (fun v => (to16 v).bind fun k => vips.lookup k) with
    | some p => some { product := p, tag := "" }
    | none => if defaultProduct = "" then none else some { product := defaultProduct, tag := "" }

/-- well-formedness of a host table: the meaningful patterns are pairwise distinct after normalisation
    (`HostRuleConfLoad` only rejects byte-identical duplicates; distinctness after normalisation is what
    makes the result independent of Go's map iteration order) -/
def WF (lc : Char → Char) (es : List Entry) : Prop := ((patterns lc es).map (·.1)).Nodup

def wfB (lc : Char → Char) (es : List Entry) : Bool :=
  let ks := (patterns lc es).map (·.1)
  (List.range ks.length).all fun i => (List.range i).all fun j => ks.getD i [] != ks.getD j []

end BfeVerif.C10
