import BfeVerif.C10.Model
/-! C10 helper lemmas: a denotation of the trie (entry / splat stored at a path), what `get` and `set` do
    to it, and the translation between reversed paths and label suffixes. -/
namespace BfeVerif.C10

/-- left-biased choice -/
def orE {α : Type} : Option α → Option α → Option α
  | some a, _ => some a
  | none, b => b

@[simp] theorem orE_none_left {α} (b : Option α) : orE none b = b := rfl
@[simp] theorem orE_some {α} (a : α) (b : Option α) : orE (some a) b = some a := rfl
@[simp] theorem orE_none_right {α} (a : Option α) : orE a none = a := by cases a <;> rfl
theorem orE_assoc {α} (a b c : Option α) : orE (orE a b) c = orE a (orE b c) := by cases a <;> rfl

theorem findSome?_none {α β} (l : List α) : l.findSome? (fun _ => (none : Option β)) = none := by
  induction l with
  | nil => rfl
  | cons a l ih => simp [List.findSome?, ih]

theorem findSome?_append_single {α β} (l : List α) (x : α) (f : α → Option β) :
    (l ++ [x]).findSome? f = orE (l.findSome? f) (f x) := by
  induction l with
  | nil => simp [List.findSome?]
  | cons a l ih =>
    simp only [List.cons_append, List.findSome?]
    cases f a <;> simp [ih]

namespace Trie
variable {V : Type}

theorem lookupChild_setChild (k k' : Label) (c : Trie V) (ch : List (Label × Trie V)) :
    lookupChild k' (setChild k c ch) = if k' = k then some c else lookupChild k' ch := by
  induction ch with
  | nil =>
    simp only [setChild, lookupChild]
  | cons x rest ih =>
    obtain ⟨k0, c0⟩ := x
    simp only [setChild]
    by_cases h : k = k0
    · subst h
      simp only [if_true, lookupChild]
      by_cases h' : k' = k <;> simp [h']
    · simp only [h, if_false, lookupChild, ih]
      by_cases h' : k' = k
      · subst h'; simp [h]
      · simp [h']

def entryOf : Trie V → Option V
  | .node e _ _ => e

def splatOf : Trie V → Option V
  | .node _ s _ => s

/-- the node reached by following `p` -/
def nodeAt : List Label → Trie V → Option (Trie V)
  | [], t => some t
  | k :: ks, .node _ _ ch =>
    match lookupChild k ch with
    | some c => nodeAt ks c
    | none => none

def entryAt (p : List Label) (t : Trie V) : Option V := (nodeAt p t).bind entryOf
def splatAt (p : List Label) (t : Trie V) : Option V := (nodeAt p t).bind splatOf

/-- proper prefixes, longest first -/
def ppd {α : Type} : List α → List (List α)
  | [] => []
  | k :: ks => (ppd ks).map (k :: ·) ++ [[]]

theorem entryAt_cons (k : Label) (ks : List Label) (e s : Option V) (ch) :
    entryAt (k :: ks) (.node e s ch) =
      match lookupChild k ch with | some c => entryAt ks c | none => none := by
  simp only [entryAt, nodeAt]; cases lookupChild k ch <;> rfl

theorem splatAt_cons (k : Label) (ks : List Label) (e s : Option V) (ch) :
    splatAt (k :: ks) (.node e s ch) =
      match lookupChild k ch with | some c => splatAt ks c | none => none := by
  simp only [splatAt, nodeAt]; cases lookupChild k ch <;> rfl

/-- `Get` returns the entry stored at the path, else the splat entry of the deepest proper prefix. -/
theorem get_eq (q : List Label) (t : Trie V) :
    get q t = orE (entryAt q t) ((ppd q).findSome? fun p => splatAt p t) := by
  induction q generalizing t with
  | nil => cases t; simp [get, entryAt, nodeAt, entryOf, ppd]
  | cons k ks ih =>
    obtain ⟨e, s, ch⟩ := t
    simp only [get, ppd, findSome?_append_single, List.findSome?_map, entryAt_cons]
    have hs : splatAt [] (node e s ch) = s := rfl
    rw [hs]
    cases hl : lookupChild k ch with
    | none =>
      have : ((fun p => splatAt p (node e s ch)) ∘ fun x => k :: x) = fun _ => none := by
        funext p; simp [splatAt_cons, hl]
      simp only [this, findSome?_none, orE_none_left]
    | some c =>
      have : ((fun p => splatAt p (node e s ch)) ∘ fun x => k :: x) = fun p => splatAt p c := by
        funext p; simp [splatAt_cons, hl]
      simp only [this, ih c, ← orE_assoc]
      cases orE (entryAt ks c) (List.findSome? (fun p => splatAt p c) (ppd ks)) <;> rfl

/-- a path `Set` accepts: `*` only as last element -/
def validPath : List Label → Bool
  | [] => true
  | k :: ks => (ks.isEmpty || k != star) && validPath ks

theorem entryAt_empty (q : List Label) : entryAt q (empty : Trie V) = none := by
  cases q <;> simp [entryAt, nodeAt, empty, lookupChild, entryOf]

theorem splatAt_empty (q : List Label) : splatAt q (empty : Trie V) = none := by
  cases q <;> simp [splatAt, nodeAt, empty, lookupChild, splatOf]

theorem entryAt_set (p q : List Label) (v : V) (t : Trie V) :
    entryAt q (set p v t) = if validPath p = true ∧ q = p then some v else entryAt q t := by
  induction p generalizing q t with
  | nil =>
    obtain ⟨e, s, ch⟩ := t
    cases q with
    | nil => simp [set, entryAt, nodeAt, entryOf, validPath]
    | cons k ks => simp [set, entryAt_cons]
  | cons k ks ih =>
    obtain ⟨e, s, ch⟩ := t
    simp only [set]
    by_cases hbad : k = star ∧ ks ≠ []
    · have : validPath (k :: ks) = false := by
        obtain ⟨h1, h2⟩ := hbad
        cases ks with
        | nil => exact absurd rfl h2
        | cons a b => simp [validPath, h1]
      rw [if_pos hbad, if_neg (by simp [this])]
    · simp only [hbad, if_false]
      cases q with
      | nil => simp [entryAt, nodeAt, entryOf]
      | cons k' qs =>
        simp only [entryAt_cons, lookupChild_setChild]
        by_cases hk : k' = k
        · subst hk
          simp only [if_true, ih]
          have hv : validPath (k' :: ks) = validPath ks := by
            simp only [validPath]
            by_cases h1 : ks = []
            · simp [h1]
            · have : k' ≠ star := fun h => hbad ⟨h, h1⟩
              simp [this]
          have hc : entryAt qs ((lookupChild k' ch).getD empty) =
              (match lookupChild k' ch with | some c => entryAt qs c | none => none) := by
            cases lookupChild k' ch <;> simp [entryAt_empty]
          rw [hv, hc]
          simp
        · have : ¬ (k' :: qs = k :: ks) := by intro h; injection h with h1 _; exact hk h1
          simp [hk, this]

theorem splatAt_set (p q : List Label) (v : V) (t : Trie V) :
    splatAt q (set p v t) = if validPath p = true ∧ p = q ++ [star] then some v else splatAt q t := by
  induction p generalizing q t with
  | nil =>
    obtain ⟨e, s, ch⟩ := t
    cases q with
    | nil => simp [set, splatAt, nodeAt, splatOf]
    | cons k ks => simp [set, splatAt_cons]
  | cons k ks ih =>
    obtain ⟨e, s, ch⟩ := t
    simp only [set]
    by_cases hbad : k = star ∧ ks ≠ []
    · have : validPath (k :: ks) = false := by
        obtain ⟨h1, h2⟩ := hbad
        cases ks with
        | nil => exact absurd rfl h2
        | cons a b => simp [validPath, h1]
      rw [if_pos hbad, if_neg (by simp [this])]
    · simp only [hbad, if_false]
      cases q with
      | nil =>
        simp only [splatAt, nodeAt, Option.bind_some, splatOf, List.nil_append]
        by_cases hk : k = star
        · have hks : ks = [] := by
            cases ks with
            | nil => rfl
            | cons a b => exact absurd ⟨hk, by simp⟩ hbad
          simp [hk, hks, validPath]
        · have : ¬ (k :: ks = [star]) := by intro h; injection h with h1 _; exact hk h1
          simp [hk, this]
      | cons k' qs =>
        simp only [splatAt_cons, lookupChild_setChild]
        by_cases hk : k' = k
        · subst hk
          simp only [if_true, ih]
          have hv : validPath (k' :: ks) = validPath ks := by
            simp only [validPath]
            by_cases h1 : ks = []
            · simp [h1]
            · have : k' ≠ star := fun h => hbad ⟨h, h1⟩
              simp [this]
          have hc : splatAt qs ((lookupChild k' ch).getD empty) =
              (match lookupChild k' ch with | some c => splatAt qs c | none => none) := by
            cases lookupChild k' ch <;> simp [splatAt_empty]
          rw [hv, hc]
          simp
        · have : ¬ (k :: ks = k' :: qs ++ [star]) := by
            intro h; injection h with h1 _; exact hk h1.symm
          have hk' : ¬ k = k' := fun h => hk h.symm
          simp [hk, hk']

end Trie

open Trie

/-- last writer among the entries whose (accepted) path is `q` -/
def lastMatch (lc : Char → Char) : List Entry → List Label → Option Route
  | [], _ => none
  | e :: es, q => orE (lastMatch lc es q)
      (if validPath (confPath lc e.host) = true ∧ confPath lc e.host = q then some e.route else none)

theorem entryAt_foldl (lc : Char → Char) (es : List Entry) (q : List Label) (t : Trie Route) :
    entryAt q (es.foldl (fun t e => Trie.set (confPath lc e.host) e.route t) t) =
      orE (lastMatch lc es q) (entryAt q t) := by
  induction es generalizing t with
  | nil => simp [lastMatch]
  | cons e es ih =>
    simp only [List.foldl, ih, entryAt_set, lastMatch, orE_assoc]
    congr 1
    by_cases h : validPath (confPath lc e.host) = true ∧ confPath lc e.host = q
    · have h' : validPath (confPath lc e.host) = true ∧ q = confPath lc e.host := ⟨h.1, h.2.symm⟩
      rw [if_pos h', if_pos h]; rfl
    · have h' : ¬ (validPath (confPath lc e.host) = true ∧ q = confPath lc e.host) :=
        fun x => h ⟨x.1, x.2.symm⟩
      rw [if_neg h', if_neg h]; rfl

theorem splatAt_foldl (lc : Char → Char) (es : List Entry) (q : List Label) (t : Trie Route) :
    splatAt q (es.foldl (fun t e => Trie.set (confPath lc e.host) e.route t) t) =
      orE (lastMatch lc es (q ++ [star])) (splatAt q t) := by
  induction es generalizing t with
  | nil => simp [lastMatch]
  | cons e es ih =>
    simp only [List.foldl, ih, splatAt_set, lastMatch, orE_assoc]
    congr 1
    by_cases h : validPath (confPath lc e.host) = true ∧ confPath lc e.host = q ++ [star]
    · rw [if_pos h, if_pos h]; rfl
    · rw [if_neg h, if_neg h]; rfl

/-- the trie built from a host table, read through `Get` -/
theorem get_build (lc : Char → Char) (es : List Entry) (q : List Label) :
    Trie.get q (buildHostRoute lc es) =
      orE (lastMatch lc es q) ((ppd q).findSome? fun p => lastMatch lc es (p ++ [star])) := by
  rw [get_eq]
  unfold buildHostRoute
  rw [entryAt_foldl lc, entryAt_empty, orE_none_right]
  congr 1
  congr 1
  funext p
  rw [splatAt_foldl lc, splatAt_empty, orE_none_right]

/-! ### reversed paths ↔ labels -/

/-- labels → trie path: reverse the order of the labels and every label -/
def rev (ls : List Label) : List Label := (ls.map List.reverse).reverse

@[simp] theorem rev_cons (a : Label) (ls : List Label) : rev (a :: ls) = rev ls ++ [a.reverse] := by
  simp [rev]

@[simp] theorem rev_nil : rev [] = [] := rfl

theorem rev_rev (ls : List Label) : rev (rev ls) = ls := by
  simp [rev, List.map_reverse, Function.comp_def]

theorem rev_inj {a b : List Label} : rev a = rev b ↔ a = b :=
  ⟨fun h => by rw [← rev_rev a, h, rev_rev], fun h => by rw [h]⟩

theorem splitDot_ne_nil (s : List Char) : splitDot s ≠ [] := by
  cases s with
  | nil => simp [splitDot]
  | cons c cs =>
    simp only [splitDot]
    split
    · simp
    · split <;> simp

theorem splitDot_append_dot (a b : List Char) : splitDot (a ++ '.' :: b) = splitDot a ++ splitDot b := by
  induction a with
  | nil => simp [splitDot]
  | cons c a ih =>
    simp only [List.cons_append, splitDot, ih]
    by_cases hc : c = '.'
    · simp [hc]
    · simp only [hc, if_false]
      cases hs : splitDot a with
      | nil => exact absurd hs (splitDot_ne_nil a)
      | cons l ls => simp

def snocLast (c : Char) : List Label → List Label
  | [] => [[c]]
  | [l] => [l ++ [c]]
  | l :: l2 :: ls => l :: snocLast c (l2 :: ls)

theorem snocLast_append_single (c : Char) (xs : List Label) (y : Label) :
    snocLast c (xs ++ [y]) = xs ++ [y ++ [c]] := by
  induction xs with
  | nil => rfl
  | cons x xs ih =>
    cases xs with
    | nil => simp [snocLast]
    | cons x2 xs2 =>
      simp only [List.cons_append, snocLast] at ih ⊢
      rw [ih]

theorem splitDot_snoc (x : List Char) (c : Char) (hc : c ≠ '.') :
    splitDot (x ++ [c]) = snocLast c (splitDot x) := by
  induction x with
  | nil => simp [splitDot, hc, snocLast]
  | cons d x ih =>
    simp only [List.cons_append, splitDot, ih]
    by_cases hd : d = '.'
    · simp only [hd, if_true]
      cases hs : splitDot x with
      | nil => exact absurd hs (splitDot_ne_nil x)
      | cons l ls => simp [snocLast]
    · simp only [hd, if_false]
      cases hs : splitDot x with
      | nil => exact absurd hs (splitDot_ne_nil x)
      | cons l ls =>
        cases ls with
        | nil => simp [snocLast]
        | cons l2 ls2 => simp [snocLast]

/-- splitting the reversed string = reversing the labels and their order -/
theorem splitDot_reverse (s : List Char) : splitDot s.reverse = rev (splitDot s) := by
  induction s with
  | nil => rfl
  | cons c s ih =>
    simp only [List.reverse_cons]
    by_cases hc : c = '.'
    · subst hc
      have := splitDot_append_dot s.reverse []
      simp only [splitDot] at this ⊢
      rw [this, ih]
      simp
    · rw [splitDot_snoc _ _ hc, ih]
      simp only [splitDot, hc, if_false]
      cases hs : splitDot s with
      | nil => exact absurd hs (splitDot_ne_nil s)
      | cons l ls =>
        simp only [rev_cons, snocLast_append_single, List.reverse_cons]

theorem reverseFqdn_eq (s : List Char) : reverseFqdn s = (dropTrailingDot s).reverse := by
  unfold reverseFqdn dropTrailingDot
  split
  · next r h => simp
  · rfl

theorem confPath_eq (lc : Char → Char) (h : List Char) : confPath lc h = rev (confLabels lc h) := by
  unfold confPath confLabels; rw [reverseFqdn_eq, splitDot_reverse]

theorem probePath_eq (lc : Char → Char) (h : List Char) : probePath lc h = rev (probeLabels lc h) := by
  unfold probePath probeLabels; rw [reverseFqdn_eq, splitDot_reverse]

theorem reverse_eq_star (l : Label) : l.reverse = star ↔ l = star := by
  constructor
  · intro h
    have := congrArg List.reverse h
    simpa [star] using this
  · intro h; subst h; rfl

theorem validPath_snoc (xs : List Label) (y : Label) :
    validPath (xs ++ [y]) = xs.all (fun l => l != star) := by
  induction xs with
  | nil => simp [validPath]
  | cons x xs ih =>
    simp only [List.cons_append, validPath, ih, List.all_cons]
    cases xs <;> simp [Bool.and_comm]

theorem validPath_rev (ls : List Label) : validPath (rev ls) = validPattern ls := by
  cases ls with
  | nil => rfl
  | cons a ls =>
    rw [rev_cons, validPath_snoc]
    simp only [validPattern, List.tail_cons, rev, List.all_reverse, List.all_map]
    congr 1
    funext l
    simp only [Function.comp]
    by_cases h : l = star
    · subst h; decide
    · have : l.reverse ≠ star := fun h2 => h ((reverse_eq_star l).mp h2)
      simp [h, this]

theorem ppd_snoc {α} (xs : List α) (y : α) : ppd (xs ++ [y]) = xs :: ppd xs := by
  induction xs with
  | nil => rfl
  | cons k xs ih => simp [ppd, ih]

theorem ppd_rev (l : List Label) : ppd (rev l) = (properSuffixes l).map rev := by
  induction l with
  | nil => rfl
  | cons a l ih => simp [ppd_snoc, properSuffixes, ih]

theorem specExact_none_of_not_mem (ps : List (List Label × Route)) (l : List Label)
    (h : l ∉ ps.map (·.1)) : specExact ps l = none := by
  unfold specExact
  have : ps.find? (fun p => decide (p.1 = l)) = none := by
    rw [List.find?_eq_none]
    intro p hp
    simp only [decide_eq_true_eq]
    intro hpl
    exact h (by rw [← hpl]; exact List.mem_map_of_mem hp)
  simp [this]

/-- under `WF`, last-writer lookup on reversed paths is the order-free lookup on label patterns -/
theorem lastMatch_eq_specExact (lc : Char → Char) (es : List Entry) (l : List Label) (hwf : WF lc es) :
    lastMatch lc es (rev l) = specExact (patterns lc es) l := by
  induction es with
  | nil => rfl
  | cons e es ih =>
    unfold WF at hwf
    simp only [lastMatch, confPath_eq, validPath_rev, rev_inj]
    by_cases hv : validPattern (confLabels lc e.host) = true
    · have hp : patterns lc (e :: es) = (confLabels lc e.host, e.route) :: patterns lc es := by
        simp [patterns, hv]
      rw [hp] at hwf ⊢
      simp only [List.map_cons, List.nodup_cons] at hwf
      rw [ih hwf.2]
      by_cases hl : confLabels lc e.host = l
      · subst hl
        rw [specExact_none_of_not_mem _ _ hwf.1]
        simp [specExact, hv]
      · simp [specExact, hl, hv]
    · have hp : patterns lc (e :: es) = patterns lc es := by
        simp [patterns, hv]
      rw [hp] at hwf ⊢
      rw [ih hwf]
      simp [hv]

end BfeVerif.C10
