import BfeVerif.C10.Driver
def main : IO Unit := BfeVerif.Proto.driverMain BfeVerif.C10.run
