import BfeVerif.C10.Norm
/-!
  C10 — host → product resolution follows the host table.  Property theorems only.
-/
namespace BfeVerif.C10
open Trie

/-- Refinement of the trie: for EVERY host table whose meaningful patterns are pairwise distinct after
    normalisation — in whatever order Go's map iteration inserts them — and EVERY request host, the reversed-label
    trie with splat entries returns the entry with exactly the request's labels, else the wildcard entry
    `*.s` with the longest proper label suffix `s`, else nothing. -/
theorem C10_trie_refines (es : List Entry) (host : List Char) (hwf : WF es) :
    findHostRoute (buildHostRoute es) host = specFindHost es host := by
  unfold findHostRoute specFindHost
  rw [probePath_eq, get_build, lastMatch_eq_specExact es _ hwf, ppd_rev, List.findSome?_map]
  have : ((fun p => lastMatch es (p ++ [star])) ∘ rev) =
      fun s => specExact (patterns es) (star :: s) := by
    funext s
    have h1 : rev s ++ [star] = rev (star :: s) := by simp [star]
    simp only [Function.comp, h1, lastMatch_eq_specExact es _ hwf]
  rw [this]
  simp only [specWild]
  cases specExact (patterns es) (probeLabels host) <;> rfl

/-- The whole chain of `LookupHostTagAndProduct`: host table (exact > longest wildcard) > VIP table >
    default product > no product. -/
theorem C10_chain (es : List Entry) (vips : List (String × String)) (dp : String)
    (host : List Char) (vip : Option String) (hwf : WF es) :
    lookupHostTagAndProduct es vips dp host vip = specLookup es vips dp host vip := by
  unfold lookupHostTagAndProduct specLookup
  rw [C10_trie_refines es host hwf]
  cases specFindHost es host with
  | some r => rfl
  | none =>
    have hl : ∀ v, findVipRoute vips v = (vips.lookup v).map fun p => ({ product := p, tag := "" } : Route) := by
      intro v
      simp only [findVipRoute]
      cases vips with
      | nil => simp [List.lookup]
      | cons a b => simp
    dsimp only
    cases vip with
    | none => by_cases hd : dp = "" <;> simp [hd]
    | some v =>
      simp only [hl, Option.bind_some]
      cases vips.lookup v with
      | some p => rfl
      | none => by_cases hd : dp = "" <;> simp [hd]

/-- Exact beats wildcard: if some entry has exactly the request's labels, its route is the answer. -/
theorem C10_exact_first (es : List Entry) (host : List Char) (r : Route) (hwf : WF es)
    (h : (probeLabels host, r) ∈ patterns es) :
    findHostRoute (buildHostRoute es) host = some r := by
  rw [C10_trie_refines es host hwf]
  unfold specFindHost specExact
  cases hf : (patterns es).find? (fun p => decide (p.1 = probeLabels host)) with
  | none =>
    rw [List.find?_eq_none] at hf
    exact absurd (by simp) (hf _ h)
  | some p =>
    -- the found pattern has the same labels; by distinctness it is the same entry
    have hp := List.find?_some hf
    have hm := List.mem_of_find?_eq_some hf
    simp only [decide_eq_true_eq] at hp
    have : p = (probeLabels host, r) := by
      unfold WF at hwf
      have key : ∀ (ps : List (List Label × Route)), (ps.map (·.1)).Nodup →
          ∀ a b, a ∈ ps → b ∈ ps → a.1 = b.1 → a = b := by
        intro ps
        induction ps with
        | nil => intro _ a b ha; cases ha
        | cons x xs ih =>
          intro hnd a b ha hb hab
          simp only [List.map_cons, List.nodup_cons] at hnd
          rcases List.mem_cons.mp ha with rfl | ha' <;> rcases List.mem_cons.mp hb with rfl | hb'
          · rfl
          · exact absurd (by rw [hab]; exact List.mem_map_of_mem hb') hnd.1
          · exact absurd (by rw [← hab]; exact List.mem_map_of_mem ha') hnd.1
          · exact ih hnd.2 a b ha' hb' hab
      exact key _ hwf _ _ hm h hp
    dsimp only
    rw [hf, this]
    rfl

/-- A wildcard answer is the *longest* one: when the trie answers from a wildcard entry `*.s`, no entry
    with exactly the request's labels exists and no wildcard entry with a longer matching suffix exists. -/
theorem C10_wild_longest (es : List Entry) (host : List Char) (hwf : WF es)
    (hne : specExact (patterns es) (probeLabels host) = none) :
    findHostRoute (buildHostRoute es) host =
      (properSuffixes (probeLabels host)).findSome? fun s => specExact (patterns es) (star :: s) := by
  rw [C10_trie_refines es host hwf]
  simp [specFindHost, hne, specWild]

/-- The request-host normalisation of the code, for every trie: `:port` is ignored, ONE trailing dot is ignored,
    ASCII case is ignored. -/
theorem C10_norm (t : Trie Route) (h port : List Char) (hc : ':' ∉ h) :
    findHostRoute t (h ++ ':' :: port) = findHostRoute t h ∧
    (h.getLast? ≠ some '.' → findHostRoute t (h ++ ['.']) = findHostRoute t h) ∧
    findHostRoute t (h.map upperAscii) = findHostRoute t h := by
  unfold findHostRoute
  refine ⟨by rw [probePath_port h port hc], fun hd => by rw [probePath_dot h hc hd], by rw [probePath_case]⟩

/-- Independence of Go's map iteration order: for a well-formed host table every insertion order of the
    entries yields a trie with the same answers. -/
theorem C10_order_independent (es es' : List Entry) (hp : es.Perm es') (hwf : WF es) (host : List Char) :
    findHostRoute (buildHostRoute es) host = findHostRoute (buildHostRoute es') host := by
  have hpp := patterns_perm es es' hp
  have hwf' : WF es' := (List.Perm.nodup_iff (hpp.map _)).mp hwf
  rw [C10_trie_refines es host hwf, C10_trie_refines es' host hwf']
  have he : ∀ l, specExact (patterns es) l = specExact (patterns es') l :=
    fun l => specExact_perm _ _ hpp hwf l
  simp only [specFindHost, specWild, he]

/-- The hypothesis `WF` is needed: with two configured names that differ only in case (both accepted by
    `HostRuleConfLoad`) the answer depends on the order in which Go's map iteration inserts them. -/
theorem C10_witness_order_dependent :
    ¬ ∀ (es es' : List Entry), es.Perm es' → ∀ host,
        findHostRoute (buildHostRoute es) host = findHostRoute (buildHostRoute es') host := by
  intro h
  let e1 : Entry := ⟨"A.b".toList, ⟨"p1", "t1"⟩⟩
  let e2 : Entry := ⟨"a.b".toList, ⟨"p2", "t2"⟩⟩
  have := h [e1, e2] [e2, e1] (List.Perm.swap e2 e1 []) "a.b".toList
  revert this
  decide

/-! ### non-vacuity and documented behaviour on a concrete table -/

def exTable : List Entry :=
  [⟨"example.org".toList, ⟨"pA", "t1"⟩⟩, ⟨"*.example.org".toList, ⟨"pB", "t2"⟩⟩,
   ⟨"*.Foo.example.org.".toList, ⟨"pC", "t3"⟩⟩, ⟨"a.*.org".toList, ⟨"pD", "t4"⟩⟩]

example : WF exTable := by unfold WF; decide
example : lookupHostTagAndProduct exTable [] "" "EXAMPLE.org.:8080".toList none = some ⟨"pA", "t1"⟩ := by decide
example : lookupHostTagAndProduct exTable [] "" "x.y.example.org".toList none = some ⟨"pB", "t2"⟩ := by decide
example : lookupHostTagAndProduct exTable [] "" "x.foo.example.org".toList none = some ⟨"pC", "t3"⟩ := by decide
example : lookupHostTagAndProduct exTable [] "" "foo.example.org".toList none = some ⟨"pB", "t2"⟩ := by decide
example : lookupHostTagAndProduct exTable [("10.0.0.1", "pV")] "pDef" "a.b.org".toList (some "10.0.0.1") = some ⟨"pV", ""⟩ := by decide
example : lookupHostTagAndProduct exTable [("10.0.0.1", "pV")] "pDef" "a.b.org".toList (some "10.0.0.2") = some ⟨"pDef", ""⟩ := by decide
example : lookupHostTagAndProduct exTable [("10.0.0.1", "pV")] "" "org".toList none = none := by decide

end BfeVerif.C10
