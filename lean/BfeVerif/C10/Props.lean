import BfeVerif.C10.Norm
/-!
  C10 — host → product resolution follows the host table.  Property theorems only.

  `lc` is the rune map of `strings.ToLower` (`lowerC` on ASCII, Go's `unicode.ToLower` elsewhere): the
  theorems hold for EVERY rune map, hence for arbitrary (also non-ASCII / invalid-UTF-8) host names — Go's
  decoding of invalid bytes to U+FFFD happens before the model (driver / harness) and is exercised only.

  FULL STATEMENT (false for the code as it is, see `C10_witness_ipv6_literal`):
      ∀ lc es vips dp host vip, WF lc es →
        lookupHostTagAndProduct lc es vips dp host vip = specLookup lc es vips dp host vip
  where the specification keeps a bracketed IPv6 literal whole when it removes the port.
-/
namespace BfeVerif.C10
open Trie

/-- The trie on the labels the code extracts: for EVERY host table whose meaningful patterns are pairwise
    distinct after normalisation — in whatever order Go's map iteration inserts them — and EVERY request host,
    the reversed-label trie with splat entries returns the entry with exactly these labels, else the
    wildcard entry `*.s` with the longest proper label suffix `s`, else nothing. -/
theorem C10_trie_labels (lc : Char → Char) (es : List Entry) (host : List Char) (hwf : WF lc es) :
    findHostRoute lc (buildHostRoute lc es) host = specFindHostAt (patterns lc es) (probeLabels lc host) := by
  unfold findHostRoute specFindHostAt
  rw [probePath_eq, get_build, lastMatch_eq_specExact lc es _ hwf, ppd_rev, List.findSome?_map]
  have : ((fun p => lastMatch lc es (p ++ [star])) ∘ rev) =
      fun s => specExact (patterns lc es) (star :: s) := by
    funext s
    have h1 : rev s ++ [star] = rev (star :: s) := by simp [star]
    simp only [Function.comp, h1, lastMatch_eq_specExact lc es _ hwf]
  rw [this]
  simp only [specWild]
  cases specExact (patterns lc es) (probeLabels lc host) <;> rfl

/-- Refinement against the specification, for every request host that is not a bracketed IPv6 literal. -/
theorem C10_trie_refines_partial (lc : Char → Char) (es : List Entry) (host : List Char) (hwf : WF lc es)
    (hb : (lower lc host).head? ≠ some '[') :
    findHostRoute lc (buildHostRoute lc es) host = specFindHost lc es host := by
  rw [C10_trie_labels lc es host hwf, specFindHost, specProbeLabels_eq lc host hb]

/-- The whole chain of `LookupHostTagAndProduct`: host table (exact > longest wildcard) > VIP table (the
    product of the address the connection arrived on, IPv4 = IPv4-mapped IPv6) > default product > no product. -/
theorem C10_chain_partial (lc : Char → Char) (es : List Entry) (vips : List (List UInt8 × String)) (dp : String)
    (host : List Char) (vip : Option (List UInt8)) (hwf : WF lc es) (hb : (lower lc host).head? ≠ some '[') :
    lookupHostTagAndProduct lc es vips dp host vip = specLookup lc es vips dp host vip := by
  unfold lookupHostTagAndProduct specLookup
  rw [C10_trie_refines_partial lc es host hwf hb]
  cases specFindHost lc es host with
  | some r => rfl
  | none =>
    have hl : ∀ v, findVipRoute vips v =
        ((to16 v).bind fun k => vips.lookup k).map fun p => ({ product := p, tag := "" } : Route) := by
      intro v
      simp only [findVipRoute]
      cases vips with
      | nil => cases to16 v <;> simp [List.lookup]
      | cons a b => cases to16 v <;> simp
    dsimp only
    cases vip with
    | none => by_cases hd : dp = "" <;> simp [hd]
    | some v =>
      simp only [hl, Option.bind_some]
      cases (to16 v).bind fun k => vips.lookup k with
      | some p => rfl
      | none => by_cases hd : dp = "" <;> simp [hd]

/-- The bracket hypothesis is needed: a configured IPv6-literal host can never be reached, because the code cuts
    the request host at its FIRST colon (`[::1]` and `[::1]:80` both become `[`). -/
theorem C10_witness_ipv6_literal :
    ¬ ∀ (es : List Entry) (host : List Char), WF lowerC es →
        findHostRoute lowerC (buildHostRoute lowerC es) host = specFindHost lowerC es host := by
  intro h
  have := h [⟨"[::1]".toList, ⟨"p", "t"⟩⟩] "[::1]:80".toList (by unfold WF; decide)
  revert this
  decide

/-- VIP stage: with pairwise distinct configured addresses, the connection's VIP yields product `p` exactly when
    `p` is configured for that address — a 4-byte address and its IPv4-mapped 16-byte form being the same
    address; a VIP of any other length (and an empty VIP table) yields nothing. -/
theorem C10_vip (vips : List (List UInt8 × String)) (hnd : (vips.map (·.1)).Nodup) (v : List UInt8) (p : String) :
    findVipRoute vips v = some { product := p, tag := "" } ↔ ∃ k, to16 v = some k ∧ (k, p) ∈ vips := by
  unfold findVipRoute
  by_cases h0 : vips.length = 0
  · have : vips = [] := List.eq_nil_of_length_eq_zero h0
    subst this; simp
  · simp only [h0, if_false]
    cases hk : to16 v with
    | none => simp
    | some k =>
      simp only [Option.some.injEq, exists_eq_left']
      rw [← lookup_eq_some_iff vips hnd k p]
      cases vips.lookup k with
      | none => simp
      | some q =>
        simp only [Option.map_some, Option.some.injEq, Route.mk.injEq, and_true]

/-- IPv4 and IPv4-mapped IPv6 forms of the connection address select the same product. -/
theorem C10_vip_v4_mapped (vips : List (List UInt8 × String)) (a b c d : UInt8) :
    findVipRoute vips [a, b, c, d] = findVipRoute vips [0, 0, 0, 0, 0, 0, 0, 0, 0, 0, 255, 255, a, b, c, d] := by
  simp [findVipRoute, to16]

/-- Exact beats wildcard: if some entry has exactly the request's labels, its route is the answer. -/
theorem C10_exact_first (lc : Char → Char) (es : List Entry) (host : List Char) (r : Route) (hwf : WF lc es)
    (h : (probeLabels lc host, r) ∈ patterns lc es) :
    findHostRoute lc (buildHostRoute lc es) host = some r := by
  rw [C10_trie_labels lc es host hwf]
  have := (specExact_eq_some_iff (patterns lc es) hwf (probeLabels lc host) r).mpr h
  simp [specFindHostAt, this]

/-- A wildcard answer is the *longest* one. -/
theorem C10_wild_longest (lc : Char → Char) (es : List Entry) (host : List Char) (hwf : WF lc es)
    (hne : specExact (patterns lc es) (probeLabels lc host) = none) :
    findHostRoute lc (buildHostRoute lc es) host =
      (properSuffixes (probeLabels lc host)).findSome? fun s => specExact (patterns lc es) (star :: s) := by
  rw [C10_trie_labels lc es host hwf]
  simp [specFindHostAt, hne, specWild]

/-- The request-host normalisation of the code, for every trie and every rune map that leaves `:` and `.` alone:
    `:port` is ignored, ONE trailing dot is ignored; and with the ASCII map, ASCII case is ignored. -/
theorem C10_norm (lc : Char → Char) (hk : KeepsSep lc) (t : Trie Route) (h port : List Char) (hc : ':' ∉ h) :
    findHostRoute lc t (h ++ ':' :: port) = findHostRoute lc t h ∧
    (h.getLast? ≠ some '.' → findHostRoute lc t (h ++ ['.']) = findHostRoute lc t h) ∧
    findHostRoute lowerC t (h.map upperAscii) = findHostRoute lowerC t h := by
  unfold findHostRoute
  refine ⟨by rw [probePath_port lc hk h port hc], fun hd => by rw [probePath_dot lc hk h hc hd], by rw [probePath_case]⟩

/-- Independence of Go's map iteration order. -/
theorem C10_order_independent (lc : Char → Char) (es es' : List Entry) (hp : es.Perm es') (hwf : WF lc es)
    (host : List Char) :
    findHostRoute lc (buildHostRoute lc es) host = findHostRoute lc (buildHostRoute lc es') host := by
  have hpp := patterns_perm lc es es' hp
  have hwf' : WF lc es' := (List.Perm.nodup_iff (hpp.map _)).mp hwf
  rw [C10_trie_labels lc es host hwf, C10_trie_labels lc es' host hwf']
  have he : ∀ l, specExact (patterns lc es) l = specExact (patterns lc es') l :=
    fun l => specExact_perm _ _ hpp hwf l
  simp only [specFindHostAt, specWild, he]

/-- The hypothesis `WF` is needed: with two configured names that differ only in case (both accepted by
    `HostRuleConfLoad`) the answer depends on the order in which Go's map iteration inserts them. -/
theorem C10_witness_order_dependent :
    ¬ ∀ (es es' : List Entry), es.Perm es' → ∀ host,
        findHostRoute lowerC (buildHostRoute lowerC es) host = findHostRoute lowerC (buildHostRoute lowerC es') host := by
  intro h
  let e1 : Entry := ⟨"A.b".toList, ⟨"p1", "t1"⟩⟩
  let e2 : Entry := ⟨"a.b".toList, ⟨"p2", "t2"⟩⟩
  have := h [e1, e2] [e2, e1] (List.Perm.swap e2 e1 []) "a.b".toList
  revert this
  decide

/-! ### non-vacuity and documented behaviour on a concrete table -/

def exTable : List Entry :=
  [⟨"example.org".toList, ⟨"pA", "t1"⟩⟩, ⟨"*.example.org".toList, ⟨"pB", "t2"⟩⟩,
   ⟨"*.Foo.example.org.".toList, ⟨"pC", "t3"⟩⟩, ⟨"a.*.org".toList, ⟨"pD", "t4"⟩⟩]

def v4 : List UInt8 := [10, 0, 0, 1]
def v4m : List UInt8 := [0, 0, 0, 0, 0, 0, 0, 0, 0, 0, 255, 255, 10, 0, 0, 1]

example : WF lowerC exTable := by unfold WF; decide
example : KeepsSep lowerC := lowerC_keepsSep
example : lookupHostTagAndProduct lowerC exTable [] "" "EXAMPLE.org.:8080".toList none = some ⟨"pA", "t1"⟩ := by decide
example : lookupHostTagAndProduct lowerC exTable [] "" "x.y.example.org".toList none = some ⟨"pB", "t2"⟩ := by decide
example : lookupHostTagAndProduct lowerC exTable [] "" "x.foo.example.org".toList none = some ⟨"pC", "t3"⟩ := by decide
example : lookupHostTagAndProduct lowerC exTable [] "" "foo.example.org".toList none = some ⟨"pB", "t2"⟩ := by decide
example : lookupHostTagAndProduct lowerC exTable [(v4m, "pV")] "pDef" "a.b.org".toList (some v4) = some ⟨"pV", ""⟩ := by decide
example : lookupHostTagAndProduct lowerC exTable [(v4m, "pV")] "pDef" "a.b.org".toList (some [10, 0, 0, 2]) = some ⟨"pDef", ""⟩ := by decide
example : lookupHostTagAndProduct lowerC exTable [(v4m, "pV")] "pDef" "a.b.org".toList (some [10, 0, 0]) = some ⟨"pDef", ""⟩ := by decide
example : lookupHostTagAndProduct lowerC exTable [(v4m, "pV")] "" "org".toList none = none := by decide

end BfeVerif.C10
