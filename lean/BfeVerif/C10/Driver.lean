import BfeVerif.Common.Proto
import BfeVerif.C10.Model
/-!
  C10 driver.
  op   = `t=<host>tag>product&…>;v=<ip>product&…>;d=<default product>;h=<request host>;ip=<vip|nil>`
  impl = `ok tag=<HostTag> product=<Product>` | `err:noproduct tag= product=`
-/
namespace BfeVerif.C10
open BfeVerif.Proto

def kv (fields : List String) (k : String) : Option String :=
  (fields.find? (fun f => f.startsWith (k ++ "="))).map (fun f => (f.drop (k.length + 1)).toString)

def parseEntries (s : String) : Option (List Entry) :=
  if s == "" then some [] else
  (s.splitOn "&").mapM fun e =>
    match e.splitOn ">" with
    | [h, t, p] => some { host := h.toList, route := { product := p, tag := t } }
    | _ => none

def parseVips (s : String) : Option (List (String × String)) :=
  if s == "" then some [] else
  (s.splitOn "&").mapM fun e =>
    match e.splitOn ">" with
    | [ip, p] => some (ip, p)
    | _ => none

def render : Option Route → String
  | some r => "ok tag=" ++ r.tag ++ " product=" ++ r.product
  | none => "err:noproduct tag= product="

def run (op _impl : String) : Ans :=
  let f := op.splitOn ";"
  match kv f "t", kv f "v", kv f "d", kv f "h", kv f "ip" with
  | some t, some v, some d, some h, some ip =>
    match parseEntries t, parseVips v with
    | some es, some vips =>
      let vip := if ip == "nil" then none else some ip
      let host := h.toList
      let m := lookupHostTagAndProduct es vips d host vip
      let wf := wfB es
      let spec := specLookup es vips d host vip
      let ps := patterns es
      let l := probeLabels host
      let stage :=
        if (specExact ps l).isSome then "exact"
        else if (specWild ps l).isSome then "wild"
        else if (vip.bind fun x => vips.lookup x).isSome then "vip"
        else if d != "" then "default" else "none"
      let nwild := ((properSuffixes l).filter fun s => (specExact ps (star :: s)).isSome).length
      let verdict :=
        if !wf then "skip"
        else if _impl == render spec then "ok"
        else "FAIL:" ++ stage
      { model := render m
        verdict := verdict
        tags := [stage] ++ (if nwild ≥ 2 then ["nested-wild"] else [])
                ++ (if h.any (· == ':') then ["port"] else [])
                ++ (if h.endsWith "." || (h.splitOn ":").head!.endsWith "." then ["dot"] else [])
                ++ (if h.any Char.isUpper then ["upper"] else [])
                ++ (if ps.length < es.length then ["ignored-pattern"] else [])
                ++ (if !wf then ["dup"] else [])
                ++ (if es.length ≥ 2 then ["nt"] else []) }
    | _, _ => { model := "bad-op", verdict := "skip" }
  | _, _, _, _, _ => { model := "bad-op", verdict := "skip" }

end BfeVerif.C10
