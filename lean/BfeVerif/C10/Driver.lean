import BfeVerif.Common.Proto
import BfeVerif.C10.Model
/-!
  C10 driver.
  op   = `t=<host>tag>product&…>;v=<addr text>~<hex of ParseIP(text).To16() | x>>product&…;d=<default product>;`
         `h=<request host>;ip=<nil | hex bytes of Session.Vip | ->;u=<cp>:<lower cp>,…`
         a host is ASCII text, or `x:<hex bytes>` (arbitrary bytes; decoded to runes as Go does, invalid → U+FFFD);
         `u` lists Go's `unicode.ToLower` for the non-ASCII runes that occur (external table, oracle values)
  impl = `ok tag=<HostTag> product=<Product>` | `err:noproduct tag= product=` | `err:load` (VIP file rejected)
-/
namespace BfeVerif.C10
open BfeVerif.Proto

def kv (fields : List String) (k : String) : Option String :=
  (fields.find? (fun f => f.startsWith (k ++ "="))).map (fun f => (f.drop (k.length + 1)).toString)

def isCont (b : UInt8) : Bool := 0x80 ≤ b && b ≤ 0xBF

/-- Go's `[]rune(s)` / `range s`: UTF-8 decoding in which every byte that does not start a valid encoding
    becomes U+FFFD (utf8.DecodeRune's acceptance table: no overlong forms, no surrogates, ≤ U+10FFFF). -/
def decodeAux : Nat → List UInt8 → List Char
  | 0, _ => []
  | _, [] => []
  | n + 1, b0 :: rest =>
    let bad := Char.ofNat 0xFFFD :: decodeAux n rest
    if b0 < 0x80 then Char.ofNat b0.toNat :: decodeAux n rest
    else if 0xC2 ≤ b0 && b0 ≤ 0xDF then
      match rest with
      | b1 :: r1 =>
        if isCont b1 then Char.ofNat ((b0.toNat % 32) * 64 + b1.toNat % 64) :: decodeAux n r1 else bad
      | _ => bad
    else if 0xE0 ≤ b0 && b0 ≤ 0xEF then
      match rest with
      | b1 :: b2 :: r2 =>
        let lo : UInt8 := if b0 == 0xE0 then 0xA0 else 0x80
        let hi : UInt8 := if b0 == 0xED then 0x9F else 0xBF
        if lo ≤ b1 && b1 ≤ hi && isCont b2 then
          Char.ofNat ((b0.toNat % 16) * 4096 + (b1.toNat % 64) * 64 + b2.toNat % 64) :: decodeAux n r2
        else bad
      | _ => bad
    else if 0xF0 ≤ b0 && b0 ≤ 0xF4 then
      match rest with
      | b1 :: b2 :: b3 :: r3 =>
        let lo : UInt8 := if b0 == 0xF0 then 0x90 else 0x80
        let hi : UInt8 := if b0 == 0xF4 then 0x8F else 0xBF
        if lo ≤ b1 && b1 ≤ hi && isCont b2 && isCont b3 then
          Char.ofNat ((b0.toNat % 8) * 262144 + (b1.toNat % 64) * 4096 + (b2.toNat % 64) * 64 + b3.toNat % 64)
            :: decodeAux n r3
        else bad
      | _ => bad
    else bad

def decodeGo (bs : List UInt8) : List Char := decodeAux bs.length bs

/-- a host field: ASCII text or `x:<hex>` -/
def parseHost (s : String) : Option (List Char) :=
  if s.startsWith "x:" then (bytesOfHex (s.drop 2).toString).map decodeGo else some s.toList

def parseEntries (s : String) : Option (List Entry) :=
  if s == "" then some [] else
  (s.splitOn "&").mapM fun e =>
    match e.splitOn ">" with
    | [h, t, p] => (parseHost h).map fun hc => { host := hc, route := { product := p, tag := t } }
    | _ => none

/-- VIP table: `none` inside = an address the loader rejects -/
def parseVips (s : String) : Option (List (Option (List UInt8) × String)) :=
  if s == "" then some [] else
  (s.splitOn "&").mapM fun e =>
    match e.splitOn ">" with
    | [a, p] =>
      match a.splitOn "~" with
      | [_, hx] => if hx == "x" then some (none, p) else (bytesOfHex hx).map fun b => (some b, p)
      | _ => none
    | _ => none

def parseLowerTable (s : String) : List (Nat × Nat) :=
  if s == "" then [] else
  (s.splitOn ",").filterMap fun e =>
    match e.splitOn ":" with
    | [a, b] => match a.toNat?, b.toNat? with
      | some x, some y => some (x, y)
      | _, _ => none
    | _ => none

/-- the rune map of `strings.ToLower`: ASCII by the model, the rest from the oracle table -/
def mkLc (tbl : List (Nat × Nat)) (c : Char) : Char :=
  if c.toNat < 128 then lowerC c
  else match tbl.lookup c.toNat with
    | some y => Char.ofNat y
    | none => c

def render : Option Route → String
  | some r => "ok tag=" ++ r.tag ++ " product=" ++ r.product
  | none => "err:noproduct tag= product="

def nodupKeys (ks : List (List UInt8 × String)) : Bool :=
  (List.range ks.length).all fun i => (List.range i).all fun j =>
    (ks.getD i ([], "")).1 != (ks.getD j ([], "")).1 || (ks.getD i ([], "")).2 == (ks.getD j ([], "")).2

def run (op impl : String) : Ans :=
  let f := op.splitOn ";"
  match kv f "t", kv f "v", kv f "d", kv f "h", kv f "ip" with
  | some t, some v, some d, some h, some ip =>
    match parseEntries t, parseVips v, parseHost h with
    | some es, some vipsO, some host =>
      if vipsO.any (·.1.isNone) then
        { model := "err:load", verdict := "ok", tags := ["vip-load-error"] }
      else
      let vips : List (List UInt8 × String) := vipsO.filterMap fun (a, p) => a.map fun k => (k, p)
      let vipB : Option (Option (List UInt8)) := if ip == "nil" then some none else (bytesOfHex ip).map some
      match vipB with
      | none => { model := "bad-op", verdict := "skip" }
      | some vip =>
      let lc := mkLc (parseLowerTable ((kv f "u").getD ""))
      let m := lookupHostTagAndProduct lc es vips d host vip
      let wf := wfB lc es && nodupKeys vips
      let spec := specLookup lc es vips d host vip
      let ps := patterns lc es
      let l := specProbeLabels lc host
      let vipHit := (vip.bind fun x => (to16 x).bind fun k => vips.lookup k).isSome
      let stage :=
        if (specExact ps l).isSome then "exact"
        else if (specWild ps l).isSome then "wild"
        else if vipHit then "vip"
        else if d != "" then "default" else "none"
      let bracket := (lower lc host).head? == some '['
      let nwild := ((properSuffixes l).filter fun s => (specExact ps (star :: s)).isSome).length
      let nonAscii := host.any (·.toNat ≥ 128) || es.any (·.host.any (·.toNat ≥ 128))
      let vipTag := match vip with
        | none => "vip-nil"
        | some x => if x.length == 4 then "vip-4" else if x.length == 16 then "vip-16" else "vip-odd"
      -- the other public entry points: LookupProduct (host table only) and LookupProductByVip
      let rp : Option String → String := fun o => match o with | some p => "ok:" ++ p | none => "err"
      let lpM := rp ((findHostRoute lc (buildHostRoute lc es) host).map (·.product))
      let lpS := rp ((specFindHost lc es host).map (·.product))
      let lvM := match vip with | none => "-" | some x => rp ((findVipRoute vips x).map (·.product))
      let lvS := match vip with | none => "-" | some x => rp ((to16 x).bind fun k => vips.lookup k)
      let implParts := impl.splitOn ";"
      let implMain := implParts.headD ""
      let implLp := (kv implParts "lp").getD "?"
      let implLv := (kv implParts "lv").getD "?"
      let verdict :=
        if !wf then "skip"
        else if impl == "err:hostload" then "FAIL:host-file-rejected"
        else if implMain != render spec then (if bracket then "FAIL:ipv6-literal-host" else "FAIL:" ++ stage)
        else if implLp != lpS then (if bracket then "FAIL:ipv6-literal-host" else "FAIL:lookup-product-entry")
        else if implLv != lvS then "FAIL:lookup-product-by-vip-entry"
        else "ok"
      { model := render m ++ ";lp=" ++ lpM ++ ";lv=" ++ lvM
        verdict := verdict
        tags := [stage, vipTag] ++ (if nwild ≥ 2 then ["nested-wild"] else [])
                ++ (if host.contains ':' then ["port"] else [])
                ++ (if bracket then ["bracket"] else [])
                ++ (if nonAscii then ["non-ascii"] else [])
                ++ (if host.contains (Char.ofNat 0xFFFD) || es.any (·.host.contains (Char.ofNat 0xFFFD)) then ["invalid-utf8"] else [])
                ++ (if host.any Char.isUpper then ["upper"] else [])
                ++ (if ps.length < es.length then ["ignored-pattern"] else [])
                ++ (if !wf then ["dup"] else [])
                ++ (if kv f "ld" == some "1" then ["host-file-loader"] else [])
                ++ (if kv f "pre" == some "1" then ["reloaded-over-decoy"] else [])
                ++ (if es.any (fun e => e.route.tag == "" || e.route.product == "" || e.route.product.length > 30) then ["odd-names"] else [])
                ++ (if host.length > 60 || es.any (·.host.length > 60) then ["long-name"] else [])
                ++ (if vips.length > 0 then ["vip-table"] else [])
                ++ (if es.length ≥ 2 then ["nt"] else []) }
    | _, _, _ => { model := "bad-op", verdict := "skip" }
  | _, _, _, _, _ => { model := "bad-op", verdict := "skip" }

end BfeVerif.C10
