import BfeVerif.C49.Driver
def main : IO Unit := BfeVerif.Proto.driverMain BfeVerif.C49.run
