import BfeVerif.C49.Model
namespace BfeVerif.C49

/-- a key that `url.QueryUnescape` leaves alone and that cannot be confused with query syntax -/
def plainKey (k : Str) : Bool := k.all fun c => c != '%' && c != '+' && c != '=' && c != ';' && c != '&'

/-- a `&`-piece of the form `key=value` whose key is written literally (no escapes) -/
def canonicalSeg (s : Str) : Bool := s.contains '=' && plainKey (cutEq s).1 && !s.contains ';'

theorem unescape_plain (k : Str) (h : plainKey k = true) : unescape k = some k := by
  induction k with
  | nil => simp [unescape]
  | cons c cs ih =>
    simp only [plainKey, List.all_cons, Bool.and_eq_true, bne_iff_ne, ne_eq] at h
    obtain ⟨⟨⟨⟨⟨hp, hpl⟩, _⟩, _⟩, _⟩, hrest⟩ := h
    have ih' := ih (by simpa [plainKey] using hrest)
    unfold unescape
    split
    · rename_i heq; exact absurd heq (by simp)
    · rename_i heq; injection heq with h1 _; exact absurd h1 hp
    · rename_i heq; injection heq with h1 _; exact absurd h1 hp
    · rename_i heq; injection heq with h1 _; exact absurd h1 hpl
    · rename_i heq; injection heq with h1 h2; subst h1; subst h2; simp [ih']

theorem prefix_iff_cut (s : Str) : ∀ k : Str, k.all (fun c => c != '=') = true → s.contains '=' = true →
    ((k ++ ['=']).isPrefixOf s = true ↔ (cutEq s).1 = k) := by
  induction s with
  | nil => intro k _ h; simp at h
  | cons c cs ih =>
    intro k hk hs
    by_cases hc : c = '='
    · subst hc
      cases k with
      | nil => simp [cutEq, List.isPrefixOf]
      | cons a as =>
        have ha : a ≠ '=' := by
          simp only [List.all_cons, Bool.and_eq_true, bne_iff_ne, ne_eq] at hk; exact hk.1
        simp [cutEq, List.isPrefixOf, ha]
    · have hcs : cs.contains '=' = true := by
        simp only [List.contains_cons, Bool.or_eq_true, beq_iff_eq] at hs
        rcases hs with h | h
        · exact absurd h.symm hc
        · exact h
      cases k with
      | nil =>
        have : (cutEq (c :: cs)).1 = c :: (cutEq cs).1 := by simp [cutEq, hc]
        simp [List.isPrefixOf, this]
        intro h; exact hc h.symm
      | cons a as =>
        have hk' : as.all (fun c => c != '=') = true := by
          simp only [List.all_cons, Bool.and_eq_true] at hk; exact hk.2
        have hcut : (cutEq (c :: cs)).1 = c :: (cutEq cs).1 := by simp [cutEq, hc]
        have := ih as hk' hcs
        simp only [List.cons_append, List.isPrefixOf, Bool.and_eq_true, beq_iff_eq, hcut, List.cons.injEq]
        constructor
        · rintro ⟨h1, h2⟩; exact ⟨h1.symm, this.mp h2⟩
        · rintro ⟨h1, h2⟩; exact ⟨h1.symm, this.mpr h2⟩

theorem plainKey_noEq (k : Str) (h : plainKey k = true) : k.all (fun c => c != '=') = true := by
  simp only [plainKey, List.all_eq_true, Bool.and_eq_true, bne_iff_ne, ne_eq] at h ⊢
  intro c hc; exact (h c hc).1.1.2

theorem segHit_iff (keys : List Str) (s : Str) (hk : ∀ k ∈ keys, plainKey k = true) (hs : canonicalSeg s = true) :
    segHit keys s = keys.contains (cutEq s).1 := by
  simp only [canonicalSeg, Bool.and_eq_true] at hs
  obtain ⟨⟨hc, _⟩, _⟩ := hs
  induction keys with
  | nil => simp [segHit]
  | cons k ks ih =>
    have ihk := ih (fun k' hk' => hk k' (List.mem_cons_of_mem _ hk'))
    have h1 := prefix_iff_cut s k (plainKey_noEq k (hk k (List.mem_cons_self))) hc
    simp only [segHit, List.any_cons, List.contains_cons] at ihk ⊢
    rw [ihk]
    by_cases h : (cutEq s).1 = k
    · simp [h1.mpr h, h]
    · have : (k ++ ['=']).isPrefixOf s = false := by
        cases hh : (k ++ ['=']).isPrefixOf s with
        | false => rfl
        | true => exact absurd (h1.mp hh) h
      simp [this, h]

theorem parsePair_key (s : Str) (hs : canonicalSeg s = true) (p : Str × Str) (hp : parsePair s = some p) :
    p.1 = (cutEq s).1 := by
  simp only [canonicalSeg, Bool.and_eq_true] at hs
  obtain ⟨⟨_, hpk⟩, _⟩ := hs
  unfold parsePair at hp
  split at hp
  · simp at hp
  · split at hp
    · simp at hp
    · simp only at hp
      rw [unescape_plain _ hpk] at hp
      split at hp
      · rename_i h1 _; injection h1 with h1; injection hp with hp; rw [← hp, ← h1]
      · simp at hp

theorem del_partial (L : List Str) (keys : List Str) (hk : ∀ k ∈ keys, plainKey k = true)
    (hL : ∀ s ∈ L, canonicalSeg s = true) :
    parseSegs (L.filter fun s => !segHit keys s) = (parseSegs L).filter fun p => !keys.contains p.1 := by
  induction L with
  | nil => simp [parseSegs]
  | cons s rest ih =>
    have ih' := ih (fun s' hs' => hL s' (List.mem_cons_of_mem _ hs'))
    have hs := hL s List.mem_cons_self
    have hit := segHit_iff keys s hk hs
    simp only [parseSegs] at ih' ⊢
    cases hp : parsePair s with
    | none =>
      by_cases hh : segHit keys s = true
      · simp [List.filter_cons, hh, hp, ih']
      · simp [List.filter_cons, hh, hp, ih']
    | some p =>
      have hkey := parsePair_key s hs p hp
      by_cases hh : segHit keys s = true
      · have : keys.contains p.1 = true := by rw [hkey, ← hit]; exact hh
        have hm : p.1 ∈ keys := by simpa using this
        simp [List.filter_cons, hh, hp, ih', hm]
      · have : keys.contains p.1 = false := by
          rw [hkey, ← hit]; simpa using hh
        have hm : ¬ p.1 ∈ keys := by simpa using this
        simp [List.filter_cons, hh, hp, ih', hm]

end BfeVerif.C49
