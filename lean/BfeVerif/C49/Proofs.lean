import BfeVerif.C49.Model
namespace BfeVerif.C49

/-- a key that `url.QueryUnescape` leaves alone and that cannot be confused with query syntax -/
def plainKey (k : Str) : Bool := k.all fun c => c != '%' && c != '+' && c != '=' && c != ';' && c != '&'

/-- a `&`-piece of the form `key=value` whose key is written literally (no escapes) -/
def canonicalSeg (s : Str) : Bool := s.contains '=' && plainKey (cutEq s).1 && !s.contains ';'

theorem unescape_plain (k : Str) (h : plainKey k = true) : unescape k = some k := by
  induction k with
  | nil => simp [unescape]
  | cons c cs ih =>
    simp only [plainKey, List.all_cons, Bool.and_eq_true, bne_iff_ne, ne_eq] at h
    obtain ⟨⟨⟨⟨⟨hp, hpl⟩, _⟩, _⟩, _⟩, hrest⟩ := h
    have ih' := ih (by simpa [plainKey] using hrest)
    unfold unescape
    split
    · rename_i heq; exact absurd heq (by simp)
    · rename_i heq; injection heq with h1 _; exact absurd h1 hp
    · rename_i heq; injection heq with h1 _; exact absurd h1 hp
    · rename_i heq; injection heq with h1 _; exact absurd h1 hpl
    · rename_i heq; injection heq with h1 h2; subst h1; subst h2; simp [ih']

theorem prefix_iff_cut (s : Str) : ∀ k : Str, k.all (fun c => c != '=') = true → s.contains '=' = true →
    ((k ++ ['=']).isPrefixOf s = true ↔ (cutEq s).1 = k) := by
  induction s with
  | nil => intro k _ h; simp at h
  | cons c cs ih =>
    intro k hk hs
    by_cases hc : c = '='
    · subst hc
      cases k with
      | nil => simp [cutEq, List.isPrefixOf]
      | cons a as =>
        have ha : a ≠ '=' := by
          simp only [List.all_cons, Bool.and_eq_true, bne_iff_ne, ne_eq] at hk; exact hk.1
        simp [cutEq, List.isPrefixOf, ha]
    · have hcs : cs.contains '=' = true := by
        simp only [List.contains_cons, Bool.or_eq_true, beq_iff_eq] at hs
        rcases hs with h | h
        · exact absurd h.symm hc
        · exact h
      cases k with
      | nil =>
        have : (cutEq (c :: cs)).1 = c :: (cutEq cs).1 := by simp [cutEq, hc]
        simp [List.isPrefixOf, this]
        intro h; exact hc h.symm
      | cons a as =>
        have hk' : as.all (fun c => c != '=') = true := by
          simp only [List.all_cons, Bool.and_eq_true] at hk; exact hk.2
        have hcut : (cutEq (c :: cs)).1 = c :: (cutEq cs).1 := by simp [cutEq, hc]
        have := ih as hk' hcs
        simp only [List.cons_append, List.isPrefixOf, Bool.and_eq_true, beq_iff_eq, hcut, List.cons.injEq]
        constructor
        · rintro ⟨h1, h2⟩; exact ⟨h1.symm, this.mp h2⟩
        · rintro ⟨h1, h2⟩; exact ⟨h1.symm, this.mpr h2⟩

theorem plainKey_noEq (k : Str) (h : plainKey k = true) : k.all (fun c => c != '=') = true := by
  simp only [plainKey, List.all_eq_true, Bool.and_eq_true, bne_iff_ne, ne_eq] at h ⊢
  intro c hc; exact (h c hc).1.1.2

theorem segHit_iff (keys : List Str) (s : Str) (hk : ∀ k ∈ keys, plainKey k = true) (hs : canonicalSeg s = true) :
    segHit keys s = keys.contains (cutEq s).1 := by
  simp only [canonicalSeg, Bool.and_eq_true] at hs
  obtain ⟨⟨hc, _⟩, _⟩ := hs
  induction keys with
  | nil => simp [segHit]
  | cons k ks ih =>
    have ihk := ih (fun k' hk' => hk k' (List.mem_cons_of_mem _ hk'))
    have h1 := prefix_iff_cut s k (plainKey_noEq k (hk k (List.mem_cons_self))) hc
    simp only [segHit, List.any_cons, List.contains_cons] at ihk ⊢
    rw [ihk]
    by_cases h : (cutEq s).1 = k
    · simp [h1.mpr h, h]
    · have : (k ++ ['=']).isPrefixOf s = false := by
        cases hh : (k ++ ['=']).isPrefixOf s with
        | false => rfl
        | true => exact absurd (h1.mp hh) h
      simp [this, h]

theorem parsePair_key (s : Str) (hs : canonicalSeg s = true) (p : Str × Str) (hp : parsePair s = some p) :
    p.1 = (cutEq s).1 := by
  simp only [canonicalSeg, Bool.and_eq_true] at hs
  obtain ⟨⟨_, hpk⟩, _⟩ := hs
  unfold parsePair at hp
  split at hp
  · simp at hp
  · split at hp
    · simp at hp
    · simp only at hp
      rw [unescape_plain _ hpk] at hp
      split at hp
      · rename_i h1 _; injection h1 with h1; injection hp with hp; rw [← hp, ← h1]
      · simp at hp

theorem del_partial (L : List Str) (keys : List Str) (hk : ∀ k ∈ keys, plainKey k = true)
    (hL : ∀ s ∈ L, canonicalSeg s = true) :
    parseSegs (L.filter fun s => !segHit keys s) = (parseSegs L).filter fun p => !keys.contains p.1 := by
  induction L with
  | nil => simp [parseSegs]
  | cons s rest ih =>
    have ih' := ih (fun s' hs' => hL s' (List.mem_cons_of_mem _ hs'))
    have hs := hL s List.mem_cons_self
    have hit := segHit_iff keys s hk hs
    simp only [parseSegs] at ih' ⊢
    cases hp : parsePair s with
    | none =>
      by_cases hh : segHit keys s = true
      · simp [List.filter_cons, hh, hp, ih']
      · simp [List.filter_cons, hh, hp, ih']
    | some p =>
      have hkey := parsePair_key s hs p hp
      by_cases hh : segHit keys s = true
      · have : keys.contains p.1 = true := by rw [hkey, ← hit]; exact hh
        have hm : p.1 ∈ keys := by simpa using this
        simp [List.filter_cons, hh, hp, ih', hm]
      · have : keys.contains p.1 = false := by
          rw [hkey, ← hit]; simpa using hh
        have hm : ¬ p.1 ∈ keys := by simpa using this
        simp [List.filter_cons, hh, hp, ih', hm]


/-! ### QUERY_DEL_ALL_EXCEPT, QUERY_ADD, lists of deletions -/

theorem parseSegs_keys_plain (L : List Str) (hL : ∀ s ∈ L, canonicalSeg s = true) :
    ∀ p ∈ parseSegs L, plainKey p.1 = true := by
  intro p hp
  simp only [parseSegs, List.mem_filterMap] at hp
  obtain ⟨s, hs, hps⟩ := hp
  have hc := hL s hs
  rw [parsePair_key s hc p hps]
  simp only [canonicalSeg, Bool.and_eq_true] at hc
  exact hc.1.2

theorem mem_dedup (l : List Str) (x : Str) : x ∈ dedup l ↔ x ∈ l := by
  induction l with
  | nil => simp [dedup]
  | cons a as ih =>
    simp only [dedup, List.mem_cons, List.mem_filter, bne_iff_ne, ne_eq, ih]
    constructor
    · rintro (h | ⟨h, _⟩)
      · exact Or.inl h
      · exact Or.inr h
    · intro h
      by_cases hx : x = a
      · exact Or.inl hx
      · rcases h with h | h
        · exact Or.inl h
        · exact Or.inr ⟨h, hx⟩

/-- the keys `ReqQueryDelAllExcept` deletes: the cached (parsed) keys that are not to be kept -/
def exceptKeys (L : List Str) (keep : List Str) : List Str :=
  (dedup ((parseSegs L).map (·.1))).filter fun k => !keep.contains k

theorem delx_partial (L : List Str) (keep : List Str) (hL : ∀ s ∈ L, canonicalSeg s = true) :
    parseSegs (L.filter fun s => !segHit (exceptKeys L keep) s) = (parseSegs L).filter fun p => keep.contains p.1 := by
  have hk : ∀ k ∈ exceptKeys L keep, plainKey k = true := by
    intro k hk
    simp only [exceptKeys, List.mem_filter, mem_dedup, List.mem_map] at hk
    obtain ⟨⟨p, hp, rfl⟩, _⟩ := hk
    exact parseSegs_keys_plain L hL p hp
  rw [del_partial L _ hk hL]
  apply List.filter_congr
  intro p hp
  have hmem : p.1 ∈ (parseSegs L).map (·.1) := List.mem_map.mpr ⟨p, hp, rfl⟩
  cases hkeep : keep.contains p.1 with
  | true =>
    have hin : p.1 ∈ keep := by simpa using hkeep
    have : ¬ p.1 ∈ exceptKeys L keep := by
      simp [exceptKeys, List.mem_filter, hin]
    simp [this, hin]
  | false =>
    have : p.1 ∈ exceptKeys L keep := by
      simp only [exceptKeys, List.mem_filter, mem_dedup]
      have hnin : ¬ p.1 ∈ keep := by simpa using hkeep
      exact ⟨hmem, by simpa using hnin⟩
    have hnin : ¬ p.1 ∈ keep := by simpa using hkeep
    simp [this, hnin]

theorem cutEq_append (k v : Str) (hk : k.all (fun c => c != '=') = true) : cutEq (k ++ '=' :: v) = (k, v) := by
  induction k with
  | nil => simp [cutEq]
  | cons c cs ih =>
    simp only [List.all_cons, Bool.and_eq_true, bne_iff_ne, ne_eq] at hk
    simp [cutEq, hk.1, ih hk.2]

theorem plain_no_semi (k : Str) (h : plainKey k = true) : k.contains ';' = false := by
  induction k with
  | nil => rfl
  | cons c cs ih =>
    simp only [plainKey, List.all_cons, Bool.and_eq_true, bne_iff_ne, ne_eq] at h
    have h2 := ih (by simpa [plainKey] using h.2)
    have hc : c ≠ ';' := h.1.1.2
    simp only [List.contains_cons, Bool.or_eq_false_iff, beq_eq_false_iff_ne, ne_eq]
    exact ⟨fun e => hc e.symm, h2⟩

theorem parsePair_plain (k v : Str) (hk : plainKey k = true) (hv : plainKey v = true) :
    parsePair (k ++ '=' :: v) = some (k, v) := by
  have hne : (k ++ '=' :: v).isEmpty = false := by cases k <;> simp
  have hsemi : (k ++ '=' :: v).contains ';' = false := by
    have h1 := plain_no_semi k hk
    have h2 := plain_no_semi v hv
    simp only [List.contains_eq_mem, List.mem_append, List.mem_cons, decide_eq_false_iff_not] at h1 h2 ⊢
    rintro (h | h | h)
    · exact h1 h
    · exact absurd h (by decide)
    · exact h2 h
  unfold parsePair
  simp only [hne, hsemi, Bool.false_eq_true, ↓reduceIte, cutEq_append k v (plainKey_noEq k hk), unescape_plain k hk,
    unescape_plain v hv]

theorem add_general (L : List Str) (k v : Str) (hk : plainKey k = true) (hv : plainKey v = true) :
    parseSegs (L ++ [k ++ '=' :: v]) = parseSegs L ++ [(k, v)] := by
  simp [parseSegs, List.filterMap_append, parsePair_plain k v hk hv]

theorem segHit_append (k1 k2 : List Str) (s : Str) : segHit (k1 ++ k2) s = (segHit k1 s || segHit k2 s) := by
  simp [segHit, List.any_append]

theorem del_del (L : List Str) (k1 k2 : List Str) :
    (L.filter fun s => !segHit k1 s).filter (fun s => !segHit k2 s) = L.filter fun s => !segHit (k1 ++ k2) s := by
  rw [List.filter_filter]
  apply List.filter_congr
  intro s _
  rw [segHit_append]; cases segHit k1 s <;> cases segHit k2 s <;> rfl


/-! ### the `%variable` tokenizer is total -/

theorem dropWhile_len (p : Char → Bool) (l : Str) : (l.dropWhile p).length ≤ l.length := by
  induction l with
  | nil => simp
  | cons a as ih => simp only [List.dropWhile_cons]; split <;> simp <;> omega

theorem split_flatten : ∀ (f : Nat) (s : Str), s.length ≤ f → (splitParam f s).flatten = s := by
  intro f
  induction f with
  | zero => intro s h; cases s with
    | nil => simp [splitParam]
    | cons a as => simp at h
  | succ f ih =>
    intro s h
    cases s with
    | nil => simp [splitParam]
    | cons c rest =>
      by_cases hc : c = '%'
      · subst hc
        cases rest with
        | nil => simp [splitParam]
        | cons d r =>
          by_cases hd : d = '%'
          · subst hd
            have hl : (r.dropWhile (· != '%')).length ≤ f := by
              have := dropWhile_len (· != '%') r; simp at h; omega
            simp only [splitParam, List.flatten_cons, ih _ hl]
            simp [List.takeWhile_append_dropWhile]
          · have hl : ((d :: r).dropWhile isVarChar).length ≤ f := by
              have := dropWhile_len isVarChar (d :: r); simp at h this ⊢; omega
            rw [splitParam]
            · simp only [List.flatten_cons, ih _ hl]
              simp [List.takeWhile_append_dropWhile]
            · intro h1; exact hd h1
      · have hl : (rest.dropWhile (· != '%')).length ≤ f := by
          have := dropWhile_len (· != '%') rest; simp at h; omega
        rw [splitParam]
        · simp only [List.flatten_cons, ih _ hl]
          simp [List.takeWhile_append_dropWhile]
        · intro h1 _; exact hc h1
        · intro _ h1 _; exact hc h1
        · intro _ _ h1 _; exact hc h1

theorem split_nonempty : ∀ (f : Nat) (s : Str), ∀ p ∈ splitParam f s, p ≠ [] := by
  intro f
  induction f with
  | zero => intro s p hp; simp [splitParam] at hp
  | succ f ih =>
    intro s p hp
    cases s with
    | nil => simp [splitParam] at hp
    | cons c rest =>
      by_cases hc : c = '%'
      · subst hc
        cases rest with
        | nil => simp [splitParam] at hp; simp [hp]
        | cons d r =>
          by_cases hd : d = '%'
          · subst hd
            simp only [splitParam] at hp
            rcases List.mem_cons.mp hp with hp | hp
            · simp [hp]
            · exact ih _ p hp
          · rw [splitParam] at hp
            · rcases List.mem_cons.mp hp with hp | hp
              · simp [hp]
              · exact ih _ p hp
            · intro h1; exact hd h1
      · rw [splitParam] at hp
        · rcases List.mem_cons.mp hp with hp | hp
          · simp [hp]
          · exact ih _ p hp
        · intro h1 _; exact hc h1
        · intro _ h1 _; exact hc h1
        · intro _ _ h1 _; exact hc h1

end BfeVerif.C49
