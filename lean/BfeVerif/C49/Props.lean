import BfeVerif.C49.Proofs
/-!
  C49 — property theorems.

  Property: every documented rewrite / header / redirect action with valid parameters is accepted and transforms
  the request as documented; after query-deleting actions no deleted key remains in the query string sent to the
  backend (in any encoding) and other query parameters are unchanged.
-/
namespace BfeVerif.C49
open BfeVerif.Generated

/-! ### documented commands are accepted (tables re-extracted from the source and the docs on every run) -/

/-- parameter counts of the mod_rewrite actions (-1 = any number) as their descriptions imply -/
def docArity : List (String × Int) :=
  [("HOST_SET", 1), ("HOST_SET_FROM_PATH_PREFIX", 0), ("HOST_SUFFIX_REPLACE", 2), ("PATH_SET", 1), ("PATH_PREFIX_ADD", 1),
   ("PATH_PREFIX_TRIM", 1), ("QUERY_ADD", 2), ("QUERY_DEL", -1), ("QUERY_DEL_ALL_EXCEPT", -1), ("QUERY_RENAME", 2)]

/-- every action listed in docs/en_us/modules/mod_rewrite/mod_rewrite.md is allowed by mod_rewrite, has an arm in
    `ActionFileCheck` with the documented parameter count, an arm in `Action.Do`, and is modelled.
    (Holds since the fix `fixes/C49-host-suffix-replace.md`; before it `HOST_SUFFIX_REPLACE` had no arm.) -/
theorem C49_documented_accepted :
    (∀ c ∈ C49.rewriteDocumented, C49.rewriteAllowed.contains c = true ∧ C49.basicDo.contains c = true ∧
        (Cmd.all.map Cmd.name).contains c = true ∧ (docArity.map (·.1)).contains c = true) ∧
    (∀ e ∈ docArity, C49.basicAccepted.contains e = true) := by decide

/-- the documented mod_header and mod_redirect actions all have an arm in their module's `ActionFileCheck` -/
theorem C49_documented_accepted_header_redirect :
    (∀ c ∈ C49.headerDocumented, C49.headerAccepted.contains c = true) ∧
    (∀ c ∈ C49.redirectDocumented, C49.redirectAccepted.contains c = true) := by decide

/-- `fileCheck` over the extracted table accepts a valid HOST_SUFFIX_REPLACE (the witness of the repaired defect) -/
theorem C49_host_suffix_replace_accepted :
    (match fileCheck C49.basicAccepted ['X','-','B','F','E','-'] "HOST_SUFFIX_REPLACE".toList [['a'], ['b']] with
     | .ok .hostSuffixReplace _ => true | _ => false) = true := by decide

/-! ### query deletion -/

/-- Full statement (FALSE for the code as it is): for all `&`-pieces and keys, what a backend parses after the
    deletion is what it parsed before minus the deleted keys. -/
def C49_query_del_full : Prop :=
  ∀ (L : List Str) (keys : List Str),
    parseSegs (L.filter fun s => !segHit keys s) = (parseSegs L).filter fun p => !keys.contains p.1

/-- **QUERY_DEL on canonical queries**: if every piece is `key=value` with the key written literally and the keys
    to delete are plain, the backend sees exactly the old pairs minus the deleted keys (order and duplicates of
    the others preserved). -/
theorem C49_query_del_partial (L : List Str) (keys : List Str) (hk : ∀ k ∈ keys, plainKey k = true)
    (hL : ∀ s ∈ L, canonicalSeg s = true) :
    parseSegs (L.filter fun s => !segHit keys s) = (parseSegs L).filter fun p => !keys.contains p.1 :=
  del_partial L keys hk hL

/-- in particular no deleted key remains -/
theorem C49_query_del_partial_none_left (L : List Str) (keys : List Str) (hk : ∀ k ∈ keys, plainKey k = true)
    (hL : ∀ s ∈ L, canonicalSeg s = true) :
    ∀ p ∈ parseSegs (L.filter fun s => !segHit keys s), p.1 ∉ keys := by
  intro p hp
  rw [C49_query_del_partial L keys hk hL] at hp
  simpa using (List.mem_filter.mp hp).2

/-- witness 1: a percent-encoded key survives (`%61=1`, delete `a`) -/
theorem C49_witness_encoded_key :
    parseSegs ([['%','6','1','=','1']].filter fun s => !segHit [['a']] s) = [(['a'], ['1'])] := by decide

/-- witness 2: a key without `=` survives (`a&b=2`, delete `a`) -/
theorem C49_witness_valueless_key :
    parseSegs ([['a'], ['b','=','2']].filter fun s => !segHit [['a']] s) = [(['a'], []), (['b'], ['2'])] := by decide

theorem C49_query_del_full_false : ¬ C49_query_del_full := by
  intro h
  have := h [['%','6','1','=','1']] [['a']]
  revert this
  decide

/-- the same two witnesses on the literal raw-string edit of `ReqQueryDel` -/
theorem C49_witness_raw :
    delKeysRaw ['%','6','1','=','1'] [['a']] = ['%','6','1','=','1'] ∧
    parseQuery (delKeysRaw ['%','6','1','=','1'] [['a']]) = [(['a'], ['1'])] ∧
    delKeysRaw ['a','&','b','=','2'] [['a']] = ['a','&','b','=','2'] ∧
    delKeysRaw ['b','=','2','&','a'] [['a']] = ['b','=','2','&','a'] ∧
    delKeysRaw ['a','=','1','&','b','=','2','&','a','=','3'] [['a']] = ['b','=','2'] := by decide

/-- non-vacuity of the hypotheses of `C49_query_del_partial` -/
example : canonicalSeg ['a','=','1'] = true ∧ canonicalSeg ['b','=','%','z'] = true ∧ plainKey ['a'] = true := by decide

/-- **QUERY_DEL_ALL_EXCEPT on canonical queries**: the keys it deletes are the parsed keys not in the keep list
    (`exceptKeys`, the `req.Query` cache of a fresh request); the backend then sees exactly the old pairs whose key is
    kept — for all lists of literal-key pieces and all keep lists. -/
theorem C49_query_del_all_except_partial (L : List Str) (keep : List Str) (hL : ∀ s ∈ L, canonicalSeg s = true) :
    parseSegs (L.filter fun s => !segHit (exceptKeys L keep) s) = (parseSegs L).filter fun p => keep.contains p.1 :=
  delx_partial L keep hL

/-- witness: an encoded key that is not to be kept survives QUERY_DEL_ALL_EXCEPT (`%61=1&b=2`, keep `b`) -/
theorem C49_witness_del_all_except :
    parseSegs ([['%','6','1','=','1'], ['b','=','2']].filter fun s =>
      !segHit (exceptKeys [['%','6','1','=','1'], ['b','=','2']] [['b']]) s) = [(['a'], ['1']), (['b'], ['2'])] := by decide

/-- **QUERY_ADD** (all queries, also non-canonical ones): appending the piece `k=v` for plain `k`, `v` adds exactly the
    pair (k, v) at the end of what the backend parses and changes nothing else. -/
theorem C49_query_add (L : List Str) (k v : Str) (hk : plainKey k = true) (hv : plainKey v = true) :
    parseSegs (L ++ [k ++ '=' :: v]) = parseSegs L ++ [(k, v)] :=
  add_general L k v hk hv

/-- **Lists of deletions compose**: QUERY_DEL k1 followed by QUERY_DEL k2 removes the same pieces as one
    QUERY_DEL (k1 ++ k2) — for all piece lists (no canonicity needed). -/
theorem C49_list_del_del (L : List Str) (k1 k2 : List Str) :
    (L.filter fun s => !segHit k1 s).filter (fun s => !segHit k2 s) = L.filter fun s => !segHit (k1 ++ k2) s :=
  del_del L k1 k2

/-- the `req.Query` cache makes action lists differ from their parts: after `QUERY_DEL a` on `a&b=2` the raw query
    still holds the key `a`, but the cache no longer does, so a following `QUERY_RENAME a n` is a no-op
    (witness that sequential composition is NOT the composition of the single-action effects on the parsed query) -/
theorem C49_witness_list_cache :
    let r0 : Req := { host := [], path := ['/'], rawQuery := ['a','&','b','=','2'], hdr := [] }
    let r1 := doAction .queryDel [['a']] r0
    (doAction .queryRename [['a'], ['n']] r1).rawQuery = ['a','&','b','=','2'] ∧
    (parseQuery (doAction .queryRename [['a'], ['n']] r1).rawQuery).map (·.1) = [['a'], ['b']] := by decide

/-! ### mod_header `%variable` templates -/

/-- **The tokenizer is total**: cutting a header-value template into literal / escaped / variable pieces loses and
    invents nothing (the pieces concatenate to the template) and produces no empty piece — for every template. -/
theorem C49_template_split_total (s : Str) :
    (splitTemplate s).flatten = s ∧ ∀ p ∈ splitTemplate s, p ≠ [] :=
  ⟨split_flatten s.length s (Nat.le_refl _), split_nonempty s.length s⟩

/-- **Every variable of the source table is ONE token**, alone, between literal text, before a `;`, and twice in a
    row (kernel evaluation over `mod_header.VariableHandlers` as extracted from the current source: a name with a
    character outside a-z 0-9 _ would fail here, and a tokenizer that stops at digits is refuted by the correspondence
    run on exactly these templates). -/
theorem C49_variables_single_token :
    ∀ v ∈ C49.headerVariables,
      splitTemplate ('%' :: v.toList) = ['%' :: v.toList] ∧
      splitTemplate (['a', '-'] ++ '%' :: v.toList ++ ['-', 'b']) = [['a', '-'], '%' :: v.toList, ['-', 'b']] ∧
      splitTemplate ('%' :: v.toList ++ ';' :: '%' :: v.toList) = ['%' :: v.toList, [';'], '%' :: v.toList] ∧
      templateLoads C49.headerVariables ('%' :: v.toList) = true := by decide

/-- every variable listed in docs/en_us/modules/mod_header/mod_header.md is in the source table, hence loads -/
theorem C49_documented_variables_accepted :
    ∀ v ∈ C49.headerVariablesDocumented, C49.headerVariables.contains v = true ∧
      templateLoads C49.headerVariables (['x', '='] ++ '%' :: v.toList ++ [';']) = true := by decide

/-- escapes and malformed references: `%%` is literal, a lone `%` and an unknown name are refused -/
theorem C49_template_examples :
    splitTemplate "a%%b%bfe_vip9-%".toList = ["a".toList, "%%b".toList, "%bfe_vip9".toList, "-".toList, "%".toList] ∧
    templateLoads C49.headerVariables "100%%".toList = true ∧
    templateLoads C49.headerVariables "a%".toList = false ∧
    templateLoads C49.headerVariables "%bfe_ssl_ja".toList = false ∧
    expandTemplate (fun n => if n == "bfe_vip".toList then some "9.8.7.6".toList else none) "%%x-%bfe_vip;".toList
      = "%x-9.8.7.6;".toList := by decide

/-! ### rule tables under reload -/

/-- **Last accepted file wins**: after any history of load attempts the table is the content of the LAST accepted rule
    file (or the initial table if none was accepted) — nothing of earlier files survives, whatever their version strings. -/
theorem C49_reload_last_wins {α : Type} (init : Option α) (loads : List (Option α)) :
    tableAfter init loads = (match loads.reverse.findSome? id with | some c => some c | none => init) := by
  induction loads generalizing init with
  | nil => rfl
  | cons l ls ih =>
    have hstep : tableAfter init (l :: ls) = tableAfter (match l with | some c => some c | none => init) ls := by
      cases l <;> rfl
    rw [hstep, ih, List.reverse_cons, List.findSome?_append]
    cases ls.reverse.findSome? id with
    | some c => rfl
    | none => cases l <;> rfl

/-- a refused reload changes nothing; an accepted one replaces everything: a product that the new file does not list
    has no rules any more, a listed one has exactly the new rules -/
theorem C49_reload_replaces {α : Type} (init : Option (List (String × α))) (loads : List (Option (List (String × α))))
    (c : List (String × α)) (p : String) :
    tableAfter init (loads ++ [none]) = tableAfter init loads ∧
    tableSearch (tableAfter init (loads ++ [some c])) p = (c.find? (·.1 == p)).map (·.2) ∧
    ((c.find? (·.1 == p)).isNone → tableSearch (tableAfter init (loads ++ [some c])) p = none) := by
  refine ⟨by simp [tableAfter, List.foldl_append], by simp [tableAfter, List.foldl_append, tableSearch], ?_⟩
  intro h
  simp only [tableAfter, List.foldl_append, List.foldl_cons, List.foldl_nil, tableSearch]
  cases hf : c.find? (·.1 == p) with
  | none => rfl
  | some x => simp [hf] at h

/-! ### mod_redirect -/

theorem C49_effect_url_set (p host path q : Str) : doRedirect .urlSet p host path q = p := rfl

/-- URL_PREFIX_ADD: prefix followed by the original request URI (path and, if present, `?` + raw query) -/
theorem C49_effect_url_prefix_add (p host path q : Str) :
    doRedirect .urlPrefixAdd p host path q = p ++ path ++ (if q.isEmpty then [] else '?' :: q) := by
  simp [doRedirect, requestURI]

/-- SCHEME_SET: the original URL with the configured scheme -/
theorem C49_effect_scheme_set (p host path q : Str) :
    doRedirect .schemeSet p host path q = p ++ [':','/','/'] ++ host ++ path ++ (if q.isEmpty then [] else '?' :: q) := by
  simp [doRedirect, requestURI]

/-- URL_FROM_QUERY: the value of the first pair with that key in what `url.ParseQuery` reads, "" if there is none -/
theorem C49_effect_url_from_query (k host path q : Str) :
    doRedirect .urlFromQuery k host path q =
      (match (parseQuery q).find? (·.1 == k) with | some (_, v) => v | none => []) := rfl

example : doRedirect .urlFromQuery ['u'] [] ['/'] ['a','=','1','&','u','=','%','2','F','x','&','u','=','y'] = ['/','x'] := by decide

/-! ### mod_header -/

/-- REQ/RSP_HEADER_SET / ADD / DEL are the header-map operations on the canonical name -/
theorem C49_effect_mod_header (k v : Str) (h : List (Str × List Str)) :
    doHeader .set [k, v] h = hdrSet h (canon k) v ∧ doHeader .add [k, v] h = hdrAdd h (canon k) v ∧
    doHeader .del [k] h = hdrDel h (canon k) := ⟨rfl, rfl, rfl⟩

/-- after a delete the header is gone -/
theorem C49_effect_mod_header_del_gone (k : Str) (h : List (Str × List Str)) : hdrGet (hdrDel h k) k = [] := by
  have : (hdrDel h k).find? (·.1 == k) = none := by
    rw [List.find?_eq_none]
    intro e he
    simp only [hdrDel, List.mem_filter, bne_iff_ne, ne_eq] at he
    simp [he.2]
  simp [hdrGet, this]

/-- HEADER_MOD scheme_set: an `http://` / `https://` value gets the configured scheme, anything else is left alone -/
theorem C49_effect_set_scheme (rest s : Str) :
    setScheme (sHttp ++ rest) s = s ++ [':','/','/'] ++ rest ∧ setScheme (sHttps ++ rest) s = s ++ [':','/','/'] ++ rest := by
  constructor <;> simp [setScheme, sHttp, sHttps, indexOf, List.isPrefixOf]

theorem C49_effect_set_scheme_other (uri s : Str) (h1 : sHttp.isPrefixOf uri = false) (h2 : sHttps.isPrefixOf uri = false) :
    setScheme uri s = uri := by simp [setScheme, h1, h2]

/-- HEADER_MOD query_add appends `k=v` with the right separator -/
theorem C49_effect_add_query (uri k v : Str) :
    addQuery uri k v = uri ++ (if uri.contains '?' then ['&'] else ['?']) ++ k ++ '=' :: v := by
  unfold addQuery; split <;> simp

/-! ### effects of the other actions -/

theorem C49_effect_host_set (h : Str) (r : Req) :
    doAction .hostSet [h] r = { r with host := h } := rfl

theorem C49_effect_path_set (p : Str) (r : Req) :
    doAction .pathSet [p] r = { r with path := p } := rfl

/-- HOST_SUFFIX_REPLACE: a host `pre ++ old` becomes `pre ++ new` (it reads `HttpRequest.Host` since the fix) … -/
theorem C49_effect_host_suffix_replace (pre o n : Str) (r : Req) (hr : r.host = pre ++ o) :
    (doAction .hostSuffixReplace [o, n] r).host = pre ++ n := by
  have hs : o.isSuffixOf (pre ++ o) = true := by
    rw [List.isSuffixOf_iff_suffix]; exact List.suffix_append pre o
  simp [doAction, hr, hs, trimSuffix]

/-- the driver's oracle for HOST_SUFFIX_REPLACE (`specHostSuffixReplace`) IS this statement: on `pre ++ old` it yields
    `pre ++ new` — the suffix occurrence, however often `old` occurs earlier in `pre` — and it is what `Action.Do` is
    modelled to compute -/
theorem C49_oracle_host_suffix_replace (pre o n : Str) (r : Req) :
    specHostSuffixReplace (pre ++ o) o n = pre ++ n ∧
    (doAction .hostSuffixReplace [o, n] r).host = specHostSuffixReplace r.host o n := by
  have hs : o.isSuffixOf (pre ++ o) = true := by
    rw [List.isSuffixOf_iff_suffix]; exact List.suffix_append pre o
  constructor
  · simp [specHostSuffixReplace, hs]
  · simp only [doAction, specHostSuffixReplace, trimSuffix, List.getD_cons_zero, List.getD_cons_succ]
    split <;> simp_all

/-- `www.company.com`, `.com` → `.net`: the LAST occurrence changes (not `www.netpany.com`) -/
example : specHostSuffixReplace "www.company.com".toList ".com".toList ".net".toList = "www.company.net".toList := by decide

/-- the oracles for PATH_PREFIX_TRIM / PATH_PREFIX_ADD are the modelled `Action.Do`, and on `p ++ rest` the trim
    removes the leading occurrence only -/
theorem C49_oracle_path_prefix (p rest : Str) (r : Req) :
    specPathPrefixTrim (p ++ rest) p = ensureSlash rest ∧
    (doAction .pathPrefixTrim [p] r).path = specPathPrefixTrim r.path p ∧
    (doAction .pathPrefixAdd [p] r).path = specPathPrefixAdd r.path p := by
  have hp : p.isPrefixOf (p ++ rest) = true := by
    rw [List.isPrefixOf_iff_prefix]; exact List.prefix_append p rest
  refine ⟨by simp [specPathPrefixTrim, hp, ensureSlash], by simp [doAction, specPathPrefixTrim, ensureSlash, trimPrefix], ?_⟩
  simp only [doAction, specPathPrefixAdd, ensureSlash, trimPrefix, List.getD_cons_zero]
  cases hpath : r.path with
  | nil => simp [List.isPrefixOf]
  | cons c cs =>
    by_cases hc : c = '/'
    · simp [List.isPrefixOf, hc]
    · have hc' : ¬ '/' = c := fun e => hc e.symm
      simp [List.isPrefixOf, hc, hc']

/-- … and a host without that suffix is left alone -/
theorem C49_effect_host_suffix_replace_nomatch (o n : Str) (r : Req) (hr : o.isSuffixOf r.host = false) :
    doAction .hostSuffixReplace [o, n] r = r := by
  simp [doAction, hr]

/-- PATH_PREFIX_TRIM: a path `p ++ rest` becomes `rest`, with a leading `/` ensured -/
theorem C49_effect_path_prefix_trim (p rest : Str) (r : Req) (hr : r.path = p ++ rest) :
    (doAction .pathPrefixTrim [p] r).path = ensureSlash rest := by
  have hp : p.isPrefixOf (p ++ rest) = true := by
    rw [List.isPrefixOf_iff_prefix]; exact List.prefix_append p rest
  simp [doAction, hr, trimPrefix, hp]

/-- PATH_PREFIX_ADD: the prefix is put in front of the path (minus its leading `/`), and the result starts with `/` -/
theorem C49_effect_path_prefix_add (p rest : Str) (r : Req) (hr : r.path = '/' :: rest) :
    (doAction .pathPrefixAdd [p] r).path = ensureSlash (p ++ rest) ∧
    ['/'].isPrefixOf (doAction .pathPrefixAdd [p] r).path = true := by
  constructor
  · simp [doAction, hr, trimPrefix, List.isPrefixOf]
  · simp only [doAction, ensureSlash]
    split <;> simp_all [List.isPrefixOf]

/-- REQ_HEADER_DEL removes the (canonicalised) header and nothing else -/
theorem C49_effect_header_del (k : Str) (r : Req) :
    (doAction .reqHeaderDel [k] r).hdr = r.hdr.filter (·.1 != canon k) ∧
    (doAction .reqHeaderDel [k] r).host = r.host ∧ (doAction .reqHeaderDel [k] r).path = r.path ∧
    (doAction .reqHeaderDel [k] r).rawQuery = r.rawQuery := by
  simp [doAction, hdrDel]

/-- REQ_HEADER_SET leaves exactly one value under the canonical name -/
theorem C49_effect_header_set (k v : Str) (r : Req) :
    ∀ e ∈ (doAction .reqHeaderSet [k, v] r).hdr, e.1 = canon k → e.2 = [v] := by
  intro e he hk
  simp only [doAction, hdrSet, List.getD_cons_zero, List.getD_cons_succ] at he
  split at he
  · rw [List.mem_map] at he
    obtain ⟨x, _, hx⟩ := he
    split at hx
    · rw [← hx]
    · rename_i hne; rw [← hx] at hk; simp [hk] at hne
  · rw [List.mem_append] at he
    rcases he with he | he
    · rename_i hany
      exfalso; apply hany
      rw [List.any_eq_true]; exact ⟨e, he, by simp [hk]⟩
    · simp at he; rw [he]

example : (doAction .hostSuffixReplace [['o','r','g'], ['c','o','m']]
            { host := ['a','.','o','r','g'], path := ['/'], rawQuery := [], hdr := [] }).host = ['a','.','c','o','m'] := by decide

end BfeVerif.C49
