import BfeVerif.Common.Proto
import BfeVerif.C49.Model
/-!
  C49 driver.  op = `<rw|ba> <host> <path> <rawquery|-> <headers|-> <CMD:p1,p2;CMD:...>` (harness/cmd/c49/main.go);
  result = `rej:<class>` | `ok host=.. path=.. q=.. hdr=..`.

  Spec oracle (on the implementation's result):
  * a rule made only of documented commands with valid parameters must be accepted (`documented-rejected`);
  * for a single query action the pairs a backend parses (`parseQuery`, = Go's url.ParseQuery) out of the new
    RawQuery must be exactly: QUERY_DEL — the old pairs minus the deleted keys; QUERY_DEL_ALL_EXCEPT — the old pairs
    with a kept key; QUERY_RENAME — the old pairs with the key renamed; QUERY_ADD — the old pairs plus the new one;
    host, path and headers untouched;
  * for a single host / path / header action the new request is the documented transformation of the old one.
-/
namespace BfeVerif.C49
open BfeVerif.Proto
open BfeVerif.Generated

def sOf (s : Str) : String := String.ofList s

def parseAct (a : String) : Str × List Str :=
  match a.splitOn ":" with
  | [c] => (c.toList, [])
  | c :: rest =>
    let ps := ":".intercalate rest
    (c.toList, if ps.isEmpty then [] else (ps.splitOn ",").map fun p => if p == "~" then [] else p.toList)
  | [] => ([], [])

def parseHdrs (h : String) : List (Str × List Str) :=
  if h == "-" then []
  else (h.splitOn ",").foldl (fun acc kv =>
    match kv.splitOn "=" with
    | k :: rest => hdrAdd acc (canon k.toList) ("=".intercalate rest).toList
    | [] => acc) []

def insertSorted (e : Str × List Str) : List (Str × List Str) → List (Str × List Str)
  | [] => [e]
  | x :: xs => if sOf e.1 < sOf x.1 then e :: x :: xs else x :: insertSorted e xs

def renderReq (r : Req) : String :=
  let hs := (r.hdr.foldl (fun acc e => insertSorted e acc) []).map fun e => sOf e.1 ++ "=" ++ "|".intercalate (e.2.map sOf)
  "ok host=" ++ sOf r.host ++ " path=" ++ sOf r.path ++ " q=" ++ (if r.rawQuery.isEmpty then "-" else sOf r.rawQuery) ++
    " hdr=" ++ (if hs.isEmpty then "-" else ",".intercalate hs)

/-- load every action; first refusal wins; for `rw` the allowActions test runs after all actions decoded -/
def loadAll (loader : String) (acts : List (Str × List Str)) : Except String (List (Cmd × List Str)) :=
  let checked := acts.map fun a => fileCheck C49.basicAccepted C49.headerPrefix.toList a.1 a.2
  match checked.findSome? fun l => match l with | .rej c => some c | _ => none with
  | some c => .error c
  | none =>
    let oks := checked.filterMap fun l => match l with | .ok c ps => some (c, ps) | _ => none
    if loader == "rw" then
      match oks.find? fun a => !C49.rewriteAllowed.contains a.1.name with
      | some _ => .error "notallowed"
      | none => .ok oks
    else .ok oks

/-- documented parameter counts (mod_rewrite.md / mod_header.md give names only; counts from the action meaning) -/
def docValid (loader : String) (cmd : Str) (ps : List Str) : Bool :=
  let c := sOf cmd
  let n := ps.length
  let nonEmpty := ps.all (!·.isEmpty)
  nonEmpty &&
  (if loader == "rw" then C49.rewriteDocumented.contains c else (C49.rewriteDocumented.contains c || C49.headerDocumented.contains c)) &&
  (if c == "HOST_SET" || c == "PATH_SET" || c == "PATH_PREFIX_ADD" || c == "PATH_PREFIX_TRIM" || c == "REQ_HEADER_DEL" then n == 1
   else if c == "HOST_SET_FROM_PATH_PREFIX" then n == 0
   else if c == "HOST_SUFFIX_REPLACE" || c == "QUERY_ADD" || c == "QUERY_RENAME" then n == 2
   else if c == "QUERY_DEL" || c == "QUERY_DEL_ALL_EXCEPT" then n ≥ 1
   else if c == "REQ_HEADER_SET" || c == "REQ_HEADER_ADD" then n == 2 && "X-BFE-".toList.isPrefixOf (upper (ps.getD 0 []))
   else false)

def field (impl key : String) : Option String :=
  ((impl.splitOn " ").find? fun f => f.startsWith (key ++ "=")).map fun f => (f.drop (key.length + 1)).toString

def rawKeyOf (seg : Str) : Str := (cutEq seg).1

/-- why does a pair with a key that should be gone / renamed still exist in `q'`? -/
def survivorClass (pfx : String) (q' : Str) (bad : Str → Bool) : String :=
  match (splitC '&' q').find? fun seg => match parsePair seg with | some (k, _) => bad k | none => false with
  | some seg =>
    if !seg.contains '=' then pfx ++ "-valueless-key"
    else if (rawKeyOf seg).contains '%' || (rawKeyOf seg).contains '+' then pfx ++ "-encoded-key"
    else pfx ++ "-survivor"
  | none => pfx ++ "-collateral"

def judgeSingle (cmd : Cmd) (ps : List Str) (r0 : Req) (host path q : Str) (hdrS : String) : String :=
  let untouched (chkHost chkPath chkQ chkHdr : Bool) : Bool :=
    (!chkHost || host == r0.host) && (!chkPath || path == r0.path) && (!chkQ || q == r0.rawQuery) &&
    (!chkHdr || hdrS == (field (renderReq r0) "hdr").getD "?")
  let before := parseQuery r0.rawQuery
  let after := parseQuery q
  match cmd with
  | .queryDel =>
    if !untouched true true false true then "FAIL:qdel-side-effect"
    else if after == before.filter (fun p => !ps.contains p.1) then "ok"
    else "FAIL:" ++ survivorClass "qdel" q (fun k => ps.contains k)
  | .queryDelAllExcept =>
    if !untouched true true false true then "FAIL:qdelx-side-effect"
    else if after == before.filter (fun p => ps.contains p.1) then "ok"
    else "FAIL:" ++ survivorClass "qdelx" q (fun k => !ps.contains k)
  | .queryRename =>
    let o := ps.getD 0 []
    let n := ps.getD 1 []
    if !untouched true true false true then "FAIL:qren-side-effect"
    else if after == before.map (fun p => if p.1 == o then (n, p.2) else p) then "ok"
    else "FAIL:" ++ survivorClass "qren" q (fun k => k == o && o != n)
  | .queryAdd =>
    if !untouched true true false true then "FAIL:qadd-side-effect"
    else if after == before ++ [(ps.getD 0 [], ps.getD 1 [])] then "ok" else "FAIL:qadd"
  | .hostSuffixReplace =>
    -- the oracle of `C49_effect_host_suffix_replace`: only the suffix occurrence changes
    if host == specHostSuffixReplace r0.host (ps.getD 0 []) (ps.getD 1 []) && untouched false true true true then "ok"
    else "FAIL:host-suffix-replace"
  | .pathPrefixTrim =>
    if path == specPathPrefixTrim r0.path (ps.getD 0 []) && untouched true false true true then "ok"
    else "FAIL:path-prefix-trim"
  | .pathPrefixAdd =>
    if path == specPathPrefixAdd r0.path (ps.getD 0 []) && untouched true false true true then "ok"
    else "FAIL:path-prefix-add"
  | _ =>
    -- remaining host / path / header actions: the documented transformation is the model's
    let want := doAction cmd ps r0
    if host == want.host && path == want.path && q == want.rawQuery && hdrS == (field (renderReq want) "hdr").getD "?" then "ok"
    else "FAIL:effect-" ++ cmd.name

def renderHdrOnly (h : List (Str × List Str)) : String :=
  (field (renderReq { host := [], path := [], rawQuery := [], hdr := h }) "hdr").getD "-"

/-- `hd` ops: mod_header -/
def runHd (hdrs actsS impl : String) : Ans :=
  let acts := (actsS.splitOn ";").map parseAct
  let h0 := parseHdrs hdrs
  let checked := acts.map fun a => headerCheck (sOf a.1) a.2
  match checked.findSome? fun c => match c with | .error e => some e | .ok _ => none with
  | some e => { model := "rej:" ++ e, verdict := "ok", tags := ["hd", "rej", "rej-" ++ e] }
  | none =>
    let cmds := checked.filterMap fun c => match c with | .ok x => some x | .error _ => none
    let h := cmds.foldl (fun h a => doHeader a.1 a.2 h) h0
    let m := "ok hdr=" ++ renderHdrOnly h
    let v :=
      if impl.startsWith "rej:" then "FAIL:documented-rejected-header"
      else match cmds with
        | [(c, ps)] =>
          -- documented effect (mod_header.md): SET = exactly that value, ADD = appended, DEL = gone; others untouched
          let k := canon (ps.getD 0 [])
          let want : List (Str × List Str) :=
            match c with
            | .set => (h0.filter (·.1 != k)) ++ [(k, [ps.getD 1 []])]
            | .add => (h0.filter (·.1 != k)) ++ [(k, ((h0.find? (·.1 == k)).map (·.2)).getD [] ++ [ps.getD 1 []])]
            | .del => h0.filter (·.1 != k)
            | _ => h
          if impl == "ok hdr=" ++ renderHdrOnly want then "ok" else "FAIL:header-effect"
        | _ => "ok"
    { model := m, verdict := v
      tags := ["hd"] ++ cmds.map (fun a => (reprStr a.1)) ++ (if cmds.length > 1 then ["multi"] else ["single"]) ++
              (if renderHdrOnly h != renderHdrOnly h0 then ["nt"] else []) }

/-- `rd` ops: mod_redirect -/
def runRd (host path rawq actsS impl : String) : Ans :=
  let acts := (actsS.splitOn ";").map fun a =>
    let hasColon := (a.splitOn ":").length > 1
    let pa := parseAct a
    (sOf pa.1, if hasColon then some pa.2 else none)
  let q : Str := if rawq == "-" then [] else rawq.toList
  match redirectCheck acts with
  | .error e => { model := "rej:" ++ e, verdict := "ok", tags := ["rd", "rej", "rej-" ++ e] }
  | .ok (c, p) =>
    let u := doRedirect c p host.toList path.toList q
    let m := "ok url=" ++ (if u.isEmpty then "-" else sOf u)
    -- documented effect (mod_redirect.md), written out independently of `doRedirect`
    let uri := path ++ (if q.isEmpty then "" else "?" ++ sOf q)
    let want : String :=
      match c with
      | .urlSet => sOf p
      | .urlFromQuery => (((parseQuery q).filter (·.1 == p)).head?.map fun e => sOf e.2).getD ""
      | .urlPrefixAdd => sOf p ++ uri
      | .schemeSet => sOf p ++ "://" ++ host ++ uri
    let v := if impl == "ok url=" ++ (if want.isEmpty then "-" else want) then "ok"
             else if impl.startsWith "rej:" then "FAIL:documented-rejected-redirect" else "FAIL:redirect-effect"
    { model := m, verdict := v, tags := ["rd", reprStr c, "nt"] }

/-- the values the handlers must produce for the fixed request state of the harness (`execHv`): the documented meaning
    of each variable evaluated on that state; variables missing here (added to the source later) are not value-checked -/
def hvState : List (String × String) :=
  [("bfe_client_ip", "1.2.3.4"), ("bfe_cip", "1.2.3.4"), ("bfe_client_port", "5678"), ("bfe_request_host", "example.org"),
   ("bfe_session_id", "sid-1"), ("bfe_log_id", "log-7"), ("bfe_vip", "9.8.7.6"), ("bfe_bip", "unknown"), ("bfe_rip", "10.0.0.9"),
   ("bfe_server_name", "HOSTNAME"), ("bfe_cluster", "cl1"),
   ("bfe_backend_info", "ClusterName:cl1,SubClusterName:sub1,BackendName:b1(10.1.1.1)"),
   ("bfe_ssl_resume", "R"), ("bfe_ssl_cipher", "TLS_CIPHER_SUITE_beef"), ("bfe_ssl_version", "TLS_VERSION_7777"),
   ("bfe_ssl_ja3_raw", "771,4865-4866,0-23,29-23,0"), ("bfe_ssl_ja3_hash", "e7d705a3286e19ea42f587b344ee6865"),
   ("bfe_protocol", "h2"),
   ("client_cert_serial_number", ""), ("client_cert_subject_title", ""), ("client_cert_subject_common_name", ""),
   ("client_cert_subject_organization", ""), ("client_cert_subject_organizational_unit", ""),
   ("client_cert_subject_province", ""), ("client_cert_subject_country", ""), ("client_cert_subject_locality", ""),
   ("bfe_client_geo_country_iso_code", ""), ("bfe_client_geo_subdivision_iso_code", ""), ("bfe_client_geo_city_name", ""),
   ("bfe_client_geo_latitude", ""), ("bfe_client_geo_longitude", "")]

/-- `hv` ops: one mod_header SET/ADD whose value is a `%variable` template -/
def runHv (cmd name tmplS impl : String) : Ans :=
  let tmpl : Str := if tmplS == "~" then [] else tmplS.toList
  let vars := C49.headerVariables
  let pieces := splitTemplate tmpl
  let refs := pieces.filterMap varRef
  let known := refs.all fun n => vars.contains (sOf n)
  let valued := refs.all fun n => (hvState.find? (·.1 == sOf n)).isSome
  let tags := ["hv"] ++ (if refs.isEmpty then ["no-var"] else ["nt"]) ++ (if refs.length > 1 then ["multi-var"] else []) ++
    (if pieces.length > 1 && !refs.isEmpty then ["embedded"] else []) ++
    (if pieces.any (fun p => ['%', '%'].isPrefixOf p) then ["escaped"] else []) ++
    (if refs.any (fun n => n.any Char.isDigit) then ["digit-name"] else [])
  match headerCheck cmd [name.toList, tmpl] with
  | .error e => { model := "rej:" ++ e, verdict := "ok", tags := tags ++ ["rej-" ++ e] }
  | .ok _ =>
    if !templateLoads vars tmpl then
      -- a reference to something that is not in the source table: refusing it is right
      { model := "rej:var", verdict := if known && impl.startsWith "rej:" then "FAIL:documented-variable-rejected" else "ok",
        tags := tags ++ ["rej-var"] }
    else
      let value (n : Str) : Option Str :=
        if vars.contains (sOf n) then some (((hvState.find? (·.1 == sOf n)).map (·.2.toList)).getD ['?']) else none
      let v := expandTemplate value tmpl
      let m := "ok val=" ++ (if v.isEmpty then "-" else sOf v)
      let verdict :=
        if impl.startsWith "rej:" then "FAIL:documented-variable-rejected"   -- only variables of the table are used
        else if !valued then "ok"
        else if impl == m then "ok" else "FAIL:variable-expansion"
      { model := m, verdict := verdict, tags := tags }

/-- `ml` ops: module life cycle.  conf = `<ver>@<prod>><act>+<act>~<prod>><act>` | `!...` -/
def parseMlConf (c : String) : Option (List (String × List (Str × List Str))) :=
  if c.startsWith "!" then none
  else match c.splitOn "@" with
    | [_, body] =>
      if body.isEmpty then some []
      else some ((body.splitOn "~").map fun pr =>
        match pr.splitOn ">" with
        | p :: rest => (p, ((">".intercalate rest).splitOn "+").map parseAct)
        | [] => ("", []))
    | _ => none

/-- does the module's loader accept the rule file? (every action must pass the module's ActionFileCheck) -/
def mlValid (mod : String) (conf : List (String × List (Str × List Str))) : Bool :=
  conf.all fun pr =>
    if mod == "rw" then (match loadAll "rw" pr.2 with | .ok _ => true | .error _ => false)
    else if mod == "hd" then pr.2.all fun a => (match headerCheck (sOf a.1) a.2 with | .ok _ => true | .error _ => false)
    else (match redirectCheck (pr.2.map fun a => (sOf a.1, some a.2)) with | .ok _ => true | .error _ => false)

def mlQuery (mod : String) (table : Option (List (String × List (Str × List Str)))) (product : String) : String :=
  let r0 : Req := { host := "example.org".toList, path := "/a/b".toList, rawQuery := "x=1".toList, hdr := [] }
  if mod == "rw" then
    let r := match tableSearch table product with
      | none => r0
      | some acts => (match loadAll "rw" acts with
          | .ok cmds => cmds.foldl (fun (r : Req) (a : Cmd × List Str) => doAction a.1 a.2 r) r0
          | .error _ => r0)
    "q(" ++ sOf r.host ++ "," ++ sOf r.path ++ "," ++ (if r.rawQuery.isEmpty then "-" else sOf r.rawQuery) ++ ")"
  else if mod == "rd" then
    match tableSearch table product with
    | none => "q(goon)"
    | some acts =>
      (match redirectCheck (acts.map fun a => (sOf a.1, some a.2)) with
       | .ok (c, p) => "q(302:" ++ sOf (doRedirect c p r0.host r0.path r0.rawQuery) ++ ")"
       | .error _ => "q(goon)")
  else
    -- global rules first, then the product's; REQ_ actions on the request, RSP_ actions on the response
    let apply (pfx : String) (h : List (Str × List Str)) (prod : String) : List (Str × List Str) :=
      match tableSearch table prod with
      | none => h
      | some acts =>
        (acts.filter fun a => (sOf a.1).startsWith pfx).foldl (fun (h : List (Str × List Str)) (a : Str × List Str) =>
          match headerCheck (sOf a.1) a.2 with
          | .ok (c, ps) => doHeader c ps h
          | .error _ => h) h
    let rq := apply "REQ_" (apply "REQ_" [] "global") product
    let rs := apply "RSP_" (apply "RSP_" [] "global") product
    "q(" ++ renderHdrOnly rq ++ "/" ++ renderHdrOnly rs ++ ")"

def runMl (mod confsS stepsS impl : String) : Ans :=
  let confs := (confsS.splitOn "|").map parseMlConf
  let accepted (k : Nat) : Option (List (String × List (Str × List Str))) :=
    match confs.getD k none with
    | some c => if mlValid mod c then some c else none
    | none => none
  -- (table, initialised, stopped, outputs)
  let st := (stepsS.splitOn ",").foldl (fun (st : Option (List (String × List (Str × List Str))) × Bool × Bool × List String) step =>
    let (table, inited, stopped, out) := st
    if stopped then st
    else if step.startsWith "I" then
      (match accepted ((step.drop 1).toString.toNat?.getD 0) with
       | some c => (some c, true, false, out ++ ["I=ok"])
       | none => (none, false, true, out ++ ["I=err"]))
    else if step.startsWith "R" then
      (match accepted ((step.drop 1).toString.toNat?.getD 0) with
       | some c => (some c, inited, false, out ++ ["R=ok"])
       | none => (table, inited, false, out ++ ["R=err"]))
    else (table, inited, false, out ++ [mlQuery mod table (step.drop 2).toString])) (none, false, false, [])
  let m := ";".intercalate st.2.2.2
  let reloads := ((stepsS.splitOn ",").filter fun s => s.startsWith "R").length
  let bad := (confsS.splitOn "|").any fun c => c.startsWith "!"
  -- the oracle: the documented reading of a reload is exactly "the rules of the last accepted file, and only those"
  { model := m, verdict := if impl == m then "ok" else "FAIL:reload-history",
    tags := ["ml", "ml-" ++ mod] ++ (if reloads > 0 then ["nt"] else []) ++ (if reloads > 1 then ["multi-reload"] else []) ++
            (if bad then ["bad-conf"] else []) }

def run (op impl : String) : Ans :=
  match op.splitOn " " with
  | ["ml", mod, confs, steps] => runMl mod confs steps impl
  | ["hv", _, cmd, name, tmpl] => runHv cmd name tmpl impl
  | ["hd", _, hdrs, actsS] => runHd hdrs actsS impl
  | ["rd", host, path, rawq, actsS] => runRd host path rawq actsS impl
  | [loader, host, path, rawq, hdrs, actsS] =>
    let acts := (actsS.splitOn ";").map parseAct
    let r0 : Req := { host := host.toList, path := path.toList, rawQuery := if rawq == "-" then [] else rawq.toList,
                      hdr := parseHdrs hdrs }
    let allDoc := acts.all fun a => docValid loader a.1 a.2
    match loadAll loader acts with
    | .error c =>
      { model := "rej:" ++ c
        verdict := if impl.startsWith "rej:" && allDoc then "FAIL:documented-rejected" else "ok"
        tags := ["rej", "rej-" ++ c, loader] }
    | .ok cmds =>
      let r := cmds.foldl (fun r a => doAction a.1 a.2 r) r0
      let m := renderReq r
      let ampKey := (parseQuery r0.rawQuery).any fun p => p.1.contains '&'
      let v :=
        if impl.startsWith "rej:" then (if allDoc then "FAIL:documented-rejected" else "ok")
        else if ampKey then "skip"   -- QUERY_DEL_ALL_EXCEPT would depend on Go's map iteration order
        else match cmds with
          | [(c, ps)] =>
            match field impl "host", field impl "path", field impl "q", field impl "hdr" with
            | some h, some p, some q, some hd => judgeSingle c ps r0 h.toList p.toList (if q == "-" then [] else q.toList) hd
            | _, _, _, _ => "FAIL:unparsable-result"
          | _ => "ok"
      -- the segment view of the raw edit must agree with the literal one (refinement used by the theorems)
      let segOK := cmds.all fun a =>
        a.1 != .queryDel || a.2.any (fun k => k.contains '&') || delKeysRaw r0.rawQuery a.2 == delKeysSeg r0.rawQuery a.2
      let v := if v == "ok" && !segOK then "FAIL:model-seg-view-differs" else v
      let isQ := cmds.any fun a => a.1 == .queryDel || a.1 == .queryDelAllExcept || a.1 == .queryRename || a.1 == .queryAdd
      let tricky := r0.rawQuery.contains '%' || r0.rawQuery.contains '+' || r0.rawQuery.contains ';' ||
                    (splitC '&' r0.rawQuery).any fun s => !s.contains '='
      let occ (pat s : Str) : Nat := ((List.range (s.length + 1)).filter fun i => !pat.isEmpty && pat.isPrefixOf (s.drop i)).length
      let repeated := cmds.any fun a =>
        (a.1 == .hostSuffixReplace && occ (a.2.getD 0 []) r0.host > 1) ||
        ((a.1 == .pathPrefixTrim || a.1 == .pathPrefixAdd) && occ (a.2.getD 0 []) r0.path > 1)
      { model := m, verdict := v
        tags := (if repeated then ["repeated-substring"] else []) ++ ["acc", loader] ++ cmds.map (fun a => a.1.name) ++ (if cmds.length > 1 then ["multi"] else ["single"]) ++
                (if isQ && tricky then ["tricky-query"] else []) ++
                (if r.rawQuery != r0.rawQuery || r.host != r0.host || r.path != r0.path || renderReq r != renderReq r0 then ["nt"] else []) }
  | _ => { model := "bad-op", verdict := "skip" }

end BfeVerif.C49
