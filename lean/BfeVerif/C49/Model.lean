import BfeVerif.Generated.C49
/-!
  C49 — rewrite, header and redirect actions have their documented effect.

  Model of bfe_basic/action: `ActionFileCheck` (the accepted commands and arities are NOT written here: they come
  from `BfeVerif.Generated.C49.basicAccepted`, re-extracted from the source on every run), `Action.Do` and the
  functions it calls.  Strings are `List Char` (ASCII inputs only).  The query actions are modelled as the raw string
  edits the Go code performs on `"&" + RawQuery + "&"`, together with the lazily parsed key cache `req.Query`
  (only its key set matters).  `parseQuery` is Go's `url.ParseQuery` (go1.17+: pairs containing `;` are dropped),
  the reference for what a backend sees.
-/
namespace BfeVerif.C49

abbrev Str := List Char

/-! ### string helpers (Go `strings`) -/

def trimPrefix (p s : Str) : Str := if p.isPrefixOf s then s.drop p.length else s
def trimSuffix (p s : Str) : Str := if p.isSuffixOf s then s.take (s.length - p.length) else s

/-- `strings.Index(s, pat)` -/
def indexOf (pat : Str) : Str → Nat → Option Nat
  | [], i => if pat.isEmpty then some i else none
  | c :: cs, i => if pat.isPrefixOf (c :: cs) then some i else indexOf pat cs (i + 1)

/-- `strings.Replace(s, src, dst, -1)` for non-empty `src` -/
def replaceAll (src dst : Str) : Nat → Str → Str
  | 0, s => s
  | _ + 1, [] => []
  | fuel + 1, c :: cs =>
    if src.isPrefixOf (c :: cs) then dst ++ replaceAll src dst fuel ((c :: cs).drop src.length)
    else c :: replaceAll src dst fuel cs

/-- `strings.Split(s, sep)` for a one-character separator -/
def splitC (sep : Char) : Str → List Str
  | [] => [[]]
  | c :: cs =>
    if c == sep then [] :: splitC sep cs
    else match splitC sep cs with
      | [] => [[c]]
      | h :: t => (c :: h) :: t

def joinC (sep : Char) : List Str → Str
  | [] => []
  | [x] => x
  | x :: y :: r => x ++ sep :: joinC sep (y :: r)

def upper (s : Str) : Str := s.map Char.toUpper

/-! ### url.ParseQuery -/

def hexVal (c : Char) : Option Nat :=
  if '0' ≤ c ∧ c ≤ '9' then some (c.toNat - 48)
  else if 'a' ≤ c ∧ c ≤ 'f' then some (c.toNat - 87)
  else if 'A' ≤ c ∧ c ≤ 'F' then some (c.toNat - 55)
  else none

/-- `url.QueryUnescape` -/
def unescape : Str → Option Str
  | [] => some []
  | '%' :: a :: b :: rest =>
    match hexVal a, hexVal b with
    | some x, some y => (unescape rest).map (Char.ofNat (16 * x + y) :: ·)
    | _, _ => none
  | '%' :: _ => none
  | '+' :: rest => (unescape rest).map (' ' :: ·)
  | c :: rest => (unescape rest).map (c :: ·)

/-- `strings.Cut(seg, "=")` -/
def cutEq : Str → Str × Str
  | [] => ([], [])
  | c :: cs => if c == '=' then ([], cs) else let (k, v) := cutEq cs; (c :: k, v)

/-- one `&`-separated piece of a raw query as `url.ParseQuery` reads it -/
def parsePair (seg : Str) : Option (Str × Str) :=
  if seg.isEmpty then none
  else if seg.contains ';' then none
  else
    let (k, v) := cutEq seg
    match unescape k, unescape v with
    | some k', some v' => some (k', v')
    | _, _ => none

def parseSegs (segs : List Str) : List (Str × Str) := segs.filterMap parsePair

/-- what the backend sees: the (key, value) pairs in order -/
def parseQuery (raw : Str) : List (Str × Str) := parseSegs (splitC '&' raw)

/-! ### the raw-string edits of action_query.go -/

/-- the inner `for { start := Index(rawQuery, "&"+key+"="); ...}` loop -/
def delKeyLoop (pat : Str) : Nat → Str → Str
  | 0, s => s
  | f + 1, s =>
    match indexOf pat s 0 with
    | none => s
    | some start =>
      match indexOf ['&'] (s.drop (start + 1)) 0 with
      | none => s
      | some e => delKeyLoop pat f (s.take start ++ s.drop (start + e + 1))

def delKeysRaw (raw : Str) (keys : List Str) : Str :=
  let rq := '&' :: raw ++ ['&']
  let rq := keys.foldl (fun acc k => delKeyLoop ('&' :: k ++ ['=']) acc.length acc) rq
  if rq.length == 1 then [] else (rq.drop 1).dropLast

/-- the same edit seen on the `&`-separated pieces: drop every piece that starts with `key=` -/
def segHit (keys : List Str) (seg : Str) : Bool := keys.any fun k => (k ++ ['=']).isPrefixOf seg

def delKeysSeg (raw : Str) (keys : List Str) : Str :=
  joinC '&' ((splitC '&' raw).filter fun s => !segHit keys s)

/-! ### the request and Action.Do -/

structure Req where
  host : Str
  path : Str
  rawQuery : Str
  /-- header map: canonical name ↦ values, in insertion order of names -/
  hdr : List (Str × List Str)
  /-- `req.Query` cache: none = not parsed yet; some ks = key set -/
  cache : Option (List Str) := none
  deriving Repr

/-- `textproto.CanonicalMIMEHeaderKey` for names made of letters, digits and `-` -/
def canonAux : Bool → Str → Str
  | _, [] => []
  | up, c :: cs => (if up then c.toUpper else c.toLower) :: canonAux (c == '-') cs
def canon (s : Str) : Str := canonAux true s

def hdrSet (h : List (Str × List Str)) (k v : Str) : List (Str × List Str) :=
  if h.any (·.1 == k) then h.map fun e => if e.1 == k then (k, [v]) else e else h ++ [(k, [v])]
def hdrAdd (h : List (Str × List Str)) (k v : Str) : List (Str × List Str) :=
  if h.any (·.1 == k) then h.map fun e => if e.1 == k then (k, e.2 ++ [v]) else e else h ++ [(k, [v])]
def hdrDel (h : List (Str × List Str)) (k : Str) : List (Str × List Str) := h.filter (·.1 != k)

def dedup : List Str → List Str
  | [] => []
  | x :: xs => x :: (dedup xs).filter (· != x)

/-- `queryParse`: parse once, then reuse -/
def cacheOf (r : Req) : List Str :=
  match r.cache with
  | some ks => ks
  | none => dedup ((parseQuery r.rawQuery).map (·.1))

def ensureSlash (p : Str) : Str := if ['/'].isPrefixOf p then p else '/' :: p

/-! ### documented effects of the text-searching host / path actions, stated on the position that must change
     (these are what the driver's oracle evaluates; `Props` proves they are what the theorems say) -/

/-- HOST_SUFFIX_REPLACE: only the SUFFIX occurrence of `o` (the last `o.length` characters) is replaced -/
def specHostSuffixReplace (host o n : Str) : Str :=
  if o.isSuffixOf host then host.take (host.length - o.length) ++ n else host

/-- PATH_PREFIX_TRIM: only the PREFIX occurrence of `p` (the first `p.length` characters) is removed -/
def specPathPrefixTrim (path p : Str) : Str :=
  let rest := if p.isPrefixOf path then path.drop p.length else path
  if ['/'].isPrefixOf rest then rest else '/' :: rest

/-- PATH_PREFIX_ADD: the prefix goes in front of the whole path (one leading `/` of the path dropped) -/
def specPathPrefixAdd (path p : Str) : Str :=
  let body := p ++ (match path with | '/' :: t => t | t => t)
  if ['/'].isPrefixOf body then body else '/' :: body

inductive Cmd where
  | reqHeaderAdd | reqHeaderSet | reqHeaderDel
  | hostSet | hostSetFromPathPrefix | hostSuffixReplace
  | pathSet | pathPrefixAdd | pathPrefixTrim
  | queryAdd | queryRename | queryDel | queryDelAllExcept
  | close | pass | finish
  deriving DecidableEq, Repr

def Cmd.name : Cmd → String
  | .reqHeaderAdd => "REQ_HEADER_ADD" | .reqHeaderSet => "REQ_HEADER_SET" | .reqHeaderDel => "REQ_HEADER_DEL"
  | .hostSet => "HOST_SET" | .hostSetFromPathPrefix => "HOST_SET_FROM_PATH_PREFIX" | .hostSuffixReplace => "HOST_SUFFIX_REPLACE"
  | .pathSet => "PATH_SET" | .pathPrefixAdd => "PATH_PREFIX_ADD" | .pathPrefixTrim => "PATH_PREFIX_TRIM"
  | .queryAdd => "QUERY_ADD" | .queryRename => "QUERY_RENAME" | .queryDel => "QUERY_DEL"
  | .queryDelAllExcept => "QUERY_DEL_ALL_EXCEPT" | .close => "CLOSE" | .pass => "PASS" | .finish => "FINISH"

def Cmd.all : List Cmd :=
  [.reqHeaderAdd, .reqHeaderSet, .reqHeaderDel, .hostSet, .hostSetFromPathPrefix, .hostSuffixReplace, .pathSet,
   .pathPrefixAdd, .pathPrefixTrim, .queryAdd, .queryRename, .queryDel, .queryDelAllExcept, .close, .pass, .finish]

/-- `Action.Do` (the switch over `ac.Cmd`) -/
def doAction (cmd : Cmd) (ps : List Str) (r : Req) : Req :=
  let p0 := ps.getD 0 []
  let p1 := ps.getD 1 []
  match cmd with
  | .reqHeaderAdd => { r with hdr := hdrAdd r.hdr (canon p0) p1 }
  | .reqHeaderSet => { r with hdr := hdrSet r.hdr (canon p0) p1 }
  | .reqHeaderDel => { r with hdr := hdrDel r.hdr (canon p0) }
  | .hostSet => { r with host := p0 }
  | .hostSetFromPathPrefix =>
    -- segs := strings.SplitN(path, "/", 3)
    match splitC '/' r.path with
    | _ :: s1 :: s2 :: rest => { r with host := s1, path := '/' :: joinC '/' (s2 :: rest) }
    | _ => r
  | .hostSuffixReplace =>
    if p0.isSuffixOf r.host then { r with host := trimSuffix p0 r.host ++ p1 } else r
  | .pathSet => { r with path := p0 }
  | .pathPrefixAdd => { r with path := ensureSlash (p0 ++ trimPrefix ['/'] r.path) }
  | .pathPrefixTrim => { r with path := ensureSlash (trimPrefix p0 r.path) }
  | .queryAdd =>
    let ks := cacheOf r
    let add := '&' :: p0 ++ '=' :: p1
    { r with cache := some (if ks.contains p0 then ks else ks ++ [p0]),
             rawQuery := if r.rawQuery.isEmpty then add.drop 1 else r.rawQuery ++ add }
  | .queryRename =>
    let ks := cacheOf r
    if !ks.contains p0 then { r with cache := some ks }
    else
      let rq := '&' :: r.rawQuery
      let rq := replaceAll ('&' :: p0 ++ ['=']) ('&' :: p1 ++ ['=']) rq.length rq
      { r with cache := some ((ks.filter (· != p0)).filter (· != p1) ++ [p1]), rawQuery := rq.drop 1 }
  | .queryDel =>
    let ks := cacheOf r
    { r with cache := some (ks.filter fun k => !ps.contains k), rawQuery := delKeysRaw r.rawQuery ps }
  | .queryDelAllExcept =>
    let ks := cacheOf r
    { r with cache := some (ks.filter fun k => ps.contains k),
             rawQuery := delKeysRaw r.rawQuery (ks.filter fun k => !ps.contains k) }
  | .close | .pass | .finish => r

/-! ### ActionFileCheck -/

inductive Load where
  | ok (cmd : Cmd) (ps : List Str)
  | rej (cls : String)
  deriving Repr

/-- `ActionFileCheck` on `{Cmd, Params}` (a missing `Params` key is the empty list).  `accepted` = the arms of
    its command switch; `prefixU` = HeaderPrefix.  A command that is accepted but has no arm in `Action.Do` is
    reported as `rej "do"` (Do would return "unknown cmd"). -/
def fileCheck (accepted : List (String × Int)) (prefixU : Str) (cmd : Str) (ps : List Str) : Load :=
  let c := String.ofList (upper cmd)
  match accepted.find? fun a => a.1 == c with
  | none => .rej "cmd"
  | some (_, n) =>
    if n != -1 && (ps.length : Int) != n then .rej "arity"
    else if ps.any (·.isEmpty) then .rej "empty"
    else if (c == "REQ_HEADER_SET" || c == "REQ_HEADER_ADD") && !prefixU.isPrefixOf (upper (ps.getD 0 [])) then .rej "prefix"
    else match Cmd.all.find? fun k => k.name == c with
      | some k => .ok k ps
      | none => .rej "do"


/-! ### mod_header (header actions with literal values) -/

def sHttp : Str := ['h','t','t','p',':','/','/']
def sHttps : Str := ['h','t','t','p','s',':','/','/']

/-- `Header.Get`: first value or "" -/
def hdrGet (h : List (Str × List Str)) (k : Str) : Str :=
  match h.find? (·.1 == k) with
  | some (_, v :: _) => v
  | _ => []

/-- `headerRename` guarded as in processHeader -/
def hdrRename (h : List (Str × List Str)) (o n : Str) : List (Str × List Str) :=
  if (hdrGet h o).isEmpty || !(hdrGet h n).isEmpty then h else hdrDel (hdrSet h n (hdrGet h o)) o

/-- mod_header.setScheme -/
def setScheme (uri scheme : Str) : Str :=
  if sHttp.isPrefixOf uri || sHttps.isPrefixOf uri then
    match indexOf [':'] uri 0 with
    | some i => scheme ++ uri.drop i
    | none => uri
  else uri

/-- mod_header.addQuery for URIs without fragment / userinfo (url.Parse + String() round-trips them) -/
def addQuery (uri k v : Str) : Str :=
  if uri.contains '?' then uri ++ '&' :: k ++ '=' :: v else uri ++ '?' :: k ++ '=' :: v

inductive HCmd where
  | set | add | del | rename | modScheme | modQuery
  deriving DecidableEq, Repr

/-- processHeader + HeaderActionDo on one header map; `ps` as produced by actionConvert (keys canonical) -/
def doHeader (c : HCmd) (ps : List Str) (h : List (Str × List Str)) : List (Str × List Str) :=
  let p0 := ps.getD 0 []
  let p1 := ps.getD 1 []
  match c with
  | .set => hdrSet h (canon p0) p1
  | .add => hdrAdd h (canon p0) p1
  | .del => hdrDel h (canon p0)
  | .rename => hdrRename h (canon p0) (canon p1)
  | .modScheme =>
    let v := hdrGet h (canon p1)
    if v.isEmpty then h else hdrSet h (canon p1) (setScheme v (ps.getD 2 []))
  | .modQuery =>
    let v := hdrGet h (canon p1)
    if v.isEmpty then h else hdrSet h (canon p1) (addQuery v (ps.getD 2 []) (ps.getD 3 []))

/-- mod_header.ActionFileCheck (header commands; cookie commands are outside this model) -/
def headerCheck (cmd : String) (ps : List Str) : Except String (HCmd × List Str) :=
  let body := if cmd.startsWith "REQ_" || cmd.startsWith "RSP_" then (cmd.drop 4).toString else "?"
  let emptyChk (r : HCmd × List Str) : Except String (HCmd × List Str) :=
    if ps.any (·.isEmpty) then .error "empty" else .ok r
  if body == "HEADER_SET" then (if ps.length != 2 then .error "arity" else emptyChk (.set, ps))
  else if body == "HEADER_ADD" then (if ps.length != 2 then .error "arity" else emptyChk (.add, ps))
  else if body == "HEADER_RENAME" then (if ps.length != 2 then .error "arity" else emptyChk (.rename, ps))
  else if body == "HEADER_DEL" then (if ps.length != 1 then .error "arity" else emptyChk (.del, ps))
  else if body == "HEADER_MOD" then
    let sub := String.ofList (upper (ps.getD 0 []))
    let key := String.ofList (canon (ps.getD 1 []))
    let keyOK := key == "Referer" || key == "Location"
    let p2 := String.ofList (ps.getD 2 [])
    if ps.length != 3 && ps.length != 4 then .error "mod"
    else if sub == "SCHEME_SET" then
      (if ps.length == 3 && keyOK && (p2 == "http" || p2 == "https") then emptyChk (.modScheme, ps) else .error "mod")
    else if sub == "QUERY_ADD" then
      (if ps.length == 4 && keyOK then emptyChk (.modQuery, ps) else .error "mod")
    else .error "mod"
  else .error "cmd"

/-! ### mod_header: `%variable` templates in header values (splitParam / preProcessParams / getHeaderValue) -/

/-- characters of a variable name: `variableCharset` = a-z 0-9 _ -/
def isVarChar (c : Char) : Bool := ('a' ≤ c && c ≤ 'z') || ('0' ≤ c && c ≤ '9') || c == '_'

/-- mod_header.splitParam: cut a value template into literal text (up to the next `%`), escaped text (`%%` + text up to
    the next `%`), and variable references (`%` + the longest run of name characters; a lone `%` at the end is a piece
    of its own).  `fuel` ≥ length of the input. -/
def splitParam : Nat → Str → List Str
  | 0, _ => []
  | _, [] => []
  | _ + 1, ['%'] => [['%']]
  | f + 1, '%' :: '%' :: rest =>
    ('%' :: '%' :: rest.takeWhile (· != '%')) :: splitParam f (rest.dropWhile (· != '%'))
  | f + 1, '%' :: c :: rest =>
    ('%' :: (c :: rest).takeWhile isVarChar) :: splitParam f ((c :: rest).dropWhile isVarChar)
  | f + 1, c :: rest =>
    (c :: rest.takeWhile (· != '%')) :: splitParam f (rest.dropWhile (· != '%'))

def splitTemplate (s : Str) : List Str := splitParam s.length s

/-- is the piece a variable reference (`%...` but not `%%...`)? then its name -/
def varRef (p : Str) : Option Str :=
  match p with
  | '%' :: '%' :: _ => none
  | '%' :: name => some name
  | _ => none

/-- preProcessParams: every variable reference must name an entry of the handler table (compared in lower case) -/
def templateLoads (vars : List String) (s : Str) : Bool :=
  (splitTemplate s).all fun p =>
    match varRef p with
    | some name => vars.contains (String.ofList (name.map Char.toLower))
    | none => true

/-- getHeaderValue: a piece starting with `%` is the handler's value if its tail names a handler, else its tail
    (so `%%x` yields `%x`); other pieces are copied -/
def expandTemplate (value : Str → Option Str) (s : Str) : Str :=
  ((splitTemplate s).map fun p =>
    match p with
    | '%' :: tail => (match value tail with | some v => v | none => tail)
    | _ => p).flatten

/-! ### mod_redirect -/

inductive RCmd where
  | urlSet | urlFromQuery | urlPrefixAdd | schemeSet
  deriving DecidableEq, Repr

/-- `URL.RequestURI()` for the origin-form requests of the harness -/
def requestURI (path rawq : Str) : Str := path ++ (if rawq.isEmpty then [] else '?' :: rawq)

/-- `url.Values.Get` on the parsed query -/
def queryGet (rawq k : Str) : Str :=
  match (parseQuery rawq).find? (·.1 == k) with
  | some (_, v) => v
  | none => []

/-- redirectExclusiveActionDo: the new `req.Redirect.Url` -/
def doRedirect (c : RCmd) (p : Str) (host path rawq : Str) : Str :=
  match c with
  | .urlSet => p
  | .urlFromQuery => queryGet rawq p
  | .urlPrefixAdd => p ++ requestURI path rawq
  | .schemeSet => p ++ [':','/','/'] ++ host ++ requestURI path rawq

/-- mod_redirect.ActionFileListCheck; `ps = none`: no Params key -/
def redirectCheck (acts : List (String × Option (List Str))) : Except String (RCmd × Str) :=
  match acts with
  | [(cmd, ps)] =>
    let c? : Option RCmd :=
      if cmd == "URL_SET" then some .urlSet else if cmd == "URL_FROM_QUERY" then some .urlFromQuery
      else if cmd == "URL_PREFIX_ADD" then some .urlPrefixAdd else if cmd == "SCHEME_SET" then some .schemeSet else none
    match c?, ps with
    | none, _ => .error "cmd"
    | some _, none => .error "noparams"
    | some c, some l =>
      if l.length != 1 then .error "arity"
      else
        let p := l.getD 0 []
        if c == .schemeSet then
          let lp := p.map Char.toLower
          if String.ofList lp == "http" || String.ofList lp == "https" then .ok (c, lp) else .error "scheme"
        else .ok (c, p)
  | [] => .error "empty-list"
  | _ => .error "multi"


/-! ### rule tables: load, reload, lookup (ReWriteTable / HeaderTable / RedirectTable `Update` + `Search`) -/

/-- a history of (re)load attempts: `some c` = a rule file the loader accepts with content `c`, `none` = a file it refuses
    (not JSON, unknown command, no Version, ...).  `Update` REPLACES the table; a refused file leaves it alone. -/
def tableAfter {α : Type} (init : Option α) (loads : List (Option α)) : Option α :=
  loads.foldl (fun t l => match l with | some c => some c | none => t) init

/-- `Search(product)`: the rules of `product` in the current table (association list product ↦ rules) -/
def tableSearch {α : Type} (t : Option (List (String × α))) (product : String) : Option α :=
  match t with
  | none => none
  | some c => (c.find? (·.1 == product)).map (·.2)

end BfeVerif.C49
