import BfeVerif.Generated.C49
/-!
  C49 — rewrite, header and redirect actions have their documented effect.

  Model of bfe_basic/action: `ActionFileCheck` (the accepted commands and arities are NOT written here: they come
  from `BfeVerif.Generated.C49.basicAccepted`, re-extracted from the source on every run), `Action.Do` and the
  functions it calls.  Strings are `List Char` (ASCII inputs only).  The query actions are modelled as the raw string
  edits the Go code performs on `"&" + RawQuery + "&"`, together with the lazily parsed key cache `req.Query`
  (only its key set matters).  `parseQuery` is Go's `url.ParseQuery` (go1.17+: pairs containing `;` are dropped),
  the reference for what a backend sees.
-/
namespace BfeVerif.C49

abbrev Str := List Char

/-! ### string helpers (Go `strings`) -/

def trimPrefix (p s : Str) : Str := if p.isPrefixOf s then s.drop p.length else s
def trimSuffix (p s : Str) : Str := if p.isSuffixOf s then s.take (s.length - p.length) else s

/-- `strings.Index(s, pat)` -/
def indexOf (pat : Str) : Str → Nat → Option Nat
  | [], i => if pat.isEmpty then some i else none
  | c :: cs, i => if pat.isPrefixOf (c :: cs) then some i else indexOf pat cs (i + 1)

/-- `strings.Replace(s, src, dst, -1)` for non-empty `src` -/
def replaceAll (src dst : Str) : Nat → Str → Str
  | 0, s => s
  | _ + 1, [] => []
  | fuel + 1, c :: cs =>
    if src.isPrefixOf (c :: cs) then dst ++ replaceAll src dst fuel ((c :: cs).drop src.length)
    else c :: replaceAll src dst fuel cs

/-- `strings.Split(s, sep)` for a one-character separator -/
def splitC (sep : Char) : Str → List Str
  | [] => [[]]
  | c :: cs =>
    if c == sep then [] :: splitC sep cs
    else match splitC sep cs with
      | [] => [[c]]
      | h :: t => (c :: h) :: t

def joinC (sep : Char) : List Str → Str
  | [] => []
  | [x] => x
  | x :: y :: r => x ++ sep :: joinC sep (y :: r)

def upper (s : Str) : Str := s.map Char.toUpper

/-! ### url.ParseQuery -/

def hexVal (c : Char) : Option Nat :=
  if '0' ≤ c ∧ c ≤ '9' then some (c.toNat - 48)
  else if 'a' ≤ c ∧ c ≤ 'f' then some (c.toNat - 87)
  else if 'A' ≤ c ∧ c ≤ 'F' then some (c.toNat - 55)
  else none

/-- `url.QueryUnescape` -/
def unescape : Str → Option Str
  | [] => some []
  | '%' :: a :: b :: rest =>
    match hexVal a, hexVal b with
    | some x, some y => (unescape rest).map (Char.ofNat (16 * x + y) :: ·)
    | _, _ => none
  | '%' :: _ => none
  | '+' :: rest => (unescape rest).map (' ' :: ·)
  | c :: rest => (unescape rest).map (c :: ·)

/-- `strings.Cut(seg, "=")` -/
def cutEq : Str → Str × Str
  | [] => ([], [])
  | c :: cs => if c == '=' then ([], cs) else let (k, v) := cutEq cs; (c :: k, v)

/-- one `&`-separated piece of a raw query as `url.ParseQuery` reads it -/
def parsePair (seg : Str) : Option (Str × Str) :=
  if seg.isEmpty then none
  else if seg.contains ';' then none
  else
    let (k, v) := cutEq seg
    match unescape k, unescape v with
    | some k', some v' => some (k', v')
    | _, _ => none

def parseSegs (segs : List Str) : List (Str × Str) := segs.filterMap parsePair

/-- what the backend sees: the (key, value) pairs in order -/
def parseQuery (raw : Str) : List (Str × Str) := parseSegs (splitC '&' raw)

/-! ### the raw-string edits of action_query.go -/

/-- the inner `for { start := Index(rawQuery, "&"+key+"="); ...}` loop -/
def delKeyLoop (pat : Str) : Nat → Str → Str
  | 0, s => s
  | f + 1, s =>
    match indexOf pat s 0 with
    | none => s
    | some start =>
      match indexOf ['&'] (s.drop (start + 1)) 0 with
      | none => s
      | some e => delKeyLoop pat f (s.take start ++ s.drop (start + e + 1))

def delKeysRaw (raw : Str) (keys : List Str) : Str :=
  let rq := '&' :: raw ++ ['&']
  let rq := keys.foldl (fun acc k => delKeyLoop ('&' :: k ++ ['=']) acc.length acc) rq
  if rq.length == 1 then [] else (rq.drop 1).dropLast

/-- the same edit seen on the `&`-separated pieces: drop every piece that starts with `key=` -/
def segHit (keys : List Str) (seg : Str) : Bool := keys.any fun k => (k ++ ['=']).isPrefixOf seg

def delKeysSeg (raw : Str) (keys : List Str) : Str :=
  joinC '&' ((splitC '&' raw).filter fun s => !segHit keys s)

/-! ### the request and Action.Do -/

structure Req where
  host : Str
  path : Str
  rawQuery : Str
  /-- header map: canonical name ↦ values, in insertion order of names -/
  hdr : List (Str × List Str)
  /-- `req.Query` cache: none = not parsed yet; some ks = key set -/
  cache : Option (List Str) := none
  deriving Repr

/-- `textproto.CanonicalMIMEHeaderKey` for names made of letters, digits and `-` -/
def canonAux : Bool → Str → Str
  | _, [] => []
  | up, c :: cs => (if up then c.toUpper else c.toLower) :: canonAux (c == '-') cs
def canon (s : Str) : Str := canonAux true s

def hdrSet (h : List (Str × List Str)) (k v : Str) : List (Str × List Str) :=
  if h.any (·.1 == k) then h.map fun e => if e.1 == k then (k, [v]) else e else h ++ [(k, [v])]
def hdrAdd (h : List (Str × List Str)) (k v : Str) : List (Str × List Str) :=
  if h.any (·.1 == k) then h.map fun e => if e.1 == k then (k, e.2 ++ [v]) else e else h ++ [(k, [v])]
def hdrDel (h : List (Str × List Str)) (k : Str) : List (Str × List Str) := h.filter (·.1 != k)

def dedup : List Str → List Str
  | [] => []
  | x :: xs => x :: (dedup xs).filter (· != x)

/-- `queryParse`: parse once, then reuse -/
def cacheOf (r : Req) : List Str :=
  match r.cache with
  | some ks => ks
  | none => dedup ((parseQuery r.rawQuery).map (·.1))

def ensureSlash (p : Str) : Str := if ['/'].isPrefixOf p then p else '/' :: p

inductive Cmd where
  | reqHeaderAdd | reqHeaderSet | reqHeaderDel
  | hostSet | hostSetFromPathPrefix | hostSuffixReplace
  | pathSet | pathPrefixAdd | pathPrefixTrim
  | queryAdd | queryRename | queryDel | queryDelAllExcept
  | close | pass | finish
  deriving DecidableEq, Repr

def Cmd.name : Cmd → String
  | .reqHeaderAdd => "REQ_HEADER_ADD" | .reqHeaderSet => "REQ_HEADER_SET" | .reqHeaderDel => "REQ_HEADER_DEL"
  | .hostSet => "HOST_SET" | .hostSetFromPathPrefix => "HOST_SET_FROM_PATH_PREFIX" | .hostSuffixReplace => "HOST_SUFFIX_REPLACE"
  | .pathSet => "PATH_SET" | .pathPrefixAdd => "PATH_PREFIX_ADD" | .pathPrefixTrim => "PATH_PREFIX_TRIM"
  | .queryAdd => "QUERY_ADD" | .queryRename => "QUERY_RENAME" | .queryDel => "QUERY_DEL"
  | .queryDelAllExcept => "QUERY_DEL_ALL_EXCEPT" | .close => "CLOSE" | .pass => "PASS" | .finish => "FINISH"

def Cmd.all : List Cmd :=
  [.reqHeaderAdd, .reqHeaderSet, .reqHeaderDel, .hostSet, .hostSetFromPathPrefix, .hostSuffixReplace, .pathSet,
   .pathPrefixAdd, .pathPrefixTrim, .queryAdd, .queryRename, .queryDel, .queryDelAllExcept, .close, .pass, .finish]

/-- `Action.Do` (the switch over `ac.Cmd`) -/
def doAction (cmd : Cmd) (ps : List Str) (r : Req) : Req :=
  let p0 := ps.getD 0 []
  let p1 := ps.getD 1 []
  match cmd with
  | .reqHeaderAdd => { r with hdr := hdrAdd r.hdr (canon p0) p1 }
  | .reqHeaderSet => { r with hdr := hdrSet r.hdr (canon p0) p1 }
  | .reqHeaderDel => { r with hdr := hdrDel r.hdr (canon p0) }
  | .hostSet => { r with host := p0 }
  | .hostSetFromPathPrefix =>
    -- segs := strings.SplitN(path, "/", 3)
    match splitC '/' r.path with
    | _ :: s1 :: s2 :: rest => { r with host := s1, path := '/' :: joinC '/' (s2 :: rest) }
    | _ => r
  | .hostSuffixReplace =>
    if p0.isSuffixOf r.host then { r with host := trimSuffix p0 r.host ++ p1 } else r
  | .pathSet => { r with path := p0 }
  | .pathPrefixAdd => { r with path := ensureSlash (p0 ++ trimPrefix ['/'] r.path) }
  | .pathPrefixTrim => { r with path := ensureSlash (trimPrefix p0 r.path) }
  | .queryAdd =>
    let ks := cacheOf r
    let add := '&' :: p0 ++ '=' :: p1
    { r with cache := some (if ks.contains p0 then ks else ks ++ [p0]),
             rawQuery := if r.rawQuery.isEmpty then add.drop 1 else r.rawQuery ++ add }
  | .queryRename =>
    let ks := cacheOf r
    if !ks.contains p0 then { r with cache := some ks }
    else
      let rq := '&' :: r.rawQuery
      let rq := replaceAll ('&' :: p0 ++ ['=']) ('&' :: p1 ++ ['=']) rq.length rq
      { r with cache := some ((ks.filter (· != p0)).filter (· != p1) ++ [p1]), rawQuery := rq.drop 1 }
  | .queryDel =>
    let ks := cacheOf r
    { r with cache := some (ks.filter fun k => !ps.contains k), rawQuery := delKeysRaw r.rawQuery ps }
  | .queryDelAllExcept =>
    let ks := cacheOf r
    { r with cache := some (ks.filter fun k => ps.contains k),
             rawQuery := delKeysRaw r.rawQuery (ks.filter fun k => !ps.contains k) }
  | .close | .pass | .finish => r

/-! ### ActionFileCheck -/

inductive Load where
  | ok (cmd : Cmd) (ps : List Str)
  | rej (cls : String)
  deriving Repr

/-- `ActionFileCheck` on `{Cmd, Params}` (a missing `Params` key is the empty list).  `accepted` = the arms of
    its command switch; `prefixU` = HeaderPrefix.  A command that is accepted but has no arm in `Action.Do` is
    reported as `rej "do"` (Do would return "unknown cmd"). -/
def fileCheck (accepted : List (String × Int)) (prefixU : Str) (cmd : Str) (ps : List Str) : Load :=
  let c := String.ofList (upper cmd)
  match accepted.find? fun a => a.1 == c with
  | none => .rej "cmd"
  | some (_, n) =>
    if n != -1 && (ps.length : Int) != n then .rej "arity"
    else if ps.any (·.isEmpty) then .rej "empty"
    else if (c == "REQ_HEADER_SET" || c == "REQ_HEADER_ADD") && !prefixU.isPrefixOf (upper (ps.getD 0 [])) then .rej "prefix"
    else match Cmd.all.find? fun k => k.name == c with
      | some k => .ok k ps
      | none => .rej "do"

end BfeVerif.C49
