import BfeVerif.Generated.C37
/-
  C37 — model of the control-frame accounting of the HTTP/2 serve loop (bfe_http2/server.go:
  serve, writeFrame, scheduleFrameWrite, startFrameWrite, wroteFrame) at message granularity.
  Core-only.  One `Ev` = one iteration of the `for { select {...}; check }` loop.

    writeFrame(wm):        if wm.isControl() { sc.queuedControlFrames++ } ; ws.add(wm) ; scheduleFrameWrite()
    scheduleFrameWrite():  if writingFrame {return}
                           if needToSendSettingsAck { ...=false; startFrameWrite(ack); return }
                           if wm, ok := ws.take(); ok { if wm.isControl() { queuedControlFrames-- }; startFrameWrite(wm); return }
                           if needsFrameFlush { startFrameWrite(flush); needsFrameFlush = false }
    startFrameWrite(wm):   writingFrame = true; needsFrameFlush = true; writeFrameCh <- wm
    wroteFrame(res):       writingFrame = false; ...; scheduleFrameWrite()
    end of iteration:      if sc.queuedControlFrames > sc.srv.maxQueuedControlFrames() { return }   // conn closed

  `ws.take()` prefers the stream-less queue `zero`; whether a stream frame can be taken depends on
  flow control and is the parameter `can` of the events (theorems hold for every value).
  (GOAWAY scheduling is not modelled: after goAway the connection is closing anyway.)
-/
namespace BfeVerif.C37

def limit : Nat := BfeVerif.Generated.C37.maxQueuedControlFrames

/-- extracted from server.go: the limit check is the last statement of serve()'s loop body (after the
    `select`), so it runs at the end of every iteration whatever the event and its outcome were.
    `step` below models exactly that; `C37_check_every_iteration` (Props) requires the fact. -/
def checkEveryIteration : Bool := BfeVerif.Generated.C37.checkAtLoopTail

/-- what the writer goroutine currently holds -/
inductive Fl where
  | idle | ctl | stream | ack | flush
deriving DecidableEq, Repr

structure St where
  zero : Nat := 0          -- len(sc.writeSched.zero.s): queued frames with stream == nil
  sq : Nat := 0            -- frames in stream queues
  counter : Int := 0       -- sc.queuedControlFrames
  infl : Fl := .idle       -- writingFrame  <->  infl ≠ idle
  flush : Bool := false    -- sc.needsFrameFlush
  ack : Bool := false      -- sc.needToSendSettingsAck
  closed : Bool := false   -- serve() returned: the connection is closed
deriving Repr

def St.writing (s : St) : Bool := s.infl != .idle

def start (s : St) (f : Fl) : St := { s with infl := f, flush := true }

def schedule (s : St) (can : Bool) : St :=
  if s.writing then s
  else if s.ack then start { s with ack := false } .ack
  else if s.zero > 0 then start { s with zero := s.zero - 1, counter := s.counter - 1 } .ctl
  else if s.sq > 0 && can then start { s with sq := s.sq - 1 } .stream
  else if s.flush then { start s .flush with flush := false }
  else s

/-- `writeFrame` of a stream-less frame -/
def writeCtl (s : St) (can : Bool) : St :=
  schedule { s with counter := s.counter + 1, zero := s.zero + 1 } can

/-- `writeFrame` of a stream frame -/
def writeStream (s : St) (can : Bool) : St := schedule { s with sq := s.sq + 1 } can

def writeCtlN (s : St) (can : Bool) : Nat → St
  | 0 => s
  | n + 1 => writeCtlN (writeCtl s can) can n

inductive Ev where
  /-- a received frame whose processing queues `k` stream-less frames
      (PING -> 1 ack; DATA on a closed stream -> WINDOW_UPDATE + RST_STREAM = 2; a stream error -> 1 ...) -/
  | recv (k : Nat) (can : Bool)
  /-- a received SETTINGS frame: sets needToSendSettingsAck (coalesced, not queued) -/
  | settings (can : Bool)
  /-- a handler queued a stream frame (wantWriteFrameCh) -/
  | handler (can : Bool)
  /-- the writer goroutine reports completion (wroteFrameCh) -/
  | wrote (can : Bool)
deriving Repr

/-- the `select` body of one iteration -/
def body (s : St) : Ev → St
  | .recv k can => writeCtlN s can k
  | .settings can => schedule { s with ack := true } can
  | .handler can => writeStream s can
  | .wrote can => if s.writing then schedule { s with infl := .idle } can else s

/-- the check at the end of the iteration -/
def check (s : St) : St := if s.counter > (limit : Int) then { s with closed := true } else s

def step (s : St) (e : Ev) : St := if s.closed then s else check (body s e)

def runEvs (s : St) (es : List Ev) : St := es.foldl step s

end BfeVerif.C37
