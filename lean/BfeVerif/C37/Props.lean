import BfeVerif.C37.Proofs
/-!
  C37 — HTTP/2 control-frame floods are bounded.  Property theorems only.
  `runEvs {} es` = the serve loop after the iterations `es` (received frames, handler writes, writer
  completions in ANY order, any flow-control availability `can`); `limit` is
  `Generated.C37.maxQueuedControlFrames`, re-extracted from server.go on every check.
-/
namespace BfeVerif.C37

/-- **counter exact**: `sc.queuedControlFrames` always equals the number of queued stream-less frames
    (so it never goes negative and never drifts). -/
theorem C37_counter_exact (es : List Ev) :
    (runEvs {} es).counter = ((runEvs {} es).zero : Int) :=
  (run_inv es {} rfl (Or.inr (Nat.zero_le _))).1

/-- **the check runs in every iteration** (regenerated fact, extracted semantically: through helper
    calls, local variables holding the limit, either comparison direction, `if over {return}` or
    `if !over {continue}; return`): in the current sources the statements that follow the `select` of
    serve()'s event loop compare `queuedControlFrames` with the limit and can return — the check is not
    inside the handling of one kind of event or of one outcome (e.g. only frames processed without error).
    If it is moved out of the loop tail this theorem no longer builds, and the model's
    `step = check ∘ body` no longer describes the code (the correspondence run then finds the input). -/
theorem C37_check_every_iteration : checkEveryIteration = true := by decide

/-- **bounded**: the limit check runs at the end of EVERY serve-loop iteration — whether the frame was
    processed normally, ended in a stream error + RST_STREAM, or the event was not a frame at all — and
    therefore at the end of every iteration the connection is closed or at most `limit` stream-less
    frames are queued. -/
theorem C37_bounded (es : List Ev) :
    checkEveryIteration = true ∧
    ((runEvs {} es).closed = true ∨ (runEvs {} es).zero ≤ limit) :=
  ⟨C37_check_every_iteration, (run_inv es {} rfl (Or.inr (Nat.zero_le _))).2⟩

/-- **bounded inside an iteration**: while an iteration runs, the queue of a still-open connection holds
    at most `limit + k` stream-less frames, `k` = number the processed frame queues (k ≤ 3 for every
    frame type bfe handles: PING 1, stream error 1, padding refund 1, DATA on a closed stream 2, DATA on
    a half-closed stream that still buffers unread octets 3: WINDOW_UPDATE, RST_STREAM, credit of the
    discarded octets). -/
theorem C37_bounded_within (es : List Ev) (e : Ev) (h : (runEvs {} es).closed = false) :
    (body (runEvs {} es) e).zero ≤ limit + e.k := by
  have hb := (C37_bounded es).2
  have := body_zero_le (runEvs {} es) e
  rcases hb with hc | hle
  · rw [h] at hc; simp at hc
  · omega

/-- **a flood closes the connection**: once a frame write is in flight and the writer never reports back
    (the client does not read), any sequence of iterations that elicits more stream-less frames than
    the limit leaves room for ends with the connection closed — memory cannot grow further. -/
theorem C37_flood_closes (es0 es : List Ev)
    (hw : (runEvs {} es0).writing = true)
    (hstall : ∀ e ∈ es, e.isWrote = false)
    (hsum : (runEvs {} es0).zero + elicited es > limit) :
    (runEvs (runEvs {} es0) es).closed = true := by
  have hi := run_inv es0 {} rfl (Or.inr (Nat.zero_le _))
  exact flood es _ hi.1 hi.2 hw hstall hsum

/-- **no false close (long normal use)**: if in every iteration the frames already queued plus the ones
    the processed frame adds stay within the limit — e.g. a client that reads, however many control
    frames it elicits in total — the connection is never closed by the flood guard.  (A counter that
    leaked, i.e. was not decremented for some frame kind, would break `C37_counter_exact` and this.) -/
theorem C37_no_false_close (es : List Ev)
    (h : ∀ pre e, (pre ++ [e]) <+: es → (runEvs {} pre).zero + e.k ≤ limit) :
    (runEvs {} es).closed = false :=
  no_false_close es {} rfl rfl h

/-- closing is final -/
theorem C37_closed_final (s : St) (es : List Ev) (h : s.closed = true) : (runEvs s es).closed = true :=
  run_closed_stays es s h

/-! ### non-vacuity -/

/-- the stall the harness produces: PING, its ack is written, the flush is in flight -/
def stalled0 : St := runEvs {} [.recv 1 true, .wrote true]

example : stalled0.writing = true ∧ stalled0.zero = 0 ∧ stalled0.infl = .flush := by decide

/-- concrete instance of `C37_flood_closes`: one frame eliciting `limit + 1` acknowledgements
    (the theorem is about sums; the harness sends `limit + 1` single PINGs) -/
example : (runEvs stalled0 [.recv (limit + 1) false]).closed = true :=
  C37_flood_closes [.recv 1 true, .wrote true] [.recv (limit + 1) false]
    (by decide) (by intro e he; simp at he; subst he; rfl) (by simp [elicited, Ev.k]; omega)

/-- and a connection whose client reads is never closed by ten PINGs -/
example : (runEvs {} [.recv 1 true, .wrote true, .wrote true, .recv 1 true, .wrote true]).closed = false := by
  decide

end BfeVerif.C37
