import BfeVerif.C37.Model
/-! C37 helper lemmas (core only). -/
namespace BfeVerif.C37

/-- the accounting invariant -/
def Exact (s : St) : Prop := s.counter = (s.zero : Int)

theorem schedule_exact (s : St) (can : Bool) (h : Exact s) : Exact (schedule s can) := by
  unfold Exact at *
  unfold schedule start
  split
  · exact h
  · split
    · simpa using h
    · split
      · simp only []; omega
      · split
        · simpa using h
        · split <;> simpa using h

theorem schedule_zero_le (s : St) (can : Bool) : (schedule s can).zero ≤ s.zero := by
  unfold schedule start
  repeat (first | split | simp | omega)

theorem schedule_closed (s : St) (can : Bool) : (schedule s can).closed = s.closed := by
  unfold schedule start
  repeat (first | split | rfl)

theorem schedule_writing_id (s : St) (can : Bool) (h : s.writing = true) : schedule s can = s := by
  unfold schedule; simp [h]

theorem writeCtl_exact (s : St) (can : Bool) (h : Exact s) : Exact (writeCtl s can) := by
  unfold writeCtl
  apply schedule_exact
  unfold Exact at *; simp only []; omega

theorem writeCtl_zero_le (s : St) (can : Bool) : (writeCtl s can).zero ≤ s.zero + 1 := by
  unfold writeCtl
  exact Nat.le_trans (schedule_zero_le _ _) (by simp)

theorem writeCtl_closed (s : St) (can : Bool) : (writeCtl s can).closed = s.closed := by
  unfold writeCtl; rw [schedule_closed]

theorem writeCtlN_exact (n : Nat) : ∀ (s : St) (can : Bool), Exact s → Exact (writeCtlN s can n) := by
  induction n with
  | zero => intro s can h; exact h
  | succ n ih => intro s can h; exact ih _ _ (writeCtl_exact s can h)

theorem writeCtlN_zero_le (n : Nat) : ∀ (s : St) (can : Bool), (writeCtlN s can n).zero ≤ s.zero + n := by
  induction n with
  | zero => intro s can; simp [writeCtlN]
  | succ n ih =>
    intro s can
    have h1 := ih (writeCtl s can) can
    have h2 := writeCtl_zero_le s can
    simp only [writeCtlN]; omega

theorem writeCtlN_closed (n : Nat) : ∀ (s : St) (can : Bool), (writeCtlN s can n).closed = s.closed := by
  induction n with
  | zero => intro s can; rfl
  | succ n ih => intro s can; simp only [writeCtlN]; rw [ih, writeCtl_closed]

/-- with a write in flight nothing leaves the queue: `k` more stream-less frames are queued -/
theorem writeCtlN_writing (n : Nat) : ∀ (s : St) (can : Bool), s.writing = true →
    (writeCtlN s can n).writing = true ∧ (writeCtlN s can n).zero = s.zero + n ∧
    (writeCtlN s can n).closed = s.closed := by
  induction n with
  | zero => intro s can h; exact ⟨h, rfl, rfl⟩
  | succ n ih =>
    intro s can h
    have hw : writeCtl s can = { s with counter := s.counter + 1, zero := s.zero + 1 } := by
      unfold writeCtl; apply schedule_writing_id; exact h
    have := ih (writeCtl s can) can (by rw [hw]; exact h)
    simp only [writeCtlN]
    refine ⟨this.1, ?_, ?_⟩
    · rw [this.2.1, hw]; simp only []; omega
    · rw [this.2.2, hw]

theorem body_exact (s : St) (e : Ev) (h : Exact s) : Exact (body s e) := by
  cases e with
  | recv k can => exact writeCtlN_exact k s can h
  | settings can => exact schedule_exact _ _ (by unfold Exact at *; simpa using h)
  | handler can => exact schedule_exact _ _ (by unfold Exact at *; simpa using h)
  | wrote can =>
    simp only [body]
    split
    · exact schedule_exact _ _ (by unfold Exact at *; simpa using h)
    · exact h

theorem check_exact (s : St) (h : Exact s) : Exact (check s) := by
  unfold check; split
  · unfold Exact at *; simpa using h
  · exact h

theorem step_exact (s : St) (e : Ev) (h : Exact s) : Exact (step s e) := by
  unfold step; split
  · exact h
  · exact check_exact _ (body_exact s e h)

/-- number of stream-less frames an event can queue -/
def Ev.k : Ev → Nat
  | .recv k _ => k
  | _ => 0

theorem body_zero_le (s : St) (e : Ev) : (body s e).zero ≤ s.zero + e.k := by
  cases e with
  | recv k can => exact writeCtlN_zero_le k s can
  | settings can => exact Nat.le_trans (schedule_zero_le _ _) (by simp [Ev.k])
  | handler can => exact Nat.le_trans (schedule_zero_le _ _) (by simp [Ev.k])
  | wrote can =>
    simp only [body]
    split
    · exact Nat.le_trans (schedule_zero_le _ _) (by simp [Ev.k])
    · simp [Ev.k]

/-- open at the end of an iteration ⇒ within the limit -/
def Bounded (s : St) : Prop := s.closed = true ∨ s.zero ≤ limit

theorem step_bounded (s : St) (e : Ev) (hx : Exact s) (hb : Bounded s) : Bounded (step s e) := by
  unfold step
  split
  · exact hb
  · have hx' := body_exact s e hx
    unfold check
    split
    · left; rfl
    · rename_i hgt
      right
      unfold Exact at hx'
      omega

theorem run_inv (es : List Ev) : ∀ s, Exact s → Bounded s → Exact (runEvs s es) ∧ Bounded (runEvs s es) := by
  induction es with
  | nil => intro s h1 h2; exact ⟨h1, h2⟩
  | cons e r ih =>
    intro s h1 h2
    exact ih (step s e) (step_exact s e h1) (step_bounded s e h1 h2)

theorem step_closed_stays (s : St) (e : Ev) (h : s.closed = true) : (step s e).closed = true := by
  unfold step; simp [h]

theorem run_closed_stays (es : List Ev) : ∀ s, s.closed = true → (runEvs s es).closed = true := by
  induction es with
  | nil => intro s h; exact h
  | cons e r ih => intro s h; exact ih _ (step_closed_stays s e h)

def Ev.isWrote : Ev → Bool
  | .wrote _ => true
  | _ => false

def elicited (es : List Ev) : Nat := (es.map Ev.k).sum

/-- one iteration while a write is in flight and the writer does not report back -/
theorem body_stalled (s : St) (e : Ev) (hw : s.writing = true) (he : e.isWrote = false) :
    (body s e).writing = true ∧ (body s e).zero = s.zero + e.k ∧ (body s e).closed = s.closed := by
  cases e with
  | recv k can => exact writeCtlN_writing k s can hw
  | settings can =>
    have : schedule { s with ack := true } can = { s with ack := true } :=
      schedule_writing_id _ _ (by simpa [St.writing] using hw)
    rw [body, this]; exact ⟨hw, rfl, rfl⟩
  | handler can =>
    have : writeStream s can = { s with sq := s.sq + 1 } := by
      unfold writeStream; exact schedule_writing_id _ _ (by simpa [St.writing] using hw)
    rw [body, this]; exact ⟨hw, rfl, rfl⟩
  | wrote can => simp [Ev.isWrote] at he

theorem check_fields (s : St) : (check s).zero = s.zero ∧ (check s).writing = s.writing ∧
    (check s).counter = s.counter := by
  unfold check; split <;> simp [St.writing]

theorem flood (es : List Ev) : ∀ s, Exact s → Bounded s → s.writing = true →
    (∀ e ∈ es, e.isWrote = false) → s.zero + elicited es > limit → (runEvs s es).closed = true := by
  induction es with
  | nil =>
    intro s _ hb _ _ hsum
    simp [elicited] at hsum
    rcases hb with hc | hle
    · exact hc
    · omega
  | cons e r ih =>
    intro s hx hb hw hall hsum
    simp only [runEvs, List.foldl]
    by_cases hc : s.closed = true
    · exact run_closed_stays r _ (step_closed_stays s e hc)
    · have he : e.isWrote = false := hall e (by simp)
      obtain ⟨hw', hz', hc'⟩ := body_stalled s e hw he
      have hx' := body_exact s e hx
      have hstep : step s e = check (body s e) := by unfold step; simp [hc]
      have hcf := check_fields (body s e)
      by_cases hover : (body s e).counter > (limit : Int)
      · have : (step s e).closed = true := by rw [hstep]; unfold check; simp [hover]
        exact run_closed_stays r _ this
      · have hck : check (body s e) = body s e := by unfold check; simp [hover]
        have hsum' : elicited (e :: r) = e.k + elicited r := by simp [elicited]
        apply ih (step s e)
        · rw [hstep, hck]; exact hx'
        · rw [hstep, hck]; right; unfold Exact at hx'; omega
        · rw [hstep, hck]; exact hw'
        · intro e' he'; exact hall e' (by simp [he'])
        · rw [hstep, hck, hz']; omega

theorem body_closed (s : St) (e : Ev) : (body s e).closed = s.closed := by
  cases e with
  | recv k can => exact writeCtlN_closed k s can
  | settings can => simp only [body]; rw [schedule_closed]
  | handler can => simp only [body, writeStream]; rw [schedule_closed]
  | wrote can =>
    simp only [body]
    split
    · rw [schedule_closed]
    · rfl

/-- an iteration that does not push the queue over the limit does not close the connection -/
theorem step_not_closed (s : St) (e : Ev) (hx : Exact s) (hc : s.closed = false)
    (hle : s.zero + e.k ≤ limit) : (step s e).closed = false := by
  have h1 := body_zero_le s e
  have h2 := body_exact s e hx
  have h3 := body_closed s e
  have hck : ¬ ((body s e).counter > (limit : Int)) := by unfold Exact at h2; omega
  have : check (body s e) = body s e := by unfold check; simp [hck]
  unfold step
  simp [hc, this, h3]

theorem run_snoc (s : St) (pre : List Ev) (e : Ev) : runEvs s (pre ++ [e]) = step (runEvs s pre) e := by
  simp [runEvs, List.foldl_append]

theorem no_false_close (es : List Ev) : ∀ s, Exact s → s.closed = false →
    (∀ pre e, (pre ++ [e]) <+: es → (runEvs s pre).zero + e.k ≤ limit) →
    (runEvs s es).closed = false := by
  induction es with
  | nil => intro s _ hc _; exact hc
  | cons e r ih =>
    intro s hx hc h
    have h0 := h [] e (by simp)
    have hs := step_not_closed s e hx hc (by simpa [runEvs] using h0)
    show (runEvs (step s e) r).closed = false
    apply ih (step s e) (step_exact s e hx) hs
    intro pre e' hp
    have := h (e :: pre) e' (by simpa using List.prefix_cons_inj e |>.mpr hp)
    simpa [runEvs] using this

end BfeVerif.C37
