import BfeVerif.Common.Proto
import BfeVerif.C37.Model
/-!
  C37 driver.

  op = `;`-separated tokens, executed by a scripted client against the real serve loop:
     stall        the client stops reading: a PING is sent and the harness waits until the server's writer is
                  blocked in conn.Write (flush of the PING ack); from now on no queued frame leaves
     p<n>         n PING frames (1 control frame each)
     dc<id>:<len> DATA on a stream that was never opened (WINDOW_UPDATE(conn) if len>0, RST_STREAM)
     wz<id>       WINDOW_UPDATE with increment 0 on stream id (RST_STREAM)
     st           SETTINGS (ack is a flag, not queued)
     dcx<n>:<len> n DATA frames on a stream that does not exist (stream error STREAM_CLOSED each)
     wzx<n>       n zero-increment WINDOW_UPDATEs (stream error PROTOCOL from the frame parser, 1 frame each)
     hh           open a stream, send HEADERS on it again (stream error PROTOCOL: 1)
     wo           open a stream, WINDOW_UPDATE 2^31-1 on it (stream error FLOW_CONTROL: 1)
     od           open a stream with content-length 0, 1 octet of DATA (RST_STREAM + WINDOW_UPDATE: 2)
     hd<len>      open a stream with END_STREAM, DATA len on it (half-closed: WINDOW_UPDATE if len>0, RST_STREAM)
     pd           open a stream, DATA with padding (connection-level WINDOW_UPDATE for the padding: 1; the
                  stream-level one is a stream frame)
     lp<n>        long normal use: n PINGs while the client reads (drained every 1000)
     lm<n>        n rounds of PING + DATA on a closed stream + zero WINDOW_UPDATE (4 frames a round), client reading
     ck<k>        (first token) the server's reads return at most k bytes: segmentation only
     rel          the client reads again; wait until everything is written
     o            observe `q=<queuedControlFrames>,z=<len(writeSched.zero)>` on the serve goroutine, or `closed`
  result = one token per op: `s` | `+` (connection alive afterwards) | `x` (connection closed) | observation
-/
namespace BfeVerif.C37
open BfeVerif.Proto

inductive Op where
  | stall | ping (n : Nat) | dataClosed (id len : Nat) | wuZero (id : Nat) | settings | rel | obs
  | bulk (n k : Nat)        -- n received frames queueing k stream-less frames each
  | openThen (k : Nat)      -- a HEADERS frame opening a stream (queues nothing), then a frame queueing k
  | longRun (n : Nat) (ks : List Nat)   -- n rounds of received frames queueing ks, the writer keeping up
  | chunk
  | three                   -- HEADERS, DATA+END_STREAM (both queue nothing), then DATA on the half-closed stream
                            -- that still buffers unread octets: WINDOW_UPDATE + RST_STREAM + WINDOW_UPDATE = 3
deriving Repr

def parseOp (t : String) : Option Op :=
  if t == "stall" then some .stall
  else if t == "st" then some .settings
  else if t == "rel" then some .rel
  else if t == "o" then some .obs
  else if t == "hh" || t == "wo" || t == "pd" then some (.openThen 1)
  else if t == "h3" then some .three
  else if t.startsWith "ck" then (t.drop 2).toString.toNat?.map fun _ => .chunk
  else if t.startsWith "lp" then (t.drop 2).toString.toNat?.map fun n => .longRun n [1]
  else if t.startsWith "lm" then (t.drop 2).toString.toNat?.map fun n => .longRun n [1, 2, 1]
  else if t == "od" then some (.openThen 2)
  else if t.startsWith "hd" then (t.drop 2).toString.toNat?.map fun len => .openThen (if len > 0 then 2 else 1)
  else if t.startsWith "dcx" then
    match ((t.drop 3).toString.splitOn ":").mapM (·.toNat?) with
    | some [n, len] => some (.bulk n (if len > 0 then 2 else 1))
    | _ => none
  else if t.startsWith "wzx" then (t.drop 3).toString.toNat?.map fun n => .bulk n 1
  else if t.startsWith "dc" then
    match ((t.drop 2).toString.splitOn ":").mapM (·.toNat?) with
    | some [id, len] => some (.dataClosed id len)
    | _ => none
  else if t.startsWith "wz" then (t.drop 2).toString.toNat?.map .wuZero
  else if t.startsWith "p" then (t.drop 1).toString.toNat?.map .ping
  else none

def drainFuel : Nat → St → St
  | 0, s => s
  | n + 1, s => if s.writing && !s.closed then drainFuel n (step s (.wrote true)) else s

/-- apply `recv 1` n times -/
def pings : Nat → St → St
  | 0, s => s
  | n + 1, s => pings n (step s (.recv 1 true))

/-- apply `recv k` n times -/
def recvs (k : Nat) : Nat → St → St
  | 0, s => s
  | n + 1, s => recvs k n (step s (.recv k true))

structure D where
  s : St := {}
  stalled : Bool := false

def settle (d : D) : D := if d.stalled then d else { d with s := drainFuel 100000 d.s }

def alive (d : D) : String := if d.s.closed then "x" else "+"

def opStep (d : D) : Op → String × D
  | .stall =>
    if d.s.closed then ("x", d) else
    let s1 := step d.s (.recv 1 true)
    -- the ack is written into the buffer, then the flush blocks
    let s2 := if s1.infl == .ctl then step s1 (.wrote true) else s1
    ("s", { s := s2, stalled := true })
  | .ping n => let d' := settle { d with s := pings n d.s }; (alive d', d')
  | .dataClosed _ len =>
    let d' := settle { d with s := step d.s (.recv (if len > 0 then 2 else 1) true) }; (alive d', d')
  | .wuZero _ => let d' := settle { d with s := step d.s (.recv 1 true) }; (alive d', d')
  | .bulk n k => let d' := settle { d with s := recvs k n d.s }; (alive d', d')
  | .chunk => ("+", d)
  | .three =>
    let d' := settle { d with s := step (step (step d.s (.recv 0 true)) (.recv 0 true)) (.recv 3 true) }
    (alive d', d')
  | .longRun n ks =>
    -- every received frame is followed by the writer draining the queue (the client reads)
    let round (s : St) : St := ks.foldl (fun s k => drainFuel 100000 (step s (.recv k true))) s
    let rec go : Nat → St → St
      | 0, s => s
      | m + 1, s => go m (round s)
    let d' := { d with s := go n d.s }; (alive d', d')
  | .openThen k =>
    let d' := settle { d with s := step (step d.s (.recv 0 true)) (.recv k true) }; (alive d', d')
  | .settings => let d' := settle { d with s := step d.s (.settings true) }; (alive d', d')
  | .rel => let d' := settle { d with stalled := false }; (alive d', d')
  | .obs => (if d.s.closed then "closed" else s!"q={d.s.counter},z={d.s.zero}", d)

def runOps : D → List Op → List String → List String
  | _, [], acc => acc.reverse
  | d, op :: r, acc => let (t, d') := opStep d op; runOps d' r (t :: acc)

/-! ### spec monitor: judged on the implementation's tokens only -/

structure Mon where
  stalled : Bool := false
  elicited : Nat := 0      -- stream-less frames elicited since the writer stalled (none can leave)
  mustClose : Bool := false
  sawClosed : Bool := false
  fail : Option String := none
  tags : List String := []

def Mon.flag (m : Mon) (c : String) : Mon := if m.fail.isSome then m else { m with fail := some c }
def Mon.tag (m : Mon) (t : String) : Mon := if m.tags.contains t then m else { m with tags := t :: m.tags }

def kOf : Op → Nat
  | .ping n => n
  | .dataClosed _ len => if len > 0 then 2 else 1
  | .wuZero _ => 1
  | .bulk n k => n * k
  | .openThen k => k
  | .three => 3
  | _ => 0        -- longRun is only used while the client reads: nothing accumulates

def parseObs (t : String) : Option (Int × Nat) :=
  match t.splitOn "," with
  | [a, b] =>
    if a.startsWith "q=" && b.startsWith "z=" then
      match (a.drop 2).toString.toInt?, (b.drop 2).toString.toNat? with
      | some q, some z => some (q, z)
      | _, _ => none
    else none
  | _ => none

def monStep (m : Mon) (op : Op) (tok : String) : Mon :=
  let closedNow := tok == "x" || tok == "closed"
  let m := if closedNow then { m with sawClosed := true } else m
  -- every frame received while the writer is stalled adds its control frames to the queue
  let m := if m.stalled then { m with elicited := m.elicited + kOf op } else m
  let m := if m.stalled && m.elicited > limit then { m with mustClose := true } else m
  let m := if m.elicited + 3 ≥ limit && m.stalled then m.tag "nt" else m
  let m := match op with
    | .stall => if tok == "s" then { m with stalled := true, elicited := 0 }.tag "stall" else m
    | .rel => { m with stalled := false, elicited := 0 }
    | _ => m
  -- verdicts
  -- the queue holds more than limit (+ the k ≤ 2 of the last frame) stream-less frames and the connection is still open
  let m := if m.mustClose && !closedNow && (match op with | .obs => true | .ping _ => true | .dataClosed .. => true | .wuZero _ => true | .bulk .. => true | .openThen _ => true | .three => true | _ => false)
           then m.flag "flood-not-closed" else m
  let m := match op with | .bulk .. => m.tag "serr-flood" | .openThen _ => m.tag "serr" | .longRun .. => m.tag "long-run"
                         | .chunk => m.tag "chunked" | _ => m
  let m := if closedNow && !m.mustClose then m.flag "early-close" else m
  match op with
  | .obs =>
    if closedNow then m.tag "closed" else
    match parseObs tok with
    | none => m.flag "bad-token"
    | some (q, z) =>
      let m := if q != (z : Int) then m.flag "counter-drift" else m
      let m := if q > (limit : Int) then m.flag "over-limit-open" else m
      let m := if m.stalled && q != (m.elicited : Int) then m.flag "counter-vs-elicited" else m
      let m := if !m.stalled && q != 0 then m.flag "not-drained" else m
      if m.stalled then m.tag "obs-stalled" else m.tag "obs-idle"
  | _ => m

def monitor : Mon → List Op → List String → Mon
  | m, [], _ => m
  | m, _, [] => m
  | m, op :: r, t :: ts => monitor (monStep m op t) r ts

def run (op impl : String) : Ans :=
  match (op.splitOn ";").mapM parseOp with
  | none => { model := "bad-op", verdict := "skip" }
  | some ops =>
    let model := ";".intercalate (runOps {} ops [])
    let m := monitor {} ops (impl.splitOn ";")
    let m := if impl.startsWith "PANIC" || impl == "HANG" then m.flag "panic" else m
    { model := model
      verdict := match m.fail with | some c => "FAIL:" ++ c | none => "ok"
      tags := m.tags }

end BfeVerif.C37
