import BfeVerif.C37.Driver
def main : IO Unit := BfeVerif.Proto.driverMain BfeVerif.C37.run
