/-
  C19 — model of bfe_util/ipdict: `IPItems.InsertPair / Sort (sort, mergeItems, sort, reslice)` and
  `IPTable.Search`.  Core-only.  Mirrors the code AFTER the fix fixes/C19-nil-marker.md.

  An IP value of the table is either `nil` or a 16-byte slice (`To16()` form).  It is encoded as a `Nat`:
  `0` = nil, `v + 1` = the 16-byte slice with big-endian value `v` (`encIP`).  `bytes.Compare` (nil < every
  non-empty slice; equal-length slices compare numerically) is the order of the codes.
  A table entry is `(startIP, endIP)`; the deletion marker of `mergeItems` is `(nil, nil)` = `(0, 0)`.

  Go code mirrored (bfe_util/ipdict/ipdict.go):

    Less(i,j)   = bytes.Compare(items[i].startIP, items[j].startIP) >= 0          -- non-strict, descending
    checkMerge(i,j): if items[j].endIP >= items[i].startIP {
                        items[i].startIP = items[j].startIP
                        if items[j].endIP >= items[i].endIP { items[i].endIP = items[j].endIP }
                        items[j] = (nil, nil);  mergedNum++
                        for k in (i, j): if items[k].endIP == nil || items[k].startIP < items[i].startIP {continue}
                                         items[k] = (nil, nil); mergedNum++ }
    mergeItems: for i in [0, len-1): if items[i].endIP == nil {continue}
                  for j in (i, len): if items[j].endIP == nil {continue}
                     mergedNum += checkMerge(i, j)
    Sort: sort.Sort(items); mergedNum := mergeItems(); sort.Sort(items); items = items[0 : len-mergedNum]
    Search: ipSet.Exist(ip16) || ( i := sort.Search(len, items[i].startIP <= ip16); i < len && items[i].endIP >= ip16 )

  The in-place array loops exist twice in this file: `mergeItemsA` (`outerA`/`innerA`/`checkMergeA`/`wipeA`) is the
  index-based version on an array with `get`/`set`, loop for loop as in the Go code; `mergeItems` is the same
  computation written as list traversals (proved equal for every array: `C19_merge_array_eq`), which is what the
  invariants are proved about:
  for the outer index `i` the array is `prefix ++ [cur] ++ rest`; the inner loop walks `rest` left to right
  keeping the already visited part `done` (= items[i+1 .. j-1]), which is exactly the slice that `checkMerge`
  wipes.  `sort.Sort` is a parameter (any function returning a permutation sorted w.r.t. `Less`);
  `goSort` is Go's `insertionSort` (what `sort.Sort` runs for n ≤ 12) with that `Less`.
-/
namespace BfeVerif.C19

abbrev Item := Nat × Nat

/-- `::ffff:0.0.0.0`, the 16-byte value that `IP.Equal(net.IPv4zero)` recognises. -/
def v4zero : Nat := 0xffff00000000

/-- code of a 16-byte IP with value `v` (`0` is the code of `nil`) -/
def encIP (v : Nat) : Nat := v + 1

/-- the deletion marker `(nil, nil)` -/
def marker : Item := (0, 0)

/-- `endIP == nil` -/
def isMarkEnd (e : Nat) : Bool := e == 0

/-- the `for k := i+1; k < j; k++` loop of `checkMerge` over the visited slice (`s` = the new `items[i].startIP`);
    returns the count of wiped items -/
def wipe (s : Nat) : List Item → List Item × Nat
  | [] => ([], 0)
  | k :: ks =>
    let r := wipe s ks
    if isMarkEnd k.2 || decide (k.1 < s) then (k :: r.1, r.2) else (marker :: r.1, r.2 + 1)

/-- inner loop of `mergeItems` for a fixed `i` (`cur = items[i]`, `done = items[i+1..j-1]`, list arg = `items[j..]`) -/
def scan (cur : Item) (done : List Item) : List Item → Nat → Item × List Item × Nat
  | [], m => (cur, done, m)
  | x :: todo, m =>
    if x.2 == 0 then scan cur (done ++ [x]) todo m
    else if x.2 ≥ cur.1 then
      let cur' : Item := (x.1, if x.2 ≥ cur.2 then x.2 else cur.2)
      let w := wipe x.1 done
      scan cur' (w.1 ++ [marker]) todo (m + 1 + w.2)
    else scan cur (done ++ [x]) todo m

/-- outer loop of `mergeItems` from index `i` on (`fuel` ≥ remaining length) -/
def mergeFrom : Nat → List Item → List Item × Nat
  | 0, l => (l, 0)
  | _, [] => ([], 0)
  | fuel + 1, cur :: rest =>
    if isMarkEnd cur.2 then
      let r := mergeFrom fuel rest
      (cur :: r.1, r.2)
    else
      let s := scan cur [] rest 0
      let r := mergeFrom fuel s.2.1
      (s.1 :: r.1, s.2.2 + r.2)

def mergeItems (l : List Item) : List Item × Nat := mergeFrom l.length l

/-! The same loops on the array, index by index (`fuel` bounds the remaining iterations). -/
def getI (a : List Item) (i : Nat) : Item := a.getD i marker

/-- `for k := i+1; k < j; k++ { if marker-end {continue}; items[k] = marker; mergedNum++ }` (fuel = j - k) -/
def wipeA : Nat → List Item → Nat → Nat → Nat → List Item × Nat
  | 0, a, _, _, _ => (a, 0)
  | fuel + 1, a, i, j, k =>
    if k < j then
      if isMarkEnd (getI a k).2 || decide ((getI a k).1 < (getI a i).1) then wipeA fuel a i j (k + 1)
      else let r := wipeA fuel (a.set k marker) i j (k + 1); (r.1, r.2 + 1)
    else (a, 0)

/-- `checkMerge(i, j)` on the array -/
def checkMergeA (a : List Item) (i j : Nat) : List Item × Nat :=
  if (getI a j).2 ≥ (getI a i).1 then
    let a1 := a.set i ((getI a j).1, (getI a i).2)
    let a2 := if (getI a1 j).2 ≥ (getI a1 i).2 then a1.set i ((getI a1 i).1, (getI a1 j).2) else a1
    let a3 := a2.set j marker
    let r := wipeA (j - (i + 1)) a3 i j (i + 1)
    (r.1, r.2 + 1)
  else (a, 0)

/-- `for j := i+1; j < length; j++` -/
def innerA : Nat → List Item → Nat → Nat → List Item × Nat
  | 0, a, _, _ => (a, 0)
  | fuel + 1, a, i, j =>
    if j < a.length then
      if (getI a j).2 == 0 then innerA fuel a i (j + 1)
      else
        let r := checkMergeA a i j
        let r2 := innerA fuel r.1 i (j + 1)
        (r2.1, r.2 + r2.2)
    else (a, 0)

/-- `for i := 0; i < length-1; i++` -/
def outerA : Nat → List Item → Nat → List Item × Nat
  | 0, a, _ => (a, 0)
  | fuel + 1, a, i =>
    if i + 1 < a.length then
      if isMarkEnd (getI a i).2 then outerA fuel a (i + 1)
      else
        let r := innerA a.length a i (i + 1)
        let r2 := outerA fuel r.1 (i + 1)
        (r2.1, r.2 + r2.2)
    else (a, 0)

def mergeItemsA (a : List Item) : List Item × Nat := outerA a.length a 0

/-- `IPItems.Sort` with the two `sort.Sort` calls as parameters. -/
def sortTable (sort1 sort2 : List Item → List Item) (l : List Item) : List Item :=
  let a := sort1 l
  let b := mergeItems a
  (sort2 b.1).take (b.1.length - b.2)

/-- Go's `sort.Search(n, f)`. -/
def bsearch (f : Nat → Bool) : Nat → Nat → Nat → Nat
  | 0, i, _ => i
  | fuel + 1, i, j =>
    if i < j then
      let h := (i + j) / 2
      if !f h then bsearch f fuel (h + 1) j else bsearch f fuel i h
    else i

def goSearch (n : Nat) (f : Nat → Bool) : Nat := bsearch f (n + 1) 0 n

/-- the item-array part of `IPTable.Search` -/
def searchTable (t : List Item) (ip : Nat) : Bool :=
  let i := goSearch t.length (fun i => decide ((t.getD i marker).1 ≤ ip))
  if i < t.length then decide ((t.getD i marker).2 ≥ ip) else false

/-- `IPTable.Search`: the single-address hash set first (a set, by C20), then the table. -/
def search (singles : List Nat) (t : List Item) (ip : Nat) : Bool :=
  if singles.contains ip then true else searchTable t ip

/-! `IPTable` (bfe_util/ipdict/iptable.go): a mutex-protected pointer to the current `IPItems`.
      Update(items): t.ipItems = items                      -- unconditional, also for nil and for an equal Version
      Version():     "" if t.ipItems == nil else t.ipItems.Version
      Search(ip):    false if t.ipItems == nil or ip.To16() == nil, else the search above -/

/-- an `IPItems` after `Sort()`: the single-address set, the pair table, the version string -/
structure IPItemsM where
  singles : List Nat
  table : List Item
  version : String

/-- `IPItems.Length()` = number of pairs + `ipSet.Len()` (the set holds each single address once, by C20) -/
def IPItemsM.length (it : IPItemsM) : Nat := it.table.length + it.singles.eraseDups.length

/-- `IPTable.ipItems` (`none` = nil) -/
abbrev IPTableM := Option IPItemsM

/-- `IPTable.Update` -/
def IPTableM.update (_t : IPTableM) (items : Option IPItemsM) : IPTableM := items

/-- `IPTable.Version` -/
def IPTableM.version : IPTableM → String
  | none => ""
  | some it => it.version

/-- `IPTable.Search`; `ip16 = none` stands for `srcIP.To16() == nil` -/
def IPTableM.search (t : IPTableM) (ip16 : Option Nat) : Bool :=
  match t, ip16 with
  | some it, some v => BfeVerif.C19.search it.singles it.table v
  | _, _ => false

/-- a whole history of `Update` calls -/
def IPTableM.updates (t : IPTableM) (hist : List (Option IPItemsM)) : IPTableM := hist.foldl IPTableM.update t

/-- the version gate of `txt_load.CheckAndLoad(curVersion)`: a file whose (non-empty) version equals the version in
    service is not loaded (`ErrNoNeedUpdate`) -/
def needLoad (cur new : String) : Bool := !(new == cur && new != "")

/-! Go's insertion sort with `Less(i,j) = start_i >= start_j`: the element moves left while it is `>=` its left
    neighbour, i.e. it lands in front of the first element whose start is `<=` its own. -/
def insDesc (x : Item) : List Item → List Item
  | [] => [x]
  | y :: ys => if x.1 ≥ y.1 then x :: y :: ys else y :: insDesc x ys

def goSort (l : List Item) : List Item := l.foldl (fun acc x => insDesc x acc) []

/-! Input side: `To16`, `checkIPPair`. -/

/-- `net.IP.To16` on a byte string given as big-endian value + length: 4 bytes → v4-mapped, 16 → itself. -/
def to16 (len : Nat) (v : Nat) : Option Nat :=
  if len = 4 then some (v4zero + v) else if len = 16 then some v else none

/-- `ip.To4() != nil` for a 16-byte value -/
def isV4 (v : Nat) : Bool := v / 2 ^ 32 == 0xffff

/-- `checkIPPair` + `InsertPair` on raw 16-byte values: `none` = error, else the stored (encoded) entry -/
def insertPair (s e : Option Nat) : Option Item :=
  match s, e with
  | some s, some e =>
    if isV4 s != isV4 e then none
    else if s > e then none
    else some (encIP s, encIP e)
  | _, _ => none

/-! Specification. -/

/-- the address lies in one of the loaded ranges, bounds included -/
def InUnion (ranges : List Item) (x : Nat) : Prop := ∃ r ∈ ranges, r.1 ≤ x ∧ x ≤ r.2

def inUnionB (ranges : List Item) (x : Nat) : Bool := ranges.any fun r => decide (r.1 ≤ x) && decide (x ≤ r.2)

/-- what the property demands of `Search` -/
def specSearch (singles : List Nat) (ranges : List Item) (ip : Nat) : Bool :=
  singles.contains ip || inUnionB ranges ip

/-- An admissible `sort.Sort`: returns a permutation that is sorted w.r.t. `Less` (descending start). -/
def IsSort (sort : List Item → List Item) : Prop :=
  ∀ l, (sort l).Perm l ∧ (sort l).Pairwise (fun a b => b.1 ≤ a.1)

def sortedDescB : List Item → Bool
  | [] => true
  | a :: t => t.all (fun b => decide (b.1 ≤ a.1)) && sortedDescB t

end BfeVerif.C19
