import BfeVerif.C19.Driver
def main : IO Unit := BfeVerif.Proto.driverMain BfeVerif.C19.run
