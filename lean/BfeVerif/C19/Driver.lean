import BfeVerif.Common.Proto
import BfeVerif.C19.Model
/-!
  C19 driver.
  op   = `r=<ip>:<ip>,..;s=<ip>,..;p=<ip>,..`   (ip = hex of the net.IP bytes; `.` = empty list)
  impl = `e=<bits>;f=<bits>;s1=<items>;m=<n>;s2=<items>;t=<items>;q=<bits>`
  `s1`/`s2` of the implementation are the sort oracle: the driver checks that they are admissible results of
  `sort.Sort` (permutation of the model's array, sorted by descending start) and then runs the model with them.
-/
namespace BfeVerif.C19
open BfeVerif.Proto

def natOfBytes (bs : List UInt8) : Nat := bs.foldl (fun a b => a * 256 + b.toNat) 0

def parseIP (tok : String) : Option Nat :=
  match bytesOfHex tok with
  | none => none
  | some bs => to16 bs.length (natOfBytes bs)

def hex32 (v : Nat) : String :=
  String.ofList ((List.range 32).map fun i => hexDigit ((v / 16 ^ (31 - i)) % 16))

/-- code → harness notation: nil is `-`, a 16-byte IP its 32 hex digits -/
def renderIP (c : Nat) : String := if c == 0 then "-" else hex32 (c - 1)

def renderItems (l : List Item) : String :=
  if l.isEmpty then "." else ",".intercalate (l.map fun a => renderIP a.1 ++ ":" ++ renderIP a.2)

def listOf (s : String) : List String := if s == "." || s == "" then [] else s.splitOn ","

def parseItems (s : String) : Option (List Item) :=
  (listOf s).mapM fun t =>
    match t.splitOn ":" with
    | [a, b] =>
      match bytesOfHex a, bytesOfHex b with
      | some x, some y =>
        let c := fun (b : List UInt8) => if b.isEmpty then some 0 else if b.length = 16 then some (encIP (natOfBytes b)) else none
        match c x, c y with
        | some u, some v => some (u, v)
        | _, _ => none
      | _, _ => none
    | _ => none

def bits (l : List Bool) : String :=
  if l.isEmpty then "." else String.ofList (l.map fun b => if b then '1' else '0')

def field (secs : List String) (k : String) : String :=
  match secs.find? (fun s => s.startsWith (k ++ "=")) with
  | some s => (s.drop (k.length + 1)).toString
  | none => ""

/-- the connected component of the union of `ranges` around `x`: repeatedly absorb overlapping ranges -/
def component (ranges : List Item) (x : Nat) : Nat × Nat :=
  (List.range (ranges.length + 1)).foldl (fun (c : Nat × Nat) _ =>
    ranges.foldl (fun (c : Nat × Nat) r =>
      if decide (r.1 ≤ c.2) && decide (c.1 ≤ r.2) then (min c.1 r.1, max c.2 r.2) else c) c) (x, x)

def run (op impl : String) : Ans :=
  if impl.startsWith "HANG" then { model := "-", verdict := "FAIL:hang", tags := ["hang"] } else
  if impl.startsWith "PANIC" then { model := "-", verdict := "FAIL:panic", tags := ["panic"] } else
  let osecs := op.splitOn ";"
  let isecs := impl.splitOn ";"
  if osecs.length != 3 then { model := "bad-op", verdict := "skip" } else
  let rtok := listOf (field osecs "r")
  let stok := listOf (field osecs "s")
  let ptok := listOf (field osecs "p")
  -- model: inserts
  let ins : List (Option Item) := rtok.map fun t =>
    match t.splitOn ":" with
    | [a, b] => insertPair (parseIP a) (parseIP b)
    | _ => none
  let ranges : List Item := ins.filterMap id
  let sgl : List (Option Nat) := stok.map fun t => (parseIP t).map encIP
  let singles : List Nat := sgl.filterMap id
  let probes : List (Option Nat) := ptok.map fun t => (parseIP t).map encIP
  -- the sort oracle taken from the implementation, validated
  let s1s := field isecs "s1"
  let s2s := field isecs "s2"
  let okQ := fun (o : Option Nat) => match o with | some v => specSearch singles ranges v | none => false
  -- spec oracle on the implementation's answers
  let implE := field isecs "e"
  let implF := field isecs "f"
  let implQ := (field isecs "q")
  let expE := bits (ins.map Option.isNone)
  let expF := bits (sgl.map Option.isNone)
  let expQ := probes.map okQ
  let zs := ranges.any fun r => r.1 == encIP 0
  let v0 := ranges.any fun r => r.2 == encIP v4zero
  let verdict :=
    if implE != expE || implF != expF then "FAIL:insert-validation"
    else if implQ == bits expQ then "ok"
    else
      let gotQ := implQ.toList.map (· == '1')
      match ((probes.zip expQ).zip gotQ).find? (fun x => x.1.2 != x.2) with
      | some ((some p, want), _) =>
        if !want then "FAIL:false-positive"
        else
          let c := component ranges p
          if singles.contains p then "FAIL:single-lost"
          else if c.1 == encIP 0 then "FAIL:zero-start"
          else if v0 && decide (c.1 ≤ encIP v4zero) && decide (encIP v4zero < p) then "FAIL:v4zero-end"
          else "FAIL:false-negative"
      | _ => "FAIL:probe-count"
  match parseItems s1s, parseItems s2s with
  | some s1, some s2 =>
    let ok1 := s1.isPerm ranges && sortedDescB s1
    let b := mergeItemsA s1   -- the index-based array loops (= mergeItems by C19_merge_array_eq)
    let ok2 := s2.isPerm b.1 && sortedDescB s2
    if !(ok1 && ok2) then { model := "inadmissible-sort-oracle", verdict := verdict, tags := ["bad-oracle"] } else
    let t := sortTable (fun _ => s1) (fun _ => s2) ranges
    let q := probes.map fun o => match o with | some v => search singles t v | none => false
    let m := "e=" ++ expE ++ ";f=" ++ expF ++ ";s1=" ++ renderItems s1 ++ ";m=" ++ toString b.2 ++
             ";s2=" ++ renderItems s2 ++ ";t=" ++ renderItems t ++ ";q=" ++ bits q
    let n := ranges.length
    let tags :=
      (if b.2 > 0 then ["nt", "merge"] else ["nomerge"]) ++
      (if n > 12 then ["n>12"] else if s1 == goSort ranges && s2 == goSort b.1 then ["n<=12", "goSort-eq"] else ["n<=12", "goSort-ne"]) ++
      (if zs then ["zero-start"] else []) ++ (if v0 then ["v4zero-end"] else []) ++
      (if singles.isEmpty then [] else ["singles"]) ++
      (if ranges.any (fun r => isV4 (r.1 - 1)) then ["v4"] else []) ++
      (if ranges.any (fun r => !isV4 (r.1 - 1)) then ["v6"] else []) ++
      (if ins.any Option.isNone then ["rejected-range"] else [])
    { model := m, verdict := verdict, tags := tags }
  | _, _ => { model := "unparsable-impl", verdict := verdict, tags := ["bad-oracle"] }

end BfeVerif.C19
