import BfeVerif.Common.Proto
import BfeVerif.C19.Model
/-!
  C19 driver.
  op   = `r=<ip>:<ip>,..;s=<ip>,..;p=<ip>,..`   (ip = hex of the net.IP bytes; `.` = empty list)
  impl = `e=<bits>;f=<bits>;s1=<items>;m=<n>;s2=<items>;t=<items>;q=<bits>`
  `s1`/`s2` of the implementation are the sort oracle: the driver checks that they are admissible results of
  `sort.Sort` (permutation of the model's array, sorted by descending start) and then runs the model with them.
-/
namespace BfeVerif.C19
open BfeVerif.Proto

def natOfBytes (bs : List UInt8) : Nat := bs.foldl (fun a b => a * 256 + b.toNat) 0

def parseIP (tok : String) : Option Nat :=
  match bytesOfHex tok with
  | none => none
  | some bs => to16 bs.length (natOfBytes bs)

def hex32 (v : Nat) : String :=
  String.ofList ((List.range 32).map fun i => hexDigit ((v / 16 ^ (31 - i)) % 16))

/-- code → harness notation: nil is `-`, a 16-byte IP its 32 hex digits -/
def renderIP (c : Nat) : String := if c == 0 then "-" else hex32 (c - 1)

def renderItems (l : List Item) : String :=
  if l.isEmpty then "." else ",".intercalate (l.map fun a => renderIP a.1 ++ ":" ++ renderIP a.2)

def listOf (s : String) : List String := if s == "." || s == "" then [] else s.splitOn ","

def parseItems (s : String) : Option (List Item) :=
  (listOf s).mapM fun t =>
    match t.splitOn ":" with
    | [a, b] =>
      match bytesOfHex a, bytesOfHex b with
      | some x, some y =>
        let c := fun (b : List UInt8) => if b.isEmpty then some 0 else if b.length = 16 then some (encIP (natOfBytes b)) else none
        match c x, c y with
        | some u, some v => some (u, v)
        | _, _ => none
      | _, _ => none
    | _ => none

def bits (l : List Bool) : String :=
  if l.isEmpty then "." else String.ofList (l.map fun b => if b then '1' else '0')

def field (secs : List String) (k : String) : String :=
  match secs.find? (fun s => s.startsWith (k ++ "=")) with
  | some s => (s.drop (k.length + 1)).toString
  | none => ""

/-- the connected component of the union of `ranges` around `x`: repeatedly absorb overlapping ranges -/
def component (ranges : List Item) (x : Nat) : Nat × Nat :=
  (List.range (ranges.length + 1)).foldl (fun (c : Nat × Nat) _ =>
    ranges.foldl (fun (c : Nat × Nat) r =>
      if decide (r.1 ≤ c.2) && decide (c.1 ≤ r.2) then (min c.1 r.1, max c.2 r.2) else c) c) (x, x)

def strOfHex (h : String) : String :=
  match bytesOfHex h with
  | some bs => String.ofList (bs.map fun b => Char.ofNat b.toNat)
  | none => "?"

def hexOfStr (v : String) : String := hexField (v.toList.map fun c => UInt8.ofNat c.toNat)

/-- state carried through a history: the model's `IPTable`, and what the specification says is loaded -/
structure HState where
  table : IPTableM := none
  spec : Option (List Item × List Nat) := none     -- (ranges, singles) whose union must be reported
  specVer : String := ""

structure StepAns where
  model : String
  verdict : String
  tags : List String
  st : HState

def specQ (sp : Option (List Item × List Nat)) (o : Option Nat) : Bool :=
  match sp, o with
  | some (ranges, singles), some v => specSearch singles ranges v
  | _, _ => false

def stepRun (hs : HState) (op impl : String) : StepAns :=
  let osecs0 := op.splitOn ";"
  let kind := let k := field osecs0 "k"; if k == "" then "u" else k
  let ver := let v := field osecs0 "v"; if v == "" then "" else strOfHex v
  let x2 := field osecs0 "x2" == "1"
  let ds : Int := (field osecs0 "ds").toInt?.getD 0
  let dp : Int := (field osecs0 "dp").toInt?.getD 0
  let ml : Option Nat := (field osecs0 "ml").toNat?     -- TxtFileLoader.SetMaxLine
  let osecs := osecs0.filter fun x => x.startsWith "r=" || x.startsWith "s=" || x.startsWith "p="
  let isecs := impl.splitOn ";"
  if osecs.length != 3 then { model := "bad-op", verdict := "skip", tags := [], st := hs } else
  let rtok := listOf (field osecs "r")
  let stok := listOf (field osecs "s")
  let ptok := listOf (field osecs "p")
  let probes : List (Option Nat) := ptok.map fun t => (parseIP t).map encIP
  -- inserts: flag 0 = pair stored, 1 = rejected, 2 = (file load only) start = end, stored as a single address
  let ins : List (Nat × Option Item × Option Nat) := rtok.map fun t =>
    match t.splitOn ":" with
    | [a, b] =>
      match parseIP a, parseIP b with
      | some x, some y =>
        if kind == "f" && x == y then (2, none, some (encIP x))
        else match insertPair (some x) (some y) with
          | some r => (0, some r, none)
          | none => (1, none, none)
      | _, _ => (1, none, none)
    | _ => (1, none, none)
  let ranges : List Item := ins.filterMap fun x => x.2.1
  let sgl : List (Option Nat) := stok.map fun t => (parseIP t).map encIP
  let singles : List Nat := (ins.filterMap fun x => x.2.2) ++ sgl.filterMap id
  -- file loads: the meta line declares nSingle+ds / nPair+dp entries; a negative count makes the meta line invalid, the
  -- loader then counts the entries itself and the file has NO version; a too small count aborts the load
  let nSingle : Int := (ins.countP fun x => x.1 == 2) + stok.length
  let nPair : Int := ins.countP fun x => x.1 != 2
  let metaBad := kind == "f" && ver != "" && (nSingle + ds < 0 || nPair + dp < 0)
  let ver := if metaBad then "" else ver
  let short := kind == "f" && ((ver != "" && (ds < 0 || dp < 0)) ||
    (match ml with | some k => decide (rtok.length + stok.length > k) | none => false))
  let expE := if kind == "n" || kind == "q" then "." else
    if ins.isEmpty then "." else String.ofList (ins.map fun x => if x.1 == 0 then '0' else if x.1 == 1 then '1' else '2')
  let expF := if kind == "n" || kind == "q" then "." else bits (sgl.map Option.isNone)
  let anyErr := ins.any (fun x => x.1 == 1) || sgl.any Option.isNone || short
  -- what happens to the table in this step
  let status :=
    if kind == "n" then "nil"
    else if kind == "q" then "keep"
    else if kind == "u" || kind == "w" || kind == "g" then "ok"
    else if ver != "" && !needLoad hs.table.version ver then "skip"
    else if anyErr then "err" else "ok"
  -- specification: after a (successful) Update(X) exactly X is reported, whatever was loaded before
  let spec' := if status == "ok" then some (ranges, singles) else if status == "nil" then none else hs.spec
  let specVer' := if status == "ok" then ver else if status == "nil" then "" else hs.specVer
  let expQ := probes.map (specQ spec')
  let staleQ := probes.map (specQ hs.spec)
  let implQ := field isecs "q"
  let curRanges := match spec' with | some (r, _) => r | none => []
  let curSingles := match spec' with | some (_, s) => s | none => []
  let v0 := curRanges.any fun r => r.2 == encIP v4zero
  let implW := field isecs "w"
  let swapBad := kind == "w" &&
    (implW.length != probes.length && !(probes.isEmpty && implW == ".") ||
     ((probes.zip implW.toList).any fun (p, c) =>
        let o := specQ hs.spec p; let n := specQ spec' p
        if o == n then c != (if o then '1' else '0') else !(c == '0' || c == '1' || c == 'm')))
  -- Length() = number of maximal overlap-connected groups of loaded ranges + number of distinct single addresses
  let expLen := if status == "ok" then
      toString ((ranges.map fun r => component ranges r.1).eraseDups.length + singles.eraseDups.length) else "-"
  -- gated swap: the previous items are installed between Search's snapshot and its use: the answer is the NEW items' answer
  let implG := field isecs "g"
  let gateBad := kind == "g" &&
    (implG.length != probes.length && !(probes.isEmpty && implG == ".") ||
     ((probes.zip implG.toList).any fun (p, c) => c != 'L' && c != (if specQ spec' p then '1' else '0')))
  let verdict :=
    if impl.startsWith "hook-diverged" then "FAIL:hook-diverged"
    else if field isecs "e" != expE || field isecs "f" != expF then "FAIL:insert-validation"
    else if field isecs "n" != expLen then "FAIL:length"
    else if field isecs "ld" != status || field isecs "ver" != hexOfStr specVer' then "FAIL:update-status"
    else if swapBad || gateBad then "FAIL:swap-torn"
    else if implQ == bits expQ then "ok"
    else if (status == "ok" || status == "nil") && implQ == bits staleQ then "FAIL:update-stale"
    else
      let gotQ := implQ.toList.map (· == '1')
      match ((probes.zip expQ).zip gotQ).find? (fun x => x.1.2 != x.2) with
      | some ((some p, want), _) =>
        if !want then "FAIL:false-positive"
        else
          let c := component curRanges p
          if curSingles.contains p then "FAIL:single-lost"
          else if c.1 == encIP 0 then "FAIL:zero-start"
          else if v0 && decide (c.1 ≤ encIP v4zero) && decide (encIP v4zero < p) then "FAIL:v4zero-end"
          else "FAIL:false-negative"
      | _ => "FAIL:probe-count"
  let finish := fun (tbl : IPTableM) (mid : String) (tags : List String) =>
    let q := probes.map tbl.search
    -- swap while searching: every answer must be the old table's or the new table's (echo what was observed if so)
    let w := if kind != "w" then "" else
      ";w=" ++ (if probes.isEmpty then "." else String.ofList ((probes.zip ((field isecs "w").toList ++ List.replicate probes.length '?')).map fun (p, c) =>
        let o := hs.table.search p; let n := tbl.search p
        if o == n then (if o then '1' else '0') else if c == '0' || c == '1' || c == 'm' then c else '?'))
    let g := if kind != "g" then "" else
      ";g=" ++ (if probes.isEmpty then "." else String.ofList ((probes.zip ((field isecs "g").toList ++ List.replicate probes.length '?')).map fun (p, c) =>
        if c == 'L' then 'L' else if tbl.search p then '1' else '0'))
    { model := "e=" ++ expE ++ ";f=" ++ expF ++ mid ++ ";ld=" ++ status ++ ";ver=" ++ hexOfStr tbl.version ++ w ++ g ++ ";q=" ++ bits q,
      verdict := verdict,
      tags := tags ++ [if kind == "u" then "update" else if kind == "n" then "update-nil" else if kind == "q" then "probe-only"
                       else if kind == "w" then "swap" else if kind == "g" then "swap-gated" else "file-" ++ status] ++
              (if kind == "w" && (field isecs "w").contains 'm' then ["swap-mixed-seen"] else []) ++
              (if x2 then ["sort-twice"] else []) ++ (if metaBad then ["file-meta-negative"] else []) ++ (if short then ["file-meta-short"] else []) ++
              (if kind == "q" && hs.table.isNone then ["search-before-update"] else []),
      st := { table := tbl, spec := spec', specVer := specVer' } : StepAns }
  if status != "ok" then
    finish (if status == "nil" then hs.table.update none else hs.table) ";s1=.;m=0;s2=.;t=.;n=-" []
  else
  -- the sort oracle taken from the implementation, validated
  match parseItems (field isecs "s1"), parseItems (field isecs "s2") with
  | some s1, some s2 =>
    let ok1 := s1.isPerm ranges && sortedDescB s1
    let b := mergeItemsA s1   -- the index-based array loops (= mergeItems by C19_merge_array_eq)
    let ok2 := s2.isPerm b.1 && sortedDescB s2
    if !(ok1 && ok2) then { model := "inadmissible-sort-oracle", verdict := verdict, tags := ["bad-oracle"], st := hs } else
    let t1 := sortTable (fun _ => s1) (fun _ => s2) ranges
    -- Sort() called a second time: any admissible sorts give the same table again (C19_sort_idempotent)
    let t := if x2 then sortTable goSort goSort t1 else t1
    let n := ranges.length
    let tags :=
      (if b.2 > 0 then ["nt", "merge"] else ["nomerge"]) ++
      (if n > 12 then ["n>12"] else if s1 == goSort ranges && s2 == goSort b.1 then ["n<=12", "goSort-eq"] else ["n<=12", "goSort-ne"]) ++
      (if ranges.any (fun r => r.1 == encIP 0) then ["zero-start"] else []) ++ (if v0 then ["v4zero-end"] else []) ++
      (if singles.isEmpty then [] else ["singles"]) ++
      (if ranges.any (fun r => isV4 (r.1 - 1)) then ["v4"] else []) ++
      (if ranges.any (fun r => !isV4 (r.1 - 1)) then ["v6"] else []) ++
      (if ins.any (fun x => x.1 == 1) then ["rejected-range"] else []) ++
      (if hs.table.isSome && hs.table.version == ver then [if ver == "" then "same-version-empty" else "same-version"] else [])
    finish (hs.table.update (some { singles := singles, table := t, version := ver }))
      (";s1=" ++ renderItems s1 ++ ";m=" ++ toString b.2 ++ ";s2=" ++ renderItems s2 ++ ";t=" ++ renderItems t ++
       ";n=" ++ toString (IPItemsM.length { singles := singles, table := t, version := ver })) (tags ++
       (if n > 100 then ["n>100"] else []) ++
       (if ranges.any (fun r => decide (r.1 < encIP v4zero) && decide (r.2 ≥ encIP (v4zero + 2 ^ 32))) then ["spans-v4-block"] else []) ++
       (if ranges.any (fun r => r.2 == encIP (2 ^ 128 - 1)) then ["ends-at-max"] else []))
  | _, _ => { model := "unparsable-impl", verdict := verdict, tags := ["bad-oracle"], st := hs }

def run (op impl : String) : Ans :=
  if impl.startsWith "HANG" then { model := "-", verdict := "FAIL:hang", tags := ["hang"] } else
  if impl.startsWith "PANIC" then { model := "-", verdict := "FAIL:panic", tags := ["panic"] } else
  let osteps := op.splitOn "|"
  let isteps := impl.splitOn "|"
  let rec go (hs : HState) : List String → List String → List StepAns
    | o :: os, i :: is => let a := stepRun hs o i; a :: go a.st os is
    | o :: os, [] => let a := stepRun hs o ""; a :: go a.st os []
    | [], _ => []
  let as := go {} osteps isteps
  let verdict :=
    match as.find? (fun a => a.verdict != "ok") with
    | some a => a.verdict
    | none => if isteps.length != osteps.length then "FAIL:step-count" else "ok"
  let tags := (as.foldl (fun acc a => acc ++ a.tags.filter (fun t => !acc.contains t)) []) ++
    (if osteps.length > 1 then ["history"] else [])
  { model := "|".intercalate (as.map (·.model)), verdict := verdict, tags := tags }

end BfeVerif.C19
