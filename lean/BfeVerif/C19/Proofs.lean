import BfeVerif.C19.Model
/-! Lemmas for C19 (core Lean only). -/
namespace BfeVerif.C19

/-- a real entry: two non-nil IPs (codes ≥ 1) with start ≤ end -/
def Good (a : Item) : Prop := 0 < a.1 ∧ a.1 ≤ a.2

def OKi (a : Item) : Prop := a = marker ∨ Good a

/-- `x` lies in one of the entries -/
def Cov (l : List Item) (x : Nat) : Prop := ∃ a ∈ l, a.1 ≤ x ∧ x ≤ a.2

/-- descending starts, ignoring markers on the left -/
def SortedM (l : List Item) : Prop := l.Pairwise (fun a b => a = marker ∨ b.1 ≤ a.1)

theorem marker_iff (a : Item) : a = marker ↔ a.1 = 0 ∧ a.2 = 0 := by
  unfold marker; exact Prod.ext_iff

theorem good_ne_marker {a : Item} (h : Good a) : a ≠ marker := by
  intro e; rw [marker_iff] at e; unfold Good at h; omega

theorem isMarkEnd_iff {a : Item} (h : OKi a) : isMarkEnd a.2 = true ↔ a = marker := by
  unfold isMarkEnd
  simp only [beq_iff_eq]
  rcases h with h | h
  · subst h; simp [marker]
  · constructor
    · intro h'; unfold Good at h; omega
    · intro e; exact absurd e (good_ne_marker h)

theorem end0_iff {a : Item} (h : OKi a) : a.2 = 0 ↔ a = marker := by
  rcases h with h | h
  · subst h; simp [marker]
  · constructor
    · intro h'; unfold Good at h; omega
    · intro e; exact absurd e (good_ne_marker h)

@[simp] theorem cov_nil (x : Nat) : Cov [] x ↔ False := by simp [Cov]
@[simp] theorem cov_cons (a : Item) (l : List Item) (x : Nat) :
    Cov (a :: l) x ↔ (a.1 ≤ x ∧ x ≤ a.2) ∨ Cov l x := by simp [Cov]
@[simp] theorem cov_append (l₁ l₂ : List Item) (x : Nat) : Cov (l₁ ++ l₂) x ↔ Cov l₁ x ∨ Cov l₂ x := by
  simp only [Cov, List.mem_append]
  constructor
  · rintro ⟨a, h | h, hx⟩
    · exact Or.inl ⟨a, h, hx⟩
    · exact Or.inr ⟨a, h, hx⟩
  · rintro (⟨a, h, hx⟩ | ⟨a, h, hx⟩)
    · exact ⟨a, Or.inl h, hx⟩
    · exact ⟨a, Or.inr h, hx⟩

theorem cov_markers {l : List Item} (h : ∀ a ∈ l, a = marker) {x : Nat} (hx : x ≠ 0) : ¬ Cov l x := by
  rintro ⟨a, ha, h1, h2⟩
  have := h a ha; subst this; simp [marker] at h2; omega

/-! ### wipe -/

theorem wipe_spec (st : Nat) (l : List Item) (h : ∀ a ∈ l, OKi a) (hst : ∀ a ∈ l, a = marker ∨ st ≤ a.1) :
    (wipe st l).1 = List.replicate l.length marker ∧ (wipe st l).2 + l.count marker = l.length := by
  induction l with
  | nil => simp [wipe]
  | cons k ks ih =>
    have hk := h k (by simp)
    have ih := ih (fun a ha => h a (by simp [ha])) (fun a ha => hst a (by simp [ha]))
    unfold wipe
    by_cases hm : isMarkEnd k.2 = true
    · have : k = marker := (isMarkEnd_iff hk).mp hm
      simp only [hm, Bool.true_or, if_true]
      subst this
      simp only [List.length_cons, List.replicate_succ, List.count_cons_self]
      exact ⟨by rw [ih.1], by omega⟩
    · have hne : k ≠ marker := fun e => hm ((isMarkEnd_iff hk).mpr e)
      have hge : ¬ k.1 < st := by
        rcases hst k (by simp) with h' | h'
        · exact absurd h' hne
        · omega
      simp only [hm, hge, decide_false, Bool.or_self, Bool.false_eq_true, if_false]
      simp only [List.length_cons, List.replicate_succ]
      refine ⟨by rw [ih.1], ?_⟩
      rw [List.count_cons_of_ne hne]; omega

/-! ### the inner loop -/

structure ScanPost (cur : Item) (all : List Item) (m : Nat) (r : Item × List Item × Nat) : Prop where
  good : Good r.1
  ok : ∀ a ∈ r.2.1, OKi a
  sep : ∀ d ∈ r.2.1, d = marker ∨ d.2 < r.1.1
  cov : ∀ x, x ≠ 0 → (Cov (r.1 :: r.2.1) x ↔ Cov (cur :: all) x)
  len : r.2.1.length = all.length
  cnt : r.2.1.count marker + m = all.count marker + r.2.2
  sorted : SortedM r.2.1
  bound : ∀ B, cur.2 < B → (∀ a ∈ all, a = marker ∨ a.2 < B) → r.1.2 < B ∧ ∀ a ∈ r.2.1, a = marker ∨ a.2 < B

theorem sortedM_markers_append {n : Nat} {l : List Item} (h : SortedM l) :
    SortedM (List.replicate n marker ++ [marker] ++ l) := by
  unfold SortedM at *
  rw [List.pairwise_append]
  refine ⟨?_, h, ?_⟩
  · rw [List.pairwise_append]
    refine ⟨?_, by simp, ?_⟩
    · rw [List.pairwise_replicate]; exact Or.inr (Or.inl rfl)
    · intro a ha b _; left; exact List.eq_of_mem_replicate ha
  · intro a ha b _; left
    simp only [List.mem_append, List.mem_singleton] at ha
    rcases ha with ha | ha
    · exact List.eq_of_mem_replicate ha
    · exact ha

theorem scan_post : ∀ (todo : List Item) (cur : Item) (done : List Item) (m : Nat),
    Good cur → (∀ a ∈ done ++ todo, OKi a) → (∀ d ∈ done, d = marker ∨ d.2 < cur.1) →
    (∀ a ∈ todo, a = marker ∨ a.1 ≤ cur.1) → SortedM (done ++ todo) →
    ScanPost cur (done ++ todo) m (scan cur done todo m) := by
  intro todo
  induction todo with
  | nil =>
    intro cur done m hg hok hsep _ hs
    simp only [List.append_nil] at *
    unfold scan
    exact ⟨hg, hok, hsep, fun x _ => Iff.rfl, rfl, rfl, hs, fun B hB hall => ⟨hB, hall⟩⟩
  | cons x todo ih =>
    intro cur done m hg hok hsep htodo hs
    have hassoc : done ++ x :: todo = (done ++ [x]) ++ todo := by simp
    have hxok : OKi x := hok x (by simp)
    have hcur := hg
    unfold Good at hcur
    -- the two branches that just move on to the next j
    have keep : (x = marker ∨ x.2 < cur.1) →
        ScanPost cur (done ++ x :: todo) m (scan cur (done ++ [x]) todo m) := by
      intro hx
      rw [hassoc]
      apply ih cur (done ++ [x]) m hg
      · rw [← hassoc]; exact hok
      · intro d hd
        simp only [List.mem_append, List.mem_singleton] at hd
        rcases hd with hd | hd
        · exact hsep d hd
        · subst hd; exact hx
      · intro a ha; exact htodo a (by simp [ha])
      · rw [← hassoc]; exact hs
    unfold scan
    by_cases h1 : (x.2 == 0) = true
    · simp only [h1, if_true]
      apply keep
      simp only [beq_iff_eq] at h1
      exact Or.inl ((end0_iff hxok).mp h1)
    · simp only [h1, Bool.false_eq_true, if_false]
      by_cases h2 : x.2 ≥ cur.1
      · simp only [h2, if_true]
        -- checkMerge fires
        have hx0 : x.2 ≠ 0 := by
          intro e; apply h1; simp [e]
        have hxne : x ≠ marker := fun e => hx0 ((end0_iff hxok).mpr e)
        have hxg : Good x := by rcases hxok with h | h; exact absurd h hxne; exact h
        have hxg' := hxg
        unfold Good at hxg'
        have hokd : ∀ a ∈ done, OKi a := fun a ha => hok a (by simp [ha])
        have hs0 := hs
        unfold SortedM at hs0
        rw [List.pairwise_append] at hs0
        obtain ⟨hw1, hw2⟩ := wipe_spec x.1 done hokd (fun a ha => hs0.2.2 a ha x (by simp))
        have hxle : x.1 ≤ cur.1 := by
          rcases htodo x (by simp) with h | h
          · exact absurd h hxne
          · exact h
        have hs' := hs
        unfold SortedM at hs'
        rw [List.pairwise_append] at hs'
        obtain ⟨_, hs2, hs3⟩ := hs'
        rw [List.pairwise_cons] at hs2
        -- the new current item
        generalize hc' : ((x.1, if x.2 ≥ cur.2 then x.2 else cur.2) : Item) = cur'
        have hc1 : cur'.1 = x.1 := by rw [← hc']
        have hc2 : cur'.2 = if x.2 ≥ cur.2 then x.2 else cur.2 := by rw [← hc']
        have hc2a : cur.2 ≤ cur'.2 ∧ x.2 ≤ cur'.2 ∧ (cur'.2 = cur.2 ∨ cur'.2 = x.2) := by
          rw [hc2]; split <;> omega
        have hg' : Good cur' := by
          unfold Good; rw [hc1]
          exact ⟨hxg'.1, by omega⟩
        rw [hw1]
        have hmk : ∀ a ∈ List.replicate done.length marker ++ [marker], a = marker := by
          intro a ha
          simp only [List.mem_append, List.mem_singleton] at ha
          rcases ha with ha | ha
          · exact List.eq_of_mem_replicate ha
          · exact ha
        have post := ih cur' (List.replicate done.length marker ++ [marker]) (m + 1 + (wipe x.1 done).2) hg'
          (by
            intro a ha
            rw [List.mem_append] at ha
            rcases ha with ha | ha
            · exact Or.inl (hmk a ha)
            · exact hok a (by simp [ha]))
          (fun d hd => Or.inl (hmk d hd))
          (by
            intro a ha
            rcases hs2.1 a ha with h | h
            · exact absurd h hxne
            · right; rw [hc1]; exact h)
          (sortedM_markers_append hs2.2)
        obtain ⟨p1, p2, p3, p4, p5, p6, p7, p8⟩ := post
        refine ⟨p1, p2, p3, ?_, ?_, ?_, p7, ?_⟩
        · intro p hp
          rw [p4 p hp]
          simp only [cov_cons, cov_append]
          have hnm : ¬ Cov (List.replicate done.length marker ++ [marker]) p := cov_markers hmk hp
          simp only [cov_cons, cov_append] at hnm
          have hdone : Cov done p → cur'.1 ≤ p ∧ p ≤ cur'.2 := by
            rintro ⟨d, hd, hd1, hd2⟩
            have hdne : d ≠ marker := by
              intro e; subst e; simp [marker] at hd2; omega
            have h3 := hs3 d hd x (by simp)
            have h4 := hsep d hd
            rcases h3 with h3 | h3
            · exact absurd h3 hdne
            · rcases h4 with h4 | h4
              · exact absurd h4 hdne
              · omega
          constructor
          · rintro (h | h | h)
            · by_cases hpc : cur.1 ≤ p
              · by_cases hpe : p ≤ cur.2
                · exact Or.inl ⟨hpc, hpe⟩
                · right; right; left; omega
              · right; right; left; omega
            · exact absurd h hnm
            · right; right; right; exact h
          · rintro (h | h | h | h)
            · left; omega
            · left; exact hdone h
            · left; omega
            · right; right; exact h
        · rw [p5]
          simp only [List.length_append, List.length_replicate, List.length_cons, List.length_nil]
          omega
        · have e1 : (List.replicate done.length marker ++ [marker] ++ todo).count marker
              = done.length + 1 + todo.count marker := by
            simp [List.count_append]; omega
          have e2 : (done ++ x :: todo).count marker = done.count marker + todo.count marker := by
            rw [List.count_append, List.count_cons_of_ne hxne]
          rw [e1] at p6; rw [e2]; omega
        · intro B hB hall
          apply p8 B
          · have := hall x (by simp)
            rcases this with h | h
            · exact absurd h hxne
            · rcases hc2a.2.2 with h' | h' <;> omega
          · intro a ha
            rw [List.mem_append] at ha
            rcases ha with ha | ha
            · exact Or.inl (hmk a ha)
            · exact hall a (by simp [ha])
      · simp only [h2, if_false]
        exact keep (Or.inr (by omega))

/-! ### the outer loop -/

structure MergePost (l : List Item) (r : List Item × Nat) : Prop where
  cov : ∀ x, x ≠ 0 → (Cov r.1 x ↔ Cov l x)
  cnt : r.1.count marker = l.count marker + r.2
  len : r.1.length = l.length
  ok : ∀ a ∈ r.1, OKi a
  sep : r.1.Pairwise (fun a b => a = marker ∨ b = marker ∨ b.2 < a.1)
  bound : ∀ B, (∀ a ∈ l, a = marker ∨ a.2 < B) → ∀ a ∈ r.1, a = marker ∨ a.2 < B

theorem mergeFrom_post : ∀ (fuel : Nat) (l : List Item), l.length ≤ fuel → (∀ a ∈ l, OKi a) → SortedM l →
    MergePost l (mergeFrom fuel l) := by
  intro fuel
  induction fuel with
  | zero =>
    intro l hl _ _
    have : l = [] := List.eq_nil_of_length_eq_zero (by omega)
    subst this
    exact ⟨fun _ _ => Iff.rfl, rfl, rfl, by simp [mergeFrom], by simp [mergeFrom], fun _ _ a ha => by simp [mergeFrom] at ha⟩
  | succ fuel ih =>
    intro l hl hok hs
    cases l with
    | nil => exact ⟨fun _ _ => Iff.rfl, rfl, rfl, by simp [mergeFrom], by simp [mergeFrom], fun _ _ a ha => by simp [mergeFrom] at ha⟩
    | cons cur rest =>
      have hcok : OKi cur := hok cur (by simp)
      have hrok : ∀ a ∈ rest, OKi a := fun a ha => hok a (by simp [ha])
      have hs' := hs
      unfold SortedM at hs'
      rw [List.pairwise_cons] at hs'
      simp only [List.length_cons] at hl
      unfold mergeFrom
      by_cases hm : isMarkEnd cur.2 = true
      · simp only [hm, if_true]
        have hcm : cur = marker := (isMarkEnd_iff hcok).mp hm
        obtain ⟨q1, q2, q3, q4, q5, q6⟩ := ih rest (by omega) hrok hs'.2
        refine ⟨?_, ?_, by simp [q3], ?_, ?_, ?_⟩
        · intro x hx; simp only [cov_cons]; rw [q1 x hx]
        · subst hcm; simp only [List.count_cons_self]; omega
        · intro a ha
          simp only [List.mem_cons] at ha
          rcases ha with ha | ha
          · rw [ha]; exact hcok
          · exact q4 a ha
        · rw [List.pairwise_cons]; exact ⟨fun b _ => Or.inl hcm, q5⟩
        · intro B hB a ha
          simp only [List.mem_cons] at ha
          rcases ha with ha | ha
          · rw [ha]; exact Or.inl hcm
          · exact q6 B (fun a ha => hB a (by simp [ha])) a ha
      · simp only [hm, Bool.false_eq_true, if_false]
        have hcne : cur ≠ marker := fun e => hm ((isMarkEnd_iff hcok).mpr e)
        have hcg : Good cur := by rcases hcok with h | h; exact absurd h hcne; exact h
        have sp := scan_post rest cur [] 0 hcg (by simpa using hrok) (by simp)
          (by
            intro a ha
            rcases hs'.1 a ha with h | h
            · exact absurd h hcne
            · exact Or.inr h)
          (by simpa [SortedM] using hs'.2)
        simp only [List.nil_append] at sp
        obtain ⟨p1, p2, p3, p4, p5, p6, p7, p8⟩ := sp
        obtain ⟨q1, q2, q3, q4, q5, q6⟩ := ih (scan cur [] rest 0).2.1 (by omega) p2 p7
        refine ⟨?_, ?_, by simp [q3, p5], ?_, ?_, ?_⟩
        · intro x hx
          rw [← p4 x hx]; simp only [cov_cons]; rw [q1 x hx]
        · simp only []
          rw [List.count_cons_of_ne (good_ne_marker p1), List.count_cons_of_ne hcne, q2]; omega
        · intro a ha
          simp only [List.mem_cons] at ha
          rcases ha with ha | ha
          · rw [ha]; exact Or.inr p1
          · exact q4 a ha
        · rw [List.pairwise_cons]
          refine ⟨fun b hb => ?_, q5⟩
          rcases q6 _ p3 b hb with h | h
          · exact Or.inr (Or.inl h)
          · exact Or.inr (Or.inr h)
        · intro B hB a ha
          have hcb : cur.2 < B := by
            rcases hB cur (by simp) with h | h
            · exact absurd h hcne
            · exact h
          have := p8 B hcb (fun a ha => hB a (by simp [ha]))
          simp only [List.mem_cons] at ha
          rcases ha with ha | ha
          · rw [ha]; exact Or.inr this.1
          · exact q6 B this.2 a ha

/-! ### second sort + reslice -/

theorem take_nonmarkers (s : List Item) (hs : s.Pairwise (fun a b => b.1 ≤ a.1)) (hok : ∀ a ∈ s, OKi a) :
    s.take (s.length - s.count marker) = s.filter (fun a => a != marker) := by
  induction s with
  | nil => simp
  | cons a t ih =>
    rw [List.pairwise_cons] at hs
    have ih := ih hs.2 (fun b hb => hok b (by simp [hb]))
    by_cases ha : a = marker
    · have hall : ∀ b ∈ t, b = marker := by
        intro b hb
        have h1 := hs.1 b hb
        rcases hok b (by simp [hb]) with h | h
        · exact h
        · unfold Good at h; rw [ha] at h1; simp [marker] at h1; omega
      have hc : t.count marker = t.length := List.count_eq_length.mpr (fun b hb => (hall b hb).symm)
      subst ha
      rw [List.count_cons_self, hc]
      simp only [List.length_cons, Nat.sub_self, List.take_zero]
      symm
      rw [List.filter_eq_nil_iff]
      intro b hb
      simp only [List.mem_cons] at hb
      rcases hb with hb | hb
      · simp [hb]
      · simp [hall b hb]
    · rw [List.count_cons_of_ne ha]
      have hle := List.count_le_length (a := marker) (l := t)
      have : (a :: t).length - t.count marker = (t.length - t.count marker) + 1 := by
        simp only [List.length_cons]; omega
      rw [this, List.take_succ_cons, ih]
      simp [List.filter_cons, ha]

/-! ### sort.Search -/

theorem bsearch_spec (f : Nat → Bool) (n : Nat)
    (hmono : ∀ i j, i ≤ j → j < n → f i = true → f j = true) :
    ∀ fuel i j, i ≤ j → j ≤ n → j - i < fuel → (∀ k, k < i → f k = false) → (∀ k, j ≤ k → k < n → f k = true) →
      bsearch f fuel i j ≤ n ∧ (∀ k, k < bsearch f fuel i j → f k = false) ∧
        (bsearch f fuel i j < n → f (bsearch f fuel i j) = true) := by
  intro fuel
  induction fuel with
  | zero => intro i j _ _ h; omega
  | succ fuel ih =>
    intro i j hij hjn hf hlo hhi
    unfold bsearch
    by_cases hlt : i < j
    · simp only [hlt, if_true]
      have hh1 : i ≤ (i + j) / 2 := by omega
      have hh2 : (i + j) / 2 < j := by omega
      by_cases hfh : f ((i + j) / 2) = true
      · simp only [hfh, Bool.not_true, Bool.false_eq_true, if_false]
        apply ih i ((i + j) / 2) hh1 (by omega) (by omega) hlo
        intro k hk1 hk2
        exact hmono _ k hk1 hk2 hfh
      · simp only [hfh, Bool.not_false, if_true]
        have hfh' : f ((i + j) / 2) = false := by simpa using hfh
        apply ih ((i + j) / 2 + 1) j (by omega) hjn (by omega) _ hhi
        intro k hk
        by_cases hkf : f k = true
        · have := hmono k ((i + j) / 2) (by omega) (by omega) hkf
          rw [hfh'] at this; exact absurd this (by simp)
        · simpa using hkf
    · simp only [hlt, if_false]
      have : i = j := by omega
      subst this
      exact ⟨hjn, hlo, fun h => hhi i (Nat.le_refl _) h⟩

theorem goSearch_spec (f : Nat → Bool) (n : Nat)
    (hmono : ∀ i j, i ≤ j → j < n → f i = true → f j = true) :
    goSearch n f ≤ n ∧ (∀ k, k < goSearch n f → f k = false) ∧ (goSearch n f < n → f (goSearch n f) = true) := by
  unfold goSearch
  exact bsearch_spec f n hmono (n + 1) 0 n (Nat.zero_le _) (Nat.le_refl _) (by omega) (fun k hk => by omega)
    (fun k h1 h2 => by omega)

theorem getD_lt (l : List Item) {i : Nat} (h : i < l.length) : l.getD i marker = l[i] := by
  simp [List.getD_eq_getElem?_getD, h]

/-- two entries are disjoint intervals (or one is the marker) -/
def Dis (a b : Item) : Prop := a = marker ∨ b = marker ∨ b.2 < a.1 ∨ a.2 < b.1

theorem searchTable_iff (t : List Item) (hgood : ∀ a ∈ t, Good a)
    (hsorted : t.Pairwise (fun a b => b.1 ≤ a.1)) (hdis : t.Pairwise Dis) (x : Nat) :
    searchTable t x = true ↔ Cov t x := by
  have hs := List.pairwise_iff_getElem.mp hsorted
  have hd := List.pairwise_iff_getElem.mp hdis
  have hmono : ∀ i j, i ≤ j → j < t.length →
      (fun i => decide ((t.getD i marker).1 ≤ x)) i = true → (fun i => decide ((t.getD i marker).1 ≤ x)) j = true := by
    intro i j hij hj hi
    simp only [decide_eq_true_eq] at hi ⊢
    have hi' : i < t.length := by omega
    rw [getD_lt _ hi'] at hi
    rw [getD_lt _ hj]
    by_cases e : i = j
    · subst e; exact hi
    · have := hs i j hi' hj (by omega); omega
  obtain ⟨g1, g2, g3⟩ := goSearch_spec _ t.length hmono
  unfold searchTable
  simp only []
  generalize goSearch t.length (fun i => decide ((t.getD i marker).1 ≤ x)) = r at g1 g2 g3
  constructor
  · intro h
    by_cases hr : r < t.length
    · simp only [hr, if_true, decide_eq_true_eq] at h
      have h3 := g3 hr
      simp only [decide_eq_true_eq] at h3
      rw [getD_lt _ hr] at h h3
      exact ⟨t[r], List.getElem_mem hr, h3, h⟩
    · simp [hr] at h
  · rintro ⟨a, ha, ha1, ha2⟩
    obtain ⟨k, hk, rfl⟩ := List.getElem_of_mem ha
    have hrk : r ≤ k := by
      apply Nat.le_of_not_lt
      intro hlt
      have := g2 k hlt
      simp only [decide_eq_false_iff_not] at this
      rw [getD_lt _ hk] at this
      exact this ha1
    have hr : r < t.length := by omega
    have h3 := g3 hr
    simp only [decide_eq_true_eq] at h3
    simp only [hr, if_true, decide_eq_true_eq]
    rw [getD_lt _ hr] at h3 ⊢
    by_cases e : r = k
    · subst e; exact ha2
    · have hlt : r < k := by omega
      have h4 := hs r k hr hk hlt
      have h5 := hd r k hr hk hlt
      have gr := hgood t[r] (List.getElem_mem hr)
      have gk := hgood t[k] (List.getElem_mem hk)
      unfold Dis at h5
      unfold Good at gr gk
      rcases h5 with h5 | h5 | h5 | h5
      · rw [marker_iff] at h5; omega
      · rw [marker_iff] at h5; omega
      · omega
      · omega

/-! ### Go's insertion sort is an admissible sort -/

theorem insDesc_perm (x : Item) (l : List Item) : (insDesc x l).Perm (x :: l) := by
  induction l with
  | nil => exact List.Perm.refl _
  | cons y ys ih =>
    unfold insDesc
    split
    · exact List.Perm.refl _
    · exact ((List.Perm.cons y ih).trans (List.Perm.swap x y ys))

theorem insDesc_sorted (x : Item) (l : List Item) (h : l.Pairwise (fun a b => b.1 ≤ a.1)) :
    (insDesc x l).Pairwise (fun a b => b.1 ≤ a.1) := by
  induction l with
  | nil => simp [insDesc]
  | cons y ys ih =>
    rw [List.pairwise_cons] at h
    unfold insDesc
    split
    · rename_i hxy
      rw [List.pairwise_cons]
      refine ⟨?_, List.pairwise_cons.mpr h⟩
      intro b hb
      simp only [List.mem_cons] at hb
      rcases hb with hb | hb
      · rw [hb]; exact hxy
      · have := h.1 b hb; omega
    · rename_i hxy
      rw [List.pairwise_cons]
      refine ⟨?_, ih h.2⟩
      intro b hb
      have := (insDesc_perm x ys).mem_iff.mp hb
      simp only [List.mem_cons] at this
      rcases this with hb | hb
      · rw [hb]; omega
      · exact h.1 b hb

theorem foldl_insDesc (l acc : List Item) (h : acc.Pairwise (fun a b => b.1 ≤ a.1)) :
    (l.foldl (fun acc x => insDesc x acc) acc).Perm (l ++ acc) ∧
      (l.foldl (fun acc x => insDesc x acc) acc).Pairwise (fun a b => b.1 ≤ a.1) := by
  induction l generalizing acc with
  | nil => exact ⟨List.Perm.refl _, h⟩
  | cons x xs ih =>
    simp only [List.foldl_cons]
    obtain ⟨p, s⟩ := ih (insDesc x acc) (insDesc_sorted x acc h)
    refine ⟨p.trans ?_, s⟩
    have := (insDesc_perm x acc).append_left xs
    exact this.trans (by simpa using List.perm_middle)

theorem goSort_isSort : IsSort goSort := by
  intro l
  unfold goSort
  have := foldl_insDesc l [] List.Pairwise.nil
  simp at this; exact this

/-! ### the whole of `Sort()` -/

theorem dis_symm {a b : Item} (h : Dis a b) : Dis b a := by
  unfold Dis at *
  rcases h with h | h | h | h
  · exact Or.inr (Or.inl h)
  · exact Or.inl h
  · exact Or.inr (Or.inr (Or.inr h))
  · exact Or.inr (Or.inr (Or.inl h))

theorem cov_perm {l₁ l₂ : List Item} (p : l₁.Perm l₂) (x : Nat) : Cov l₁ x ↔ Cov l₂ x := by
  unfold Cov
  constructor
  · rintro ⟨a, ha, h⟩; exact ⟨a, p.mem_iff.mp ha, h⟩
  · rintro ⟨a, ha, h⟩; exact ⟨a, p.mem_iff.mpr ha, h⟩

theorem table_spec (sort1 sort2 : List Item → List Item) (h1 : IsSort sort1) (h2 : IsSort sort2)
    (l : List Item) (hg : ∀ a ∈ l, Good a) :
    (∀ a ∈ sortTable sort1 sort2 l, Good a) ∧
    (sortTable sort1 sort2 l).Pairwise (fun a b => b.1 ≤ a.1) ∧
    (sortTable sort1 sort2 l).Pairwise Dis ∧
    ∀ x, Cov (sortTable sort1 sort2 l) x ↔ Cov l x := by
  obtain ⟨pa, sa⟩ := h1 l
  have hga : ∀ x ∈ sort1 l, Good x := fun x hx => hg x (pa.mem_iff.mp hx)
  have hca : (sort1 l).count marker = 0 :=
    List.count_eq_zero.mpr (fun hm => good_ne_marker (hga _ hm) rfl)
  have MP := mergeFrom_post (sort1 l).length (sort1 l) (Nat.le_refl _) (fun x hx => Or.inr (hga x hx))
    (sa.imp (fun h => Or.inr h))
  obtain ⟨m1, m2, m3, m4, m5, _⟩ := MP
  rw [hca, Nat.zero_add] at m2
  unfold sortTable
  simp only []
  unfold mergeItems
  generalize mergeFrom (sort1 l).length (sort1 l) = b at *
  obtain ⟨pb, sb⟩ := h2 b.1
  have hoks : ∀ x ∈ sort2 b.1, OKi x := fun x hx => m4 x (pb.mem_iff.mp hx)
  have hcnt : (sort2 b.1).count marker = b.2 := by rw [pb.count_eq, m2]
  have hlen : (sort2 b.1).length = b.1.length := pb.length_eq
  have htake : (sort2 b.1).take (b.1.length - b.2) = (sort2 b.1).filter (fun a => a != marker) := by
    rw [← hlen, ← hcnt]; exact take_nonmarkers _ sb hoks
  rw [htake]
  refine ⟨?_, sb.filter _, ?_, ?_⟩
  · intro a ha
    rw [List.mem_filter] at ha
    rcases hoks a ha.1 with h | h
    · simp [h] at ha
    · exact h
  · apply List.Pairwise.filter
    have : b.1.Pairwise Dis := m5.imp (fun {a b} h => by
      unfold Dis
      rcases h with h | h | h
      · exact Or.inl h
      · exact Or.inr (Or.inl h)
      · exact Or.inr (Or.inr (Or.inl h)))
    exact (pb.pairwise_iff (fun {x y} h => dis_symm h)).mpr this
  · intro x
    by_cases hx : x = 0
    · subst hx
      constructor
      · rintro ⟨a, ha, h, _⟩
        rw [List.mem_filter] at ha
        rcases hoks a ha.1 with h' | h'
        · simp [h'] at ha
        · unfold Good at h'; omega
      · rintro ⟨a, ha, h, _⟩
        have := hg a ha; unfold Good at this; omega
    · rw [← cov_perm pa x, ← m1 x hx, ← cov_perm pb x]
      unfold Cov
      constructor
      · rintro ⟨a, ha, h⟩; exact ⟨a, (List.mem_filter.mp ha).1, h⟩
      · rintro ⟨a, ha, h⟩
        refine ⟨a, List.mem_filter.mpr ⟨ha, ?_⟩, h⟩
        simp only [bne_iff_ne, ne_eq]
        intro e; subst e; simp [marker] at h; omega

/-! ### the index-based array loops compute the same as the list traversals -/

theorem getI_mid (pre : List Item) (x : Item) (rest : List Item) : getI (pre ++ x :: rest) pre.length = x := by
  simp [getI, List.getD_eq_getElem?_getD]

theorem set_mid (pre : List Item) (x y : Item) (rest : List Item) :
    (pre ++ x :: rest).set pre.length y = pre ++ y :: rest := by
  simp

theorem wipeA_spec : ∀ (d2 : List Item) (fuel : Nat) (pre d1 rest : List Item) (cur : Item) (j k : Nat),
    k = pre.length + 1 + d1.length → j = k + d2.length → d2.length ≤ fuel →
    wipeA fuel (pre ++ cur :: (d1 ++ d2) ++ rest) pre.length j k =
      (pre ++ cur :: (d1 ++ (wipe cur.1 d2).1) ++ rest, (wipe cur.1 d2).2) := by
  intro d2
  induction d2 with
  | nil =>
    intro fuel pre d1 rest cur j k hk hj _
    simp only [List.length_nil, Nat.add_zero] at hj
    subst hj
    cases fuel <;> simp [wipeA, wipe]
  | cons x t ih =>
    intro fuel pre d1 rest cur j k hk hj hf
    simp only [List.length_cons] at hj hf
    cases fuel with
    | zero => omega
    | succ fuel =>
      have hkj : k < j := by omega
      have hshape : pre ++ cur :: (d1 ++ x :: t) ++ rest = (pre ++ cur :: d1) ++ x :: (t ++ rest) := by simp
      have hklen : k = (pre ++ cur :: d1).length := by simp; omega
      have hg : getI (pre ++ cur :: (d1 ++ x :: t) ++ rest) k = x := by
        rw [hshape, hklen]; exact getI_mid _ _ _
      have hgi : getI (pre ++ cur :: (d1 ++ x :: t) ++ rest) pre.length = cur := by
        have : pre ++ cur :: (d1 ++ x :: t) ++ rest = pre ++ cur :: ((d1 ++ x :: t) ++ rest) := by simp
        rw [this]; exact getI_mid _ _ _
      unfold wipeA wipe
      simp only [hkj, if_true, hg, hgi]
      by_cases hm : (isMarkEnd x.2 || decide (x.1 < cur.1)) = true
      · simp only [hm, if_true]
        have := ih fuel pre (d1 ++ [x]) rest cur j (k + 1) (by simp; omega) (by omega) (by omega)
        simpa using this
      · simp only [hm, Bool.false_eq_true, if_false]
        have hs : (pre ++ cur :: (d1 ++ x :: t) ++ rest).set k marker = pre ++ cur :: (d1 ++ marker :: t) ++ rest := by
          rw [hshape, hklen, set_mid]; simp
        rw [hs]
        have := ih fuel pre (d1 ++ [marker]) rest cur j (k + 1) (by simp; omega) (by omega) (by omega)
        have this' : wipeA fuel (pre ++ cur :: (d1 ++ marker :: t) ++ rest) pre.length j (k + 1) =
            (pre ++ cur :: (d1 ++ marker :: (wipe cur.1 t).1) ++ rest, (wipe cur.1 t).2) := by simpa using this
        rw [this']

theorem getI_at (pre : List Item) (x : Item) (rest : List Item) (n : Nat) (h : n = pre.length) :
    getI (pre ++ x :: rest) n = x := by subst h; exact getI_mid _ _ _

theorem set_at (pre : List Item) (x y : Item) (rest : List Item) (n : Nat) (h : n = pre.length) :
    (pre ++ x :: rest).set n y = pre ++ y :: rest := by subst h; exact set_mid _ _ _ _

theorem checkMergeA_spec (pre done todo : List Item) (cur x : Item) :
    checkMergeA (pre ++ cur :: done ++ x :: todo) pre.length (pre.length + 1 + done.length) =
      if x.2 ≥ cur.1 then
        (pre ++ (x.1, if x.2 ≥ cur.2 then x.2 else cur.2) :: ((wipe x.1 done).1 ++ [marker]) ++ todo, (wipe x.1 done).2 + 1)
      else (pre ++ cur :: done ++ x :: todo, 0) := by
  have hj : ∀ (c : Item), pre.length + 1 + done.length = (pre ++ c :: done).length := by intro c; simp; omega
  have sh : ∀ (c y : Item), pre ++ c :: done ++ y :: todo = (pre ++ c :: done) ++ y :: todo := by intro c y; simp
  have gi : ∀ (c y : Item), getI (pre ++ c :: done ++ y :: todo) pre.length = c := by
    intro c y
    have : pre ++ c :: done ++ y :: todo = pre ++ c :: (done ++ y :: todo) := by simp
    rw [this]; exact getI_mid _ _ _
  have gj : ∀ (c y : Item), getI (pre ++ c :: done ++ y :: todo) (pre.length + 1 + done.length) = y := by
    intro c y; rw [sh, hj c]; exact getI_mid _ _ _
  have si : ∀ (c c' y : Item), (pre ++ c :: done ++ y :: todo).set pre.length c' = pre ++ c' :: done ++ y :: todo := by
    intro c c' y
    have : ∀ c, pre ++ c :: done ++ y :: todo = pre ++ c :: (done ++ y :: todo) := by intro c; simp
    rw [this c, this c']; exact set_mid _ _ _ _
  unfold checkMergeA
  simp only [gi, gj]
  by_cases h : x.2 ≥ cur.1
  · simp only [h, if_true]
    simp only [si, gi, gj]
    have ha2 : (if x.2 ≥ cur.2 then pre ++ (x.1, x.2) :: done ++ x :: todo
        else pre ++ (x.1, cur.2) :: done ++ x :: todo) =
        pre ++ (x.1, if x.2 ≥ cur.2 then x.2 else cur.2) :: done ++ x :: todo := by
      split <;> rfl
    rw [ha2]
    generalize hc' : ((x.1, if x.2 ≥ cur.2 then x.2 else cur.2) : Item) = c'
    have hc1 : x.1 = c'.1 := by rw [← hc']
    rw [hc1]
    have ha3 : (pre ++ c' :: done ++ x :: todo).set (pre.length + 1 + done.length) marker =
        pre ++ c' :: ([] ++ done) ++ (marker :: todo) := by
      rw [sh, hj c', set_mid]; simp
    rw [ha3]
    have hf : pre.length + 1 + done.length - (pre.length + 1) = done.length := by omega
    rw [hf, wipeA_spec done done.length pre [] (marker :: todo) c' _ _ (by simp) (by omega) (Nat.le_refl _)]
    simp
  · simp only [h, if_false]

theorem wipe_length (st : Nat) (l : List Item) : (wipe st l).1.length = l.length := by
  induction l with
  | nil => rfl
  | cons k ks ih => unfold wipe; split <;> simp [ih]

theorem scan_length : ∀ (todo : List Item) (cur : Item) (done : List Item) (m : Nat),
    (scan cur done todo m).2.1.length = done.length + todo.length := by
  intro todo
  induction todo with
  | nil => intro cur done m; simp [scan]
  | cons x t ih =>
    intro cur done m
    unfold scan
    split
    · rw [ih]; simp; omega
    · split
      · rw [ih]; simp [wipe_length]; omega
      · rw [ih]; simp; omega

theorem scan_acc : ∀ (todo : List Item) (cur : Item) (done : List Item) (m : Nat),
    scan cur done todo m = ((scan cur done todo 0).1, (scan cur done todo 0).2.1, m + (scan cur done todo 0).2.2) := by
  intro todo
  induction todo with
  | nil => intro cur done m; simp [scan]
  | cons x t ih =>
    intro cur done m
    unfold scan
    split
    · exact ih _ _ _
    · split
      · rw [ih _ _ (m + 1 + _), ih _ _ (0 + 1 + _)]
        simp only [Prod.mk.injEq, true_and]; omega
      · exact ih _ _ _

theorem innerA_spec : ∀ (todo : List Item) (fuel : Nat) (pre : List Item) (cur : Item) (done : List Item),
    todo.length ≤ fuel →
    innerA fuel (pre ++ cur :: done ++ todo) pre.length (pre.length + 1 + done.length) =
      (pre ++ (scan cur done todo 0).1 :: (scan cur done todo 0).2.1, (scan cur done todo 0).2.2) := by
  intro todo
  induction todo with
  | nil =>
    intro fuel pre cur done _
    have : ¬ (pre.length + 1 + done.length < (pre ++ cur :: done ++ []).length) := by simp; omega
    cases fuel with
    | zero => simp [innerA, scan]
    | succ n => unfold innerA; simp only [this, if_false]; simp [scan]
  | cons x t ih =>
    intro fuel pre cur done hf
    simp only [List.length_cons] at hf
    cases fuel with
    | zero => omega
    | succ fuel =>
      have hlt : pre.length + 1 + done.length < (pre ++ cur :: done ++ x :: t).length := by simp; omega
      have gi : getI (pre ++ cur :: done ++ x :: t) pre.length = cur := by
        have : pre ++ cur :: done ++ x :: t = pre ++ cur :: (done ++ x :: t) := by simp
        rw [this]; exact getI_mid _ _ _
      have gj : getI (pre ++ cur :: done ++ x :: t) (pre.length + 1 + done.length) = x := by
        have : pre ++ cur :: done ++ x :: t = (pre ++ cur :: done) ++ x :: t := by simp
        rw [this]; exact getI_at _ _ _ _ (by simp; omega)
      have hnext : ∀ (c y : Item) (d : List Item), d.length = done.length →
          innerA fuel (pre ++ c :: (d ++ [y]) ++ t) pre.length (pre.length + 1 + done.length + 1) =
            (pre ++ (scan c (d ++ [y]) t 0).1 :: (scan c (d ++ [y]) t 0).2.1, (scan c (d ++ [y]) t 0).2.2) := by
        intro c y d hd
        have := ih fuel pre c (d ++ [y]) (by omega)
        simp only [List.length_append, List.length_singleton, hd] at this
        exact this
      unfold innerA scan
      simp only [hlt, if_true, gj]
      by_cases h1 : (x.2 == 0) = true
      · simp only [h1, if_true]
        have := hnext cur x done rfl
        have e : pre ++ cur :: (done ++ [x]) ++ t = pre ++ cur :: done ++ x :: t := by simp
        rw [e] at this; exact this
      · simp only [h1, Bool.false_eq_true, if_false]
        rw [checkMergeA_spec]
        by_cases h2 : x.2 ≥ cur.1
        · simp only [h2, if_true]
          have := hnext (x.1, if x.2 ≥ cur.2 then x.2 else cur.2) marker (wipe x.1 done).1 (wipe_length x.1 done)
          rw [this, scan_acc _ _ _ (0 + 1 + (wipe x.1 done).2)]
          simp only [Prod.mk.injEq, true_and]; omega
        · simp only [h2, if_false]
          have := hnext cur x done rfl
          have e : pre ++ cur :: (done ++ [x]) ++ t = pre ++ cur :: done ++ x :: t := by simp
          rw [e] at this; rw [this]; simp

theorem mergeFrom_nil (f : Nat) : mergeFrom f [] = ([], 0) := by cases f <;> rfl

theorem outerA_spec : ∀ (fuel : Nat) (pre l : List Item), l.length ≤ fuel →
    outerA fuel (pre ++ l) pre.length = (pre ++ (mergeFrom fuel l).1, (mergeFrom fuel l).2) := by
  intro fuel
  induction fuel with
  | zero =>
    intro pre l hl
    have : l = [] := List.eq_nil_of_length_eq_zero (by omega)
    subst this; simp [outerA, mergeFrom]
  | succ fuel ih =>
    intro pre l hl
    cases l with
    | nil =>
      have : ¬ (pre.length + 1 < (pre ++ []).length) := by simp
      unfold outerA; simp only [this, if_false, mergeFrom_nil]
    | cons cur rest =>
      simp only [List.length_cons] at hl
      have gi : getI (pre ++ cur :: rest) pre.length = cur := getI_mid _ _ _
      cases rest with
      | nil =>
        have : ¬ (pre.length + 1 < (pre ++ [cur]).length) := by simp
        unfold outerA mergeFrom
        simp only [this, if_false, mergeFrom_nil, scan]
        split <;> rfl
      | cons x r =>
        have hg : pre.length + 1 < (pre ++ cur :: x :: r).length := by simp
        unfold outerA mergeFrom
        simp only [hg, if_true, gi]
        by_cases hm : isMarkEnd cur.2 = true
        · simp only [hm, if_true]
          have := ih (pre ++ [cur]) (x :: r) (by simpa using hl)
          simp only [List.length_append, List.length_singleton, List.append_assoc, List.singleton_append] at this
          rw [this]
        · simp only [hm, Bool.false_eq_true, if_false]
          have hin := innerA_spec (x :: r) (pre ++ cur :: x :: r).length pre cur [] (by simp; omega)
          simp only [List.length_nil, Nat.add_zero] at hin
          have e : pre ++ cur :: [] ++ x :: r = pre ++ cur :: x :: r := by simp
          rw [e] at hin
          rw [hin]
          simp only []
          have hlen := scan_length (x :: r) cur [] 0
          simp only [List.length_nil, Nat.zero_add, List.length_cons] at hlen hl
          have := ih (pre ++ [(scan cur [] (x :: r) 0).1]) (scan cur [] (x :: r) 0).2.1 (by omega)
          simp only [List.length_append, List.length_singleton, List.append_assoc, List.singleton_append] at this
          rw [this]

theorem mergeItemsA_eq' (a : List Item) : mergeItemsA a = mergeItems a := by
  unfold mergeItemsA mergeItems
  have := outerA_spec a.length [] a (Nat.le_refl _)
  simpa using this

/-! ### `Sort()` on an already sorted and merged table changes nothing -/

theorem scan_noop : ∀ (todo : List Item) (cur : Item) (done : List Item) (m : Nat),
    (∀ x ∈ todo, x.2 ≠ 0 ∧ x.2 < cur.1) → scan cur done todo m = (cur, done ++ todo, m) := by
  intro todo
  induction todo with
  | nil => intro cur done m _; simp [scan]
  | cons x t ih =>
    intro cur done m h
    have hx := h x (by simp)
    unfold scan
    have h1 : (x.2 == 0) = false := by simp [hx.1]
    have h2 : ¬ x.2 ≥ cur.1 := by omega
    simp only [h1, Bool.false_eq_true, if_false, h2]
    rw [ih cur (done ++ [x]) m (fun y hy => h y (by simp [hy]))]
    simp

theorem mergeFrom_noop : ∀ (fuel : Nat) (l : List Item), l.length ≤ fuel → (∀ a ∈ l, Good a) →
    l.Pairwise (fun a b => b.2 < a.1) → mergeFrom fuel l = (l, 0) := by
  intro fuel
  induction fuel with
  | zero => intro l _ _ _; rfl
  | succ fuel ih =>
    intro l hl hg hs
    cases l with
    | nil => rfl
    | cons cur rest =>
      rw [List.pairwise_cons] at hs
      simp only [List.length_cons] at hl
      have hc := hg cur (by simp)
      unfold Good at hc
      have hm : isMarkEnd cur.2 = false := by unfold isMarkEnd; simp; omega
      unfold mergeFrom
      simp only [hm, Bool.false_eq_true, if_false]
      have hsc : scan cur [] rest 0 = (cur, rest, 0) := by
        have := scan_noop rest cur [] 0 (fun x hx => by
          have gx := hg x (by simp [hx]); unfold Good at gx
          exact ⟨by omega, hs.1 x hx⟩)
        simpa using this
      rw [hsc]
      simp only []
      rw [ih rest (by omega) (fun a ha => hg a (by simp [ha])) hs.2]
      simp

theorem strict_of_table {t : List Item} (hg : ∀ a ∈ t, Good a) (hs : t.Pairwise (fun a b => b.1 ≤ a.1))
    (hd : t.Pairwise Dis) : t.Pairwise (fun a b => b.2 < a.1) := by
  refine List.Pairwise.imp_of_mem ?_ (hs.and hd)
  intro a b ha hb h
  have ga := hg a ha; have gb := hg b hb
  have na := good_ne_marker ga; have nb := good_ne_marker gb
  unfold Good at ga gb
  rcases h.2 with h' | h' | h' | h'
  · exact absurd h' na
  · exact absurd h' nb
  · exact h'
  · have := h.1; omega

theorem pairwise_mem_cases {α : Type} {R : α → α → Prop} : ∀ {l : List α}, l.Pairwise R → ∀ a ∈ l, ∀ b ∈ l,
    a = b ∨ R a b ∨ R b a := by
  intro l
  induction l with
  | nil => intro _ a ha; simp at ha
  | cons x t ih =>
    intro h a ha b hb
    rw [List.pairwise_cons] at h
    simp only [List.mem_cons] at ha hb
    rcases ha with ha | ha <;> rcases hb with hb | hb
    · exact Or.inl (ha.trans hb.symm)
    · subst ha; exact Or.inr (Or.inl (h.1 b hb))
    · subst hb; exact Or.inr (Or.inr (h.1 a ha))
    · exact ih h.2 a ha b hb

/-- an admissible sort cannot reorder a table whose starts are strictly descending -/
theorem sort_fixes_strict {sort : List Item → List Item} (hsort : IsSort sort) {t : List Item}
    (hg : ∀ a ∈ t, Good a) (hst : t.Pairwise (fun a b => b.2 < a.1)) : sort t = t := by
  obtain ⟨p, s⟩ := hsort t
  have hs' : t.Pairwise (fun a b => b.1 ≤ a.1) := by
    refine List.Pairwise.imp_of_mem ?_ hst
    intro a b _ hb h
    have gb := hg b hb; unfold Good at gb; omega
  refine List.Perm.eq_of_pairwise ?_ s hs' p
  intro a b ha hb h1 h2
  have ha' := p.mem_iff.mp ha
  rcases pairwise_mem_cases hst a ha' b hb with e | h | h
  · exact e
  · have gb := hg b hb; unfold Good at gb; omega
  · have ga := hg a ha'; unfold Good at ga; omega

theorem sortTable_idem (sort1 sort2 sort3 sort4 : List Item → List Item) (h1 : IsSort sort1) (h2 : IsSort sort2)
    (h3 : IsSort sort3) (h4 : IsSort sort4) (l : List Item) (hg : ∀ a ∈ l, Good a) :
    sortTable sort3 sort4 (sortTable sort1 sort2 l) = sortTable sort1 sort2 l := by
  obtain ⟨t1, t2, t3, _⟩ := table_spec sort1 sort2 h1 h2 l hg
  have hst := strict_of_table t1 t2 t3
  generalize sortTable sort1 sort2 l = t at *
  unfold sortTable mergeItems
  simp only []
  rw [sort_fixes_strict h3 t1 hst, mergeFrom_noop t.length t (Nat.le_refl _) t1 hst]
  simp only [Nat.sub_zero]
  rw [sort_fixes_strict h4 t1 hst, List.take_length]

end BfeVerif.C19
