import BfeVerif.C19.Proofs
/-!
  C19 — IP dictionaries report exact membership.  Property theorems only (lemmas are in `Proofs.lean`).

  `search singles (sortTable sort1 sort2 ranges) ip` is the model of
  `InsertPair*; InsertSingle*; Sort(); IPTable.Search(ip)`; `ranges` are the pairs accepted by `InsertPair`
  (16-byte values, start ≤ end), `sort1`/`sort2` the two `sort.Sort` calls.
-/
namespace BfeVerif.C19

/-- every loaded pair was accepted by `checkIPPair` -/
def Valid (ranges : List Item) : Prop := ∀ r ∈ ranges, r.1 ≤ r.2

/-- no loaded pair can be confused with the deletion marker of `mergeItems`:
    it does not start at `::` and does not end at `0.0.0.0` (= `::ffff:0.0.0.0`). -/
def NoMarkerClash (ranges : List Item) : Prop := ∀ r ∈ ranges, r.1 ≠ 0 ∧ r.2 ≠ v4zero

instance (l : List Item) : Decidable (Valid l) := by unfold Valid; infer_instance
instance (l : List Item) : Decidable (NoMarkerClash l) := by unfold NoMarkerClash; infer_instance

/-- **C19 at full strength** (false for the code as it is — see the two witnesses below):
    for every admissible behaviour of the two `sort.Sort` calls and every accepted multiset of pairs,
    `Search` answers exactly "is a loaded single address or lies in a loaded range". -/
def ExactMembership : Prop :=
  ∀ sort1 sort2, IsSort sort1 → IsSort sort2 → ∀ (ranges : List Item) (singles : List Nat) (ip : Nat),
    Valid ranges → (search singles (sortTable sort1 sort2 ranges) ip = true ↔ ip ∈ singles ∨ InUnion ranges ip)

/-- The provable part: exact membership whenever no loaded range starts at `::` or ends at `0.0.0.0`;
    any overlap / nesting / chaining / duplicate pattern, any admissible tie-breaking of both sorts,
    any number of ranges, any probe. -/
theorem C19_exact_partial (sort1 sort2 : List Item → List Item) (h1 : IsSort sort1) (h2 : IsSort sort2)
    (ranges : List Item) (singles : List Nat) (ip : Nat) (hv : Valid ranges) (hn : NoMarkerClash ranges) :
    search singles (sortTable sort1 sort2 ranges) ip = true ↔ ip ∈ singles ∨ InUnion ranges ip := by
  have hg : ∀ a ∈ ranges, Good a := fun a ha => ⟨Nat.pos_of_ne_zero (hn a ha).1, hv a ha, (hn a ha).2⟩
  obtain ⟨t1, t2, t3, t4⟩ := table_spec sort1 sort2 h1 h2 ranges hg
  unfold search
  by_cases hs : singles.contains ip = true
  · simp only [hs, if_true, true_iff]
    exact Or.inl (List.contains_iff_mem.mp hs)
  · simp only [hs, Bool.false_eq_true, if_false]
    rw [searchTable_iff _ t1 t2 t3, t4]
    constructor
    · exact fun h => Or.inr h
    · rintro (h | h)
      · exact absurd (List.contains_iff_mem.mpr h) hs
      · exact h

/-- The same in the form the driver's oracle uses: the model's answer equals the executable specification. -/
theorem C19_search_eq_spec_partial (sort1 sort2 : List Item → List Item) (h1 : IsSort sort1) (h2 : IsSort sort2)
    (ranges : List Item) (singles : List Nat) (ip : Nat) (hv : Valid ranges) (hn : NoMarkerClash ranges) :
    search singles (sortTable sort1 sort2 ranges) ip = specSearch singles ranges ip := by
  have h := C19_exact_partial sort1 sort2 h1 h2 ranges singles ip hv hn
  have hs : specSearch singles ranges ip = true ↔ ip ∈ singles ∨ InUnion ranges ip := by
    unfold specSearch inUnionB InUnion
    simp only [Bool.or_eq_true, List.contains_iff_mem, List.any_eq_true, Bool.and_eq_true, decide_eq_true_eq]
  cases hb : search singles (sortTable sort1 sort2 ranges) ip <;> cases hc : specSearch singles ranges ip <;> simp_all

/-- What `Sort()` leaves in the table (same hypotheses): only real entries, descending starts, pairwise disjoint,
    covering exactly the union of the loaded ranges — in particular nothing is lost by the reslice. -/
theorem C19_table_invariants_partial (sort1 sort2 : List Item → List Item) (h1 : IsSort sort1) (h2 : IsSort sort2)
    (ranges : List Item) (hv : Valid ranges) (hn : NoMarkerClash ranges) :
    (∀ a ∈ sortTable sort1 sort2 ranges, 0 < a.1 ∧ a.1 ≤ a.2) ∧
    (sortTable sort1 sort2 ranges).Pairwise (fun a b => b.1 ≤ a.1 ∧ (b.2 < a.1 ∨ a.2 < b.1)) ∧
    ∀ x, (∃ a ∈ sortTable sort1 sort2 ranges, a.1 ≤ x ∧ x ≤ a.2) ↔ InUnion ranges x := by
  have hg : ∀ a ∈ ranges, Good a := fun a ha => ⟨Nat.pos_of_ne_zero (hn a ha).1, hv a ha, (hn a ha).2⟩
  obtain ⟨t1, t2, t3, t4⟩ := table_spec sort1 sort2 h1 h2 ranges hg
  refine ⟨fun a ha => ⟨(t1 a ha).1, (t1 a ha).2.1⟩, ?_, t4⟩
  have := t2.and t3
  refine List.Pairwise.imp_of_mem ?_ this
  intro a b ha hb h
  refine ⟨h.1, ?_⟩
  have ga := good_ne_marker (t1 a ha)
  have gb := good_ne_marker (t1 b hb)
  rcases h.2 with h' | h' | h' | h'
  · exact absurd h' ga
  · exact absurd h' gb
  · exact Or.inl h'
  · exact Or.inr h'

/-- The list-traversal `mergeItems` used above computes exactly what the index-based, in-place array loops of
    `mergeItems`/`checkMerge` compute (`mergeItemsA`: `for i`, `for j`, `for k` with `items[i] = …` updates),
    for every array — so all theorems here are theorems about the array version. -/
theorem C19_merge_array_eq (a : List Item) : mergeItemsA a = mergeItems a := mergeItemsA_eq' a

/-- `sort.Search` (binary search) returns the first index at which a monotone predicate holds. -/
theorem C19_goSearch_first (f : Nat → Bool) (n : Nat) (hmono : ∀ i j, i ≤ j → j < n → f i = true → f j = true) :
    goSearch n f ≤ n ∧ (∀ k, k < goSearch n f → f k = false) ∧ (goSearch n f < n → f (goSearch n f) = true) :=
  goSearch_spec f n hmono

/-- Go's insertion sort with the non-strict `Less` (what `sort.Sort` runs for n ≤ 12) is an admissible sort:
    the hypotheses `IsSort` of the theorems above are satisfiable, and the witnesses below use the order Go really produces. -/
theorem C19_goSort_admissible : IsSort goSort := goSort_isSort

/-- **Witness 1** (`zero-start`): ranges `{::–::5, ::–::a}`; the merged entry `::–::a` ties with the deletion marker in the
    second sort, Go's order puts the marker first, the reslice keeps the marker and drops the entry: `::5` is not found. -/
theorem C19_witness_zero_start : ¬ ExactMembership := by
  intro h
  have := (h goSort goSort goSort_isSort goSort_isSort [(0, 5), (0, 10)] [] 5 (by decide)).mpr
    (Or.inr ⟨(0, 5), by decide, by decide, by decide⟩)
  revert this; decide

/-- **Witness 2** (`v4zero-end`): ranges `{0.0.0.0–0.0.0.0, ::1–2001::}`; the first is taken for a marker (its end
    `Equal(net.IPv4zero)`), is never merged into the second, stays in the table and shadows it: `0.0.0.1` is not found. -/
theorem C19_witness_v4zero_end :
    Valid [(v4zero, v4zero), (1, 0x20010000000000000000000000000000)] ∧
    InUnion [(v4zero, v4zero), (1, 0x20010000000000000000000000000000)] (v4zero + 1) ∧
    search [] (sortTable goSort goSort [(v4zero, v4zero), (1, 0x20010000000000000000000000000000)]) (v4zero + 1) = false := by
  refine ⟨by decide, ⟨(1, 0x20010000000000000000000000000000), by decide, by decide, by decide⟩, by decide⟩

/-- Witness 2 with IPv4 addresses only: `{0.0.0.0–0.0.0.1, 0.0.0.0–0.0.0.0, 0.0.0.1–0.0.0.1}` (in this insertion order)
    leaves `[0.0.0.0–0.0.0.0, 0.0.0.0–0.0.0.1]` in the table and `0.0.0.1` is not found. -/
theorem C19_witness_v4zero_end_ipv4 :
    sortTable goSort goSort [(v4zero, v4zero + 1), (v4zero, v4zero), (v4zero + 1, v4zero + 1)] =
      [(v4zero, v4zero), (v4zero, v4zero + 1)] ∧
    search [] (sortTable goSort goSort [(v4zero, v4zero + 1), (v4zero, v4zero), (v4zero + 1, v4zero + 1)]) (v4zero + 1) = false ∧
    specSearch [] [(v4zero, v4zero + 1), (v4zero, v4zero), (v4zero + 1, v4zero + 1)] (v4zero + 1) = true := by
  decide

/-- The table of witness 1 after `Sort()` is just the marker. -/
theorem C19_witness_zero_start_table : sortTable goSort goSort [(0, 5), (0, 10)] = [marker] := by decide

/-! Non-vacuity: nested, chained, duplicate and touching ranges satisfy the hypotheses, and the theorem's answer on
    them is the non-trivial one (three input ranges collapse into one entry). -/
example : Valid [(10, 20), (15, 30), (12, 13), (30, 31), (40, 41), (10, 20)] ∧
    NoMarkerClash [(10, 20), (15, 30), (12, 13), (30, 31), (40, 41), (10, 20)] := by decide
example : sortTable goSort goSort [(10, 20), (15, 30), (12, 13), (30, 31), (40, 41), (10, 20)] = [(40, 41), (10, 31)] := by
  decide

end BfeVerif.C19
