import BfeVerif.C19.Proofs
/-!
  C19 — IP dictionaries report exact membership.  Property theorems only (lemmas are in `Proofs.lean`).
  The model mirrors the code after fixes/C19-nil-marker.md (deleted slots of `mergeItems` are `(nil, nil)`).

  `search singles (sortTable sort1 sort2 table) ip` is the model of
  `InsertPair*; InsertSingle*; Sort(); IPTable.Search(ip)`; `sort1`/`sort2` are the two `sort.Sort` calls.
  Table values are IP *codes* (`0` = nil, `encIP v = v + 1` = the 16-byte IP with value `v`), see `Model.lean`.
-/
namespace BfeVerif.C19

/-- every loaded pair was accepted by `checkIPPair` (raw 16-byte values, start ≤ end) -/
def Valid (ranges : List Item) : Prop := ∀ r ∈ ranges, r.1 ≤ r.2

/-- what `InsertPair` stores for an accepted pair -/
def encRange (r : Item) : Item := (encIP r.1, encIP r.2)

instance (l : List Item) : Decidable (Valid l) := by unfold Valid; infer_instance

/-- **C19 (full strength)**: for every admissible behaviour of the two `sort.Sort` calls, every multiset of accepted
    ranges (any overlap / nesting / chaining / duplicates, IPv4-mapped or IPv6, starting at `::` or equal to
    `0.0.0.0–0.0.0.0` included), every list of single addresses and every probe address, `Search` answers true
    exactly when the probe is a loaded single address or lies in a loaded range, bounds included. -/
theorem C19_exact (sort1 sort2 : List Item → List Item) (h1 : IsSort sort1) (h2 : IsSort sort2)
    (ranges : List Item) (singles : List Nat) (ip : Nat) (hv : Valid ranges) :
    search (singles.map encIP) (sortTable sort1 sort2 (ranges.map encRange)) (encIP ip) = true ↔
      ip ∈ singles ∨ InUnion ranges ip := by
  have hg : ∀ a ∈ ranges.map encRange, Good a := by
    intro a ha
    obtain ⟨r, hr, rfl⟩ := List.mem_map.mp ha
    have := hv r hr
    unfold Good encRange encIP; simp only; omega
  obtain ⟨t1, t2, t3, t4⟩ := table_spec sort1 sort2 h1 h2 _ hg
  have hcov : Cov (ranges.map encRange) (encIP ip) ↔ InUnion ranges ip := by
    unfold Cov InUnion
    constructor
    · rintro ⟨a, ha, h⟩
      obtain ⟨r, hr, rfl⟩ := List.mem_map.mp ha
      unfold encRange encIP at h; simp only at h
      exact ⟨r, hr, by omega, by omega⟩
    · rintro ⟨r, hr, h⟩
      exact ⟨encRange r, List.mem_map.mpr ⟨r, hr, rfl⟩, by unfold encRange encIP; simp only; omega⟩
  have hsg : (singles.map encIP).contains (encIP ip) = true ↔ ip ∈ singles := by
    rw [List.contains_iff_mem, List.mem_map]
    constructor
    · rintro ⟨v, hv', e⟩
      unfold encIP at e
      have : v = ip := by omega
      subst this; exact hv'
    · intro h; exact ⟨ip, h, rfl⟩
  unfold search
  by_cases hs : (singles.map encIP).contains (encIP ip) = true
  · simp only [hs, if_true, true_iff]
    exact Or.inl (hsg.mp hs)
  · simp only [hs, Bool.false_eq_true, if_false]
    rw [searchTable_iff _ t1 t2 t3, t4, hcov]
    constructor
    · exact fun h => Or.inr h
    · rintro (h | h)
      · exact absurd (hsg.mpr h) hs
      · exact h

/-- The same at the level of the stored codes, in the form the driver's oracle uses: for any table content made of
    non-nil IPs with start ≤ end, the model's answer equals the executable specification. -/
theorem C19_search_eq_spec (sort1 sort2 : List Item → List Item) (h1 : IsSort sort1) (h2 : IsSort sort2)
    (stored : List Item) (singles : List Nat) (ip : Nat) (hv : ∀ r ∈ stored, 0 < r.1 ∧ r.1 ≤ r.2) :
    search singles (sortTable sort1 sort2 stored) ip = specSearch singles stored ip := by
  obtain ⟨t1, t2, t3, t4⟩ := table_spec sort1 sort2 h1 h2 stored hv
  have hs : specSearch singles stored ip = true ↔ ip ∈ singles ∨ Cov stored ip := by
    unfold specSearch inUnionB Cov
    simp only [Bool.or_eq_true, List.contains_iff_mem, List.any_eq_true, Bool.and_eq_true, decide_eq_true_eq]
  have hm : search singles (sortTable sort1 sort2 stored) ip = true ↔ ip ∈ singles ∨ Cov stored ip := by
    unfold search
    by_cases hc : singles.contains ip = true
    · simp only [hc, if_true, true_iff]; exact Or.inl (List.contains_iff_mem.mp hc)
    · simp only [hc, Bool.false_eq_true, if_false]
      rw [searchTable_iff _ t1 t2 t3, t4]
      constructor
      · exact fun h => Or.inr h
      · rintro (h | h)
        · exact absurd (List.contains_iff_mem.mpr h) hc
        · exact h
  cases hb : search singles (sortTable sort1 sort2 stored) ip <;> cases hc : specSearch singles stored ip <;> simp_all

/-- `InsertPair` stores exactly such entries: an accepted pair consists of two non-nil IPs with start ≤ end. -/
theorem C19_insertPair_stored (s e : Option Nat) (r : Item) (h : insertPair s e = some r) : 0 < r.1 ∧ r.1 ≤ r.2 := by
  unfold insertPair at h
  split at h
  · split at h
    · simp at h
    · split at h
      · simp at h
      · simp only [Option.some.injEq] at h
        subst h; unfold encIP; simp only; omega
  · simp at h

/-- What `Sort()` leaves in the table: only real entries (no deleted slot survives the reslice, no real entry is cut),
    descending starts, pairwise disjoint, covering exactly the union of the loaded ranges. -/
theorem C19_table_invariants (sort1 sort2 : List Item → List Item) (h1 : IsSort sort1) (h2 : IsSort sort2)
    (stored : List Item) (hv : ∀ r ∈ stored, 0 < r.1 ∧ r.1 ≤ r.2) :
    (∀ a ∈ sortTable sort1 sort2 stored, 0 < a.1 ∧ a.1 ≤ a.2) ∧
    (sortTable sort1 sort2 stored).Pairwise (fun a b => b.1 ≤ a.1 ∧ (b.2 < a.1 ∨ a.2 < b.1)) ∧
    ∀ x, (∃ a ∈ sortTable sort1 sort2 stored, a.1 ≤ x ∧ x ≤ a.2) ↔ InUnion stored x := by
  obtain ⟨t1, t2, t3, t4⟩ := table_spec sort1 sort2 h1 h2 stored hv
  refine ⟨t1, ?_, t4⟩
  have := t2.and t3
  refine List.Pairwise.imp_of_mem ?_ this
  intro a b ha hb h
  refine ⟨h.1, ?_⟩
  have ga := good_ne_marker (t1 a ha)
  have gb := good_ne_marker (t1 b hb)
  rcases h.2 with h' | h' | h' | h'
  · exact absurd h' ga
  · exact absurd h' gb
  · exact Or.inl h'
  · exact Or.inr h'

/-- **`Sort()` is idempotent**: calling `Sort()` again on a sorted table (any admissible behaviour of the two further
    `sort.Sort` calls) returns exactly the same table — nothing is merged, cut or reordered. -/
theorem C19_sort_idempotent (sort1 sort2 sort3 sort4 : List Item → List Item) (h1 : IsSort sort1) (h2 : IsSort sort2)
    (h3 : IsSort sort3) (h4 : IsSort sort4) (stored : List Item) (hv : ∀ r ∈ stored, 0 < r.1 ∧ r.1 ≤ r.2) :
    sortTable sort3 sort4 (sortTable sort1 sort2 stored) = sortTable sort1 sort2 stored :=
  sortTable_idem sort1 sort2 sort3 sort4 h1 h2 h3 h4 stored hv

/-! ### `IPTable.Update` histories -/

/-- **`Update` replaces**: after any history of `Update` calls (any previous tables, nil included, any version strings —
    equal, different or empty), the table in service is exactly the `IPItems` of the last call. -/
theorem C19_update_replaces (t0 : IPTableM) (hist : List (Option IPItemsM)) (x : Option IPItemsM) :
    t0.updates (hist ++ [x]) = x := by
  unfold IPTableM.updates
  rw [List.foldl_append]
  rfl

/-- Consequently `Search` and `Version` after `…; Update(X)` are those of `X`, independent of everything before. -/
theorem C19_update_forgets (t0 t1 : IPTableM) (h0 h1 : List (Option IPItemsM)) (x : Option IPItemsM) (ip : Option Nat) :
    (t0.updates (h0 ++ [x])).search ip = (t1.updates (h1 ++ [x])).search ip ∧
    (t0.updates (h0 ++ [x])).version = (t1.updates (h1 ++ [x])).version := by
  rw [C19_update_replaces, C19_update_replaces]; exact ⟨rfl, rfl⟩

/-- **Exact membership after an update history**: whatever was loaded before, after `Update(X)` with `X` built from the
    accepted `ranges` and `singles` (any version string), `Search(ip)` is true exactly when `ip` is one of X's single
    addresses or lies in one of X's ranges. -/
theorem C19_update_exact (sort1 sort2 : List Item → List Item) (h1 : IsSort sort1) (h2 : IsSort sort2)
    (t0 : IPTableM) (hist : List (Option IPItemsM)) (ranges : List Item) (singles : List Nat) (ver : String)
    (ip : Nat) (hv : Valid ranges) :
    (t0.updates (hist ++ [some ⟨singles.map encIP, sortTable sort1 sort2 (ranges.map encRange), ver⟩])).search
        (some (encIP ip)) = true ↔ ip ∈ singles ∨ InUnion ranges ip := by
  rw [C19_update_replaces]
  exact C19_exact sort1 sort2 h1 h2 ranges singles ip hv

/-- after `Update(nil)` nothing is reported and the version is empty; an address without a 16-byte form is never reported -/
theorem C19_update_nil (t0 : IPTableM) (hist : List (Option IPItemsM)) (ip : Option Nat) :
    (t0.updates (hist ++ [none])).search ip = false ∧ (t0.updates (hist ++ [none])).version = "" ∧
    ∀ t : IPTableM, t.search none = false := by
  rw [C19_update_replaces]
  refine ⟨rfl, rfl, fun t => ?_⟩
  cases t <;> rfl

/-- **Swap while searching**: `Search` reads `t.ipItems` once (under the lock) and answers from that snapshot, so with
    updates that only ever install `a` or `b` (in any order, any number of times, starting from one of them) every
    answer — whenever the snapshot is taken — is `a`'s answer or `b`'s answer, never a mixture. -/
theorem C19_swap_answers (a b : Option IPItemsM) (t0 : IPTableM) (ht : t0 = a ∨ t0 = b)
    (hist : List (Option IPItemsM)) (hh : ∀ x ∈ hist, x = a ∨ x = b) (ip : Option Nat) :
    (t0.updates hist).search ip = IPTableM.search a ip ∨ (t0.updates hist).search ip = IPTableM.search b ip := by
  have key : t0.updates hist = a ∨ t0.updates hist = b := by
    induction hist generalizing t0 with
    | nil => exact ht
    | cons x r ih =>
      unfold IPTableM.updates
      simp only [List.foldl_cons]
      exact ih (IPTableM.update t0 x) (hh x (by simp)) (fun y hy => hh y (by simp [hy]))
  rcases key with e | e <;> rw [e]
  · exact Or.inl rfl
  · exact Or.inr rfl

/-- the reload gate of `txt_load.CheckAndLoad`: a file is skipped exactly when its version is non-empty and equal to
    the version in service (a file without version is always reloaded) -/
theorem C19_reload_gate (cur new : String) : needLoad cur new = false ↔ (new = cur ∧ new ≠ "") := by
  unfold needLoad
  simp

/-- The list-traversal `mergeItems` used above computes exactly what the index-based, in-place array loops of
    `mergeItems`/`checkMerge` compute (`mergeItemsA`: `for i`, `for j`, `for k` with `items[i] = …` updates),
    for every array — so all theorems here are theorems about the array version. -/
theorem C19_merge_array_eq (a : List Item) : mergeItemsA a = mergeItems a := mergeItemsA_eq' a

/-- `sort.Search` (binary search) returns the first index at which a monotone predicate holds. -/
theorem C19_goSearch_first (f : Nat → Bool) (n : Nat) (hmono : ∀ i j, i ≤ j → j < n → f i = true → f j = true) :
    goSearch n f ≤ n ∧ (∀ k, k < goSearch n f → f k = false) ∧ (goSearch n f < n → f (goSearch n f) = true) :=
  goSearch_spec f n hmono

/-- Go's insertion sort with the non-strict `Less` (what `sort.Sort` runs for n ≤ 12) is an admissible sort:
    the hypotheses `IsSort` of the theorems above are satisfiable. -/
theorem C19_goSort_admissible : IsSort goSort := goSort_isSort

/-! The former witnesses (inputs on which the unfixed `Sort()` lost entries), with Go's own tie order. -/

/-- former `zero-start` witness `{::–::5, ::–::a}`: the table is now `[::–::a]` and `::5` is found
    (before the fix the table was just the `::/::` marker). -/
theorem C19_former_witness_zero_start :
    sortTable goSort goSort ([(0, 5), (0, 10)].map encRange) = [encRange (0, 10)] ∧
    search [] (sortTable goSort goSort ([(0, 5), (0, 10)].map encRange)) (encIP 5) = true := by decide

/-- former `v4zero-end` witness `{0.0.0.0–0.0.0.0, ::1–2001::}`: merged into one entry, `0.0.0.1` is found. -/
theorem C19_former_witness_v4zero_end :
    sortTable goSort goSort ([(v4zero, v4zero), (1, 0x20010000000000000000000000000000)].map encRange) =
      [encRange (1, 0x20010000000000000000000000000000)] ∧
    search [] (sortTable goSort goSort ([(v4zero, v4zero), (1, 0x20010000000000000000000000000000)].map encRange))
      (encIP (v4zero + 1)) = true := by decide

/-- former IPv4-only witness `{0.0.0.0–0.0.0.1, 0.0.0.0–0.0.0.0, 0.0.0.1–0.0.0.1}` -/
theorem C19_former_witness_v4zero_end_ipv4 :
    sortTable goSort goSort ([(v4zero, v4zero + 1), (v4zero, v4zero), (v4zero + 1, v4zero + 1)].map encRange) =
      [encRange (v4zero, v4zero + 1)] ∧
    search [] (sortTable goSort goSort ([(v4zero, v4zero + 1), (v4zero, v4zero), (v4zero + 1, v4zero + 1)].map encRange))
      (encIP (v4zero + 1)) = true := by decide

/-! Non-vacuity: nested, chained, duplicate, touching ranges and a range `::–::` satisfy the hypothesis, and the
    answer on them is the non-trivial one (several input ranges collapse into one entry, `::–::` is kept). -/
example : (IPTableM.updates none [some ⟨[], [(1, 2)], "1"⟩, some ⟨[], [(5, 6)], "1"⟩]).search (some 5) = true ∧
    (IPTableM.updates none [some ⟨[], [(1, 2)], "1"⟩, some ⟨[], [(5, 6)], "1"⟩]).search (some 1) = false := by decide
example : Valid [(10, 20), (15, 30), (12, 13), (30, 31), (40, 41), (10, 20), (0, 0)] := by decide
example : sortTable goSort goSort ([(10, 20), (15, 30), (12, 13), (30, 31), (40, 41), (10, 20), (0, 0)].map encRange) =
    [encRange (40, 41), encRange (10, 31), encRange (0, 0)] := by decide

end BfeVerif.C19
