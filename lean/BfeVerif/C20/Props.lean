import BfeVerif.C20.Proofs
/-!
  C20 — the hash set behaves as a bounded set.  Property theorems only (lemmas are in `Proofs.lean`).

  `runOps hash s0 ops` is the model of a whole history of `Add/Remove/Exist/Len/Full` calls on the `HashSet`
  created by `NewHashSet(cap, es, fixed, hash)`; `specRun ⟨cap, es, fixed⟩ [] ops` is the same history on a
  mathematical set of keys with capacity `cap` (a duplicate-free list; `Add` refused with an error when the set
  holds `cap` keys, keys of invalid length rejected: length ≠ es for fixed-length sets, > es otherwise).
  `hash` is arbitrary (constant functions included), `cap`, `es`, the history and all keys are arbitrary.
-/
namespace BfeVerif.C20

/-- **C20 (full strength)**: for every hash function, capacity, element size, pool kind and history, every answer
    of the hash set (Add/Remove results, membership, size, fullness) equals the answer of the mathematical bounded set. -/
theorem C20_refines (hash : Key → Nat) (cap es : Nat) (fixed : Bool) (s0 : HS)
    (h : new cap es fixed = some s0) (ops : List Op) :
    runOps hash s0 ops = specRun ⟨cap, es, fixed⟩ [] ops :=
  sim_run ops (R_new hash cap es fixed s0 h)

/-- The abstraction relation (representation invariant `Inv` + "the chains hold exactly the keys of `l`" +
    `len = |l|`) holds initially and is preserved by every operation, with equal answers. -/
theorem C20_inv_preserved (hash : Key → Nat) (c : Cfg) (s : HS) (l : List Key) (h : R hash c s l) (o : Op) :
    (step hash s o).2 = (specStep c l o).2 ∧ R hash c (step hash s o).1 (specStep c l o).1 :=
  sim_step h o

theorem C20_inv_initial (hash : Key → Nat) (cap es : Nat) (fixed : Bool) (s0 : HS) (h : new cap es fixed = some s0) :
    R hash ⟨cap, es, fixed⟩ s0 [] := R_new hash cap es fixed s0 h

/-- membership answers are those of the set -/
theorem C20_exist_iff (hash : Key → Nat) (c : Cfg) (s : HS) (l : List Key) (h : R hash c s l) (k : Key) :
    exist hash s k = true ↔ k ∈ l := h.exist_iff k

/-- `Len()` is the cardinality of the set (the list is duplicate-free) and never exceeds the capacity -/
theorem C20_len_eq_card (hash : Key → Nat) (c : Cfg) (s : HS) (l : List Key) (h : R hash c s l) :
    s.len = l.length ∧ l.Nodup ∧ s.len ≤ c.cap := by
  obtain ⟨ch, fl, hI, hcap, _, _, hnd, hlen, _⟩ := h
  have := hI.count
  exact ⟨hlen, hnd, by omega⟩

/-- adding to a full set fails and leaves the representation untouched -/
theorem C20_full_fails_clean (hash : Key → Nat) (s : HS) (k : Key) (hfull : s.len ≥ s.cap) :
    add hash s k = (s, .errFull) := by
  unfold add; simp [hfull]

/-- keys of invalid length are rejected by every operation, and the representation is untouched -/
theorem C20_invalid_rejected (hash : Key → Nat) (s : HS) (k : Key) (hbad : validKey s.es s.fixed k = false) :
    (s.len < s.cap → add hash s k = (s, .errLen)) ∧ remove hash s k = (s, .errLen) ∧ exist hash s k = false := by
  refine ⟨fun h => ?_, ?_, ?_⟩
  · unfold add; simp [hbad, Nat.not_le.mpr h]
  · unfold remove; simp [hbad]
  · unfold exist; simp [hbad]

/-- which lengths are invalid: for a fixed-length set everything but `es` (the former defect accepted shorter keys) -/
theorem C20_valid_lengths (es : Nat) (k : Key) :
    (validKey es true k = true ↔ k.length = es) ∧ (validKey es false k = true ↔ k.length ≤ es) := by
  unfold validKey
  constructor
  · by_cases h : k.length = es <;> simp [h]
  · simp

/-- Byte pools (`BytePool` / `FixedBytePool`): `Get(i)` after `Set(i, k)` returns exactly `k` … -/
theorem C20_pool_get_set_same (p : FlatPool) (i : Nat) (k : Key) (hi : i < p.lens.length)
    (hfit : i * p.size + k.length ≤ p.buf.length) : (p.set i k).get i = k :=
  pool_get_set_same p i k hi hfit

/-- … and `Set(i, k)` with `len(k) ≤ size` does not disturb any other slot (this is what justifies modelling the
    pool as one byte string per node in `HS.keys`). -/
theorem C20_pool_get_set_other (p : FlatPool) (i j : Nat) (k : Key) (hne : j ≠ i)
    (hk : k.length ≤ p.size) (hj : p.lens.getD j 0 ≤ p.size)
    (hfit : i * p.size + k.length ≤ p.buf.length) : (p.set i k).get j = p.get j :=
  pool_get_set_other p i j k hne hk hj hfit

/-- The pools as the code uses them (`New…Pool`, then any sequence of `Set` calls, failed ones included): a successful
    `Set(i, k)` makes `Get(i) = k` and leaves every other slot's `Get` unchanged; a failed `Set` changes nothing. -/
theorem C20_pool_set_contract (p : FlatPool) (n : Nat) (hI : PoolInv p n) (fixed : Bool) (i : Nat) (k : Key) :
    PoolInv (p.trySet fixed i k).1 n ∧
    ((p.trySet fixed i k).2 = .ok →
      (p.trySet fixed i k).1.get i = k ∧ ∀ j, j ≠ i → (p.trySet fixed i k).1.get j = p.get j) ∧
    ((p.trySet fixed i k).2 ≠ .ok → (p.trySet fixed i k).1 = p) := by
  refine ⟨poolInv_trySet hI fixed i k, fun h => ?_, fun h => ?_⟩
  · obtain ⟨hi, hk, e⟩ := trySet_ok_cond h
    have hfit := fit_of_inv hI (by rw [← hI.2.1]; exact hi) hk
    rw [e]
    exact ⟨pool_get_set_same p i k hi hfit, fun j hj => pool_get_set_other p i j k hj hk (hI.2.2 j) hfit⟩
  · exact trySet_err h

theorem C20_pool_new_inv (n size : Nat) (fixed : Bool) : PoolInv (FlatPool.new n size fixed) n := poolInv_new n size fixed

/-- The former witness: a short key on a fixed-length set is rejected and changes nothing
    (before the fix: `Add` returned nil, `Len()` became 1, `Exist` stayed false). -/
theorem C20_short_key_rejected_example :
    (new 4 4 true).map (fun s => runOps (fun _ => 7) s [.add [1, 2], .len, .ex [1, 2]]) =
      some [.errLen, .nat 0, .bool false] := by
  decide

/-! Non-vacuity: `new` succeeds, and a history with collisions (constant hash), removal from the middle of a chain,
    free-list reuse and a full set runs through the non-trivial branches. -/
example : (new 3 2 false).isSome = true := by decide
example : ((⟨2, [0, 0, 0, 0, 0, 0], [0, 0, 0]⟩ : FlatPool).set 1 [7, 8]).get 1 = [7, 8] := by decide
example : (new 3 2 false).map (fun s => runOps (fun _ => 7) s
      [.add [1], .add [2], .add [3], .add [4], .rm [2], .ex [2], .ex [1], .ex [3], .add [5, 5], .len, .full, .rm [9, 9, 9]]) =
    some [.ok, .ok, .ok, .errFull, .ok, .bool false, .bool true, .bool true, .ok, .nat 3, .bool true, .errLen] := by
  decide

end BfeVerif.C20
