import BfeVerif.Common.Proto
import BfeVerif.C20.Model
/-!
  C20 driver.
  op   = `n=<cap>,es=<elemSize>,fix=<0|1>,h=<hash>;add:<hex>;rm:<hex>;ex:<hex>;len;full;dump;...`
  impl = `new:ok;<r1>;<r2>;...`  (see harness/cmd/c20/main.go)
-/
namespace BfeVerif.C20
open BfeVerif.Proto

/-- must be the same functions as `hashByName` in harness/cmd/c20/main.go -/
def hashByName (n : String) : Option (Key → Nat) :=
  let sum := fun (k : Key) => (k.foldl (fun a b => a + b.toNat) 0) % 2 ^ 64
  if n == "c" then some fun _ => 7
  else if n == "sum" then some sum
  else if n == "len" then some fun k => k.length
  else if n == "b0" then some fun k => match k with | [] => 0 | b :: _ => b.toNat % 2
  else if n == "fnv" then some fun k => k.foldl (fun h b => Nat.xor ((h * 1099511628211) % 2 ^ 64) b.toNat) 14695981039346656037
  else if n == "big" then some fun k => (2 ^ 64 - 1 - sum k)
  -- nil hash function = murmur3 in the implementation: not modelled; by C20_refines every answer is independent of the
  -- hash function, so any function gives the model's answers (dumps are reduced to `ln=` by the harness)
  else if n == "nil" then some fun _ => 0
  else none

def outStr : Out → String
  | .ok => "ok" | .errFull => "err:full" | .errLen => "err:len" | .errOther => "err:other"
  | .bool b => if b then "1" else "0"
  | .nat n => toString n

def optStr : Option Nat → String
  | none => "-1" | some n => toString n

def dumpStr (s : HS) : String :=
  let has := (s.ha.zipIdx.filterMap fun (v, b) => match v with | some n => some (toString b ++ ":" ++ toString n) | none => none)
  "ha=" ++ (if has.isEmpty then "-" else ",".intercalate has) ++
  "|nx=" ++ ",".intercalate (s.next.map optStr) ++
  "|fr=" ++ optStr s.free ++ "|ln=" ++ toString s.len ++
  "|k=" ++ ",".intercalate (s.keys.map hexField)

inductive Tok where
  | op (o : Op) | dump

def parseTok (t : String) : Option Tok :=
  if t == "len" then some (.op .len) else if t == "full" then some (.op .full) else if t == "dump" then some .dump
  else match t.splitOn ":" with
    | [c, h] =>
      match bytesOfHex h with
      | none => none
      | some k =>
        if c == "add" then some (.op (.add k)) else if c == "rm" then some (.op (.rm k))
        else if c == "ex" then some (.op (.ex k)) else none
    | _ => none

def cfgField (kvs : List String) (k : String) : String :=
  match kvs.find? (fun s => s.startsWith (k ++ "=")) with
  | some s => (s.drop (k.length + 1)).toString
  | none => ""

def keyClass (c : Cfg) (k : Key) : String :=
  if k.length == c.es then "exact" else if k.length > c.es then "long" else if c.fixed then "short-fixed" else "short-var"

def opClass (c : Cfg) : Tok → String
  | .dump => "dump"
  | .op (.add k) => "add-" ++ keyClass c k
  | .op (.rm k) => "rm-" ++ keyClass c k
  | .op (.ex k) => "ex-" ++ keyClass c k
  | .op .len => "len"
  | .op .full => "full"

/-- position of key `k` in its bucket chain of the model state: for the tag histogram only -/
def chainPos (hash : Key → Nat) (s : HS) (k : Key) : String :=
  let rec walk : Nat → Option Nat → List Nat
    | _, none => []
    | 0, _ => []
    | f + 1, some i => i :: walk f (nextOf s.next i)
  let ch := walk s.cap (s.ha.getD (bucket hash s k) none)
  match ch.findIdx? (fun n => keyOf s.keys n == k) with
  | none => "rm-miss"
  | some i =>
    (if i == 0 then "rm-head" else if i + 1 == ch.length then "rm-tail" else "rm-mid") ++
    (if ch.length ≥ 3 then "3+" else "")

def poolOutStr : PoolOut → String
  | .ok => "ok" | .errIndex => "err:index" | .errSize => "err:size"

/-- `P,n=..,es=..,fix=..;set:<i>:<hex>;get:<i>;max` on the flat byte pools -/
def runPool (cfgs : String) (toks : List String) (impl : String) : Ans :=
  let kvs := cfgs.splitOn ","
  match (cfgField kvs "n").toNat?, (cfgField kvs "es").toNat? with
  | some n, some es =>
    let fixed := cfgField kvs "fix" == "1"
    let rec go (p : FlatPool) : List String → List String
      | [] => []
      | t :: r =>
        match t.splitOn ":" with
        | ["set", i, h] =>
          match i.toNat?, bytesOfHex h with
          | some i, some k => let x := p.trySet fixed i k; poolOutStr x.2 :: go x.1 r
          | _, _ => ["bad-op"]
        | ["get", i] => match i.toNat? with | some i => hexField (p.get i) :: go p r | none => ["bad-op"]
        | ["max"] => toString p.size :: go p r
        | _ => ["bad-op"]
    let m := ";".intercalate ("P" :: go (FlatPool.new n es fixed) toks)
    -- the pool laws (C20_pool_*) are theorems about this model; the oracle is the model itself
    { model := m, verdict := if impl == m then "ok" else "FAIL:pool", tags := ["pool", if fixed then "pool-fixed" else "pool-var"] ++
        (if m.contains "err:index" then ["pool-err-index"] else []) ++ (if m.contains "err:size" then ["pool-err-size"] else []) }
  | _, _ => { model := "bad-op", verdict := "skip" }

def run (op impl : String) : Ans :=
  if impl.startsWith "HANG" then { model := "-", verdict := "FAIL:hang", tags := ["hang"] } else
  if impl.startsWith "PANIC" then { model := "-", verdict := "FAIL:panic", tags := ["panic"] } else
  match op.splitOn ";" with
  | [] => { model := "bad-op", verdict := "skip" }
  | cfgs :: toks =>
    if cfgs.startsWith "P," then runPool cfgs toks impl else
    let kvs := cfgs.splitOn ","
    let nilHash := cfgField kvs "h" == "nil"
    match (cfgField kvs "n").toNat?, (cfgField kvs "es").toNat?, hashByName (cfgField kvs "h"), toks.mapM parseTok with
    | some cap, some es, some hash, some ts =>
      let fixed := cfgField kvs "fix" == "1"
      let c : Cfg := { cap := cap, es := es, fixed := fixed }
      match new cap es fixed with
      | none =>
        { model := "new:err", verdict := if impl == "new:err" then "ok" else "FAIL:new", tags := ["new-err"] }
      | some s0 =>
        -- model outputs (dump is answered from the model state)
        let obs := fun (o : Op) (len : Nat) => match o with
          | .add _ | .rm _ | .ex _ => "/" ++ toString len ++ "/" ++ (if len ≥ cap then "1" else "0")
          | _ => ""
        let rec go (s : HS) : List Tok → List String
          | [] => []
          | .dump :: r => (if nilHash then "ln=" ++ toString s.len else dumpStr s) :: go s r
          | .op o :: r => let x := step hash s o; (outStr x.2 ++ obs o x.1.len) :: go x.1 r
        let model := ";".intercalate ("new:ok" :: go s0 ts)
        -- spec outputs (dump is outside the specification: the implementation's answer is skipped)
        let rec sp (l : List Key) : List Tok → List (Option String)
          | [] => []
          | .dump :: r => none :: sp l r
          | .op o :: r => let x := specStep c l o; some (outStr x.2 ++ obs o x.1.length) :: sp x.1 r
        let want := sp [] ts
        let got := impl.splitOn ";"
        let verdict :=
          if got.head? != some "new:ok" then "FAIL:new"
          else if got.length != ts.length + 1 then "FAIL:answer-count"
          else
            match ((ts.zip want).zip got.tail).find? (fun x => match x.1.2 with | some w => w != x.2 | none => false) with
            | none => "ok"
            | some x => "FAIL:" ++ opClass c x.1.1
        let nAdd := ts.countP fun t => match t with | .op (.add _) => true | _ => false
        let nRm := ts.countP fun t => match t with | .op (.rm _) => true | _ => false
        let outs := (go s0 ts).map fun o => (o.splitOn "/").headD ""
        let rec pos (s : HS) : List Tok → List String
          | [] => []
          | .dump :: r => pos s r
          | .op o :: r =>
            (match o with | .rm k => (if validKey es fixed k then [chainPos hash s k] else []) | _ => []) ++ pos (step hash s o).1 r
        let posTags := if nilHash then [] else (pos s0 ts).eraseDups
        let tags := posTags ++
          (if nAdd > 0 && nRm > 0 then ["nt"] else []) ++
          [if fixed then "fixed" else "var", "h=" ++ cfgField kvs "h"] ++
          (if outs.contains "err:full" then ["hit-full"] else []) ++
          (if outs.contains "err:len" then ["hit-len"] else []) ++
          (if ts.any (fun t => (opClass c t) == "add-short-fixed") then ["add-short-fixed"] else []) ++
          (if cap ≤ 2 then ["cap<=2"] else []) ++ (if cap > 16 then ["cap>16"] else [])
        { model := model, verdict := verdict, tags := tags }
    | _, _, _, _ => { model := "bad-op", verdict := "skip" }

end BfeVerif.C20
