import BfeVerif.Common.Proto
import BfeVerif.C20.Model
/-!
  C20 driver.
  op   = `n=<cap>,es=<elemSize>,fix=<0|1>,h=<hash>;add:<hex>;rm:<hex>;ex:<hex>;len;full;dump;...`
  impl = `new:ok;<r1>;<r2>;...`  (see harness/cmd/c20/main.go)
-/
namespace BfeVerif.C20
open BfeVerif.Proto

/-- must be the same functions as `hashByName` in harness/cmd/c20/main.go -/
def hashByName (n : String) : Option (Key → Nat) :=
  let sum := fun (k : Key) => (k.foldl (fun a b => a + b.toNat) 0) % 2 ^ 64
  if n == "c" then some fun _ => 7
  else if n == "sum" then some sum
  else if n == "len" then some fun k => k.length
  else if n == "b0" then some fun k => match k with | [] => 0 | b :: _ => b.toNat % 2
  else if n == "fnv" then some fun k => k.foldl (fun h b => Nat.xor ((h * 1099511628211) % 2 ^ 64) b.toNat) 14695981039346656037
  else if n == "big" then some fun k => (2 ^ 64 - 1 - sum k)
  else none

def outStr : Out → String
  | .ok => "ok" | .errFull => "err:full" | .errLen => "err:len" | .errOther => "err:other"
  | .bool b => if b then "1" else "0"
  | .nat n => toString n

def optStr : Option Nat → String
  | none => "-1" | some n => toString n

def dumpStr (s : HS) : String :=
  let has := (s.ha.zipIdx.filterMap fun (v, b) => match v with | some n => some (toString b ++ ":" ++ toString n) | none => none)
  "ha=" ++ (if has.isEmpty then "-" else ",".intercalate has) ++
  "|nx=" ++ ",".intercalate (s.next.map optStr) ++
  "|fr=" ++ optStr s.free ++ "|ln=" ++ toString s.len ++
  "|k=" ++ ",".intercalate (s.keys.map hexField)

inductive Tok where
  | op (o : Op) | dump

def parseTok (t : String) : Option Tok :=
  if t == "len" then some (.op .len) else if t == "full" then some (.op .full) else if t == "dump" then some .dump
  else match t.splitOn ":" with
    | [c, h] =>
      match bytesOfHex h with
      | none => none
      | some k =>
        if c == "add" then some (.op (.add k)) else if c == "rm" then some (.op (.rm k))
        else if c == "ex" then some (.op (.ex k)) else none
    | _ => none

def cfgField (kvs : List String) (k : String) : String :=
  match kvs.find? (fun s => s.startsWith (k ++ "=")) with
  | some s => (s.drop (k.length + 1)).toString
  | none => ""

def keyClass (c : Cfg) (k : Key) : String :=
  if k.length == c.es then "exact" else if k.length > c.es then "long" else if c.fixed then "short-fixed" else "short-var"

def opClass (c : Cfg) : Tok → String
  | .dump => "dump"
  | .op (.add k) => "add-" ++ keyClass c k
  | .op (.rm k) => "rm-" ++ keyClass c k
  | .op (.ex k) => "ex-" ++ keyClass c k
  | .op .len => "len"
  | .op .full => "full"

def run (op impl : String) : Ans :=
  if impl.startsWith "HANG" then { model := "-", verdict := "FAIL:hang", tags := ["hang"] } else
  if impl.startsWith "PANIC" then { model := "-", verdict := "FAIL:panic", tags := ["panic"] } else
  match op.splitOn ";" with
  | [] => { model := "bad-op", verdict := "skip" }
  | cfgs :: toks =>
    let kvs := cfgs.splitOn ","
    match (cfgField kvs "n").toNat?, (cfgField kvs "es").toNat?, hashByName (cfgField kvs "h"), toks.mapM parseTok with
    | some cap, some es, some hash, some ts =>
      let fixed := cfgField kvs "fix" == "1"
      let c : Cfg := { cap := cap, es := es, fixed := fixed }
      match new cap es fixed with
      | none =>
        { model := "new:err", verdict := if impl == "new:err" then "ok" else "FAIL:new", tags := ["new-err"] }
      | some s0 =>
        -- model outputs (dump is answered from the model state)
        let rec go (s : HS) : List Tok → List String
          | [] => []
          | .dump :: r => dumpStr s :: go s r
          | .op o :: r => let x := step hash s o; outStr x.2 :: go x.1 r
        let model := ";".intercalate ("new:ok" :: go s0 ts)
        -- spec outputs (dump is outside the specification: the implementation's answer is skipped)
        let rec sp (l : List Key) : List Tok → List (Option String)
          | [] => []
          | .dump :: r => none :: sp l r
          | .op o :: r => let x := specStep c l o; some (outStr x.2) :: sp x.1 r
        let want := sp [] ts
        let got := impl.splitOn ";"
        let verdict :=
          if got.head? != some "new:ok" then "FAIL:new"
          else if got.length != ts.length + 1 then "FAIL:answer-count"
          else
            match ((ts.zip want).zip got.tail).find? (fun x => match x.1.2 with | some w => w != x.2 | none => false) with
            | none => "ok"
            | some x => "FAIL:" ++ opClass c x.1.1
        let nAdd := ts.countP fun t => match t with | .op (.add _) => true | _ => false
        let nRm := ts.countP fun t => match t with | .op (.rm _) => true | _ => false
        let outs := go s0 ts
        let tags :=
          (if nAdd > 0 && nRm > 0 then ["nt"] else []) ++
          [if fixed then "fixed" else "var", "h=" ++ cfgField kvs "h"] ++
          (if outs.contains "err:full" then ["hit-full"] else []) ++
          (if outs.contains "err:len" then ["hit-len"] else []) ++
          (if ts.any (fun t => (opClass c t) == "add-short-fixed") then ["add-short-fixed"] else []) ++
          (if cap ≤ 2 then ["cap<=2"] else [])
        { model := model, verdict := verdict, tags := tags }
    | _, _, _, _ => { model := "bad-op", verdict := "skip" }

end BfeVerif.C20
