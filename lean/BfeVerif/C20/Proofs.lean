import BfeVerif.C20.Model
/-! Lemmas for C20 (core Lean only). -/
namespace BfeVerif.C20

/-! ### arrays -/

theorem getD_set_eq {α : Type} (l : List α) (i : Nat) (v d : α) (h : i < l.length) : (l.set i v).getD i d = v := by
  simp [List.getD_eq_getElem?_getD, List.getElem?_set, h]

theorem getD_set_ne {α : Type} (l : List α) (i j : Nat) (v d : α) (h : j ≠ i) :
    (l.set i v).getD j d = l.getD j d := by
  simp [List.getD_eq_getElem?_getD, List.getElem?_set, Ne.symm h]

theorem nextOf_set_eq (next : List (Option Nat)) (i : Nat) (v : Option Nat) (h : i < next.length) :
    nextOf (next.set i v) i = v := getD_set_eq next i v none h

theorem nextOf_set_ne (next : List (Option Nat)) (i j : Nat) (v : Option Nat) (h : j ≠ i) :
    nextOf (next.set i v) j = nextOf next j := getD_set_ne next i j v none h

theorem keyOf_set_eq (keys : List Key) (i : Nat) (k : Key) (h : i < keys.length) :
    keyOf (keys.set i k) i = k := getD_set_eq keys i k [] h

theorem keyOf_set_ne (keys : List Key) (i j : Nat) (k : Key) (h : j ≠ i) :
    keyOf (keys.set i k) j = keyOf keys j := getD_set_ne keys i j k [] h

/-! ### pigeonhole -/

theorem nodup_lt_length : ∀ (c : Nat) (l : List Nat), l.Nodup → (∀ n ∈ l, n < c) → l.length ≤ c := by
  intro c
  induction c with
  | zero =>
    intro l _ h
    cases l with
    | nil => simp
    | cons a t => have := h a (by simp); omega
  | succ c ih =>
    intro l hn h
    have h1 : (l.erase c).Nodup := hn.erase c
    have h2 : ∀ n ∈ l.erase c, n < c := by
      intro n hm
      have := (hn.mem_erase_iff).mp hm
      have := h n this.2
      omega
    have h3 := ih (l.erase c) h1 h2
    have h4 := List.length_erase (a := c) (l := l)
    split at h4 <;> omega

/-! ### chains -/

/-- the linked list starting at `h` visits exactly the nodes `l` and ends with `-1` -/
def IsChain (next : List (Option Nat)) : Option Nat → List Nat → Prop
  | h, [] => h = none
  | h, n :: l => h = some n ∧ IsChain next (nextOf next n) l

theorem isChain_set {next : List (Option Nat)} {n : Nat} {v : Option Nat} :
    ∀ {l : List Nat} {h : Option Nat}, IsChain next h l → n ∉ l → IsChain (next.set n v) h l := by
  intro l
  induction l with
  | nil => intro h hc _; exact hc
  | cons a t ih =>
    intro h hc hn
    simp only [List.mem_cons, not_or] at hn
    refine ⟨hc.1, ?_⟩
    rw [nextOf_set_ne _ _ _ _ (Ne.symm hn.1)]
    exact ih hc.2 hn.2

theorem isChain_none {next : List (Option Nat)} {l : List Nat} (h : IsChain next none l) : l = [] := by
  cases l with
  | nil => rfl
  | cons a t => exact absurd h.1 (by simp)

theorem isChain_some {next : List (Option Nat)} {l : List Nat} {n : Nat} (h : IsChain next (some n) l) :
    ∃ t, l = n :: t ∧ IsChain next (nextOf next n) t := by
  cases l with
  | nil => exact absurd h (by simp [IsChain])
  | cons a t =>
    have := h.1
    simp only [Option.some.injEq] at this
    subst this
    exact ⟨t, rfl, h.2⟩

theorem existLoop_chain (next : List (Option Nat)) (keys : List Key) (k : Key) :
    ∀ (l : List Nat) (h : Option Nat) (fuel : Nat), IsChain next h l → l.length ≤ fuel →
      existLoop next keys k fuel h = l.any (fun n => keyOf keys n == k) := by
  intro l
  induction l with
  | nil =>
    intro h fuel hc _
    have : h = none := hc
    subst this
    cases fuel <;> simp [existLoop]
  | cons a t ih =>
    intro h fuel hc hf
    have : h = some a := hc.1
    subst this
    cases fuel with
    | zero => simp at hf
    | succ f =>
      simp only [existLoop, List.any_cons]
      rw [ih _ f hc.2 (by simpa using hf)]
      cases keyOf keys a == k <;> simp

/-- list version of the `for` loop of `del` -/
def findPrev (keys : List Key) (k : Key) : Nat → List Nat → Option (Nat × Nat)
  | _, [] => none
  | p, i :: rest => if keyOf keys i == k then some (p, i) else findPrev keys k i rest

theorem delLoop_chain (next : List (Option Nat)) (keys : List Key) (k : Key) :
    ∀ (rest : List Nat) (p fuel : Nat), IsChain next (nextOf next p) rest → rest.length ≤ fuel →
      delLoop next keys k fuel p = findPrev keys k p rest := by
  intro rest
  induction rest with
  | nil =>
    intro p fuel hc _
    have : nextOf next p = none := hc
    cases fuel <;> simp [delLoop, findPrev, this]
  | cons i t ih =>
    intro p fuel hc hf
    have h1 : nextOf next p = some i := hc.1
    cases fuel with
    | zero => simp at hf
    | succ f =>
      simp only [delLoop, findPrev, h1]
      rw [ih i f hc.2 (by simpa using hf)]

theorem findPrev_none (keys : List Key) (k : Key) :
    ∀ (rest : List Nat) (p : Nat), findPrev keys k p rest = none → ∀ n ∈ rest, keyOf keys n ≠ k := by
  intro rest
  induction rest with
  | nil => intro _ _ n hn; simp at hn
  | cons i t ih =>
    intro p h n hn
    simp only [findPrev] at h
    split at h
    · simp at h
    · rename_i hne
      simp only [List.mem_cons] at hn
      rcases hn with hn | hn
      · subst hn; simpa using hne
      · exact ih i h n hn

theorem findPrev_some (keys : List Key) (k : Key) :
    ∀ (rest : List Nat) (p p' i : Nat), findPrev keys k p rest = some (p', i) →
      ∃ pre post, p :: rest = pre ++ p' :: i :: post ∧ keyOf keys i = k := by
  intro rest
  induction rest with
  | nil => intro p p' i h; simp [findPrev] at h
  | cons j t ih =>
    intro p p' i h
    simp only [findPrev] at h
    split at h
    · rename_i heq
      simp only [Option.some.injEq, Prod.mk.injEq] at h
      obtain ⟨rfl, rfl⟩ := h
      exact ⟨[], t, rfl, by simpa using heq⟩
    · obtain ⟨pre, post, e, hk⟩ := ih j p' i h
      exact ⟨p :: pre, post, by rw [e]; rfl, hk⟩

/-- unlinking node `i` (whose predecessor is `p'`) from a chain and re-using its link field -/
theorem isChain_unlink {next : List (Option Nat)} {p' i : Nat} {v : Option Nat} {post : List Nat}
    (hp : p' < next.length) :
    ∀ (pre : List Nat) (h : Option Nat), IsChain next h (pre ++ p' :: i :: post) → (pre ++ p' :: i :: post).Nodup →
      IsChain ((next.set p' (nextOf next i)).set i v) h (pre ++ p' :: post) := by
  intro pre
  induction pre with
  | nil =>
    intro h hc hn
    simp only [List.nil_append] at *
    obtain ⟨h1, h2, h3⟩ := hc
    simp only [List.nodup_cons, List.mem_cons, not_or] at hn
    refine ⟨h1, ?_⟩
    rw [nextOf_set_ne _ _ _ _ hn.1.1, nextOf_set_eq _ _ _ hp]
    exact isChain_set (isChain_set h3 hn.1.2) hn.2.1
  | cons a t ih =>
    intro h hc hn
    simp only [List.cons_append] at *
    rw [List.nodup_cons] at hn
    have ha : a ≠ p' ∧ a ≠ i := by
      have := hn.1
      simp only [List.mem_append, List.mem_cons, not_or] at this
      exact ⟨this.2.1, this.2.2.1⟩
    refine ⟨hc.1, ?_⟩
    rw [nextOf_set_ne _ _ _ _ ha.2, nextOf_set_ne _ _ _ _ ha.1]
    exact ih _ hc.2 hn.2

/-! ### representation invariant and abstraction relation -/

theorem nodup_of_map {α β : Type} (f : α → β) : ∀ (l : List α), (l.map f).Nodup → l.Nodup := by
  intro l
  induction l with
  | nil => intro _; exact List.nodup_nil
  | cons a t ih =>
    intro h
    simp only [List.map_cons, List.nodup_cons, List.mem_map, not_exists, not_and] at h
    rw [List.nodup_cons]
    exact ⟨fun hm => h.1 a hm rfl, ih h.2⟩

theorem nodup_map_mid {α β : Type} (f : α → β) {A B : List α} {i : α} (h : ((A ++ i :: B).map f).Nodup) :
    ∀ n ∈ A ++ B, f n ≠ f i := by
  intro n hn e
  simp only [List.map_append, List.map_cons, List.nodup_append, List.nodup_cons, List.mem_map, List.mem_cons,
    not_exists, not_and] at h
  obtain ⟨_, ⟨h2, _⟩, h3⟩ := h
  rw [List.mem_append] at hn
  rcases hn with hn | hn
  · exact h3 (f n) ⟨n, hn, rfl⟩ (f i) (Or.inl rfl) e
  · exact h2 n hn e

/-- ghost update of one bucket's node list -/
def upd (ch : Nat → List Nat) (b : Nat) (v : List Nat) : Nat → List Nat := fun b' => if b' = b then v else ch b'

/-- Representation invariant; `ch b` = nodes of bucket `b`'s chain in order, `fl` = the free list in order. -/
structure Inv (hash : Key → Nat) (s : HS) (ch : Nat → List Nat) (fl : List Nat) : Prop where
  haLen : s.ha.length = s.cap * 5
  capPos : 0 < s.cap
  nextLen : s.next.length = s.cap
  keysLen : s.keys.length = s.cap
  chains : ∀ b, b < s.ha.length → IsChain s.next (s.ha.getD b none) (ch b)
  freeCh : IsChain s.next s.free fl
  node : ∀ b, b < s.ha.length → ∀ n ∈ ch b,
    n < s.cap ∧ hash (keyOf s.keys n) % s.ha.length = b ∧ validKey s.es s.fixed (keyOf s.keys n) = true
  nodupK : ∀ b, b < s.ha.length → ((ch b).map (keyOf s.keys)).Nodup
  flNodup : fl.Nodup
  flLt : ∀ n ∈ fl, n < s.cap
  disj : ∀ b, b < s.ha.length → ∀ n ∈ ch b, n ∉ fl
  count : fl.length + s.len = s.cap

/-- the concrete state `s` represents the duplicate-free key list `l` (as a set) under configuration `c` -/
def R (hash : Key → Nat) (c : Cfg) (s : HS) (l : List Key) : Prop :=
  ∃ ch fl, Inv hash s ch fl ∧ s.cap = c.cap ∧ s.es = c.es ∧ s.fixed = c.fixed ∧ l.Nodup ∧ s.len = l.length ∧
    ∀ k, k ∈ l ↔ ∃ n ∈ ch (hash k % s.ha.length), keyOf s.keys n = k

theorem Inv.haPos {hash s ch fl} (h : Inv hash s ch fl) : 0 < s.ha.length := by
  have := h.haLen; have := h.capPos; omega

theorem Inv.bucketLt {hash s ch fl} (h : Inv hash s ch fl) (k : Key) : hash k % s.ha.length < s.ha.length :=
  Nat.mod_lt _ h.haPos

theorem Inv.chNodup {hash s ch fl} (h : Inv hash s ch fl) {b : Nat} (hb : b < s.ha.length) : (ch b).Nodup :=
  nodup_of_map _ _ (h.nodupK b hb)

theorem Inv.chLen {hash s ch fl} (h : Inv hash s ch fl) {b : Nat} (hb : b < s.ha.length) : (ch b).length ≤ s.cap :=
  nodup_lt_length _ _ (h.chNodup hb) (fun n hn => (h.node b hb n hn).1)

theorem Inv.cross {hash s ch fl} (h : Inv hash s ch fl) {b b' n : Nat} (hb : b < s.ha.length) (hb' : b' < s.ha.length)
    (h1 : n ∈ ch b) (h2 : n ∈ ch b') : b = b' := by
  rw [← (h.node b hb n h1).2.1, ← (h.node b' hb' n h2).2.1]

theorem Inv.existLoop_iff {hash s ch fl} (h : Inv hash s ch fl) {b : Nat} (hb : b < s.ha.length) (k : Key) :
    existLoop s.next s.keys k s.cap (s.ha.getD b none) = true ↔ ∃ n ∈ ch b, keyOf s.keys n = k := by
  rw [existLoop_chain _ _ _ _ _ _ (h.chains b hb) (h.chLen hb)]
  simp only [List.any_eq_true, beq_iff_eq]

theorem R.exist_iff {hash c s l} (h : R hash c s l) (k : Key) : exist hash s k = true ↔ k ∈ l := by
  obtain ⟨ch, fl, hI, _, _, _, _, _, hm⟩ := h
  unfold exist bucket HS.haSize
  have hb := hI.bucketLt k
  by_cases hv : validKey s.es s.fixed k = true
  · simp only [hv, Bool.not_true, Bool.false_eq_true, if_false]
    rw [hI.existLoop_iff hb k, hm k]
  · simp only [hv, Bool.not_false, if_true, Bool.false_eq_true, false_iff]
    intro hk
    obtain ⟨n, hn, e⟩ := (hm k).mp hk
    have := (hI.node _ hb n hn).2.2
    rw [e] at this
    exact hv this

/-! ### the initial state -/

theorem nextOf_initNext (cap m : Nat) (h : m < cap) :
    nextOf (initNext cap) m = if m + 1 < cap then some (m + 1) else none := by
  unfold nextOf initNext
  simp [List.getD_eq_getElem?_getD, h]

theorem isChain_initNext (cap : Nat) : ∀ (n m : Nat), m + n = cap →
    IsChain (initNext cap) (if m < cap then some m else none) (List.range' m n) := by
  intro n
  induction n with
  | zero =>
    intro m h
    have : ¬ m < cap := by omega
    simp [this, IsChain]
  | succ n ih =>
    intro m h
    have hm : m < cap := by omega
    simp only [hm, if_true, List.range'_succ]
    refine ⟨rfl, ?_⟩
    rw [nextOf_initNext cap m hm]
    exact ih (m + 1) (by omega)

theorem R_new (hash : Key → Nat) (cap es : Nat) (fixed : Bool) (s0 : HS) (h : new cap es fixed = some s0) :
    R hash ⟨cap, es, fixed⟩ s0 [] := by
  unfold new at h
  split at h
  · simp at h
  · rename_i hc
    simp only [Option.some.injEq] at h
    subst h
    have hcap : 0 < cap := by omega
    refine ⟨fun _ => [], List.range cap, ?_, rfl, rfl, rfl, List.nodup_nil, rfl, ?_⟩
    · refine ⟨by simp, hcap, by simp [initNext], by simp, ?_, ?_, ?_, ?_, List.nodup_range, ?_, ?_, by simp⟩
      · intro b _
        simp only [IsChain, List.getD_eq_getElem?_getD, List.getElem?_replicate]
        split <;> rfl
      · have := isChain_initNext cap cap 0 (by omega)
        simp only [hcap, if_true] at this
        rw [List.range_eq_range']
        exact this
      · intro b _ n hn; simp at hn
      · intro b _; simp
      · intro n hn; exact List.mem_range.mp hn
      · intro b _ n hn; simp at hn
    · intro k; simp

/-! ### Add -/

theorem sim_add {hash : Key → Nat} {c : Cfg} {s : HS} {l : List Key} (h : R hash c s l) (k : Key) :
    (add hash s k).2 = (specStep c l (.add k)).2 ∧ R hash c (add hash s k).1 (specStep c l (.add k)).1 := by
  have hR := h
  obtain ⟨ch, fl, hI, hcap, hes, hfx, hnd, hlen, hm⟩ := h
  obtain ⟨ccap, ces, cfx⟩ := c
  simp only at hcap hes hfx
  subst hcap hes hfx
  unfold add specStep
  simp only []
  by_cases hfull : s.len ≥ s.cap
  · have : l.length ≥ s.cap := by omega
    simp only [hfull, this, if_true]
    exact ⟨by trivial, hR⟩
  · have hfull' : ¬ l.length ≥ s.cap := by omega
    simp only [hfull, hfull', if_false]
    by_cases hv : validKey s.es s.fixed k = true
    · simp only [hv, Bool.not_true, Bool.false_eq_true, if_false]
      have hb := hI.bucketLt k
      unfold bucket HS.haSize
      by_cases hex : existLoop s.next s.keys k s.cap (s.ha.getD (hash k % s.ha.length) none) = true
      · have hkl : k ∈ l := (hm k).mpr ((hI.existLoop_iff hb k).mp hex)
        have : l.contains k = true := List.contains_iff_mem.mpr hkl
        simp only [hex, this, if_true]
        exact ⟨by trivial, hR⟩
      · have hnex : ¬ ∃ n ∈ ch (hash k % s.ha.length), keyOf s.keys n = k :=
          fun e => hex ((hI.existLoop_iff hb k).mpr e)
        have hkl : k ∉ l := fun e => hnex ((hm k).mp e)
        have : l.contains k = false := by
          cases hc : l.contains k
          · rfl
          · exact absurd (List.contains_iff_mem.mp hc) hkl
        simp only [hex, this, Bool.false_eq_true, if_false]
        -- take the head of the free list
        cases hfl : fl with
        | nil =>
          have := hI.count; rw [hfl] at this; simp at this; omega
        | cons node fl' =>
          have hfc := hI.freeCh
          rw [hfl] at hfc
          have hfree : s.free = some node := hfc.1
          simp only [hfree]
          refine ⟨by trivial, ?_⟩
          have hfn := hI.flNodup
          rw [hfl, List.nodup_cons] at hfn
          have hnode_lt : node < s.cap := hI.flLt node (by rw [hfl]; simp)
          have hnode_ch : ∀ b, b < s.ha.length → node ∉ ch b :=
            fun b hb' hn => hI.disj b hb' node hn (by rw [hfl]; simp)
          generalize hbk : hash k % s.ha.length = b at *
          refine ⟨upd ch b (node :: ch b), fl', ?_, rfl, rfl, rfl, ?_, ?_, ?_⟩
          · refine ⟨by simp [hI.haLen], hI.capPos, by simp [hI.nextLen], by simp [hI.keysLen], ?_, ?_, ?_, ?_,
              hfn.2, ?_, ?_, ?_⟩
            · -- chains
              intro b' hb'
              simp only [List.length_set] at hb'
              simp only [upd]
              by_cases e : b' = b
              · subst e
                simp only [if_true]
                rw [getD_set_eq _ _ _ _ hb']
                refine ⟨rfl, ?_⟩
                rw [nextOf_set_eq _ _ _ (by rw [hI.nextLen]; exact hnode_lt)]
                exact isChain_set (hI.chains b' hb') (hnode_ch b' hb')
              · simp only [e, if_false]
                rw [getD_set_ne _ _ _ _ _ e]
                exact isChain_set (hI.chains b' hb') (hnode_ch b' hb')
            · -- free list
              exact isChain_set hfc.2 hfn.1
            · -- node facts
              intro b' hb' n hn
              simp only [List.length_set] at hb' ⊢
              simp only [upd] at hn
              by_cases e : b' = b
              · subst e
                simp only [if_true, List.mem_cons] at hn
                rcases hn with hn | hn
                · subst hn
                  rw [keyOf_set_eq _ _ _ (by rw [hI.keysLen]; exact hnode_lt)]
                  exact ⟨hnode_lt, hbk, hv⟩
                · have hne : n ≠ node := fun e' => hnode_ch b' hb' (e' ▸ hn)
                  rw [keyOf_set_ne _ _ _ _ hne]
                  exact hI.node b' hb' n hn
              · simp only [e, if_false] at hn
                have hne : n ≠ node := fun e' => hnode_ch b' hb' (e' ▸ hn)
                rw [keyOf_set_ne _ _ _ _ hne]
                exact hI.node b' hb' n hn
            · -- no duplicate key in a chain
              intro b' hb'
              simp only [List.length_set] at hb'
              have hcongr : (ch b').map (keyOf (s.keys.set node k)) = (ch b').map (keyOf s.keys) := by
                apply List.map_congr_left
                intro n hn
                exact keyOf_set_ne _ _ _ _ (fun e' => hnode_ch b' hb' (e' ▸ hn))
              simp only [upd]
              by_cases e : b' = b
              · subst e
                simp only [if_true, List.map_cons, List.nodup_cons]
                rw [keyOf_set_eq _ _ _ (by rw [hI.keysLen]; exact hnode_lt), hcongr]
                refine ⟨?_, hI.nodupK b' hb'⟩
                intro hmem
                obtain ⟨n, hn, e'⟩ := List.mem_map.mp hmem
                exact hnex ⟨n, hn, e'⟩
              · simp only [e, if_false]
                rw [hcongr]; exact hI.nodupK b' hb'
            · intro n hn; exact hI.flLt n (by rw [hfl]; simp [hn])
            · -- chains and free list stay disjoint
              intro b' hb' n hn
              simp only [List.length_set] at hb'
              simp only [upd] at hn
              by_cases e : b' = b
              · subst e
                simp only [if_true, List.mem_cons] at hn
                rcases hn with hn | hn
                · subst hn; exact hfn.1
                · intro hf; exact hI.disj b' hb' n hn (by rw [hfl]; simp [hf])
              · simp only [e, if_false] at hn
                intro hf; exact hI.disj b' hb' n hn (by rw [hfl]; simp [hf])
            · have := hI.count; rw [hfl] at this; simp only [List.length_cons] at this
              show fl'.length + (s.len + 1) = s.cap
              omega
          · exact List.nodup_cons.mpr ⟨hkl, hnd⟩
          · simp [hlen]
          · -- membership
            intro k'
            simp only [List.length_set, List.mem_cons, upd]
            constructor
            · rintro (e | hk')
              · subst e
                rw [hbk]
                simp only [if_true]
                exact ⟨node, by simp, keyOf_set_eq _ _ _ (by rw [hI.keysLen]; exact hnode_lt)⟩
              · obtain ⟨n, hn, e'⟩ := (hm k').mp hk'
                have hb'' := hI.bucketLt k'
                have hne : n ≠ node := fun e'' => hnode_ch _ hb'' (e'' ▸ hn)
                refine ⟨n, ?_, by rw [keyOf_set_ne _ _ _ _ hne]; exact e'⟩
                split
                · rename_i e''; rw [← e'']; simp [hn]
                · exact hn
            · rintro ⟨n, hn, e'⟩
              have hb'' := hI.bucketLt k'
              by_cases e : hash k' % s.ha.length = b
              · simp only [e, if_true, List.mem_cons] at hn
                rcases hn with hn | hn
                · subst hn
                  rw [keyOf_set_eq _ _ _ (by rw [hI.keysLen]; exact hnode_lt)] at e'
                  exact Or.inl e'.symm
                · rw [← e] at hn
                  have hne : n ≠ node := fun e'' => hnode_ch _ hb'' (e'' ▸ hn)
                  rw [keyOf_set_ne _ _ _ _ hne] at e'
                  exact Or.inr ((hm k').mpr ⟨n, hn, e'⟩)
              · simp only [e, if_false] at hn
                have hne : n ≠ node := fun e'' => hnode_ch _ hb'' (e'' ▸ hn)
                rw [keyOf_set_ne _ _ _ _ hne] at e'
                exact Or.inr ((hm k').mpr ⟨n, hn, e'⟩)
    · have hv' : validKey s.es s.fixed k = false := by simpa using hv
      simp only [hv', Bool.not_false, if_true]
      exact ⟨by trivial, hR⟩

/-! ### Remove -/

/-- All the non-pointer bookkeeping of a removal: node `i` (key `k`) leaves bucket `b`'s node list
    `A ++ i :: B` and becomes the head of the free list; the pointer facts are supplied by the caller. -/
theorem remove_ghost {hash : Key → Nat} {c : Cfg} {s s' : HS} {l : List Key} {ch : Nat → List Nat} {fl : List Nat}
    (hI : Inv hash s ch fl) (hcap : s.cap = c.cap) (hes : s.es = c.es) (hfx : s.fixed = c.fixed)
    (hnd : l.Nodup) (hlen : s.len = l.length)
    (hm : ∀ k, k ∈ l ↔ ∃ n ∈ ch (hash k % s.ha.length), keyOf s.keys n = k)
    (k : Key) (A B : List Nat) (i : Nat) (hch : ch (hash k % s.ha.length) = A ++ i :: B) (hki : keyOf s.keys i = k)
    (e1 : s'.cap = s.cap) (e2 : s'.es = s.es) (e3 : s'.fixed = s.fixed) (e4 : s'.ha.length = s.ha.length)
    (e5 : s'.next.length = s.next.length) (e6 : s'.keys = s.keys) (e7 : s'.len = s.len - 1)
    (hchains : ∀ b', b' < s.ha.length →
      IsChain s'.next (s'.ha.getD b' none) (upd ch (hash k % s.ha.length) (A ++ B) b'))
    (hfree : IsChain s'.next s'.free (i :: fl)) :
    R hash c s' (l.erase k) := by
  generalize hbk : hash k % s.ha.length = b at *
  have hb : b < s.ha.length := by rw [← hbk]; exact hI.bucketLt k
  have hi_in : i ∈ ch b := by rw [hch]; simp
  have hkl : k ∈ l := (hm k).mpr ⟨i, by rw [hbk]; exact hi_in, hki⟩
  have hndK := hI.nodupK b hb
  rw [hch] at hndK
  have hmid := nodup_map_mid (keyOf s.keys) hndK
  have hi_notin : i ∉ A ++ B := fun hmem => hmid i hmem rfl
  have hsub : ∀ b', ∀ n ∈ upd ch b (A ++ B) b', n ∈ ch b' := by
    intro b' n hn
    simp only [upd] at hn
    split at hn
    · rename_i e; rw [e, hch]
      simp only [List.mem_append, List.mem_cons] at hn ⊢
      rcases hn with hn | hn
      · exact Or.inl hn
      · exact Or.inr (Or.inr hn)
    · exact hn
  have hne : ∀ b', b' < s.ha.length → ∀ n ∈ upd ch b (A ++ B) b', n ≠ i := by
    intro b' hb' n hn e
    subst e
    by_cases eb : b' = b
    · simp only [upd, eb, if_true] at hn; exact hi_notin hn
    · exact eb (hI.cross hb' hb (hsub b' n hn) hi_in)
  have hi_fl : i ∉ fl := hI.disj b hb i hi_in
  refine ⟨upd ch b (A ++ B), i :: fl, ?_, by rw [e1, hcap], by rw [e2, hes], by rw [e3, hfx], hnd.erase k, ?_, ?_⟩
  · refine ⟨by rw [e4, e1, hI.haLen], by rw [e1]; exact hI.capPos, by rw [e5, e1, hI.nextLen],
      by rw [e6, e1, hI.keysLen], ?_, hfree, ?_, ?_, ?_, ?_, ?_, ?_⟩
    · intro b' hb'; rw [e4] at hb'; exact hchains b' hb'
    · intro b' hb' n hn
      rw [e4] at hb'
      rw [e1, e2, e3, e4, e6]
      exact hI.node b' hb' n (hsub b' n hn)
    · intro b' hb'
      rw [e4] at hb'
      rw [e6]
      simp only [upd]
      split
      · rename_i e
        have : (A ++ B).Sublist (A ++ i :: B) :=
          List.Sublist.append (List.Sublist.refl A) (List.sublist_cons_self i B)
        exact (this.map (keyOf s.keys)).nodup hndK
      · exact hI.nodupK b' hb'
    · exact List.nodup_cons.mpr ⟨hi_fl, hI.flNodup⟩
    · intro n hn
      rw [e1]
      simp only [List.mem_cons] at hn
      rcases hn with hn | hn
      · rw [hn]; exact (hI.node b hb i hi_in).1
      · exact hI.flLt n hn
    · intro b' hb' n hn
      rw [e4] at hb'
      simp only [List.mem_cons, not_or]
      exact ⟨hne b' hb' n hn, hI.disj b' hb' n (hsub b' n hn)⟩
    · have := hI.count
      have := List.length_pos_of_mem hkl
      rw [e7, e1]; simp only [List.length_cons]; omega
  · rw [e7, List.length_erase_of_mem hkl, hlen]
  · intro k'
    rw [hnd.mem_erase_iff, e4, e6]
    have hb' := hI.bucketLt k'
    constructor
    · rintro ⟨hk', hkl'⟩
      obtain ⟨n, hn, e⟩ := (hm k').mp hkl'
      refine ⟨n, ?_, e⟩
      simp only [upd]
      split
      · rename_i eb
        rw [eb, hch] at hn
        simp only [List.mem_append, List.mem_cons] at hn ⊢
        rcases hn with hn | hn | hn
        · exact Or.inl hn
        · subst hn; exact absurd (e.symm.trans hki) hk'
        · exact Or.inr hn
      · exact hn
    · rintro ⟨n, hn, e⟩
      refine ⟨?_, (hm k').mpr ⟨n, hsub _ n hn, e⟩⟩
      intro ek
      subst ek
      rw [hbk] at hn
      simp only [upd, if_true] at hn
      exact hmid n hn (e.trans hki.symm)

theorem sim_remove {hash : Key → Nat} {c : Cfg} {s : HS} {l : List Key} (h : R hash c s l) (k : Key) :
    (remove hash s k).2 = (specStep c l (.rm k)).2 ∧ R hash c (remove hash s k).1 (specStep c l (.rm k)).1 := by
  have hR := h
  obtain ⟨ch, fl, hI, hcap, hes, hfx, hnd, hlen, hm⟩ := h
  unfold remove specStep
  simp only [bucket, HS.haSize]
  rw [← hes, ← hfx]
  by_cases hv : validKey s.es s.fixed k = true
  · simp only [hv, Bool.not_true, Bool.false_eq_true, if_false]
    have hb := hI.bucketLt k
    have hchain := hI.chains _ hb
    have hnot : (∀ n ∈ ch (hash k % s.ha.length), keyOf s.keys n ≠ k) → l.erase k = l := by
      intro hall
      apply List.erase_of_not_mem
      intro hkl
      obtain ⟨n, hn, e⟩ := (hm k).mp hkl
      exact hall n hn e
    cases hh : s.ha.getD (hash k % s.ha.length) none with
    | none =>
      simp only []
      rw [hh] at hchain
      have hnil := isChain_none hchain
      rw [hnot (by rw [hnil]; intro n hn; simp at hn)]
      exact ⟨by trivial, hR⟩
    | some head =>
      simp only []
      rw [hh] at hchain
      obtain ⟨rest, hch, hrest⟩ := isChain_some hchain
      have hnd_ch := hI.chNodup hb
      rw [hch, List.nodup_cons] at hnd_ch
      have hhead_in : head ∈ ch (hash k % s.ha.length) := by rw [hch]; simp
      have hhead_lt : head < s.cap := (hI.node _ hb head hhead_in).1
      by_cases hk0 : (keyOf s.keys head == k) = true
      · simp only [hk0, if_true]
        refine ⟨by trivial, ?_⟩
        have hki : keyOf s.keys head = k := by simpa using hk0
        refine remove_ghost hI hcap hes hfx hnd hlen hm k [] rest head (by simpa using hch) hki
          ?_ ?_ ?_ ?_ ?_ ?_ ?_ ?_ ?_
        iterate 7 (first | rfl | simp [recycle])
        · intro b' hb'
          simp only [recycle, upd, List.nil_append]
          by_cases e : b' = hash k % s.ha.length
          · subst e
            simp only [if_true]
            rw [getD_set_eq _ _ _ _ hb']
            exact isChain_set hrest hnd_ch.1
          · simp only [e, if_false]
            rw [getD_set_ne _ _ _ _ _ e]
            exact isChain_set (hI.chains b' hb') (fun hmem => e (hI.cross hb' hb hmem hhead_in))
        · simp only [recycle]
          refine ⟨rfl, ?_⟩
          rw [nextOf_set_eq _ _ _ (by rw [hI.nextLen]; exact hhead_lt)]
          exact isChain_set hI.freeCh (hI.disj _ hb head hhead_in)
      · simp only [hk0, Bool.false_eq_true, if_false]
        have hk0' : keyOf s.keys head ≠ k := by simpa using hk0
        have hlen_ch := hI.chLen hb
        rw [hch] at hlen_ch
        simp only [List.length_cons] at hlen_ch
        rw [delLoop_chain _ _ _ rest head s.cap hrest (by omega)]
        cases hf : findPrev s.keys k head rest with
        | none =>
          simp only []
          have := findPrev_none _ _ _ _ hf
          rw [hnot (by
            rw [hch]; intro n hn
            simp only [List.mem_cons] at hn
            rcases hn with hn | hn
            · rw [hn]; exact hk0'
            · exact this n hn)]
          exact ⟨by trivial, hR⟩
        | some pi =>
          obtain ⟨p', i⟩ := pi
          simp only []
          refine ⟨by trivial, ?_⟩
          obtain ⟨pre, post, hsplit, hki⟩ := findPrev_some _ _ _ _ _ _ hf
          have hch' : ch (hash k % s.ha.length) = (pre ++ [p']) ++ i :: post := by
            rw [hch, hsplit]; simp
          have hp_in : p' ∈ ch (hash k % s.ha.length) := by rw [hch']; simp
          have hi_in : i ∈ ch (hash k % s.ha.length) := by rw [hch']; simp
          have hp_lt : p' < s.cap := (hI.node _ hb p' hp_in).1
          have hi_lt : i < s.cap := (hI.node _ hb i hi_in).1
          have hnd2 := hI.chNodup hb
          rw [hch, hsplit] at hnd2
          have hc2 := hchain
          rw [hch, hsplit] at hc2
          refine remove_ghost hI hcap hes hfx hnd hlen hm k (pre ++ [p']) post i hch' hki
            ?_ ?_ ?_ ?_ ?_ ?_ ?_ ?_ ?_
          iterate 7 (first | rfl | simp [recycle])
          · intro b' hb'
            simp only [recycle, upd]
            by_cases e : b' = hash k % s.ha.length
            · subst e
              simp only [if_true]
              rw [hh]
              have := isChain_unlink (v := s.free) (by rw [hI.nextLen]; exact hp_lt) pre (some head) hc2 hnd2
              simpa using this
            · simp only [e, if_false]
              exact isChain_set (isChain_set (hI.chains b' hb')
                (fun hmem => e (hI.cross hb' hb hmem hp_in))) (fun hmem => e (hI.cross hb' hb hmem hi_in))
          · simp only [recycle]
            refine ⟨rfl, ?_⟩
            rw [nextOf_set_eq _ _ _ (by simp [hI.nextLen]; exact hi_lt)]
            exact isChain_set (isChain_set hI.freeCh (hI.disj _ hb p' hp_in)) (hI.disj _ hb i hi_in)
  · have hv' : validKey s.es s.fixed k = false := by simpa using hv
    simp only [hv', Bool.not_false, if_true]
    exact ⟨by trivial, hR⟩

/-! ### one step, whole histories -/

theorem sim_step {hash : Key → Nat} {c : Cfg} {s : HS} {l : List Key} (h : R hash c s l) (o : Op) :
    (step hash s o).2 = (specStep c l o).2 ∧ R hash c (step hash s o).1 (specStep c l o).1 := by
  cases o with
  | add k => exact sim_add h k
  | rm k => exact sim_remove h k
  | ex k =>
    refine ⟨?_, h⟩
    simp only [step, specStep, Out.bool.injEq]
    have := h.exist_iff k
    cases h1 : exist hash s k <;> cases h2 : l.contains k <;> simp_all
  | len =>
    have hR := h
    obtain ⟨_, _, _, _, _, _, _, hlen, _⟩ := h
    exact ⟨by simp [step, specStep, hlen], hR⟩
  | full =>
    have hR := h
    obtain ⟨_, _, _, hcap, _, _, _, hlen, _⟩ := h
    exact ⟨by simp [step, specStep, hlen, hcap], hR⟩

theorem sim_run {hash : Key → Nat} {c : Cfg} : ∀ (ops : List Op) {s : HS} {l : List Key}, R hash c s l →
    runOps hash s ops = specRun c l ops := by
  intro ops
  induction ops with
  | nil => intro s l _; rfl
  | cons o os ih =>
    intro s l h
    have := sim_step h o
    simp only [runOps, specRun]
    rw [this.1, ih this.2]

/-! ### the flat byte pools -/

theorem pool_get_set_same (p : FlatPool) (i : Nat) (k : Key) (hi : i < p.lens.length)
    (hfit : i * p.size + k.length ≤ p.buf.length) : (p.set i k).get i = k := by
  unfold FlatPool.set FlatPool.get
  simp only []
  rw [getD_set_eq _ _ _ _ hi]
  have h1 : (p.buf.take (i * p.size)).length = i * p.size := by rw [List.length_take]; omega
  rw [List.append_assoc, List.drop_left' h1, List.take_left' rfl]

theorem slice_eq (buf k : List UInt8) (a c n : Nat) (hfit : a + k.length ≤ buf.length)
    (h : c + n ≤ a ∨ a + k.length ≤ c) :
    ((buf.take a ++ k ++ buf.drop (a + k.length)).drop c).take n = (buf.drop c).take n := by
  apply List.ext_getElem?
  intro m
  simp only [List.getElem?_take, List.getElem?_drop]
  by_cases hm : m < n
  · simp only [hm, if_true]
    have h1 : (buf.take a).length = a := by rw [List.length_take]; omega
    rcases h with h | h
    · rw [List.append_assoc, List.getElem?_append_left (by omega), List.getElem?_take]
      simp; omega
    · rw [List.getElem?_append_right (by simp; omega), List.getElem?_drop]
      simp only [List.length_append, h1]
      congr 1; omega
  · simp [hm]

theorem pool_get_set_other (p : FlatPool) (i j : Nat) (k : Key) (hne : j ≠ i)
    (hk : k.length ≤ p.size) (hj : p.lens.getD j 0 ≤ p.size)
    (hfit : i * p.size + k.length ≤ p.buf.length) : (p.set i k).get j = p.get j := by
  unfold FlatPool.set FlatPool.get
  simp only []
  rw [getD_set_ne _ _ _ _ _ hne]
  apply slice_eq _ _ _ _ _ hfit
  rcases Nat.lt_or_gt_of_ne hne with h | h
  · left
    have := Nat.mul_le_mul_right p.size (show j + 1 ≤ i by omega)
    rw [Nat.add_mul, Nat.one_mul] at this; omega
  · right
    have := Nat.mul_le_mul_right p.size (show i + 1 ≤ j by omega)
    rw [Nat.add_mul, Nat.one_mul] at this; omega

/-- shape of a pool with `n` slots: buffer of `n*size` bytes, `n` stored lengths, each at most `size` -/
def PoolInv (p : FlatPool) (n : Nat) : Prop :=
  p.buf.length = n * p.size ∧ p.lens.length = n ∧ ∀ j, p.lens.getD j 0 ≤ p.size

theorem poolInv_new (n size : Nat) (fixed : Bool) : PoolInv (FlatPool.new n size fixed) n := by
  refine ⟨by simp [FlatPool.new], by simp [FlatPool.new], fun j => ?_⟩
  simp only [FlatPool.new, List.getD_eq_getElem?_getD, List.getElem?_replicate]
  by_cases hj : j < n
  · cases fixed <;> simp [hj]
  · simp [hj]

theorem trySet_ok_cond {p : FlatPool} {fixed : Bool} {i : Nat} {k : Key} (h : (p.trySet fixed i k).2 = .ok) :
    i < p.lens.length ∧ k.length ≤ p.size ∧ (p.trySet fixed i k).1 = p.set i k := by
  unfold FlatPool.trySet at h ⊢
  by_cases h1 : i ≥ p.lens.length
  · simp [h1] at h
  · simp only [h1, if_false] at h ⊢
    by_cases h2 : (if fixed then k.length != p.size else decide (k.length > p.size)) = true
    · simp [h2] at h
    · simp only [h2, Bool.false_eq_true, if_false]
      refine ⟨by omega, ?_, by trivial⟩
      cases fixed
      · simpa using h2
      · simp at h2; omega

theorem trySet_err {p : FlatPool} {fixed : Bool} {i : Nat} {k : Key} (h : (p.trySet fixed i k).2 ≠ .ok) :
    (p.trySet fixed i k).1 = p := by
  unfold FlatPool.trySet at h ⊢
  by_cases h1 : i ≥ p.lens.length
  · simp [h1]
  · by_cases h2 : (if fixed then k.length != p.size else decide (k.length > p.size)) = true
    · simp only [h1, h2, if_true, if_false]
    · simp only [h1, h2, if_false, Bool.false_eq_true] at h
      exact absurd rfl h

theorem fit_of_inv {p : FlatPool} {n i : Nat} {k : Key} (hI : PoolInv p n) (hi : i < n) (hk : k.length ≤ p.size) :
    i * p.size + k.length ≤ p.buf.length := by
  have := Nat.mul_le_mul_right p.size (show i + 1 ≤ n by omega)
  rw [Nat.add_mul, Nat.one_mul] at this
  rw [hI.1]; omega

theorem poolInv_trySet {p : FlatPool} {n : Nat} (hI : PoolInv p n) (fixed : Bool) (i : Nat) (k : Key) :
    PoolInv (p.trySet fixed i k).1 n := by
  by_cases h : (p.trySet fixed i k).2 = .ok
  · obtain ⟨hi, hk, e⟩ := trySet_ok_cond h
    rw [e]
    have hfit := fit_of_inv hI (by rw [← hI.2.1]; exact hi) hk
    refine ⟨?_, by simp [FlatPool.set, hI.2.1], fun j => ?_⟩
    · simp only [FlatPool.set, List.length_append, List.length_take, List.length_drop]
      have := hI.1; omega
    · simp only [FlatPool.set]
      by_cases e' : j = i
      · subst e'; rw [getD_set_eq _ _ _ _ hi]; exact hk
      · rw [getD_set_ne _ _ _ _ _ e']; exact hI.2.2 j
  · rw [trySet_err h]; exact hI

end BfeVerif.C20
