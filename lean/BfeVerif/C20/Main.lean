import BfeVerif.C20.Driver
def main : IO Unit := BfeVerif.Proto.driverMain BfeVerif.C20.run
