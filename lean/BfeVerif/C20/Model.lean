/-
  C20 — model of bfe_util/hash_set (HashSet + nodePool) over bfe_util/byte_pool.  Core-only.

  Mirrors the Go code (after the fix of `validateKey`, see fixes/C20-fixed-keylen.md):

    NewHashSet(elemNum, elemSize, isFixKeyLen, hashFunc): error if elemNum <= 0 || elemSize <= 0;
        ha = [-1; elemNum*LOAD_FACTOR(5)]; np.array[i].next = i+1 (last -1); freeNode = 0; length = 0
    validateKey(key): if fixed && len(key) != elemSize -> error;  if len(key) <= elemSize -> nil else error
    Add(key):    if Full() -> error;  validateKey;  h := hashFunc(key) % haSize;  if exist(h,key) -> nil
                 node := freeNode (error if -1); freeNode = next[node]; next[node] = ha[h]; pool.Set(node,key);
                 length++; ha[h] = node
    Remove(key): validateKey;  h := ...;  head := ha[h]; if head == -1 -> nil;  ha[h] = del(head, key)
    del(head,key): if key == elem(head) { nh := next[head]; recycle(head); return nh }
                   p := head; for { i := next[p]; if i == -1 break;
                                    if key == elem(i) { next[p] = next[i]; recycle(i); return head }; p = i }; return head
    recycle(n):  next[n] = freeNode; freeNode = n; length--
    exist(h,key): for i := ha[h]; i != -1; i = next[i] { if key == elem(i) return true }; false
    Len() = length;  Full() = length >= capacity

  int32 index `-1` is `none`.  The byte pool is modelled as one byte string per node (`keys`): after the fix
  `pool.Set(node,key)` never fails and `pool.Get(node)` returns exactly the last key set (`FlatPool` below models
  the flat buffer and `Proofs.lean` proves that law).  Loops over chains carry a fuel of `cap` (chains of a
  well-formed set have at most `cap` nodes; proved).  The hash function is a parameter.
-/
namespace BfeVerif.C20

abbrev Key := List UInt8

structure HS where
  cap : Nat
  es : Nat
  fixed : Bool
  ha : List (Option Nat)
  next : List (Option Nat)
  free : Option Nat
  len : Nat
  keys : List Key
  deriving Repr

def HS.haSize (s : HS) : Nat := s.ha.length

/-- `np.array[i].next` -/
def nextOf (next : List (Option Nat)) (i : Nat) : Option Nat := next.getD i none
/-- `np.element(i)` -/
def keyOf (keys : List Key) (i : Nat) : Key := keys.getD i []

def initNext (cap : Nat) : List (Option Nat) :=
  (List.range cap).map fun i => if i + 1 < cap then some (i + 1) else none

def new (cap es : Nat) (fixed : Bool) : Option HS :=
  if cap = 0 ∨ es = 0 then none
  else some {
    cap := cap, es := es, fixed := fixed
    ha := List.replicate (cap * 5) none
    next := initNext cap
    free := some 0
    len := 0
    keys := List.replicate cap (if fixed then List.replicate es 0 else []) }

def validKey (es : Nat) (fixed : Bool) (k : Key) : Bool :=
  if fixed && k.length != es then false else decide (k.length ≤ es)

inductive Out where
  | ok | errFull | errLen | errOther
  | bool (b : Bool)
  | nat (n : Nat)
  deriving DecidableEq, Repr

inductive Op where
  | add (k : Key) | rm (k : Key) | ex (k : Key) | len | full
  deriving Repr

/-- `np.exist(head, key)` -/
def existLoop (next : List (Option Nat)) (keys : List Key) (key : Key) : Nat → Option Nat → Bool
  | _, none => false
  | 0, some _ => false
  | fuel + 1, some i => if keyOf keys i == key then true else existLoop next keys key fuel (nextOf next i)

/-- the `for` loop of `np.del`: finds `(pindex, index)` with `next[pindex] = index` and `elem(index) = key` -/
def delLoop (next : List (Option Nat)) (keys : List Key) (key : Key) : Nat → Nat → Option (Nat × Nat)
  | 0, _ => none
  | fuel + 1, p =>
    match nextOf next p with
    | none => none
    | some i => if keyOf keys i == key then some (p, i) else delLoop next keys key fuel i

def bucket (hash : Key → Nat) (s : HS) (k : Key) : Nat := hash k % s.haSize

def exist (hash : Key → Nat) (s : HS) (k : Key) : Bool :=
  if !validKey s.es s.fixed k then false
  else existLoop s.next s.keys k s.cap (s.ha.getD (bucket hash s k) none)

/-- `recyleNode(n)` -/
def recycle (s : HS) (n : Nat) : HS :=
  { s with next := s.next.set n s.free, free := some n, len := s.len - 1 }

def add (hash : Key → Nat) (s : HS) (k : Key) : HS × Out :=
  if s.len ≥ s.cap then (s, .errFull)
  else if !validKey s.es s.fixed k then (s, .errLen)
  else
    let b := bucket hash s k
    let head := s.ha.getD b none
    if existLoop s.next s.keys k s.cap head then (s, .ok)
    else match s.free with
      | none => (s, .errOther)
      | some node =>
        ({ s with free := nextOf s.next node
                  next := s.next.set node head
                  keys := s.keys.set node k
                  len := s.len + 1
                  ha := s.ha.set b (some node) }, .ok)

def remove (hash : Key → Nat) (s : HS) (k : Key) : HS × Out :=
  if !validKey s.es s.fixed k then (s, .errLen)
  else
    let b := bucket hash s k
    match s.ha.getD b none with
    | none => (s, .ok)
    | some head =>
      if keyOf s.keys head == k then
        let nh := nextOf s.next head
        let s' := recycle s head
        ({ s' with ha := s'.ha.set b nh }, .ok)
      else
        match delLoop s.next s.keys k s.cap head with
        | none => (s, .ok)                -- `ha[h] = head` re-assigns the same head: no-op
        | some (p, i) =>
          let s1 := { s with next := s.next.set p (nextOf s.next i) }
          (recycle s1 i, .ok)

def step (hash : Key → Nat) (s : HS) : Op → HS × Out
  | .add k => add hash s k
  | .rm k => remove hash s k
  | .ex k => (s, .bool (exist hash s k))
  | .len => (s, .nat s.len)
  | .full => (s, .bool (decide (s.len ≥ s.cap)))

def runOps (hash : Key → Nat) : HS → List Op → List Out
  | _, [] => []
  | s, o :: os => let r := step hash s o; r.2 :: runOps hash r.1 os

/-! Specification: a mathematical set of keys (duplicate-free list) with a capacity. -/

structure Cfg where
  cap : Nat
  es : Nat
  fixed : Bool

def specStep (c : Cfg) (l : List Key) : Op → List Key × Out
  | .add k =>
    if l.length ≥ c.cap then (l, .errFull)                -- at capacity: refused, members untouched
    else if !validKey c.es c.fixed k then (l, .errLen)    -- invalid length: rejected
    else if l.contains k then (l, .ok) else (k :: l, .ok)
  | .rm k => if !validKey c.es c.fixed k then (l, .errLen) else (l.erase k, .ok)
  | .ex k => (l, .bool (l.contains k))
  | .len => (l, .nat l.length)
  | .full => (l, .bool (decide (l.length ≥ c.cap)))

def specRun (c : Cfg) : List Key → List Op → List Out
  | _, [] => []
  | l, o :: os => let r := specStep c l o; r.2 :: specRun c r.1 os

/-! The flat byte pools (bfe_util/byte_pool): `buf` of `n*size` bytes, variable pool with a length array. -/

structure FlatPool where
  size : Nat
  buf : List UInt8
  lens : List Nat      -- BytePool.length;  FixedBytePool: every entry is `size`

/-- `copy(pool.buf[start:], key)` with `start = index*size`, then `length[index] = len(key)` -/
def FlatPool.set (p : FlatPool) (i : Nat) (k : Key) : FlatPool :=
  { p with buf := p.buf.take (i * p.size) ++ k ++ p.buf.drop (i * p.size + k.length)
           lens := p.lens.set i k.length }

/-- `pool.buf[start : start+length[index]]` -/
def FlatPool.get (p : FlatPool) (i : Nat) : Key :=
  (p.buf.drop (i * p.size)).take (p.lens.getD i 0)

/-- `NewBytePool(n, size)` / `NewFixedBytePool(n, size)`: zeroed buffer; the fixed pool always returns `size` bytes -/
def FlatPool.new (n size : Nat) (fixed : Bool) : FlatPool :=
  { size := size, buf := List.replicate (n * size) 0, lens := List.replicate n (if fixed then size else 0) }

inductive PoolOut where
  | ok | errIndex | errSize
  deriving DecidableEq, Repr

/-- `pool.Set(index, key)` with its two checks: `int(index) >= maxElemNum` -> error; wrong size
    (`len(key) != elemSize` for the fixed pool, `len(key) > maxElemSize` otherwise) -> error; else store -/
def FlatPool.trySet (p : FlatPool) (fixed : Bool) (i : Nat) (k : Key) : FlatPool × PoolOut :=
  if i ≥ p.lens.length then (p, .errIndex)
  else if (if fixed then k.length != p.size else decide (k.length > p.size)) then (p, .errSize)
  else (p.set i k, .ok)

end BfeVerif.C20
