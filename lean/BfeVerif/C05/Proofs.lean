import BfeVerif.C05.Model
/-! C05 helper lemmas (core only). -/
namespace BfeVerif.C05

/-- the call returned a backend of the list or the "all down" error -/
def Good (n : Nat) (r : Res) : Prop := r.out = .err 0 ∨ ∃ i, i < n ∧ r.out = .ok i

theorem getB_mem {bs : List B} {i : Nat} (h : i < bs.length) : getB bs i ∈ bs := by
  unfold getB
  rw [List.getD_eq_getElem?_getD, List.getElem?_eq_getElem h]
  exact List.getElem_mem h

/-! ### simpleBalance -/

/-- number of loop iterations until the cursor is back at `s` -/
def dist (next s n : Nat) : Nat := if next < s then s - next else n - next + s

theorem moveToNext_lt {next n : Nat} (h : next < n) : moveToNext next n < n := by
  unfold moveToNext; split <;> omega

theorem dist_step {next s n : Nat} (h1 : next < n) (h2 : s < n) (h3 : moveToNext next n ≠ s) :
    dist (moveToNext next n) s n + 1 = dist next s n := by
  by_cases a : next + 1 ≥ n
  · have hm : moveToNext next n = 0 := by simp [moveToNext, a]
    rw [hm] at h3 ⊢
    simp only [dist]
    split <;> split <;> omega
  · have hm : moveToNext next n = next + 1 := by simp [moveToNext, a]
    rw [hm] at h3 ⊢
    simp only [dist]
    split <;> split <;> omega

theorem dist_pos {next s n : Nat} (h1 : next < n) (h2 : s < n) : 1 ≤ dist next s n := by
  unfold dist; split <;> omega

theorem dist_self {s n : Nat} (h2 : s < n) : dist s s n = n := by
  unfold dist; split <;> omega

theorem resetW_inv (bs : List B) : ∀ b ∈ resetW bs, b.cur = b.w := by
  intro b hb
  simp only [resetW, List.mem_map] at hb
  obtain ⟨a, _, rfl⟩ := hb
  rfl

/-- phase B: after a reset (`current = weight` everywhere, flag true, brr.next = 0) one more pass ends the call -/
theorem simpleLoop_phaseB (E : Env) : ∀ (fuel : Nat) (bs : List B) (next t : Nat),
    next < bs.length → (∀ b ∈ bs, b.cur = b.w) → fuel ≥ bs.length - next →
    Good bs.length (simpleLoop E fuel bs 0 next true t) ∧
    (simpleLoop E fuel bs 0 next true t).t ≤ t + (bs.length - next) ∧
    (simpleLoop E fuel bs 0 next true t).bs.length = bs.length ∧
    (simpleLoop E fuel bs 0 next true t).next < bs.length := by
  intro fuel
  induction fuel with
  | zero => intro bs next t h1 _ h3; omega
  | succ fuel ih =>
    intro bs next t h1 hinv h3
    rw [simpleLoop]
    have hn : ¬ next ≥ bs.length := by omega
    simp only [hn, if_false]
    by_cases hb : E.av t (getB bs next).id = true ∧ (getB bs next).cur > 0
    · simp only [hb, and_self, if_true]
      refine ⟨Or.inr ⟨next, h1, rfl⟩, by omega, by simp, moveToNext_lt h1⟩
    · simp only [hb, if_false]
      have hw : ¬ (E.av t (getB bs next).id = true ∧ (getB bs next).w > 0) := by
        rw [← hinv _ (getB_mem h1)]; exact hb
      simp only [hw, if_false]
      by_cases hz : moveToNext next bs.length = 0
      · simp only [hz, if_true]
        exact ⟨Or.inl rfl, by omega, trivial, by omega⟩
      · simp only [hz, if_false]
        have hm : moveToNext next bs.length = next + 1 := by
          unfold moveToNext at hz ⊢; split at hz <;> simp_all
        have hlt := moveToNext_lt h1
        rw [hm] at hlt ⊢
        obtain ⟨a, b, c, d⟩ := ih bs (next + 1) (t + 1) hlt hinv (by omega)
        exact ⟨a, by omega, c, d⟩

/-- phase A: from any cursor/flag, at most `dist` iterations until wrap, then `err` or reset + phase B -/
theorem simpleLoop_phaseA (E : Env) : ∀ (fuel : Nat) (bs : List B) (s next : Nat) (allDown : Bool) (t : Nat),
    next < bs.length → s < bs.length → fuel ≥ dist next s bs.length + bs.length →
    Good bs.length (simpleLoop E fuel bs s next allDown t) ∧
    (simpleLoop E fuel bs s next allDown t).t ≤ t + dist next s bs.length + bs.length ∧
    (simpleLoop E fuel bs s next allDown t).bs.length = bs.length ∧
    (simpleLoop E fuel bs s next allDown t).next < bs.length := by
  intro fuel
  induction fuel with
  | zero => intro bs s next _ t h1 h2 h3; omega
  | succ fuel ih =>
    intro bs s next allDown t h1 h2 h3
    have hd := dist_pos h1 h2
    rw [simpleLoop]
    have hn : ¬ next ≥ bs.length := by omega
    simp only [hn, if_false]
    by_cases hb : E.av t (getB bs next).id = true ∧ (getB bs next).cur > 0
    · simp only [hb, and_self, if_true]
      refine ⟨Or.inr ⟨next, h1, rfl⟩, by omega, by simp, moveToNext_lt h1⟩
    · simp only [hb, if_false]
      by_cases hz : moveToNext next bs.length = s
      · simp only [hz, if_true]
        cases hf : (if E.av t (getB bs next).id = true ∧ (getB bs next).w > 0 then false else allDown)
        case true => exact ⟨Or.inl rfl, by simp only [if_true]; omega, rfl, by simpa using h2⟩
        case false =>
          simp only [Bool.false_eq_true, if_false]
          have hl : (resetW bs).length = bs.length := by simp [resetW]
          have h0 : 0 < (resetW bs).length := by omega
          obtain ⟨a, b, c, d⟩ := simpleLoop_phaseB E fuel (resetW bs) 0 (t + 1) h0 (resetW_inv bs) (by omega)
          rw [hl] at a b c d
          exact ⟨a, by omega, c, d⟩
      · simp only [hz, if_false]
        have hs := dist_step h1 h2 hz
        obtain ⟨a, b, c, d⟩ := ih bs s (moveToNext next bs.length)
          (if E.av t (getB bs next).id = true ∧ (getB bs next).w > 0 then false else allDown) (t + 1)
          (moveToNext_lt h1) h2 (by omega)
        exact ⟨a, by omega, c, d⟩

/-! ### smoothBalance -/

theorem smoothLoop_spec (E : Env) : ∀ (ptrs : List Nat) (bs : List B) (best : Option Nat) (total mx : Int) (t : Nat),
    (smoothLoop E ptrs bs best total mx t).1.length = bs.length ∧
    (smoothLoop E ptrs bs best total mx t).2.2.2 = t + ptrs.length ∧
    (∀ i, (smoothLoop E ptrs bs best total mx t).2.1 = some i → i ∈ ptrs ∨ best = some i) := by
  intro ptrs
  induction ptrs with
  | nil => intro bs best total mx t; exact ⟨rfl, rfl, fun i h => Or.inr h⟩
  | cons p rest ih =>
    intro bs best total mx t
    rw [smoothLoop]
    split
    · obtain ⟨a, b, c⟩ := ih bs best total mx (t + 1)
      refine ⟨a, by rw [b, List.length_cons]; omega, fun i h => ?_⟩
      rcases c i h with h | h
      · exact Or.inl (List.mem_cons_of_mem _ h)
      · exact Or.inr h
    · obtain ⟨a, b, c⟩ := ih (bs.set p { getB bs p with cur := (getB bs p).cur + (getB bs p).w })
        (if (best.isNone || decide ((getB bs p).cur > mx)) = true then some p else best)
        (total + (getB bs p).cur) (if (best.isNone || decide ((getB bs p).cur > mx)) = true then (getB bs p).cur else mx) (t + 1)
      refine ⟨by rw [a, List.length_set], by rw [b, List.length_cons]; omega, fun i h => ?_⟩
      rcases c i h with h | h
      · exact Or.inl (List.mem_cons_of_mem _ h)
      · split at h
        · injection h with h; subst h; exact Or.inl List.mem_cons_self
        · exact Or.inr h

theorem smooth_good (E : Env) (ptrs : List Nat) (bs : List B) (next t : Nat)
    (hp : ∀ i ∈ ptrs, i < bs.length) :
    Good bs.length (smooth E ptrs bs next t) ∧ (smooth E ptrs bs next t).t = t + ptrs.length ∧
    (smooth E ptrs bs next t).bs.length = bs.length ∧ (smooth E ptrs bs next t).next = next := by
  obtain ⟨a, b, c⟩ := smoothLoop_spec E ptrs bs none 0 0 t
  unfold smooth
  split
  · rename_i h; rw [h] at a b
    exact ⟨Or.inl rfl, b, a, rfl⟩
  · rename_i bs' i total t' h; rw [h] at a b c
    have hi : i ∈ ptrs := by
      rcases c i rfl with h | h
      · exact h
      · cases h
    exact ⟨Or.inr ⟨i, hp i hi, rfl⟩, b, by simp only [List.length_set]; exact a, rfl⟩

/-! ### leastConnsBalance -/

theorem lcPass1_spec (E : Env) (bs : List B) : ∀ (ptrs : List Nat) (best : Option Nat) (single : Bool) (t : Nat),
    (lcPass1 E bs ptrs best single t).2.2 ≤ t + 3 * ptrs.length ∧
    (∀ k, (lcPass1 E bs ptrs best single t).1 = some k → k ∈ ptrs ∨ best = some k) := by
  intro ptrs
  induction ptrs with
  | nil => intro best single t; exact ⟨by simp [lcPass1], fun k h => Or.inr h⟩
  | cons p rest ih =>
    intro best single t
    have lift : ∀ (best' : Option Nat) (single' : Bool) (t' : Nat), t' ≤ t + 3 →
        (best' = best ∨ best' = some p) →
        (lcPass1 E bs rest best' single' t').2.2 ≤ t + 3 * (p :: rest).length ∧
        (∀ k, (lcPass1 E bs rest best' single' t').1 = some k → k ∈ p :: rest ∨ best = some k) := by
      intro best' single' t' ht hb
      obtain ⟨a, c⟩ := ih best' single' t'
      refine ⟨by rw [List.length_cons]; omega, fun k h => ?_⟩
      rcases c k h with h | h
      · exact Or.inl (List.mem_cons_of_mem _ h)
      · rcases hb with hb | hb
        · exact Or.inr (hb ▸ h)
        · rw [hb] at h; injection h with h; subst h; exact Or.inl List.mem_cons_self
    simp only [lcPass1]
    split
    · exact lift best single (t + 1) (by omega) (Or.inl rfl)
    · split
      · exact lift (some p) true (t + 1) (by omega) (Or.inr rfl)
      · split
        · exact lift (some p) true (t + 3) (by omega) (Or.inr rfl)
        · split
          · exact lift _ false (t + 3) (by omega) (Or.inl rfl)
          · exact lift _ single (t + 3) (by omega) (Or.inl rfl)

theorem lcPass2_spec (E : Env) (bs : List B) (k : Nat) : ∀ (ptrs : List Nat) (t : Nat),
    (lcPass2 E bs k ptrs t).2 ≤ t + 3 * ptrs.length ∧
    (∀ i ∈ (lcPass2 E bs k ptrs t).1, i ∈ ptrs) := by
  intro ptrs
  induction ptrs with
  | nil => intro t; exact ⟨by simp [lcPass2], fun i h => by simp [lcPass2] at h⟩
  | cons p rest ih =>
    intro t
    rw [lcPass2]
    split
    · obtain ⟨a, c⟩ := ih (t + 1)
      exact ⟨by rw [List.length_cons]; omega, fun i h => List.mem_cons_of_mem _ (c i h)⟩
    · obtain ⟨a, c⟩ := ih (t + 3)
      refine ⟨by simp only [List.length_cons]; omega, fun i h => ?_⟩
      simp only at h
      split at h
      · rcases List.mem_cons.mp h with h | h
        · subst h; exact List.mem_cons_self
        · exact List.mem_cons_of_mem _ (c i h)
      · exact List.mem_cons_of_mem _ (c i h)

/-- leastConnsBalance: candidates are members of `ptrs`; at most `6·|ptrs|` reads -/
theorem leastConns_spec (E : Env) (bs : List B) (ptrs : List Nat) (t : Nat) :
    (leastConns E bs ptrs t).2 ≤ t + 6 * ptrs.length ∧
    (∀ c, (leastConns E bs ptrs t).1 = some c → ∀ i ∈ c, i ∈ ptrs) := by
  obtain ⟨a, b⟩ := lcPass1_spec E bs ptrs none true t
  unfold leastConns
  split
  · rename_i h; rw [h] at a
    exact ⟨by simp only at a ⊢; omega, fun c h => by cases h⟩
  · rename_i k t1 h; rw [h] at a b
    refine ⟨by simp only at a ⊢; omega, fun c hc i hi => ?_⟩
    injection hc with hc; subst hc
    rcases List.mem_singleton.mp hi with rfl
    rcases b i rfl with h | h
    · exact h
    · cases h
  · rename_i k t1 h; rw [h] at a
    obtain ⟨a2, b2⟩ := lcPass2_spec E bs k ptrs t1
    refine ⟨by simp only at a a2 ⊢; omega, fun c hc i hi => ?_⟩
    injection hc with hc; subst hc
    exact b2 i hi

theorem lcPass2_length (E : Env) (bs : List B) (k : Nat) : ∀ (ptrs : List Nat) (t : Nat),
    (lcPass2 E bs k ptrs t).1.length ≤ ptrs.length := by
  intro ptrs
  induction ptrs with
  | nil => intro t; simp [lcPass2]
  | cons p rest ih =>
    intro t
    rw [lcPass2]
    split
    · have := ih (t + 1); rw [List.length_cons]; omega
    · have := ih (t + 3)
      simp only
      split
      · simp only [List.length_cons]; omega
      · rw [List.length_cons]; omega

theorem leastConns_length (E : Env) (bs : List B) (ptrs : List Nat) (t : Nat) :
    ∀ c, (leastConns E bs ptrs t).1 = some c → c.length ≤ ptrs.length := by
  obtain ⟨_, b⟩ := lcPass1_spec E bs ptrs none true t
  unfold leastConns
  split
  · intro c h; cases h
  · rename_i k t1 h; rw [h] at b
    intro c hc; injection hc with hc; subst hc
    have hk : k ∈ ptrs := by
      rcases b k rfl with h | h
      · exact h
      · cases h
    have := List.length_pos_of_mem hk
    simp only [List.length_cons, List.length_nil]; omega
  · rename_i k t1 h
    intro c hc; injection hc with hc; subst hc
    exact lcPass2_length E bs k ptrs t1

theorem mem_allPtrs {bs : List B} {i : Nat} (h : i ∈ allPtrs bs) : i < bs.length := by
  simpa [allPtrs] using h

theorem getD_mem_of_lt {c : List Nat} {j : Nat} (h : j < c.length) : c.getD j 0 ∈ c := by
  rw [List.getD_eq_getElem?_getD, List.getElem?_eq_getElem h]
  exact List.getElem_mem h

/-! ### stickyBalance -/

theorem insertB_length (b : B) : ∀ l : List B, (insertB b l).length = l.length + 1 := by
  intro l
  induction l with
  | nil => rfl
  | cons x xs ih => unfold insertB; split <;> simp [ih]

theorem sortById_length : ∀ l : List B, (sortById l).length = l.length := by
  intro l
  induction l with
  | nil => rfl
  | cons x xs ih => simp [sortById, insertB_length, ih]

def sumW (bs : List B) : List Nat → Int
  | [] => 0
  | i :: rest => (getB bs i).w + sumW bs rest

theorem stickyCands_spec (E : Env) (bs : List B) : ∀ (ptrs : List Nat) (t : Nat),
    (stickyCands E bs ptrs t).2.1 = sumW bs (stickyCands E bs ptrs t).1 ∧
    (stickyCands E bs ptrs t).2.2 = t + ptrs.length ∧
    (∀ i ∈ (stickyCands E bs ptrs t).1, i ∈ ptrs ∧ (getB bs i).w > 0) := by
  intro ptrs
  induction ptrs with
  | nil => intro t; exact ⟨rfl, rfl, fun i h => by simp [stickyCands] at h⟩
  | cons p rest ih =>
    intro t
    obtain ⟨a, b, c⟩ := ih (t + 1)
    rw [stickyCands]
    split
    · rename_i h
      refine ⟨by simp only [sumW, a], by simp only [b, List.length_cons]; omega, fun i hi => ?_⟩
      rcases List.mem_cons.mp hi with hi | hi
      · subst hi; exact ⟨List.mem_cons_self, h.2⟩
      · exact ⟨List.mem_cons_of_mem _ (c i hi).1, (c i hi).2⟩
    · exact ⟨a, by rw [b, List.length_cons]; omega, fun i hi => ⟨List.mem_cons_of_mem _ (c i hi).1, (c i hi).2⟩⟩

theorem stickyPick_some (bs : List B) : ∀ (c : List Nat) (v : Int),
    (∀ i ∈ c, (getB bs i).w > 0) → 0 ≤ v → v < sumW bs c → ∃ i, i ∈ c ∧ stickyPick bs c v = some i := by
  intro c
  induction c with
  | nil => intro v _ h0 h1; simp [sumW] at h1; omega
  | cons p rest ih =>
    intro v hw h0 h1
    rw [stickyPick]
    by_cases hv : v - (getB bs p).w < 0
    · exact ⟨p, List.mem_cons_self, by simp [hv]⟩
    · simp only [hv, if_false]
      obtain ⟨i, hi, he⟩ := ih (v - (getB bs p).w) (fun i hi => hw i (List.mem_cons_of_mem _ hi)) (by omega)
        (by simp only [sumW] at h1; omega)
      exact ⟨i, List.mem_cons_of_mem _ hi, he⟩

theorem sumW_pos (bs : List B) : ∀ c : List Nat, c.length ≠ 0 → (∀ i ∈ c, (getB bs i).w > 0) → sumW bs c > 0 := by
  intro c
  induction c with
  | nil => intro h; simp at h
  | cons p rest ih =>
    intro _ hw
    have h1 := hw p List.mem_cons_self
    by_cases hr : rest.length = 0
    · have : rest = [] := List.eq_nil_of_length_eq_zero hr
      subst this; simp only [sumW]; omega
    · have := ih hr (fun i hi => hw i (List.mem_cons_of_mem _ hi))
      simp only [sumW]; omega

/-! ### the OLD simpleBalance loop: machine-checked record of the livelock -/

/-- sequential witness: A (weight 1) down, B (weight -1) up -/
def oldBs : List B := [⟨0, 100, 100⟩, ⟨1, -100, -100⟩]
def oldEnv : Env := { av := fun _ id => id == 1, cn := fun _ _ => 0 }

theorem simpleLoopOld_seq_diverges : ∀ fuel : Nat,
    (∀ flag t, (simpleLoopOld oldEnv fuel oldBs 0 0 flag t).out = .diverge) ∧
    (∀ flag t, (simpleLoopOld oldEnv fuel oldBs 0 1 flag t).out = .diverge) := by
  intro fuel
  induction fuel with
  | zero => exact ⟨fun _ _ => rfl, fun _ _ => rfl⟩
  | succ fuel ih =>
    refine ⟨fun flag t => ?_, fun flag t => ?_⟩
    · rw [simpleLoopOld]
      simpa [oldBs, oldEnv, getB, moveToNext] using ih.2 flag (t + 1)
    · rw [simpleLoopOld]
      simpa [oldBs, oldEnv, getB, moveToNext, resetW] using ih.1 false (t + 1)

/-- concurrent witness with positive weights: one backend, `current` exhausted, available at the first read only -/
def oldBs2 : List B := [⟨0, 100, 0⟩]
def oldBs2' : List B := [⟨0, 100, 100⟩]
def oldEnv2 : Env := { av := fun t _ => t == 0, cn := fun _ _ => 0 }

theorem simpleLoopOld_conc_diverges' : ∀ (fuel t : Nat), 1 ≤ t →
    (simpleLoopOld oldEnv2 fuel oldBs2' 0 0 false t).out = .diverge := by
  intro fuel
  induction fuel with
  | zero => intro _ _; rfl
  | succ fuel ih =>
    intro t ht
    rw [simpleLoopOld]
    have h0 : (t == 0) = false := by simp; omega
    simpa [oldBs2', oldEnv2, getB, moveToNext, resetW, h0] using ih (t + 1) (by omega)

theorem simpleLoopOld_conc_diverges (fuel : Nat) :
    (simpleLoopOld oldEnv2 fuel oldBs2 0 0 true 0).out = .diverge := by
  cases fuel with
  | zero => rfl
  | succ fuel =>
    rw [simpleLoopOld]
    simpa [oldBs2, oldBs2', oldEnv2, getB, moveToNext, resetW] using simpleLoopOld_conc_diverges' fuel 1 (by omega)

end BfeVerif.C05
