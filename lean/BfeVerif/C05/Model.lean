/-
  C05 — model of the bal_slb balancing algorithms (bfe_balance/bal_slb/bal_rr.go) at the granularity the
  code's locking gives them.  Core-only.

  Every algorithm runs with the BalanceRR mutex held, so `backends`, `weight`, `current`, `next` are stable
  inside one call and `Update` is an atomic step between calls.  `backend.Avail()` / `backend.ConnNum()`
  however take only the per-backend RWMutex: two reads inside ONE locked walk may see different values
  (SetAvail, Inc/DecConnNum, health checker run concurrently).  The model therefore reads through an
  adversarial oracle `Env`: the `t`-th read of a call returns `E.av t id` / `E.cn t id`, where `E` is an
  ARBITRARY function of the read counter — every interleaving of writers is one such `E`.

  A `BackendList` (slice of *BackendRR) is a list of positions ("pointers") into the heap `bs`.
  Go `int` is modelled by `Int` (no 64-bit overflow: weights are conf*100, |current| <= sum of weights).
-/
namespace BfeVerif.C05

/-- BackendRR: `id` stands for the *BfeBackend object (its AddrInfo), `w` = weight, `cur` = current. -/
structure B where
  id : Nat
  w : Int
  cur : Int
deriving Repr, DecidableEq, Inhabited

inductive Out where
  | ok (pos : Nat)        -- a backend: position in the (possibly re-sorted) backend list
  | err (code : Nat)      -- 0 = "rr_bal:all backend is down", 1 = "rr_bal:stickyBalance fail"
  | panic (msg : String)
  | diverge               -- fuel exhausted: the loop did not return
deriving Repr, DecidableEq, Inhabited

/-- adversarial environment: value returned by the `t`-th `Avail()` / `ConnNum()` read of backend `id`. -/
structure Env where
  av : Nat → Nat → Bool
  cn : Nat → Nat → Int

/-- result of one call: outcome, new heap, new `brr.next`, read counter after the call. -/
structure Res where
  out : Out
  bs : List B
  next : Nat
  t : Nat

def getB (bs : List B) (i : Nat) : B := bs.getD i ⟨0, 0, 0⟩

/-! ### smoothBalance(backs) -/

/-- the `for _, backendRR := range backs` loop; state = (heap, best, total, max, reads) -/
def smoothLoop (E : Env) : List Nat → List B → Option Nat → Int → Int → Nat → (List B × Option Nat × Int × Nat)
  | [], bs, best, total, _, t => (bs, best, total, t)
  | i :: rest, bs, best, total, mx, t =>
    let b := getB bs i
    -- `!backend.Avail() || backendRR.weight <= 0`: Avail is read first and always
    if E.av t b.id = false ∨ b.w ≤ 0 then smoothLoop E rest bs best total mx (t + 1)
    else
      let pick : Bool := best.isNone || decide (b.cur > mx)
      smoothLoop E rest (bs.set i { b with cur := b.cur + b.w })
        (if pick then some i else best) (total + b.cur) (if pick then b.cur else mx) (t + 1)

def smooth (E : Env) (ptrs : List Nat) (bs : List B) (next t : Nat) : Res :=
  match smoothLoop E ptrs bs none 0 0 t with
  | (bs', none, _, t') => ⟨.err 0, bs', next, t'⟩
  | (bs', some i, total, t') =>
    ⟨.ok i, bs'.set i { getB bs' i with cur := (getB bs' i).cur - total }, next, t'⟩

/-! ### leastConnsBalance(backs) -/

def sgn (x : Int) : Int := if x > 0 then 1 else if x = 0 then 0 else -1

/-- compLCWeight(a,b): reads a.ConnNum() (read t) then b.ConnNum() (read t+1). -/
def comp (E : Env) (bs : List B) (a b : Nat) (t : Nat) : Int :=
  sgn (E.cn t (getB bs a).id * (getB bs b).w - E.cn (t + 1) (getB bs b).id * (getB bs a).w)

/-- first loop: (best, singleBackend, reads) -/
def lcPass1 (E : Env) (bs : List B) : List Nat → Option Nat → Bool → Nat → (Option Nat × Bool × Nat)
  | [], best, single, t => (best, single, t)
  | i :: rest, best, single, t =>
    let b := getB bs i
    if E.av t b.id = false ∨ b.w ≤ 0 then lcPass1 E bs rest best single (t + 1)
    else match best with
      | none => lcPass1 E bs rest (some i) true (t + 1)
      | some k =>
        let r := comp E bs k i (t + 1)
        if r > 0 then lcPass1 E bs rest (some i) true (t + 3)
        else if r = 0 then lcPass1 E bs rest best false (t + 3)
        else lcPass1 E bs rest best single (t + 3)

/-- second loop (only if !singleBackend): candidates with compLCWeight(best, x) == 0, re-reading everything -/
def lcPass2 (E : Env) (bs : List B) (k : Nat) : List Nat → Nat → (List Nat × Nat)
  | [], t => ([], t)
  | i :: rest, t =>
    let b := getB bs i
    if E.av t b.id = false ∨ b.w ≤ 0 then lcPass2 E bs k rest (t + 1)
    else
      let r := comp E bs k i (t + 1)
      let p := lcPass2 E bs k rest (t + 3)
      (if r = 0 then i :: p.1 else p.1, p.2)

/-- `none` = error "all backend is down"; `some candidates` otherwise (possibly EMPTY under concurrent change) -/
def leastConns (E : Env) (bs : List B) (ptrs : List Nat) (t : Nat) : Option (List Nat) × Nat :=
  match lcPass1 E bs ptrs none true t with
  | (none, _, t1) => (none, t1)
  | (some k, true, t1) => (some [k], t1)
  | (some k, false, t1) => let p := lcPass2 E bs k ptrs t1; (some p.1, p.2)

def allPtrs (bs : List B) : List Nat := List.range bs.length

def wlcSmooth (E : Env) (bs : List B) (next t : Nat) : Res :=
  match leastConns E bs (allPtrs bs) t with
  | (none, t1) => ⟨.err 0, bs, next, t1⟩
  | (some c, t1) =>
    if c.length = 1 then ⟨.ok (c.getD 0 0), bs, next, t1⟩ else smooth E c bs next t1

/-- randomBalance as FIXED (guard for the empty list); `rnd` = rand.Int() -/
def randomBalance (rnd : Nat) (c : List Nat) (bs : List B) (next t : Nat) : Res :=
  if c.length = 0 then ⟨.err 0, bs, next, t⟩ else ⟨.ok (c.getD (rnd % c.length) 0), bs, next, t⟩

/-- randomBalance before the fix: `rand.Int() % len(backs)` -/
def randomBalanceOld (rnd : Nat) (c : List Nat) (bs : List B) (next t : Nat) : Res :=
  if c.length = 0 then ⟨.panic "integer divide by zero", bs, next, t⟩
  else ⟨.ok (c.getD (rnd % c.length) 0), bs, next, t⟩

def wlcSimpleWith (rb : Nat → List Nat → List B → Nat → Nat → Res) (E : Env) (rnd : Nat)
    (bs : List B) (next t : Nat) : Res :=
  match leastConns E bs (allPtrs bs) t with
  | (none, t1) => ⟨.err 0, bs, next, t1⟩
  | (some c, t1) =>
    if c.length = 1 then ⟨.ok (c.getD 0 0), bs, next, t1⟩ else rb rnd c bs next t1

def wlcSimple := wlcSimpleWith randomBalance
def wlcSimpleOld := wlcSimpleWith randomBalanceOld

/-! ### stickyBalance(key) -/

def insertB (b : B) : List B → List B
  | [] => [b]
  | x :: xs => if b.id ≤ x.id then b :: x :: xs else x :: insertB b xs

/-- ensureSortedUnlocked: sort by AddrInfo (ids are distinct, so the result of sort.Sort is unique) -/
def sortById : List B → List B
  | [] => []
  | b :: bs => insertB b (sortById bs)

/-- first loop: (candidates, totalWeight, reads) -/
def stickyCands (E : Env) (bs : List B) : List Nat → Nat → (List Nat × Int × Nat)
  | [], t => ([], 0, t)
  | i :: rest, t =>
    let b := getB bs i
    let p := stickyCands E bs rest (t + 1)
    if E.av t b.id = true ∧ b.w > 0 then (i :: p.1, b.w + p.2.1, p.2.2) else p

/-- second loop: `value -= weight; if value < 0 return` -/
def stickyPick (bs : List B) : List Nat → Int → Option Nat
  | [], _ => none
  | i :: rest, v =>
    let v' := v - (getB bs i).w
    if v' < 0 then some i else stickyPick bs rest v'

/-- `hash` = murmur3.Sum64(key) (or rand.Uint32() for a nil key): an arbitrary number -/
def sticky (E : Env) (hash : Nat) (bs0 : List B) (next t : Nat) : Res :=
  let bs := sortById bs0
  let p := stickyCands E bs (allPtrs bs) t
  if p.1.length = 0 then ⟨.err 0, bs, next, p.2.2⟩
  else if p.2.1.toNat = 0 then ⟨.panic "integer divide by zero", bs, next, p.2.2⟩   -- GetHash: hash % uint64(base)
  else match stickyPick bs p.1 (Int.ofNat (hash % p.2.1.toNat)) with
    | some i => ⟨.ok i, bs, next, p.2.2⟩
    | none => ⟨.err 1, bs, next, p.2.2⟩      -- "never come here"

/-! ### simpleBalance -/

def moveToNext (next n : Nat) : Nat := if next + 1 ≥ n then 0 else next + 1

def resetW (bs : List B) : List B := bs.map fun b => { b with cur := b.w }

/-- the `for {}` loop of simpleBalance AS FIXED.  `s` = brr.next, `next` = local cursor, `allDown` = allBackendDown -/
def simpleLoop (E : Env) : Nat → List B → Nat → Nat → Bool → Nat → Res
  | 0, bs, s, _, _, t => ⟨.diverge, bs, s, t⟩
  | fuel + 1, bs, s, next, allDown, t =>
    if next ≥ bs.length then ⟨.panic "index out of range", bs, s, t⟩
    else
      let b := getB bs next
      let avail := E.av t b.id
      if avail = true ∧ b.cur > 0 then
        ⟨.ok next, bs.set next { b with cur := b.cur - 1 }, moveToNext next bs.length, t + 1⟩
      else
        let allDown' : Bool := if avail = true ∧ b.w > 0 then false else allDown
        let next' := moveToNext next bs.length
        if next' = s then
          if allDown' then ⟨.err 0, bs, s, t + 1⟩
          else simpleLoop E fuel (resetW bs) 0 0 true (t + 1)      -- initWeight; brr.next = 0; next = 0; allBackendDown = true
        else simpleLoop E fuel bs s next' allDown' (t + 1)

def simple (E : Env) (fuel : Nat) (bs : List B) (next t : Nat) : Res :=
  if bs.length = 0 then ⟨.err 0, bs, next, t⟩            -- the added guard
  else simpleLoop E fuel bs next next true t

/-- the loop BEFORE the fix: test `weight != 0`, and `allBackendDown` is never set back to true -/
def simpleLoopOld (E : Env) : Nat → List B → Nat → Nat → Bool → Nat → Res
  | 0, bs, s, _, _, t => ⟨.diverge, bs, s, t⟩
  | fuel + 1, bs, s, next, allDown, t =>
    if next ≥ bs.length then ⟨.panic "index out of range", bs, s, t⟩
    else
      let b := getB bs next
      let avail := E.av t b.id
      if avail = true ∧ b.cur > 0 then
        ⟨.ok next, bs.set next { b with cur := b.cur - 1 }, moveToNext next bs.length, t + 1⟩
      else
        let allDown' : Bool := if avail = true ∧ b.w ≠ 0 then false else allDown
        let next' := moveToNext next bs.length
        if next' = s then
          if allDown' then ⟨.err 0, bs, s, t + 1⟩
          else simpleLoopOld E fuel (resetW bs) 0 0 allDown' (t + 1)
        else simpleLoopOld E fuel bs s next' allDown' (t + 1)

def simpleOld (E : Env) (fuel : Nat) (bs : List B) (next t : Nat) : Res :=
  simpleLoopOld E fuel bs next next true t

/-! ### Balance(algor, key) and Update(conf) -/

/-- fuel that `C05_simple_total` proves sufficient -/
def simpleFuel (bs : List B) : Nat := 2 * bs.length

/-- BalanceRR.Balance (slow start off): 0 WrrSimple, 1 WrrSmooth, 2 WrrSticky, 3 WlcSimple, 4 WlcSmooth, else smooth -/
def balance (algo : Nat) (E : Env) (hash rnd : Nat) (bs : List B) (next : Nat) : Res :=
  match algo with
  | 0 => simple E (simpleFuel bs) bs next 0
  | 2 => sticky E hash bs next 0
  | 3 => wlcSimple E rnd bs next 0
  | 4 => wlcSmooth E bs next 0
  | _ => smooth E (allPtrs bs) bs next 0

def updateW (b : B) (w : Int) : B := { b with w := w * 100, cur := if w ≤ 0 then 0 else b.cur }

/-- Update(conf): walk the OLD list keeping members found in conf (UpdateWeight), then append the new members
    (`fresh` order = Go map order; the caller supplies conf in that order); brr.next = 0 -/
def update (bs : List B) (conf : List (Nat × Int)) : List B :=
  let kept := bs.filterMap fun b => (conf.lookup b.id).map (updateW b)
  let fresh := conf.filter fun p => !(bs.any fun b => b.id == p.1)
  kept ++ fresh.map fun p => ⟨p.1, p.2 * 100, p.2 * 100⟩

def initList (ws : List Int) : List B :=
  (List.range ws.length).map fun i => ⟨i, ws.getD i 0 * 100, ws.getD i 0 * 100⟩

/-- well-formed balancer state: the cursor points into the list (or the list is empty) -/
def Wf (bs : List B) (next : Nat) : Prop := bs.length = 0 ∨ next < bs.length

/-! ### BalanceGslb: the gslb mutex as state  (bfe_balance/bal_gslb/bal_gslb.go)

  Every exported operation of BalanceGslb starts with `bal.lock.Lock()`.  `sync.Mutex` is not re-entrant and an
  operation that finds it held by nobody-who-will-release-it blocks for ever, so the lock is modelled as a
  Boolean of the state: an operation on a locked balancer is `hang`; otherwise it takes the lock, runs, and every
  RETURN PATH of the body says whether the lock is released there — `Balance` and `Reload` use
  `defer bal.lock.Unlock()` (all paths release), `SetGslbBasic`, `SetSlowStart`, `BackendInit`, `BackendReload`,
  `Release` unlock explicitly before their single return.  The sub-cluster table kept by `Init` / `Reload`
  (`subClusters` sorted by name, `totalWeight`, `single`, `avail`) is modelled too; what `Balance` picks is not
  (that is the bal_slb part above plus a time-seeded random cross-retry), only THAT it returns.               -/

structure GSub where
  name : Nat            -- sub-cluster "sNN"; the list is kept sorted by name
  weight : Int
deriving Repr, DecidableEq

structure G where
  subs : List GSub
  total : Int
  single : Bool
  avail : Nat
  locked : Bool
deriving Repr, DecidableEq

inductive GRes where
  | ret (what : String)   -- the operation returned (with this observable outcome)
  | hang                  -- blocked on bal.lock for ever
deriving Repr, DecidableEq

def gInsert (x : GSub) : List GSub → List GSub
  | [] => [x]
  | y :: ys => if x.name ≤ y.name then x :: y :: ys else y :: gInsert x ys

def gSort : List GSub → List GSub
  | [] => []
  | x :: xs => gInsert x (gSort xs)

/-- `gslbConf.Check()`: sum of the positive weights must be > 0 -/
def confTotal (conf : List (Nat × Int)) : Int :=
  conf.foldl (fun a p => if p.2 > 0 then a + p.2 else a) 0

/-- the scan `for index, sub := range list { if sub.weight > 0 {...} }`: (totalWeight, availableNum, lastAvailIndex) -/
def gScan : List GSub → Nat → (Int × Nat × Nat) → (Int × Nat × Nat)
  | [], _, acc => acc
  | s :: rest, i, (t, n, last) =>
    if s.weight > 0 then gScan rest (i + 1) (t + s.weight, n + 1, i) else gScan rest (i + 1) (t, n, last)

def gLock (g : G) : G := { g with locked := true }
def gUnlock (g : G) : G := { g with locked := false }

/-- `Init` (no lock taken: the object is not shared yet); `none` = error "gslb total weight = 0" -/
def gInit (conf : List (Nat × Int)) : Option G :=
  let subs := gSort (conf.map fun p => ⟨p.1, p.2⟩)
  let r := gScan subs 0 (0, 0, 0)
  if confTotal conf = 0 then none
  else some { subs := subs, total := r.1, single := r.2.1 == 1, avail := r.2.2, locked := false }

/-- `Reload(gslbConf)`:  Lock; defer Unlock;  if Check fails { return err }  …rebuild…  return nil -/
def gReload (conf : List (Nat × Int)) (g : G) : GRes × G :=
  if g.locked then (.hang, g) else
  let g := gLock g
  if confTotal conf ≤ 0 then (.ret "rej", gUnlock g)                      -- early return: the deferred Unlock runs
  else
    let kept := g.subs.filterMap fun s => (conf.lookup s.name).map fun w => ({ s with weight := w } : GSub)
    let added := (conf.filter fun p => !(g.subs.any fun s => s.name == p.1)).map fun p => (⟨p.1, p.2⟩ : GSub)
    let subs := gSort (kept ++ added)
    let r := gScan subs 0 (0, 0, 0)
    let g := { g with subs := subs, total := r.1,
                      single := r.2.1 == 1, avail := if r.2.1 == 1 then r.2.2 else g.avail }
    (.ret "ok", gUnlock g)                                               -- final return: the deferred Unlock runs

/-- `Balance(req)`: Lock; defer Unlock; … every return path releases; the outcome (a backend or one of the
    errors) is not modelled -/
def gBalance (g : G) : GRes × G :=
  if g.locked then (.hang, g) else (.ret "ret", gUnlock (gLock g))

/-- `BackendReload`, `BackendInit`, `SetGslbBasic`, `SetSlowStart`, `Release`: Lock; body without return; Unlock -/
def gSimpleOp (g : G) : GRes × G :=
  if g.locked then (.hang, g) else (.ret "ret", gUnlock (gLock g))

inductive GOp where
  | bal
  | reload (conf : List (Nat × Int))
  | other        -- BackendReload / SetGslbBasic / SetSlowStart
deriving Repr

def gStep (g : G) : GOp → GRes × G
  | .bal => gBalance g
  | .reload c => gReload c g
  | .other => gSimpleOp g

def gRun : List GOp → G → List GRes × G
  | [], g => ([], g)
  | o :: rest, g =>
    let r := gStep g o
    let q := gRun rest r.2
    (r.1 :: q.1, q.2)

end BfeVerif.C05
