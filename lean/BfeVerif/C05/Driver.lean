import BfeVerif.Common.Proto
import BfeVerif.C05.Model
/-!
  C05 driver.  op = `w=<w,..>;<step>;..` (see harness/cmd/c05/main.go); the model is run on the same history with
  the constant-per-call environment given by the scripted avail / connNum state (a sequential history has no
  change inside a call).  Verdict (spec oracle, on the implementation's result): every `bal` step must have
  returned a backend or an error — `HANG` / `PANIC` / anything else is a FAIL with a class naming algorithm+cause.
-/
namespace BfeVerif.C05
open BfeVerif.Proto

structure World where
  bs : List B
  next : Nat
  av : List (Nat × Bool)    -- by backend id; default true  (NewBfeBackend: avail = true)
  cn : List (Nat × Int)     -- by backend id; default 0

def World.env (w : World) : Env :=
  { av := fun _ id => (w.av.lookup id).getD true, cn := fun _ id => (w.cn.lookup id).getD 0 }

/-- scripted mid-call change: before read `t` set avail (`isAv`) / connNum of backend `id` to `val` -/
structure Change where
  t : Nat
  id : Nat
  isAv : Bool
  val : Int

def insChange (c : Change) : List Change → List Change
  | [] => [c]
  | x :: xs => if c.t < x.t then c :: x :: xs else x :: insChange c xs

/-- stable sort by read index: the controller applies the changes in read order, script order within one index -/
def sortChanges (l : List Change) : List Change := l.foldl (fun acc c => insChange c acc) []

/-- environment of a scripted call: value at read `t` = last change with index ≤ t, else the pre-call value -/
def World.envS (w : World) (sc : List Change) : Env :=
  { av := fun t id =>
      match (sc.filter fun c => c.isAv && c.id == id && decide (c.t ≤ t)).getLast? with
      | some c => c.val == 1
      | none => (w.av.lookup id).getD true
    cn := fun t id =>
      match (sc.filter fun c => !c.isAv && c.id == id && decide (c.t ≤ t)).getLast? with
      | some c => c.val
      | none => (w.cn.lookup id).getD 0 }

/-- first rand.Int() after rand.Seed(1): the harness seeds math/rand before a scripted WlcSimple call -/
def scriptedRnd : Nat := 5577006791947779410

def insNat (x : Nat) : List Nat → List Nat
  | [] => [x]
  | y :: ys => if x ≤ y then x :: y :: ys else y :: insNat x ys

def sortNat (l : List Nat) : List Nat := l.foldr insNat []

def showState (bs : List B) (next : Nat) : String :=
  "/" ++ toString next ++ "/" ++ ",".intercalate (bs.map fun b => toString b.cur)

def parseInts (s : String) : Option (List Int) :=
  if s == "" then some [] else (s.splitOn ",").mapM fun x => x.toInt?

def parseConf (s : String) : Option (List (Nat × Int)) :=
  if s == "" then some [] else (s.splitOn ",").mapM fun e =>
    match e.splitOn "=" with
    | [a, b] => match a.toNat?, b.toInt? with
      | some i, some w => some (i, w)
      | _, _ => none
    | _ => none

/-- context of one bal step, for classification -/
structure Ctx where
  algo : Nat
  n : Nat
  allDown : Bool

structure Acc where
  w : World
  outs : List String := []     -- reversed
  ctxs : List Ctx := []        -- reversed
  tags : List String := []
  stopped : Bool := false
  bad : Bool := false

def addTag (a : Acc) (t : String) : Acc := if a.tags.contains t then a else { a with tags := t :: a.tags }

def setAssoc {β} (l : List (Nat × β)) (k : Nat) (v : β) : List (Nat × β) := (k, v) :: l.filter fun p => p.1 != k

/-- changes whose read was actually performed (index < number of reads of the call) stay in force afterwards -/
def applyChanges (w : World) (sc : List Change) (reads : Nat) : World :=
  sc.foldl (fun w c =>
    if c.t < reads then
      (if c.isAv then { w with av := setAssoc w.av c.id (c.val == 1) } else { w with cn := setAssoc w.cn c.id c.val })
    else w) w

def stepBal (a : Acc) (algo hash : Nat) (script : Option (List (Nat × Bool × Nat × Int))) : Acc :=
  let w := a.w
  -- script positions refer to the list before the call
  let sc : List Change := sortChanges <| (script.getD []).filterMap fun (t, isAv, pos, v) =>
    if pos < w.bs.length then some ⟨t, (getB w.bs pos).id, isAv, v⟩ else none
  let scripted := script.isSome
  let E := if scripted then w.envS sc else w.env
  let a := if scripted then addTag (addTag a "midcall") "nt" else a
  let n := w.bs.length
  let allDown := !(w.bs.any fun b => E.av 0 b.id && decide (b.w > 0))
  let a := { a with ctxs := ⟨algo, n, allDown⟩ :: a.ctxs }
  let a := addTag a ("a" ++ toString (if algo > 4 then 1 else algo))
  let a := if n = 0 then addTag a "empty" else a
  let a := if allDown && n > 0 then addTag a "all-down" else a
  let a := if w.bs.any (fun b => decide (b.w < 0)) then addTag a "neg-weight" else a
  let a := if w.bs.any (fun b => decide (b.w = 0)) then addTag a "zero-weight" else a
  let r := balance algo E hash (if scripted then scriptedRnd else 0) w.bs w.next
  let a := if scripted ∧ r.out = .err 0 ∧ !allDown then addTag a "midcall-err" else a
  let w := if scripted then applyChanges w sc r.t else w
  let a := if algo = 0 ∧ r.t > n ∧ n > 0 then addTag (addTag a "reset") "nt" else a
  let cands := if algo = 3 then (leastConns E w.bs (allPtrs w.bs) 0).1 else none
  let a := match cands with
    | some c => if c.length ≥ 2 then addTag (addTag a "tie") "nt" else a
    | none => a
  let a := if algo = 4 then
      match (leastConns E w.bs (allPtrs w.bs) 0).1 with
      | some c => if c.length ≥ 2 then addTag (addTag a "tie") "nt" else a
      | none => a
    else a
  match r.out with
  | .ok pos =>
    let s := if algo = 3 ∧ !scripted then
        "ok{" ++ ",".intercalate ((sortNat ((cands.getD []).map fun p => (getB w.bs p).id)).map toString) ++ "}"
      else "ok:" ++ toString (getB r.bs pos).id
    { a with w := { w with bs := r.bs, next := r.next }, outs := (s ++ showState r.bs r.next) :: a.outs }
  | .err 0 =>
    let a := addTag (addTag a "err") "nt"
    { a with w := { w with bs := r.bs, next := r.next }, outs := ("err" ++ showState r.bs r.next) :: a.outs }
  | .err _ => { a with w := { w with bs := r.bs, next := r.next }, outs := ("err:other" ++ showState r.bs r.next) :: a.outs }
  | .panic m => { a with outs := ("PANIC:" ++ m) :: a.outs, stopped := true }
  | .diverge => { a with outs := "HANG" :: a.outs, stopped := true }

def parseScript (s : String) : Option (List (Nat × Bool × Nat × Int)) :=
  (s.splitOn ",").mapM fun e =>
    match e.splitOn ":" with
    | [t, k, p, v] =>
      if k != "av" && k != "cn" then none else
      match t.toNat?, p.toNat?, v.toInt? with
      | some t, some p, some v => some (t, k == "av", p, v)
      | _, _, _ => none
    | _ => none

def step (a : Acc) (st : String) : Acc :=
  if a.stopped || a.bad then a else
  let (st, script, badScript) := match st.splitOn "@" with
    | [x, sc] => match parseScript sc with
      | some l => (x, some l, false)
      | none => (x, none, true)
    | _ => (st, none, false)
  if badScript then { a with bad := true } else
  if script.isSome && !st.startsWith "bal:" then { a with bad := true } else
  match st.splitOn ":" with
  | ["bal", x] => match x.toNat? with
    | some algo => if algo = 2 then { a with bad := true } else stepBal a algo 0 script
    | none => { a with bad := true }
  | ["bal", "2", _, h] => match h.toNat? with
    | some hash => stepBal a 2 hash script
    | none => { a with bad := true }
  | ["av", p, v] => match p.toNat? with
    | some pos =>
      if v != "0" && v != "1" then { a with bad := true }
      else if pos < a.w.bs.length then
        { a with w := { a.w with av := setAssoc a.w.av (getB a.w.bs pos).id (v == "1") } }
      else a
    | none => { a with bad := true }
  | ["cn", p, v] => match p.toNat?, v.toInt? with
    | some pos, some c =>
      if pos < a.w.bs.length then { a with w := { a.w with cn := setAssoc a.w.cn (getB a.w.bs pos).id c } } else a
    | _, _ => { a with bad := true }
  | ["upd", c] => match parseConf c with
    | some conf =>
      let old := a.w.bs
      let kept := fun (id : Nat) => old.any (fun b => b.id == id) && conf.any (fun p => p.1 == id)
      let a := addTag a "upd"
      -- members that are not kept are new *BfeBackend objects: avail = true, connNum = 0
      { a with w := { bs := update old conf, next := 0,
                      av := a.w.av.filter (fun p => kept p.1), cn := a.w.cn.filter (fun p => kept p.1) } }
    | none => { a with bad := true }
  | _ => { a with bad := true }

def algoName : Nat → String
  | 0 => "simple" | 2 => "sticky" | 3 => "wlc-simple" | 4 => "wlc-smooth" | _ => "smooth"

/-- the spec oracle, on the implementation's result string -/
def judge (impl : String) (ctxs : List Ctx) : String :=
  if impl == "skipped-after-hangs" || impl == "bad-op" then "skip"
  else if impl == "-" then "ok"
  else
    let es := impl.splitOn " "
    let rec go : List String → List Ctx → String
      | [], _ => "ok"
      | e :: rest, cs =>
        let c := cs.head?.getD ⟨99, 0, false⟩
        if e.startsWith "ok:" || e.startsWith "ok{" || e.startsWith "err/" then go rest cs.tail
        else if e == "HANG" then "FAIL:" ++ algoName c.algo ++ "-livelock"
        else if e.startsWith "PANIC:" then
          if c.n = 0 then "FAIL:" ++ algoName c.algo ++ "-empty-panic"
          else if (e.splitOn "divide").length > 1 then "FAIL:" ++ algoName c.algo ++ "-divide-panic"
          else "FAIL:" ++ algoName c.algo ++ "-panic"
        else "FAIL:" ++ algoName c.algo ++ "-bad-result"
    go es ctxs

/-! ### gslb histories: `g=<id>=<w>,..;<step>;..` with steps
      gbal                 BalanceGslb.Balance(req)          → `ret`
      grl:<id>=<w>,..      BalanceGslb.Reload(conf)           → `ok` | `rej`
      gbr | gsb | gss      BackendReload / SetGslbBasic / SetSlowStart → `ret`
      gst                  (hook) dump of the sub-cluster table → `st:<id>=<w>,..|<totalWeight>|<single>|<avail>`
    an operation that does not return within the harness' deadline is `HANG` (history stops) -/

def showG (g : G) : String :=
  "st:" ++ (if g.subs.isEmpty then "-" else ",".intercalate (g.subs.map fun s => toString s.name ++ "=" ++ toString s.weight))
    ++ "|" ++ toString g.total ++ "|" ++ (if g.single then "1" else "0") ++ "|" ++ toString g.avail

def runG (hd : String) (steps : List String) (impl : String) : Ans :=
  match parseConf (hd.drop 2).toString with
  | none => { model := "bad-op", verdict := "skip" }
  | some conf =>
    match gInit conf with
    | none => { model := "bad-op", verdict := "skip" }
    | some g0 =>
      -- (state, outputs reversed, stopped, bad, sawRejThenOp)
      let r := steps.foldl (fun (acc : G × List String × Bool × Bool × Nat) st =>
        let (g, outs, stopped, bad, rej) := acc
        if stopped || bad then acc else
        let fin := fun (p : GRes × G) (isRej : Bool) =>
          match p.1 with
          | .hang => (p.2, "HANG" :: outs, true, bad, rej)
          | .ret s => (p.2, s :: outs, false, bad, if isRej then 1 else if rej == 1 then 2 else rej)
        match st.splitOn ":" with
        | ["gbal"] => fin (gStep g .bal) false
        | ["gbr"] => fin (gStep g .other) false
        | ["gsb"] => fin (gStep g .other) false
        | ["gss"] => fin (gStep g .other) false
        | ["gst"] => (g, showG g :: outs, false, bad, rej)
        | ["grl", c] =>
          match parseConf c with
          | some cf => fin (gStep g (.reload cf)) (decide (confTotal cf ≤ 0))
          | none => (g, outs, stopped, true, rej)
        | _ => (g, outs, stopped, true, rej)) (g0, [], false, false, 0)
      let (_, outs, _, bad, rej) := r
      if bad then { model := "bad-op", verdict := "skip" } else
      let toks := impl.splitOn " "
      let verdict :=
        if impl == "skipped-after-hangs" || impl == "bad-op" then "skip"
        else if toks.any (· == "HANG") then "FAIL:gslb-hang"
        else if toks.any (·.startsWith "PANIC:") then "FAIL:gslb-panic"
        else "ok"
      { model := if outs.isEmpty then "-" else " ".intercalate outs.reverse
        verdict := verdict
        tags := ["gslb"] ++ (if rej ≥ 1 then ["rejected-reload"] else []) ++ (if rej == 2 then ["nt"] else []) }

/-! ### BalTable histories `t=<conf0>/<conf1>;<step>;..` (two clusters; empty conf = cluster absent from the reload)
      trl:<conf0>/<conf1>  BalTableReload → `ok` | `rej` (the Reload of some listed cluster was rejected: total weight ≤ 0);
                           every LISTED cluster is in the table afterwards (also a rejected one), the others are released
      tbal:<k>             Lookup + Balance → `ret` | `nolookup`
      tst | tver           GetState / GetVersions → `ret`
    no operation may block: by `C05_lock_released_on_every_exit` every path of every method releases its mutex -/

def tReload (parts : List String) : Option (String × List Nat) :=
  let rec go : List String → Nat → Bool → List Nat → Option (Bool × List Nat)
    | [], _, rej, pres => some (rej, pres)
    | p :: rest, k, rej, pres =>
      if p == "" then go rest (k + 1) rej pres else
      match parseConf p with
      | none => none
      | some c => go rest (k + 1) (rej || decide (confTotal c ≤ 0)) (pres ++ [k])
  (go parts 0 false []).map fun r => (if r.1 then "rej" else "ok", r.2)

def runT (hd : String) (steps : List String) (impl : String) : Ans :=
  let first := "trl:" ++ (hd.drop 2).toString
  let r := (first :: steps).foldl (fun (acc : List Nat × List String × Bool × Nat) st =>
    let (pres, outs, bad, rej) := acc
    if bad then acc else
    if st.startsWith "trl:" then
      let parts := ((st.drop 4).toString).splitOn "/"
      if parts.length != 2 then (pres, outs, true, rej) else
      match tReload parts with
      | none => (pres, outs, true, rej)
      | some (res, pres') => (pres', res :: outs, false, if res == "rej" then 1 else if rej == 1 then 2 else rej)
    else if st.startsWith "tbal:" then
      match ((st.drop 5).toString).toNat? with
      | some k => (pres, (if pres.contains k then "ret" else "nolookup") :: outs, false, if rej == 1 then 2 else rej)
      | none => (pres, outs, true, rej)
    else if st == "tst" || st == "tver" then (pres, "ret" :: outs, false, if rej == 1 then 2 else rej)
    else (pres, outs, true, rej)) ([], [], false, 0)
  let (_, outs, bad, rej) := r
  if bad then { model := "bad-op", verdict := "skip" } else
  let toks := impl.splitOn " "
  { model := " ".intercalate outs.reverse
    verdict :=
      if impl == "skipped-after-hangs" || impl == "bad-op" then "skip"
      else if toks.any (· == "HANG") then "FAIL:table-hang"
      else if toks.any (·.startsWith "PANIC:") then "FAIL:table-panic"
      else "ok"
    tags := ["table"] ++ (if rej ≥ 1 then ["rejected-reload"] else []) ++ (if rej == 2 then ["nt"] else []) }

def run (op impl : String) : Ans :=
  match op.splitOn ";" with
  | hd :: steps =>
    if hd.startsWith "g=" then runG hd steps impl else
    if hd.startsWith "t=" then runT hd steps impl else
    if !hd.startsWith "w=" then { model := "bad-op", verdict := "skip" } else
    match parseInts (hd.drop 2).toString with
    | none => { model := "bad-op", verdict := "skip" }
    | some ws =>
      let a := steps.foldl step { w := { bs := initList ws, next := 0, av := [], cn := [] } }
      if a.bad then { model := "bad-op", verdict := "skip" } else
      let m := if a.outs.isEmpty then "-" else " ".intercalate a.outs.reverse
      { model := m, verdict := judge impl a.ctxs.reverse, tags := a.tags.reverse }
  | [] => { model := "bad-op", verdict := "skip" }

end BfeVerif.C05
