import BfeVerif.C05.Proofs
import BfeVerif.Generated.C05
/-!
  C05 — balancer calls are total and terminate under concurrent change.

  Each theorem quantifies over EVERY environment `E : Env`, i.e. over every sequence of values the
  `Avail()` / `ConnNum()` reads of one call can return (every interleaving of SetAvail, Inc/DecConnNum and
  health checks with the call), over every backend list (all shapes: empty, negative/zero weights, arbitrary
  `current`), every cursor, hash and random draw.  `Good n r` = the call returned a backend of the list
  (`ok i`, `i < n`) or the error "all backend is down"; in particular not `panic`, not `diverge`.
-/
namespace BfeVerif.C05

/-- simpleBalance (as fixed): for every read stream the loop returns within `2·n` reads — fuel `2·n` is never
    exhausted — with a backend or the all-down error, and leaves a well-formed state. -/
theorem C05_simple_total (E : Env) (bs : List B) (next t fuel : Nat)
    (hwf : Wf bs next) (hfuel : fuel ≥ 2 * bs.length) :
    Good bs.length (simple E fuel bs next t) ∧
    (simple E fuel bs next t).t ≤ t + 2 * bs.length ∧
    (simple E fuel bs next t).bs.length = bs.length ∧
    Wf (simple E fuel bs next t).bs (simple E fuel bs next t).next := by
  unfold simple
  by_cases h0 : bs.length = 0
  · simp only [h0, if_true]
    exact ⟨Or.inl rfl, by omega, trivial, Or.inl h0⟩
  · simp only [h0, if_false]
    have hn : next < bs.length := by cases hwf with | inl h => exact absurd h h0 | inr h => exact h
    obtain ⟨a, b, c, d⟩ := simpleLoop_phaseA E fuel bs next next true t hn hn (by rw [dist_self hn]; omega)
    rw [dist_self hn] at b
    exact ⟨a, by omega, c, Or.inr (by rw [c]; exact d)⟩

/-- record of the defect that was fixed (sequential): with A{weight 1, down}, B{weight −1, up} the OLD loop
    never returns, whatever the fuel — it spins holding the BalanceRR mutex. -/
theorem C05_simple_old_witness (fuel : Nat) :
    (simpleOld oldEnv fuel oldBs 0 0).out = .diverge :=
  (simpleLoopOld_seq_diverges fuel).1 true 0

/-- record of the defect (concurrent, positive weights only): one backend with exhausted `current` that is
    available at the first read and down afterwards — the OLD loop never returns. -/
theorem C05_simple_old_witness_concurrent (fuel : Nat) :
    (simpleOld oldEnv2 fuel oldBs2 0 0).out = .diverge :=
  simpleLoopOld_conc_diverges fuel

/-- the OLD code indexed `backends[0]` of an empty list -/
theorem C05_simple_old_witness_empty (E : Env) (fuel : Nat) :
    (simpleOld E (fuel + 1) [] 0 0).out = .panic "index out of range" := by
  simp [simpleOld, simpleLoopOld]

/-- on the same three witnesses the fixed code answers -/
example : (simple oldEnv 4 oldBs 0 0).out = .err 0 := by decide
example : (simple oldEnv2 2 oldBs2 0 0).out = .err 0 := by decide
example : (simple oldEnv 0 [] 0 0).out = .err 0 := by decide
/-- non-vacuity: a well-formed state on which the reset branch is taken and a backend is returned in the 2nd pass -/
example : Wf [⟨0, 100, 0⟩, ⟨1, 200, 0⟩] 1 := Or.inr (by decide)
example :
    (simple { av := fun _ _ => true, cn := fun _ _ => 0 } 4 [⟨0, 100, 0⟩, ⟨1, 200, 0⟩] 1 0).out = .ok 0 ∧
    (simple { av := fun _ _ => true, cn := fun _ _ => 0 } 4 [⟨0, 100, 0⟩, ⟨1, 200, 0⟩] 1 0).t = 3 := by decide

/-- smoothBalance: one pass, exactly `n` Avail reads, a member of the list or all-down; no panic path -/
theorem C05_smooth_total (E : Env) (bs : List B) (next t : Nat) :
    Good bs.length (smooth E (allPtrs bs) bs next t) ∧
    (smooth E (allPtrs bs) bs next t).t = t + bs.length ∧
    (smooth E (allPtrs bs) bs next t).bs.length = bs.length ∧
    (smooth E (allPtrs bs) bs next t).next = next := by
  have h := smooth_good E (allPtrs bs) bs next t (fun i hi => mem_allPtrs hi)
  simpa [allPtrs] using h

/-- stickyBalance: for every read stream and every hash it returns a member or all-down after exactly `n` reads;
    in particular `GetHash` never divides by zero and the "never come here" error (`err 1`) is unreachable -/
theorem C05_sticky_total (E : Env) (hash : Nat) (bs : List B) (next t : Nat) :
    Good bs.length (sticky E hash bs next t) ∧
    (sticky E hash bs next t).t = t + bs.length ∧
    (sticky E hash bs next t).bs.length = bs.length ∧
    (sticky E hash bs next t).next = next := by
  have hl := sortById_length bs
  obtain ⟨a, b, c⟩ := stickyCands_spec E (sortById bs) (allPtrs (sortById bs)) t
  have hb : (stickyCands E (sortById bs) (allPtrs (sortById bs)) t).2.2 = t + bs.length := by
    rw [b]; simp [allPtrs, hl]
  unfold sticky
  simp only []
  split
  · exact ⟨Or.inl rfl, hb, hl, rfl⟩
  · rename_i hne
    have hpos := sumW_pos (sortById bs) _ hne (fun i hi => (c i hi).2)
    rw [← a] at hpos
    split
    · rename_i hz; omega
    · rename_i hz
      have hlt : hash % (stickyCands E (sortById bs) (allPtrs (sortById bs)) t).2.1.toNat
          < (stickyCands E (sortById bs) (allPtrs (sortById bs)) t).2.1.toNat := Nat.mod_lt _ (by omega)
      generalize hash % (stickyCands E (sortById bs) (allPtrs (sortById bs)) t).2.1.toNat = m at hlt ⊢
      have e : Int.ofNat m = (m : Int) := rfl
      obtain ⟨i, hi, he⟩ := stickyPick_some (sortById bs) _ (Int.ofNat m)
        (fun i hi => (c i hi).2) (by rw [e]; omega) (by rw [e, ← a]; omega)
      rw [he]
      exact ⟨Or.inr ⟨i, by rw [← hl]; exact mem_allPtrs (c i hi).1, rfl⟩, hb, hl, rfl⟩

/-- WlcSmooth: total for every read stream (an EMPTY candidate list, possible under concurrent change, ends in the
    all-down error of smoothBalance); at most `7·n` reads -/
theorem C05_wlc_smooth_total (E : Env) (bs : List B) (next t : Nat) :
    Good bs.length (wlcSmooth E bs next t) ∧
    (wlcSmooth E bs next t).t ≤ t + 7 * bs.length ∧
    (wlcSmooth E bs next t).bs.length = bs.length ∧
    (wlcSmooth E bs next t).next = next := by
  obtain ⟨a, b⟩ := leastConns_spec E bs (allPtrs bs) t
  have hlen : (allPtrs bs).length = bs.length := by simp [allPtrs]
  unfold wlcSmooth
  split
  · rename_i h; rw [h] at a
    exact ⟨Or.inl rfl, by simp only at a ⊢; omega, rfl, rfl⟩
  · rename_i cands t1 h; rw [h] at a b
    have hc : ∀ i ∈ cands, i < bs.length := fun i hi => mem_allPtrs (b cands rfl i hi)
    split
    · rename_i h1
      exact ⟨Or.inr ⟨_, hc _ (getD_mem_of_lt (by omega)), rfl⟩, by simp only at a ⊢; omega, rfl, rfl⟩
    · obtain ⟨g, ht, hl, hn⟩ := smooth_good E cands bs next t1 hc
      refine ⟨g, ?_, hl, hn⟩
      have hsub := leastConns_length E bs (allPtrs bs) t cands (by rw [h])
      simp only at a; omega

/-- WlcSimple (with the guard added to randomBalance): total for every read stream and random draw; ≤ `6·n` reads -/
theorem C05_wlc_simple_total (E : Env) (rnd : Nat) (bs : List B) (next t : Nat) :
    Good bs.length (wlcSimple E rnd bs next t) ∧
    (wlcSimple E rnd bs next t).t ≤ t + 6 * bs.length ∧
    (wlcSimple E rnd bs next t).bs = bs ∧
    (wlcSimple E rnd bs next t).next = next := by
  obtain ⟨a, b⟩ := leastConns_spec E bs (allPtrs bs) t
  have hlen : (allPtrs bs).length = bs.length := by simp [allPtrs]
  unfold wlcSimple wlcSimpleWith
  split
  · rename_i h; rw [h] at a
    exact ⟨Or.inl rfl, by simp only at a ⊢; omega, rfl, rfl⟩
  · rename_i cands t1 h; rw [h] at a b
    have hc : ∀ i ∈ cands, i < bs.length := fun i hi => mem_allPtrs (b cands rfl i hi)
    split
    · exact ⟨Or.inr ⟨_, hc _ (getD_mem_of_lt (by omega)), rfl⟩, by simp only at a ⊢; omega, rfl, rfl⟩
    · unfold randomBalance
      split
      · exact ⟨Or.inl rfl, by simp only at a ⊢; omega, rfl, rfl⟩
      · rename_i h0
        exact ⟨Or.inr ⟨_, hc _ (getD_mem_of_lt (Nat.mod_lt _ (by omega))), rfl⟩, by simp only at a ⊢; omega, rfl, rfl⟩

/-- record of the defect that was fixed: two equal backends, always available; ONE IncConnNum on backend 0 between the
    two ConnNum reads of `compLCWeight(best,best)` in the second pass empties the candidate list and the OLD
    randomBalance divides by zero -/
def wlcEnv : Env := { av := fun _ _ => true, cn := fun t id => if id == 0 && decide (6 ≤ t) then 1 else 0 }
def wlcBs : List B := [⟨0, 100, 100⟩, ⟨1, 100, 100⟩]

theorem C05_wlc_simple_old_witness (rnd : Nat) :
    (wlcSimpleOld wlcEnv rnd wlcBs 0 0).out = .panic "integer divide by zero" := by
  have h : leastConns wlcEnv wlcBs (allPtrs wlcBs) 0 = (some [], 10) := by decide
  simp [wlcSimpleOld, wlcSimpleWith, randomBalanceOld, h]

/-- the same schedule through the fixed code / through WlcSmooth: a (spurious but harmless) all-down error -/
example : (wlcSimple wlcEnv 5 wlcBs 0 0).out = .err 0 := by decide
example : (wlcSmooth wlcEnv wlcBs 0 0).out = .err 0 := by decide
/-- non-vacuity: ties give several candidates and a pick among them -/
example : (wlcSimple { av := fun _ _ => true, cn := fun _ _ => 0 } 5 wlcBs 0 0).out = .ok 1 := by decide
example : (sticky { av := fun _ _ => true, cn := fun _ _ => 0 } 150 wlcBs 0 0).out = .ok 1 := by decide
example : (smooth { av := fun _ id => id == 1, cn := fun _ _ => 0 } (allPtrs wlcBs) wlcBs 0 0).out = .ok 1 := by decide

/-- BalanceRR.Balance with any algorithm number: total, list length kept, state stays well-formed -/
theorem C05_balance_total (algo : Nat) (E : Env) (hash rnd : Nat) (bs : List B) (next : Nat) (hwf : Wf bs next) :
    Good bs.length (balance algo E hash rnd bs next) ∧
    (balance algo E hash rnd bs next).t ≤ 7 * bs.length ∧
    (balance algo E hash rnd bs next).bs.length = bs.length ∧
    Wf (balance algo E hash rnd bs next).bs (balance algo E hash rnd bs next).next := by
  have keep : ∀ r : Res, r.bs.length = bs.length → r.next = next → Wf r.bs r.next := by
    intro r h1 h2; unfold Wf at *; rw [h1, h2]; exact hwf
  unfold balance
  split
  · obtain ⟨a, b, c, d⟩ := C05_simple_total E bs next 0 (simpleFuel bs) hwf (Nat.le_refl _)
    exact ⟨a, by omega, c, d⟩
  · obtain ⟨a, b, c, d⟩ := C05_sticky_total E hash bs next 0
    exact ⟨a, by omega, c, keep _ c d⟩
  · obtain ⟨a, b, c, d⟩ := C05_wlc_simple_total E rnd bs next 0
    exact ⟨a, by omega, by rw [c], keep _ (by rw [c]) d⟩
  · obtain ⟨a, b, c, d⟩ := C05_wlc_smooth_total E bs next 0
    exact ⟨a, by omega, c, keep _ c d⟩
  · obtain ⟨a, b, c, d⟩ := C05_smooth_total E bs next 0
    exact ⟨a, by omega, c, keep _ c d⟩

/-- Update leaves a well-formed state (brr.next = 0) whatever the new conf, including the empty one -/
theorem C05_update_wf (bs : List B) (conf : List (Nat × Int)) : Wf (update bs conf) 0 := by
  unfold Wf; omega

/-- one atomic step of a schedule at critical-section granularity: a Balance call (with ITS OWN adversarial read
    stream, hash, random draw) or an Update -/
inductive Step where
  | bal (algo : Nat) (E : Env) (hash rnd : Nat)
  | upd (conf : List (Nat × Int))

/-- every Balance call of the history returns a member of the then-current list or the all-down error -/
def AllGood : List Step → List B → Nat → Prop
  | [], _, _ => True
  | .upd conf :: rest, bs, _ => AllGood rest (update bs conf) 0
  | .bal algo E hash rnd :: rest, bs, next =>
    Good bs.length (balance algo E hash rnd bs next) ∧
    AllGood rest (balance algo E hash rnd bs next).bs (balance algo E hash rnd bs next).next

/-- every history of Balance / Update steps from any initial conf: no call panics or fails to return -/
theorem C05_history_total (ws : List Int) (h : List Step) : AllGood h (initList ws) 0 := by
  have gen : ∀ (h : List Step) (bs : List B) (next : Nat), Wf bs next → AllGood h bs next := by
    intro h
    induction h with
    | nil => intro _ _ _; trivial
    | cons s rest ih =>
      intro bs next hwf
      cases s with
      | upd conf => exact ih _ _ (C05_update_wf bs conf)
      | bal algo E hash rnd =>
        obtain ⟨a, _, _, d⟩ := C05_balance_total algo E hash rnd bs next hwf
        exact ⟨a, ih _ _ d⟩
  exact gen h _ _ (by unfold Wf; omega)

/-! ### gslb lock discipline -/

/-- one operation on an unlocked balancer returns and leaves it unlocked — in particular a REJECTED reload
    (`confTotal conf ≤ 0`) does, and it changes nothing else -/
theorem C05_gslb_step_releases (g : G) (o : GOp) (h : g.locked = false) :
    (gStep g o).1 ≠ .hang ∧ (gStep g o).2.locked = false := by
  cases o with
  | bal => simp [gStep, gBalance, h, gUnlock]
  | other => simp [gStep, gSimpleOp, h, gUnlock]
  | reload c =>
    simp only [gStep, gReload, h]
    by_cases hc : confTotal c ≤ 0
    · simp [hc, gUnlock]
    · simp [hc, gUnlock]

theorem C05_gslb_rejected_reload_harmless (g : G) (c : List (Nat × Int)) (h : g.locked = false)
    (hc : confTotal c ≤ 0) : gReload c g = (.ret "rej", g) := by
  have : gUnlock (gLock g) = g := by cases g; simp_all [gUnlock, gLock]
  simp [gReload, h, hc, this]

/-- **every gslb operation returns, with the lock released**: in every history of Balance / Reload (valid or
    rejected) / BackendReload / SetGslbBasic / SetSlowStart operations on a balancer produced by `Init`, no
    operation blocks on the gslb mutex and the mutex is free at the end -/
theorem C05_gslb_total (conf : List (Nat × Int)) (g : G) (hg : gInit conf = some g) (ops : List GOp) :
    (∀ r ∈ (gRun ops g).1, r ≠ .hang) ∧ (gRun ops g).2.locked = false := by
  have h0 : g.locked = false := by
    unfold gInit at hg
    split at hg
    · cases hg
    · cases hg; rfl
  clear hg
  induction ops generalizing g with
  | nil => simp [gRun, h0]
  | cons o rest ih =>
    obtain ⟨h1, h2⟩ := C05_gslb_step_releases g o h0
    obtain ⟨h3, h4⟩ := ih (gStep g o).2 h2
    simp only [gRun]
    refine ⟨?_, h4⟩
    intro r hr
    rcases List.mem_cons.mp hr with rfl | hr
    · exact h1
    · exact h3 r hr

/-- a balancer whose mutex was left locked (what a return path without Unlock produces) blocks every later operation -/
theorem C05_gslb_locked_hangs (g : G) (o : GOp) (h : g.locked = true) : (gStep g o).1 = .hang := by
  cases o <;> simp [gStep, gBalance, gSimpleOp, gReload, h]

example : (gInit [(1, 60), (2, 40)]).map (fun g => (gRun [.reload [(1, 0), (2, 0)], .bal, .reload [(2, 5)], .other] g).1)
    = some [.ret "rej", .ret "ret", .ret "ok", .ret "ret"] := by decide

/-! ### lock discipline of the whole balancing code, from the CURRENT source (regenerated facts, extract/c05.go) -/

/-- **every function of bfe_balance (bal_table.go), bal_gslb, bal_slb and backend that takes a mutex releases it at
    every way out** — each return statement, including the error returns, and the end of the body.  Together with the
    lock-as-state model (`C05_gslb_total`: operations whose every path releases never block one another) this is the
    for-all version of "every operation returns with the lock released". -/
theorem C05_lock_released_on_every_exit :
    ∀ e ∈ BfeVerif.Generated.C05.lockExits, e.2 = true := by decide

/-- non-vacuity: the table really lists the functions the property is about -/
theorem C05_lock_table_covers :
    (["bfe_balance/bal_slb/bal_rr.go:BalanceRR.Update", "bfe_balance/bal_slb/bal_rr.go:BalanceRR.simpleBalance",
      "bfe_balance/bal_slb/bal_rr.go:BalanceRR.smoothBalance", "bfe_balance/bal_slb/bal_rr.go:BalanceRR.stickyBalance",
      "bfe_balance/bal_slb/bal_rr.go:BalanceRR.leastConnsSimpleBalance",
      "bfe_balance/bal_slb/bal_rr.go:BalanceRR.leastConnsSmoothBalance",
      "bfe_balance/bal_slb/bal_rr.go:BalanceRR.checkSlowStart",
      "bfe_balance/bal_gslb/bal_gslb.go:BalanceGslb.Balance", "bfe_balance/bal_gslb/bal_gslb.go:BalanceGslb.Reload",
      "bfe_balance/bal_gslb/bal_gslb.go:BalanceGslb.BackendReload",
      "bfe_balance/bal_table.go:BalTable.BalTableReload", "bfe_balance/bal_table.go:BalTable.Lookup",
      "bfe_balance/backend/bfe_backend.go:BfeBackend.Avail", "bfe_balance/backend/bfe_backend.go:BfeBackend.ConnNum"].all
      fun f => BfeVerif.Generated.C05.lockExits.any fun e => e.1 == f) = true ∧
    BfeVerif.Generated.C05.lockCount ≥ 30 := by decide

end BfeVerif.C05
