import BfeVerif.C05.Driver
def main : IO Unit := BfeVerif.Proto.driverMain BfeVerif.C05.run
