import BfeVerif.C42.Driver
def main : IO Unit := BfeVerif.Proto.driverMain BfeVerif.C42.run
