import BfeVerif.C42.Proofs
import BfeVerif.C42.Cbc
import BfeVerif.C43.Props
/-!
  C42 — TLS records are integrity-protected.  Property theorems only.

  Setting.  The peer sealed the records `sent = [(typ₀,p₀), (typ₁,p₁), …]` (record `i` under sequence
  number `i`, counted from the end of the handshake) and put `honest enc vers 0 sent` on the wire.  The
  adversary hands the server an ARBITRARY byte string `w` (this covers every drop / duplicate /
  reorder / modify / truncate / inject / splice of records and of bytes).  `runStream dec vers w` is the
  model of the server calling `Conn.Read` until it returns an error.

  Hypothesis `Authentic dec enc sent` (ideal authenticator; never proved of the real ciphers):
  `decrypt` accepts a body at sequence number `s`, header type `t` only if it is the body the peer
  produced for its `s`-th record, and that record had type `t`.
-/
namespace BfeVerif.C42

/-- **C42_accepts_only_honest_prefix (main theorem).**  Whatever byte string the server is fed, the part
    of it that the record layer accepted is byte-for-byte the first `seq` honest records, in order
    (nothing dropped, duplicated, reordered, modified or injected before that point); the rest of the
    stream (`raw`) starts with whatever made it stop; and the application has been handed exactly the
    application bytes of the first `j ≤ seq` of those records, and nothing else. -/
theorem C42_accepts_only_honest_prefix {dec enc vers sent} (ha : Authentic dec enc sent) (w : Bytes) :
    let r := runStream dec vers w
    r.seq ≤ sent.length ∧
    w = honest enc vers 0 (sent.take r.seq) ++ r.raw ∧
    ∃ j, j ≤ r.seq ∧ r.out = appBytes (sent.take j) := by
  intro r
  obtain ⟨hinv, hp⟩ := serve_inv (vers := vers) ha (w.length + 1) { raw := w } (inv_init enc vers sent w) rfl
  refine ⟨hinv.seqle, hinv.stream, ?_⟩
  obtain ⟨j, hj, hjp⟩ := hinv.some_prefix
  exact ⟨j, hj, by rw [hp, List.append_nil] at hjp; exact hjp⟩

/-- **C42_prefix.**  Under any tampering, the bytes delivered to the application are a prefix of the
    application bytes the peer sent. -/
theorem C42_prefix {dec enc vers sent} (ha : Authentic dec enc sent) (w : Bytes) :
    (runStream dec vers w).out <+: appBytes sent := by
  obtain ⟨_, _, j, _, hj⟩ := C42_accepts_only_honest_prefix (vers := vers) ha w
  rw [hj]
  refine ⟨appBytes (sent.drop j), ?_⟩
  rw [← appBytes_app, List.take_append_drop]

/-- **C42_eof_only_close_or_exhausted.**  `Conn.Read` reports `io.EOF` (the only outcome an application
    reads as an orderly end) only if (a) the peer's authentic close_notify was accepted in sequence, or
    (b) the byte stream ran out with fewer than 5 bytes left after the accepted honest records;
    and in both cases every application byte of the accepted records has been delivered.
    Every other deviation of `w` from the honest stream ends in a non-EOF error
    (bad_record_mac, unexpected_message, record_overflow, wrong version, unexpected EOF, …). -/
theorem C42_eof_only_close_or_exhausted {dec enc vers sent} (ha : Authentic dec enc sent) (w : Bytes) :
    let r := runStream dec vers w
    r.err = some .eof →
      r.out = appBytes (sent.take r.seq) ∧
      (r.raw.length < 5 ∨ ∃ lvl, 0 < r.seq ∧ sent[r.seq - 1]? = some (21, [lvl, 0])) := by
  intro r he
  obtain ⟨hinv, _⟩ := serve_inv (vers := vers) ha (w.length + 1) { raw := w } (inv_init enc vers sent w) rfl
  exact ⟨hinv.eofx he, hinv.eofc he⟩

/-- **C42_sticky.**  Once `Conn.Read` has returned an error `e` (any `c.in.err`: bad_record_mac, EOF, …),
    every later Read returns `e` again and hands NOTHING to the application — whatever `readRecord` left in
    `c.input` (after a failed decrypt of an application-data record the unauthenticated raw block IS parked
    there, see the example below), because the sticky error is tested before `c.input` is looked at.
    Holds for every state, hence for the state any adversarial stream `w` leads to. -/
theorem C42_sticky (dec : Nat → UInt8 → Bytes → Dec) (vers : UInt8 × UInt8) (st : St) (e : Err)
    (he : st.err = some e) (k : Nat) :
    readMore dec vers k st = ([], List.replicate k (some e)) := by
  have h1 : readAgain dec vers st = (st, [], some e) := by
    unfold readAgain
    simp [he]
  induction k with
  | zero => rfl
  | succ k ih => simp [readMore, h1, ih, List.replicate_succ]

/-- in particular after the first error of a run on any stream -/
theorem C42_sticky_run (dec : Nat → UInt8 → Bytes → Dec) (vers : UInt8 × UInt8) (w : Bytes) (e : Err)
    (he : (runStream dec vers w).err = some e) (k : Nat) :
    readMore dec vers k (runStream dec vers w) = ([], List.replicate k (some e)) :=
  C42_sticky dec vers _ e he k

/-- **C42_version_guard.**  Header integrity of the VERSION bytes rests on `readRecord`'s exact comparison
    `vers != c.vers`, not on the keyed check: the model's `dec` does not see the header version at all, which is the
    SSL 3.0 situation (ssl30MAC covers type and length but not the version; for TLS 1.0+ the MAC / the AEAD
    additional data cover it as well, which is part of `Authentic` there).  A record whose header version differs
    from the negotiated one in EITHER byte is rejected before decrypt is consulted: error "received record with
    version …", sequence number and delivered bytes unchanged, and every later Read returns the same error.
    (Type and length: the type is an argument of `dec`, so `Authentic` covers it; the length is the framing itself —
    both are part of `C42_accepts_only_honest_prefix`, whose accepted frames equal the honest ones byte for byte.) -/
theorem C42_version_guard (dec : Nat → UInt8 → Bytes → Dec) (vers : UInt8 × UInt8) (t v1 v2 l1 l2 : UInt8)
    (rest : Bytes) (st : St) (fuel : Nat) (hraw : st.raw = t :: v1 :: v2 :: l1 :: l2 :: rest) (hv : (v1, v2) ≠ vers) :
    readRecord dec vers (fuel + 1) st = { st with err := some .badvers } ∧
    ∀ k, readMore dec vers k (readRecord dec vers (fuel + 1) st) = ([], List.replicate k (some .badvers)) := by
  have hres : readRecord dec vers (fuel + 1) st = { st with err := some .badvers } := by
    rw [readRecord, hraw]
    simp only []
    rw [if_pos hv]
  refine ⟨hres, fun k => ?_⟩
  exact C42_sticky _ _ _ _ (by rw [hres]) k

/-- **C42_short_record_rejected.**  A record whose body is shorter than the cipher family's minimum (explicit
    nonce + tag for AEAD; roundUp(explicitIV + MAC + 1, blockSize) for CBC; the MAC for RC4) — injected, or a real
    record with a shrunk length field — is rejected by decrypt's key-independent length checks, whatever the keyed
    part would say: `readRecord` leaves a non-EOF error in `c.in.err` (bad_record_mac, or the alert that overrides
    it), does not advance the sequence number and delivers nothing; by `C42_sticky` every later Read returns that
    error and delivers nothing either, although for an application-data header the raw block sits in `c.input`. -/
theorem C42_short_record_rejected (fam : Family) (inner : Nat → UInt8 → Bytes → Dec) (vers : UInt8 × UInt8)
    (t : UInt8) (body rest : Bytes) (st : St) (fuel : Nat)
    (hraw : st.raw = frame vers t body ++ rest) (hb : body.length < minLen fam)
    (hmax : body.length ≤ maxCiphertext) :
    ∃ e, (readRecord (decryptFam fam inner) vers (fuel + 1) st).err = some e ∧ e ≠ .eof ∧
      (readRecord (decryptFam fam inner) vers (fuel + 1) st).seq = st.seq ∧
      (readRecord (decryptFam fam inner) vers (fuel + 1) st).out = st.out ∧
      ∀ k, readMore (decryptFam fam inner) vers k (readRecord (decryptFam fam inner) vers (fuel + 1) st)
        = ([], List.replicate k (some e)) := by
  have hn : body.length < 65536 := by unfold maxCiphertext at hmax; omega
  have hd := hdr_dec body.length hn
  obtain ⟨e, inp, hdisp, he⟩ := dispatch_fail t body.length
  have hres : readRecord (decryptFam fam inner) vers (fuel + 1) st = { st with err := some e, input := inp, macFailed := true } := by
    rw [readRecord, hraw]
    simp only [frame, List.cons_append]
    simp only [hd]
    rw [if_neg (by simp)]
    rw [if_neg (by omega)]
    rw [if_neg (by simp)]
    simp only [List.take_left', List.take_left]
    rw [decryptFam_short fam inner _ _ _ hb]
    simp only [hdisp]
    simp
  refine ⟨e, ?_, he, ?_, ?_, ?_⟩
  · rw [hres]
  · rw [hres]
  · rw [hres]
  · intro k
    exact C42_sticky _ _ _ e (by rw [hres]) k

/-- with the length checks in front, the keyed part only has to be authentic (so every theorem above
    applies to `decryptFam fam inner`) -/
theorem C42_family_authentic (fam : Family) {inner : Nat → UInt8 → Bytes → Dec} {enc : Nat → UInt8 → Bytes → Bytes}
    {sent : List (UInt8 × Bytes)} (ha : Authentic inner enc sent) : Authentic (decryptFam fam inner) enc sent :=
  decryptFam_authentic fam ha

/-- **C42_cbc_accepts_only_padded_and_maced.**  The CBC branch of decrypt (composed with C43's removePadding)
    accepts a record body only if the decrypted blocks carry VALID TLS padding (C43's specification `ValidPad`,
    through `C43_good_iff`) and the bytes in front of the padding are exactly `plaintext ++ MAC(seq, type, plaintext)`.
    So a CBC suite meets `Authentic` as soon as its MAC and block cipher are ideal; a padding defect (as C43 had
    before its fix) would surface here as a body accepted with invalid padding. -/
theorem C42_cbc_accepts_only_padded_and_maced (blockSize macSize explicitIV : Nat) (unblock : Bytes → Bytes → Bytes)
    (mac : Nat → UInt8 → Bytes → Bytes) (seq : Nat) (typ : UInt8) (body p : Bytes)
    (hlen : (unblock (body.take explicitIV) (body.drop explicitIV)).length < 2 ^ 31)
    (h : cbcDecrypt blockSize macSize explicitIV unblock mac seq typ body = .ok p) :
    BfeVerif.C43.ValidPad ((unblock (body.take explicitIV) (body.drop explicitIV)).map toBV) ∧
    (BfeVerif.C43.removePadding ((unblock (body.take explicitIV) (body.drop explicitIV)).map toBV)).1.map ofBV
      = p ++ mac seq typ p := by
  unfold cbcDecrypt at h
  split at h
  · cases h
  · simp only [] at h
    split at h
    · cases h
    · split at h
      · cases h
      · rename_i hc
        have hc' := not_or.mp hc
        have hgood := Decidable.not_not.mp hc'.2
        have hmac := Decidable.not_not.mp hc'.1
        cases h
        refine ⟨(BfeVerif.C43.C43_good_iff _ (by simpa using hlen)).mp hgood, ?_⟩
        rw [hmac, List.take_append_drop]

/-- the hypothesis of the CBC theorem is satisfiable: a toy cipher (identity) and MAC (one length byte), block
    size 4: `[1,2] ++ mac ++ padding [0]` is accepted, a wrong padding byte or MAC byte is not -/
example : cbcDecrypt 4 1 0 (fun _ c => c) (fun _ _ d => [UInt8.ofNat d.length]) 0 23 [1, 2, 2, 0] = .ok [1, 2] := by decide
example : cbcDecrypt 4 1 0 (fun _ c => c) (fun _ _ d => [UInt8.ofNat d.length]) 0 23 [1, 2, 2, 5] = .fail 2 := by decide
example : cbcDecrypt 4 1 0 (fun _ c => c) (fun _ _ d => [UInt8.ofNat d.length]) 0 23 [1, 2, 3, 0] = .fail 2 := by decide

/-- The full-strength detection statement: an orderly end (`io.EOF`) is reported only after the
    peer's close_notify.  The unchanged code does NOT satisfy it (see `C42_witness_truncation`):
    `readRecord` deliberately maps a transport EOF at a record boundary (and inside a record
    header) to `io.EOF` ("popular web sites seem to do this, so we can't make it an error"). -/
def DetectFull (dec : Nat → UInt8 → Bytes → Dec) (vers : UInt8 × UInt8) (sent : List (UInt8 × Bytes)) : Prop :=
  ∀ w, (runStream dec vers w).err = some .eof →
    ∃ lvl, 0 < (runStream dec vers w).seq ∧ sent[(runStream dec vers w).seq - 1]? = some (21, [lvl, 0])

/-- **C42_detect_partial.**  The detection statement holds for every stream that does not simply end
    (with < 5 stray bytes) after an accepted prefix of honest records — i.e. for everything except
    truncation at a record boundary. -/
theorem C42_detect_partial {dec enc vers sent} (ha : Authentic dec enc sent) (w : Bytes)
    (hnt : 5 ≤ (runStream dec vers w).raw.length) (he : (runStream dec vers w).err = some .eof) :
    ∃ lvl, 0 < (runStream dec vers w).seq ∧ sent[(runStream dec vers w).seq - 1]? = some (21, [lvl, 0]) := by
  rcases (C42_eof_only_close_or_exhausted (vers := vers) ha w he).2 with h | h
  · omega
  · exact h

/-! ### concrete instance: non-vacuity and the truncation witness -/

/-- a toy injective sealing used for the concrete examples -/
def toyEnc (s : Nat) (t : UInt8) (p : Bytes) : Bytes := UInt8.ofNat s :: t :: p

def exSent : List (UInt8 × Bytes) := [(23, [1, 2]), (23, [3]), (21, [1, 0])]

/-- the hypothesis is satisfiable (by the ideal functionality), so the theorems are not vacuous -/
example : Authentic (idealDec toyEnc exSent) toyEnc exSent := idealDec_authentic _ _

/-- the honest stream is delivered completely and ends with `io.EOF` -/
example : (runStream (idealDec toyEnc exSent) (3, 3) (honest toyEnc (3, 3) 0 exSent)).out = [1, 2, 3] ∧
    (runStream (idealDec toyEnc exSent) (3, 3) (honest toyEnc (3, 3) 0 exSent)).err = some .eof := by decide

/-- swapping the two data records: nothing is delivered, bad_record_mac -/
example : (runStream (idealDec toyEnc exSent) (3, 3)
      (frame (3, 3) 23 (toyEnc 1 23 [3]) ++ frame (3, 3) 23 (toyEnc 0 23 [1, 2]))).out = [] ∧
    (runStream (idealDec toyEnc exSent) (3, 3)
      (frame (3, 3) 23 (toyEnc 1 23 [3]) ++ frame (3, 3) 23 (toyEnc 0 23 [1, 2]))).err
        = some (.localAlert 20) := by decide

/-- a forged application-data record: the unauthenticated block is parked in `c.input`, the error is
    bad_record_mac, and four more Reads deliver nothing -/
example : (runStream (idealDec toyEnc exSent) (3, 3) (frame (3, 3) 23 [9, 9, 9])).input.isSome = true ∧
    (runStream (idealDec toyEnc exSent) (3, 3) (frame (3, 3) 23 [9, 9, 9])).err = some (.localAlert 20) ∧
    readMore (idealDec toyEnc exSent) (3, 3) 4 (runStream (idealDec toyEnc exSent) (3, 3) (frame (3, 3) 23 [9, 9, 9]))
      = ([], [some (.localAlert 20), some (.localAlert 20), some (.localAlert 20), some (.localAlert 20)]) := by decide

/-- **C42_witness_truncation.**  The full-strength statement fails: cutting the stream after the first
    record yields `io.EOF` with only `[1,2]` delivered and no close_notify seen. -/
theorem C42_witness_truncation : ¬ DetectFull (idealDec toyEnc exSent) (3, 3) exSent := by
  intro h
  obtain ⟨lvl, _, hget⟩ := h (honest toyEnc (3, 3) 0 (exSent.take 1)) (by decide)
  have hseq : (runStream (idealDec toyEnc exSent) (3, 3) (honest toyEnc (3, 3) 0 (exSent.take 1))).seq = 1 := by
    decide
  rw [hseq] at hget
  simp [exSent] at hget

end BfeVerif.C42
