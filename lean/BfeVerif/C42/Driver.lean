import BfeVerif.Common.Proto
import BfeVerif.C42.Model
/-!
  C42 driver.

  op  = `s=<suite hex4>;v=<vers hex4>;rb=<read buffer>;sent=<rec>,…;wire=<frame>,…`
        rec   = `<typ hex2>:<plaintext hex|->`          the i-th record the client sealed after the handshake
        frame = what the adversary puts on the wire, in terms of the client's sealed records R_i:
          o<i>             R_i verbatim
          t<i>.<tt>        R_i with the header type byte replaced by tt
          v<i>.<vvvv>      R_i with the header version replaced
          m<i>.<pos>.<mm>  R_i with body byte (pos mod len) xor mm  (mm ≠ 0)
          x<i>.<d>         R_i with the length field increased by d and d junk bytes appended to the body
          k<i>.<d>         R_i with the length field decreased by d (the cut-off bytes follow on the wire)
          s<i>.<L>         R_i with the length field set to min(L, len-1) (the cut-off bytes follow on the wire)
          y<i>             the same plaintext sealed by an unrelated connection (cross-connection splice)
          j<tt>.<vvvv>.<n> injected record: header + n junk bytes
          p<tt>.<vvvv>.<n>.<k>  header announcing n bytes followed by only k < n bytes (must be last)
          z<hex>           stray bytes (fewer than 5; must be last)
        then EOF.
  result = `d=<delivered hex> e=<first error> q=<records accepted> a=<hex delivered by 4 further Reads> r=<their errors> w=<first fatal alert the peer received, or none>`

  The model is run on a *symbolic* byte stream: the body of R_i is `be64(i) ++ [typ] ++ plaintext` zero-padded to
  the real body length of the suite, decrypt = the suite family's length pre-checks (`decryptFam`) in front of the ideal
  functionality, junk is
  0xEE…, and decrypt is the ideal functionality `idealDec` for the client's history (the hypothesis
  of the theorems); the real bodies never reach the driver.
-/
namespace BfeVerif.C42
open BfeVerif.Proto

def be64 (s : Nat) : Bytes :=
  [0, 0, 0, 0, UInt8.ofNat (s / 16777216 % 256), UInt8.ofNat (s / 65536 % 256), UInt8.ofNat (s / 256 % 256), UInt8.ofNat (s % 256)]

/-- cipher family of a (suite, version) pair, as bfe's cipherSuites table has it -/
def familyOf (suite : String) (vers : UInt8 × UInt8) : Family :=
  let eiv (bs : Nat) : Nat := if vers.2.toNat ≥ 2 then bs else 0      -- explicit IV from TLS 1.1 (0x0302) on
  if suite == "cca8" || suite == "cca9" then .aead 0 16
  else if suite == "c02f" || suite == "c02b" then .aead 8 16
  else if suite == "c011" || suite == "c007" || suite == "0005" then .stream 20
  else if suite == "c012" || suite == "000a" then .cbc 8 20 (eiv 8)
  else if suite == "e019" then .cbc 16 32 (eiv 16)
  else .cbc 16 20 (eiv 16)

/-- length of the real record body for a plaintext of `n` bytes (halfConn.encrypt / padToBlockSize) -/
def realLen (fam : Family) (n : Nat) : Nat :=
  match fam with
  | .aead e o => e + n + o
  | .stream m => n + m
  | .cbc bs m e => e + (n + m) + (bs - (n + m) % bs)

/-- symbolic body of the s-th record: `be64(s) ++ [typ] ++ plaintext`, zero-padded to the REAL body length
    of the suite (always ≥ 9 + len), so that every length-dependent branch sees the real lengths -/
def symEncF (fam : Family) (s : Nat) (t : UInt8) (p : Bytes) : Bytes :=
  let b := be64 s ++ [t] ++ p
  b ++ List.replicate (realLen fam p.length - b.length) 0

def junk (n : Nat) : Bytes := List.replicate n 0xEE

def hdr (t : UInt8) (v : UInt8 × UInt8) (n : Nat) : Bytes :=
  [t, v.1, v.2, UInt8.ofNat (n / 256), UInt8.ofNat (n % 256)]

def rawFrame (t : UInt8) (v : UInt8 × UInt8) (body : Bytes) : Bytes := hdr t v body.length ++ body

def hex1 (s : String) : Option UInt8 :=
  match bytesOfHex s with
  | some [b] => some b
  | _ => none

def hex2 (s : String) : Option (UInt8 × UInt8) :=
  match bytesOfHex s with
  | some [a, b] => some (a, b)
  | _ => none

def parseRec (s : String) : Option (UInt8 × Bytes) :=
  match s.splitOn ":" with
  | [t, p] => do let t ← hex1 t; let p ← bytesOfHex p; pure (t, p)
  | _ => none

def xorAt (l : Bytes) (i : Nat) (m : UInt8) : Bytes :=
  l.mapIdx fun k b => if k = i then b ^^^ m else b

/-- one wire frame as symbolic bytes -/
def frameBytes (fam : Family) (sent : List (UInt8 × Bytes)) (vers : UInt8 × UInt8) (f : String) : Option Bytes :=
  match f.toList with
  | [] => none
  | c :: rest =>
    let args := (String.ofList rest).splitOn "."
    let rec_ (i : Nat) : Option (UInt8 × Bytes) := do
      let (t, p) ← sent[i]?
      pure (t, symEncF fam i t p)
    match c, args with
    | 'o', [i] => do let (t, b) ← rec_ (← i.toNat?); pure (rawFrame t vers b)
    | 't', [i, tt] => do let (_, b) ← rec_ (← i.toNat?); pure (rawFrame (← hex1 tt) vers b)
    | 'v', [i, vv] => do let (t, b) ← rec_ (← i.toNat?); pure (rawFrame t (← hex2 vv) b)
    | 'm', [i, pos, mm] => do
        let (t, b) ← rec_ (← i.toNat?)
        pure (rawFrame t vers (xorAt b ((← pos.toNat?) % b.length) (← hex1 mm)))
    | 'x', [i, d] => do let (t, b) ← rec_ (← i.toNat?); pure (rawFrame t vers (b ++ junk (← d.toNat?)))
    | 'k', [i, d] => do
        let (t, b) ← rec_ (← i.toNat?)
        let d := min (← d.toNat?) b.length
        pure (hdr t vers (b.length - d) ++ b)
    | 's', [i, l] => do
        let (t, b) ← rec_ (← i.toNat?)
        pure (hdr t vers (min (← l.toNat?) (b.length - 1)) ++ b)
    | 'y', [i] => do let (t, b) ← rec_ (← i.toNat?); pure (rawFrame t vers (junk b.length))
    | 'j', [tt, vv, n] => do pure (rawFrame (← hex1 tt) (← hex2 vv) (junk (← n.toNat?)))
    | 'p', [tt, vv, n, k] => do pure (hdr (← hex1 tt) (← hex2 vv) (← n.toNat?) ++ junk (← k.toNat?))
    | 'z', [h] => bytesOfHex h
    | _, _ => none

def optAll {α} : List (Option α) → Option (List α)
  | [] => some []
  | none :: _ => none
  | some a :: r => (optAll r).map (a :: ·)

def renderErr : Option Err → String
  | none => "none"
  | some .eof => "eof"
  | some .ueof => "ueof"
  | some .badvers => "badvers"
  | some .oversize => "oversize"
  | some .noprogress => "noprogress"
  | some (.localAlert a) => "local:" ++ toString a
  | some (.remoteAlert a) => "remote:" ++ toString a

def isPrefixB : Bytes → Bytes → Bool
  | [], _ => true
  | _ :: _, [] => false
  | a :: as, b :: bs => a == b && isPrefixB as bs

def isCloseNotify (r : UInt8 × Bytes) : Bool :=
  r.1 == 21 && (match r.2 with | [_, d] => d == 0 | _ => false)

/-- `wire` is `o0,o1,…,o(k-1)` possibly followed by one `z` frame: a truncation of the honest stream -/
def honestPrefixLen : List String → Nat → Option Nat
  | [], k => some k
  | f :: fs, k =>
    if f == "o" ++ toString k then honestPrefixLen fs (k + 1)
    else if f.startsWith "z" && fs.isEmpty then some k
    else none

/-- number of leading wire frames that are exactly `o0, o1, …` in order -/
def honestRun : List String → Nat → Nat
  | [], k => k
  | f :: fs, k => if f == "o" ++ toString k then honestRun fs (k + 1) else k

def kindTag (frames : List String) (nsent : Nat) : String :=
  let rec go : List String → Nat → String
    | [], k => if k ≥ nsent then "honest" else "trunc"
    | f :: fs, k =>
      if f == "o" ++ toString k then go fs (k + 1)
      else match f.toList with
        | 'o' :: r => match (String.ofList r).toNat? with
            | some j => if j < k then "replay" else "skip"
            | none => "bad"
        | 's' :: _ => "shrink" | 't' :: _ => "type" | 'v' :: _ => "vers" | 'm' :: _ => "mod" | 'x' :: _ => "lenup" | 'k' :: _ => "lendown"
        | 'y' :: _ => "splice" | 'j' :: _ => "inject" | 'p' :: _ => "partial" | 'z' :: _ => "stray"
        | _ => "bad"
  go frames 0

def suiteTag (s : String) : String :=
  if s == "cca8" || s == "cca9" then "chacha"
  else if s == "c02f" || s == "c02b" then "gcm"
  else if s == "c011" || s == "c007" || s == "0005" then "rc4"
  else if s == "c012" || s == "000a" then "3des"
  else if s == "e019" then "sm4"
  else "aescbc"

/-- Which fatal alert number is reported is not part of the property and depends, for records near the size limits,
    on how much of a rejected record the cipher had already stripped.  Result strings are therefore compared up to
    the NUMBER of a locally raised alert: `local:<n>` ↦ `local:*` in `e=` and `r=`, `w=<n>` ↦ `w=*` (sent / not sent
    is kept).  Everything else — delivered bytes, accepted count, error kind, stickiness — is compared exactly. -/
def canonAlert (x : String) : String := if x.startsWith "local:" then "local:*" else x

def canonField (f : String) : String :=
  if f.startsWith "e=" then "e=" ++ canonAlert (String.ofList (f.toList.drop 2))
  else if f.startsWith "r=" then "r=" ++ ",".intercalate (((String.ofList (f.toList.drop 2)).splitOn ",").map canonAlert)
  else if f.startsWith "w=" then (if f == "w=none" then f else "w=*")
  else f

def canonResult (s : String) : String := " ".intercalate ((s.splitOn " ").map canonField)

def field (kvs : List String) (k : String) : Option String :=
  (kvs.find? fun s => s.startsWith (k ++ "=")).map fun s => (String.ofList (s.toList.drop (k.length + 1)))

def splitList (s : String) : List String := if s == "" then [] else s.splitOn ","

def run' (op impl : String) : Option Ans := do
  let kvs := op.splitOn ";"
  let suite ← field kvs "s"
  let vs ← field kvs "v"
  let vers ← hex2 vs
  let sentS := splitList (← field kvs "sent")
  let wireS := splitList (← field kvs "wire")
  let sent ← optAll (sentS.map parseRec)
  let fam := familyOf suite vers
  let frames ← optAll (wireS.map (frameBytes fam sent vers))
  let w := frames.foldr (· ++ ·) []
  let r := runStream (decryptFam fam (idealDec (symEncF fam) sent)) vers w
  -- four further Reads after the first error (none after io.ErrNoProgress, which is not sticky in Go)
  let more := if r.err == some Err.noprogress || r.err.isNone then (([] : Bytes), "-")
    else let m := readMore (decryptFam fam (idealDec (symEncF fam) sent)) vers 4 r; (m.1, ",".intercalate (m.2.map renderErr))
  let model0 := "d=" ++ hexField r.out ++ " e=" ++ renderErr r.err ++ " q=" ++ toString r.seq ++
    " a=" ++ hexField more.1 ++ " r=" ++ more.2 ++
    " w=" ++ (match alertSent r with | some a => toString a | none => "none")
  -- agreement up to the alert number counts as agreement (the check compares the two strings verbatim)
  let model := if canonResult model0 == canonResult impl then impl else model0
  -- spec oracle on the implementation's result
  let verdict :=
    match impl.splitOn " " with
    | [d, e, qq, a, rr, ww] =>
      match bytesOfHex (String.ofList (d.toList.drop 2)), bytesOfHex (String.ofList (a.toList.drop 2)) with
      | some dl, some al =>
        let all := appBytes sent
        let upToClose := appBytes (sent.takeWhile fun r => !isCloseNotify r)
        let plain := (sent.dropLast.all fun r => r.1 == 23 && !r.2.isEmpty && r.2.length ≤ maxPlaintext) &&
          (match sent.getLast? with | some r => isCloseNotify r | none => false)
        let laterErrs := (String.ofList (rr.toList.drop 2)).splitOn ","
        let firstErr := String.ofList (e.toList.drop 2)
        -- (b) nothing at all is delivered after the first error
        if !al.isEmpty then "FAIL:delivered-after-error"
        -- (a) everything delivered is a prefix of what the peer sent
        else if !isPrefixB dl all then "FAIL:not-prefix"
        -- (a') nothing of a record that is not, byte for byte (header included: type, version, length) and in order,
        --      what the peer sealed may be delivered, nor accepted by the receiving half:
        --      k = number of leading wire frames that are o0, o1, … in order
        else if dl.length > (appBytes (sent.take (honestRun wireS 0))).length then "FAIL:tampered-record-delivered"
        else if ((String.ofList (qq.toList.drop 2)).toNat?.getD 0) > honestRun wireS 0 then "FAIL:tampered-record-accepted"
        -- (d) a failure the server detected itself is announced to the peer by a fatal alert
        else if (firstErr.startsWith "local:" && firstErr != "local:100" || firstErr == "badvers" || firstErr == "oversize")
            && ww == "w=none" then "FAIL:failure-without-alert"
        -- (c) the error is sticky: every later Read returns it again
        else if rr != "r=-" && laterErrs.any (fun x => x != firstErr) then "FAIL:error-not-sticky"
        else if e == "e=eof" && dl != upToClose then
          (match honestPrefixLen wireS 0 with
           | some _ => "FAIL:trunc-eof"
           | none => "FAIL:silent-tamper")
        else if plain && wireS == (List.range sent.length).map (fun i => "o" ++ toString i) &&
            (e != "e=eof" || dl != all) then "FAIL:honest-rejected"
        else "ok"
      | _, _ => "FAIL:unparsable"
    | _ => if impl.startsWith "PANIC" then "FAIL:panic" else "FAIL:unparsable"
  let kind := kindTag wireS sent.length
  pure { model := model, verdict := verdict,
         tags := [kind, suiteTag suite, "v" ++ vs] ++ (if kind != "honest" then ["nt"] else []) }

def run (op impl : String) : Ans :=
  match run' op impl with
  | some a => a
  | none => { model := "bad-op", verdict := "skip" }

end BfeVerif.C42
