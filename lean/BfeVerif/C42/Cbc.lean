import BfeVerif.C42.Model
import BfeVerif.C43.Model
/-
  C42 — the CBC branch of halfConn.decrypt as an instance of the `dec` parameter, composed with C43's model of
  removePadding (TLS 1.0+; SSL 3.0's removePaddingSSL30 is not modelled).  Core-only.

    if len(payload)%blockSize != 0 || len(payload) < roundUp(explicitIVLen+macSize+1, blockSize) { bad_record_mac }
    if explicitIVLen > 0 { c.SetIV(payload[:explicitIVLen]); payload = payload[explicitIVLen:] }
    c.CryptBlocks(payload, payload)
    payload, paddingGood = removePadding(payload)
    if len(payload) < macSize { bad_record_mac }
    n := len(payload) - macSize;  remoteMAC := payload[n:]
    localMAC := hc.mac.MAC(seq, header(type, version, n), payload[:n])
    if ConstantTimeCompare(localMAC, remoteMAC) != 1 || paddingGood != 255 { bad_record_mac }
  The block cipher (`unblock iv ciphertext`) and the MAC (`mac seq typ data`; version and length are
  functions of the connection and of `data`) are parameters.
-/
namespace BfeVerif.C42

def toBV (b : UInt8) : BitVec 8 := BitVec.ofNat 8 b.toNat
def ofBV (b : BitVec 8) : UInt8 := UInt8.ofNat b.toNat

def cbcDecrypt (blockSize macSize explicitIV : Nat) (unblock : Bytes → Bytes → Bytes)
    (mac : Nat → UInt8 → Bytes → Bytes) (seq : Nat) (typ : UInt8) (body : Bytes) : Dec :=
  if body.length % blockSize ≠ 0 ∨ body.length < roundUp (explicitIV + macSize + 1) blockSize then .fail body.length
  else
    let pt := unblock (body.take explicitIV) (body.drop explicitIV)
    let r := BfeVerif.C43.removePadding (pt.map toBV)
    let payload := r.1.map ofBV
    if payload.length < macSize then .fail (explicitIV + payload.length)
    else
      let n := payload.length - macSize
      if mac seq typ (payload.take n) ≠ payload.drop n ∨ r.2 ≠ 255#8 then .fail (explicitIV + n)
      else .ok (payload.take n)

end BfeVerif.C42
