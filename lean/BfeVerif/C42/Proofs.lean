import BfeVerif.C42.Model
/-! C42 helper lemmas: the invariant of the receive loop under the authenticity hypothesis. -/
namespace BfeVerif.C42

/-- **Hypothesis on the record protection (never proved about the real ciphers).**
    Whatever body `decrypt` accepts at sequence number `s` under header type `t` is exactly the body the
    peer produced for its `s`-th record, which had type `t` and plaintext `p`:  an ideal authenticator
    over (sequence number, type, version, length, content) and an adversary who cannot produce
    accepted bodies on its own. -/
def Authentic (dec : Nat → UInt8 → Bytes → Dec) (enc : Nat → UInt8 → Bytes → Bytes)
    (sent : List (UInt8 × Bytes)) : Prop :=
  ∀ s t c p, dec s t c = .ok p → c = enc s t p ∧ sent[s]? = some (t, p)

/-- the ideal functionality satisfies the hypothesis, for every `enc` -/
theorem idealDec_authentic (enc : Nat → UInt8 → Bytes → Bytes) (sent : List (UInt8 × Bytes)) :
    Authentic (idealDec enc sent) enc sent := by
  intro s t c p h
  unfold idealDec at h
  split at h
  · rename_i t' p' hs
    split at h
    · rename_i hc
      cases h
      exact ⟨hc.2, by rw [hs, hc.1]⟩
    · cases h
  · cases h

/-- the key-independent length checks only ever add rejections -/
theorem decryptFam_authentic (fam : Family) {inner : Nat → UInt8 → Bytes → Dec} {enc : Nat → UInt8 → Bytes → Bytes}
    {sent : List (UInt8 × Bytes)} (ha : Authentic inner enc sent) : Authentic (decryptFam fam inner) enc sent := by
  intro s t c p h
  unfold decryptFam at h
  cases fam with
  | aead e o =>
    simp only at h
    split at h
    · cases h
    · split at h
      · cases h
      · exact ha s t c p h
  | cbc bs m e =>
    simp only at h
    split at h
    · cases h
    · exact ha s t c p h
  | stream m =>
    simp only at h
    split at h
    · cases h
    · exact ha s t c p h

theorem decryptFam_short (fam : Family) (inner : Nat → UInt8 → Bytes → Dec) (s : Nat) (t : UInt8) (body : Bytes)
    (h : body.length < minLen fam) : decryptFam fam inner s t body = .fail body.length := by
  unfold decryptFam
  cases fam with
  | aead e o =>
    simp only [minLen] at h ⊢
    split
    · rfl
    · rw [if_pos (by omega)]
  | cbc bs m e =>
    simp only [minLen] at h ⊢
    rw [if_pos (Or.inr h)]
  | stream m =>
    simp only [minLen] at h ⊢
    rw [if_pos h]

theorem hdr_dec (n : Nat) (h : n < 65536) : hdrLen (UInt8.ofNat (n / 256)) (UInt8.ofNat (n % 256)) = n := by
  unfold hdrLen
  simp only [UInt8.toNat_ofNat']
  omega

/-- bytes waiting in `c.input` that the next `Read` would return -/
def pend (st : St) : Bytes :=
  match st.err, st.input with
  | none, some p => p
  | _, _ => []

theorem honest_append (enc : Nat → UInt8 → Bytes → Bytes) (vers : UInt8 × UInt8)
    (l : List (UInt8 × Bytes)) (x : UInt8 × Bytes) (i : Nat) :
    honest enc vers i (l ++ [x]) = honest enc vers i l ++ frame vers x.1 (enc (i + l.length) x.1 x.2) := by
  induction l generalizing i with
  | nil => simp [honest]
  | cons a l ih =>
    obtain ⟨t, p⟩ := a
    simp only [List.cons_append, honest, ih, List.length_cons, List.append_assoc]
    rw [show i + 1 + l.length = i + (l.length + 1) by omega]

theorem appBytes_append (l : List (UInt8 × Bytes)) (x : UInt8 × Bytes) :
    appBytes (l ++ [x]) = appBytes l ++ (if x.1 = 23 then x.2 else []) := by
  induction l with
  | nil => simp [appBytes]
  | cons a l ih => obtain ⟨t, p⟩ := a; simp [appBytes, ih]

theorem take_succ_of_get {α} (l : List α) (s : Nat) (x : α) (h : l[s]? = some x) :
    l.take (s + 1) = l.take s ++ [x] := by
  rw [List.take_add_one, h]; rfl

theorem lt_length_of_get {α} (l : List α) (s : Nat) (x : α) (h : l[s]? = some x) : s < l.length := by
  rcases Nat.lt_or_ge s l.length with h' | h'
  · exact h'
  · rw [List.getElem?_eq_none h'] at h; cases h

theorem hdr_enc (l1 l2 : UInt8) :
    UInt8.ofNat (hdrLen l1 l2 / 256) = l1 ∧ UInt8.ofNat (hdrLen l1 l2 % 256) = l2 := by
  have h1 := l1.toNat_lt
  have h2 := l2.toNat_lt
  unfold hdrLen
  constructor
  · have : (l1.toNat * 256 + l2.toNat) / 256 = l1.toNat := by omega
    rw [this]; exact UInt8.ofNat_toNat
  · have : (l1.toNat * 256 + l2.toNat) % 256 = l2.toNat := by omega
    rw [this]; exact UInt8.ofNat_toNat

/-- the consumed frame is byte-for-byte the honest frame -/
theorem frame_eq (vers : UInt8 × UInt8) (t v1 v2 l1 l2 : UInt8) (rest : Bytes)
    (hv : (v1, v2) = vers) (hn : hdrLen l1 l2 ≤ rest.length) :
    t :: v1 :: v2 :: l1 :: l2 :: rest
      = frame vers t (rest.take (hdrLen l1 l2)) ++ rest.drop (hdrLen l1 l2) := by
  unfold frame
  have hl : (rest.take (hdrLen l1 l2)).length = hdrLen l1 l2 := by
    rw [List.length_take]; omega
  rw [hl, (hdr_enc l1 l2).1, (hdr_enc l1 l2).2, ← hv]
  simp

/-- a failed decrypt never leads to `goto Again`, to `io.EOF`, or to "no error" -/
theorem dispatch_fail (t : UInt8) (x : Nat) :
    ∃ e inp, dispatch t (List.replicate (x + 5) 0) (some (.localAlert 20)) = (some e, inp, false)
      ∧ e ≠ .eof := by
  unfold dispatch
  simp only [List.replicate_succ]
  split
  · exact ⟨_, _, rfl, by simp⟩
  · split
    · exact ⟨_, _, rfl, by simp⟩
    · split
      · exact ⟨_, _, rfl, by simp⟩
      · split
        · exact ⟨_, _, rfl, by simp⟩
        · split <;> exact ⟨_, _, rfl, by simp⟩

/-- The invariant of the receive loop, relative to the whole incoming stream `w` and the peer's
    record history `sent`. -/
structure Inv (enc : Nat → UInt8 → Bytes → Bytes) (vers : UInt8 × UInt8)
    (sent : List (UInt8 × Bytes)) (w : Bytes) (st : St) : Prop where
  stream : w = honest enc vers 0 (sent.take st.seq) ++ st.raw
  seqle : st.seq ≤ sent.length
  some_prefix : ∃ j, j ≤ st.seq ∧ st.out ++ pend st = appBytes (sent.take j)
  exact : st.err = none → st.out ++ pend st = appBytes (sent.take st.seq)
  eofc : st.err = some .eof →
    st.raw.length < 5 ∨ ∃ lvl, 0 < st.seq ∧ sent[st.seq - 1]? = some (21, [lvl, 0])
  eofx : st.err = some .eof → st.out = appBytes (sent.take st.seq)

/-- setting a non-EOF error on a state without pending input keeps the invariant -/
theorem Inv.set_err {enc vers sent w} {st : St} (h : Inv enc vers sent w st)
    (hin : st.input = none) (e : Err) (inp : Option Bytes) (he : e ≠ .eof) (mf : Bool := st.macFailed) :
    Inv enc vers sent w { st with err := some e, input := inp, macFailed := mf } := by
  have hp : pend st = [] := by unfold pend; rw [hin]; split <;> simp_all
  obtain ⟨j, hj, hjp⟩ := h.some_prefix
  refine ⟨h.stream, h.seqle, ⟨j, hj, ?_⟩, ?_, ?_, ?_⟩
  · rw [hp] at hjp; simpa [pend] using hjp
  · intro hc; cases hc
  · intro hc; simp only [Option.some.injEq] at hc; exact absurd hc he
  · intro hc; simp only [Option.some.injEq] at hc; exact absurd hc he

theorem readRecord_inv {dec enc vers sent w} (ha : Authentic dec enc sent) :
    ∀ (fuel : Nat) (st : St), Inv enc vers sent w st → st.input = none → st.err = none →
      Inv enc vers sent w (readRecord dec vers fuel st) := by
  intro fuel
  induction fuel with
  | zero => intro st h _ _; exact h
  | succ fuel ih =>
    intro st h hin herr
    have hp : pend st = [] := by unfold pend; rw [hin]; split <;> simp_all
    unfold readRecord
    split
    · rename_i t v1 v2 l1 l2 rest hraw
      simp only []
      split
      · exact h.set_err hin .badvers st.input (by simp)
      · rename_i hv
        split
        · exact h.set_err hin .oversize st.input (by simp)
        · rename_i hn1
          split
          · exact h.set_err hin .ueof st.input (by simp)
          · rename_i hn2
            have hv' : (v1, v2) = vers := by simpa using hv
            have hn : hdrLen l1 l2 ≤ rest.length := by omega
            split
            · -- decrypt ok
              rename_i p hdec
              obtain ⟨hc, hs⟩ := ha _ _ _ _ hdec
              have hlt := lt_length_of_get _ _ _ hs
              have htake := take_succ_of_get _ _ _ hs
              have hstream : w = honest enc vers 0 (sent.take (st.seq + 1)) ++ rest.drop (hdrLen l1 l2) := by
                rw [htake, honest_append, h.stream, hraw, frame_eq vers t v1 v2 l1 l2 rest hv' hn, hc]
                simp [List.length_take, Nat.min_eq_left (Nat.le_of_lt hlt)]
              have hex := h.exact herr
              rw [hp, List.append_nil] at hex
              have happ : appBytes (sent.take (st.seq + 1)) = st.out ++ (if t = 23 then p else []) := by
                rw [htake, appBytes_append, hex]
              -- case analysis of dispatch
              unfold dispatch
              split
              · -- record overflow
                refine ⟨hstream, hlt, ⟨st.seq, Nat.le_succ _, ?_⟩, ?_, ?_, ?_⟩
                · simp [pend, hex]
                · intro hc; cases hc
                · intro hc; cases hc
                · intro hc; cases hc
              · split
                · -- alert
                  rename_i ht
                  split
                  · split
                    · -- close_notify
                      rename_i hd
                      refine ⟨hstream, hlt, ⟨st.seq, Nat.le_succ _, ?_⟩, ?_, ?_, ?_⟩
                      · simp [pend, hex]
                      · intro hc; cases hc
                      · intro _; right; exact ⟨_, Nat.succ_pos _, by simpa [ht, hd] using hs⟩
                      · intro _; simp [happ, ht]
                    · split
                      · -- warning: goto Again
                        simp only [if_true]
                        apply ih
                        · refine ⟨hstream, hlt, ⟨st.seq + 1, Nat.le_refl _, ?_⟩, ?_, ?_, ?_⟩
                          · simp [pend, happ, ht]
                          · intro _; simp [pend, happ, ht]
                          · intro hc; cases hc
                          · intro hc; cases hc
                        · rfl
                        · rfl
                      · split
                        · refine ⟨hstream, hlt, ⟨st.seq, Nat.le_succ _, ?_⟩, ?_, ?_, ?_⟩
                          · simp [pend, hex]
                          · intro hc; cases hc
                          · intro hc; cases hc
                          · intro hc; cases hc
                        · refine ⟨hstream, hlt, ⟨st.seq, Nat.le_succ _, ?_⟩, ?_, ?_, ?_⟩
                          · simp [pend, hex]
                          · intro hc; cases hc
                          · intro hc; cases hc
                          · intro hc; cases hc
                  · refine ⟨hstream, hlt, ⟨st.seq, Nat.le_succ _, ?_⟩, ?_, ?_, ?_⟩
                    · simp [pend, hex]
                    · intro hc; cases hc
                    · intro hc; cases hc
                    · intro hc; cases hc
                · split
                  · refine ⟨hstream, hlt, ⟨st.seq, Nat.le_succ _, ?_⟩, ?_, ?_, ?_⟩
                    · simp [pend, hex]
                    · intro hc; cases hc
                    · intro hc; cases hc
                    · intro hc; cases hc
                  · split
                    · -- application data
                      rename_i ht
                      refine ⟨hstream, hlt, ⟨st.seq + 1, Nat.le_refl _, ?_⟩, ?_, ?_, ?_⟩
                      · simp [pend, happ, ht]
                      · intro _; simp [pend, happ, ht]
                      · intro hc; cases hc
                      · intro hc; cases hc
                    · split
                      · refine ⟨hstream, hlt, ⟨st.seq, Nat.le_succ _, ?_⟩, ?_, ?_, ?_⟩
                        · simp [pend, hex]
                        · intro hc; cases hc
                        · intro hc; cases hc
                        · intro hc; cases hc
                      · refine ⟨hstream, hlt, ⟨st.seq, Nat.le_succ _, ?_⟩, ?_, ?_, ?_⟩
                        · simp [pend, hex]
                        · intro hc; cases hc
                        · intro hc; cases hc
                        · intro hc; cases hc
            · -- decrypt failed
              rename_i x hdec
              obtain ⟨e, inp, hd, he⟩ := dispatch_fail t x
              simp only [hd]
              exact h.set_err hin e inp he true
    · -- fewer than 5 bytes left
      rename_i hno
      have hlen : st.raw.length < 5 := by
        rcases hr : st.raw with _ | ⟨a, _ | ⟨b, _ | ⟨c, _ | ⟨d, _ | ⟨e, r⟩⟩⟩⟩⟩ <;> simp
        exact (hno _ _ _ _ _ _ hr).elim
      obtain ⟨j, hj, hjp⟩ := h.some_prefix
      refine ⟨h.stream, h.seqle, ⟨j, hj, ?_⟩, ?_, ?_, ?_⟩
      · rw [hp] at hjp; simpa [pend] using hjp
      · intro hc; cases hc
      · intro _; left; exact hlen
      · intro _; have := h.exact herr; simpa [hp] using this

theorem serve_inv {dec enc vers sent w} (ha : Authentic dec enc sent) :
    ∀ (fuel : Nat) (st : St), Inv enc vers sent w st → st.input = none →
      Inv enc vers sent w (serve dec vers fuel st) ∧ pend (serve dec vers fuel st) = [] := by
  intro fuel
  induction fuel with
  | zero =>
    intro st h hin
    refine ⟨h, ?_⟩
    unfold serve pend; rw [hin]; split <;> simp_all
  | succ fuel ih =>
    intro st h hin
    unfold serve
    -- the state after the inner `for c.input == nil && c.in.err == nil` loop
    have hst : Inv enc vers sent w
        (if st.input.isNone ∧ st.err.isNone then readRecord dec vers (st.raw.length + 1) st else st) := by
      split
      · rename_i hc
        exact readRecord_inv ha _ st h hin (by simpa using hc.2)
      · exact h
    generalize (if st.input.isNone ∧ st.err.isNone then readRecord dec vers (st.raw.length + 1) st else st) = st1 at hst
    simp only []
    split
    · rename_i e he
      exact ⟨hst, by unfold pend; rw [he]⟩
    · rename_i he
      split
      · rename_i hi
        exact ⟨hst, by unfold pend; rw [hi]; split <;> simp_all⟩
      · rename_i p hi
        have hpend : pend st1 = p := by unfold pend; rw [he, hi]
        have hex := hst.exact he
        rw [hpend] at hex
        split
        · rename_i hpe
          have hpnil : p = [] := by simpa using hpe
          split
          · -- io.ErrNoProgress
            refine ⟨⟨hst.stream, hst.seqle, ⟨st1.seq, Nat.le_refl _, ?_⟩, ?_, ?_, ?_⟩, ?_⟩
            · simpa [pend, hpnil] using hex
            · intro hc; cases hc
            · intro hc; cases hc
            · intro hc; cases hc
            · simp [pend]
          · apply ih
            · refine ⟨hst.stream, hst.seqle, ⟨st1.seq, Nat.le_refl _, ?_⟩, ?_, ?_, ?_⟩
              · simpa [pend, hpnil, he] using hex
              · intro _; simpa [pend, hpnil, he] using hex
              · intro hc; simp [he] at hc
              · intro hc; simp [he] at hc
            · rfl
        · apply ih
          · refine ⟨hst.stream, hst.seqle, ⟨st1.seq, Nat.le_refl _, ?_⟩, ?_, ?_, ?_⟩
            · simpa [pend, he] using hex
            · intro _; simpa [pend, he] using hex
            · intro hc; simp [he] at hc
            · intro hc; simp [he] at hc
          · rfl

theorem appBytes_app (a b : List (UInt8 × Bytes)) : appBytes (a ++ b) = appBytes a ++ appBytes b := by
  induction a with
  | nil => simp [appBytes]
  | cons x a ih => obtain ⟨t, p⟩ := x; simp [appBytes, ih]

theorem inv_init (enc : Nat → UInt8 → Bytes → Bytes) (vers : UInt8 × UInt8)
    (sent : List (UInt8 × Bytes)) (w : Bytes) : Inv enc vers sent w { raw := w } :=
  ⟨by simp [honest], Nat.zero_le _, ⟨0, Nat.le_refl _, by simp [pend, appBytes]⟩,
   (by intro _; simp [pend, appBytes]), (by intro h; cases h), (by intro h; cases h)⟩

end BfeVerif.C42
