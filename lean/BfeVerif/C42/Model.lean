/-
  C42 — model of the receiving half of the TLS record layer of bfe_tls (conn.go) after the handshake:
  `Conn.Read` → `readRecord(recordTypeApplicationData)` → `halfConn.decrypt`, with the sticky error
  `c.in.err`, the sequence number `c.in.seq`, `c.input`, and the alert / close handling, exactly in
  the order of the Go code.  Core-only.

  The record protection itself (`halfConn.decrypt`: cipher + MAC / AEAD, CBC padding) is a PARAMETER
      dec : (seq : Nat) → (typ : UInt8) → (body : Bytes) → Dec
  ("what decrypt answers for this body when the sequence number is `seq` and the header type is `typ`";
  the protocol version is fixed per connection).  Its strength is a hypothesis of the theorems
  (`Authentic`, Props.lean), never a result.

  Go code mirrored (conn.go):
    readRecord:  Again: header (5 bytes) else err (io.EOF at a record boundary *and* inside a header);
                 vers != c.vers → "received record with version"; n > maxCiphertext → "oversized record";
                 body short → io.ErrUnexpectedEOF;  decrypt;  !ok → c.in.err = sendAlert(bad_record_mac)
                 **and processing continues** with off = 0 (data = the whole raw block, ≥ 5 bytes);
                 len(data) > maxPlaintext → record_overflow;  switch typ {alert, ccs, appdata, handshake, default};
                 return c.in.err
    decrypt:     hc.incSeq() only on success
    Conn.Read:   for c.input == nil && c.in.err == nil { readRecord }; if c.in.err != nil { return 0, err };
                 deliver c.input; at most 100 consecutive empty records, then io.ErrNoProgress
  The harness calls Conn.Read until it returns an error, so the model runs the loop to its first error.
-/
namespace BfeVerif.C42

abbrev Bytes := List UInt8

/-- error classes of `Conn.Read` (the harness maps Go errors to these) -/
inductive Err
  | eof                      -- io.EOF: orderly end as far as the application can tell
  | ueof                     -- io.ErrUnexpectedEOF
  | badvers                  -- "tls: received record with version …"
  | oversize                 -- "tls: oversized record received …"
  | noprogress               -- io.ErrNoProgress (101 consecutive empty records; not sticky in Go)
  | localAlert (a : Nat)     -- &net.OpError{Op:"local error", Err: alert(a)}: we sent alert a
  | remoteAlert (a : Nat)    -- &net.OpError{Op:"remote error", Err: alert(a)}
  deriving DecidableEq, Repr

/-- answer of `halfConn.decrypt`: the plaintext, or failure leaving `5 + extra` bytes in `b.data`
    (every `b.resize` in decrypt keeps the 5 header bytes) -/
inductive Dec
  | ok (p : Bytes)
  | fail (extra : Nat)
  deriving DecidableEq

def maxPlaintext : Nat := 16384
def maxCiphertext : Nat := 16384 + 2048

/-! ### the length pre-checks of halfConn.decrypt, per cipher family -/

inductive Family
  | aead (explicitIV overhead : Nat)            -- AES-128-GCM (8, 16), ChaCha20-Poly1305 (0, 16)
  | cbc (blockSize macSize explicitIV : Nat)    -- explicitIV = blockSize from TLS 1.1 on, else 0
  | stream (macSize : Nat)                      -- RC4-SHA
  deriving DecidableEq, Repr

/-- `roundUp(a, b) = a + (b - a%b)%b` -/
def roundUp (a b : Nat) : Nat := a + (b - a % b) % b

/-- the shortest record body that can possibly be accepted -/
def minLen : Family → Nat
  | .aead e o => e + o
  | .cbc bs m e => roundUp (e + m + 1) bs
  | .stream m => m

/-- `halfConn.decrypt` = the length checks that do not depend on any key, then the keyed part `inner`
    (MAC / AEAD verification, the abstract parameter of the theorems):
      aead:   `if len(payload) < explicitIVLen { bad_record_mac }`; cipher.AEAD.Open rejects a ciphertext shorter
              than its tag (contract of crypto/cipher, x/crypto/chacha20poly1305: "ciphertext too short")
      cbc:    `if len(payload)%blockSize != 0 || len(payload) < roundUp(explicitIVLen+macSize+1, blockSize) { … }`
      stream: after XORKeyStream, `if len(payload) < macSize { bad_record_mac }`
    none of these resizes b.data, so `5 + len(body)` bytes are left behind. -/
def decryptFam (fam : Family) (inner : Nat → UInt8 → Bytes → Dec) (seq : Nat) (typ : UInt8) (body : Bytes) : Dec :=
  match fam with
  | .aead e o =>
    if body.length < e then .fail body.length
    else if body.length - e < o then .fail body.length
    else inner seq typ body
  | .cbc bs m e =>
    if body.length % bs ≠ 0 ∨ body.length < roundUp (e + m + 1) bs then .fail body.length
    else inner seq typ body
  | .stream m =>
    if body.length < m then .fail body.length
    else inner seq typ body

/-- `int(b.data[3])<<8 | int(b.data[4])` -/
def hdrLen (l1 l2 : UInt8) : Nat := l1.toNat * 256 + l2.toNat

/-- receiving state of the connection (`c.in`, `c.rawInput`+network, `c.input`) plus what the
    application has been handed so far -/
structure St where
  seq : Nat := 0              -- c.in.seq
  raw : Bytes := []           -- bytes not yet consumed from the network (then EOF)
  input : Option Bytes := none  -- c.input (payload of the current application-data block)
  err : Option Err := none    -- c.in.err, sticky
  out : Bytes := []           -- everything Conn.Read has returned so far
  empties : Nat := 0          -- emptyRecordCount of the current Read call
  macFailed : Bool := false   -- decrypt failed on some record: bad_record_mac was the first alert written to the peer

/-- the part of readRecord after decrypt: `data = b.data[b.off:]`, `err0` = c.in.err at that point.
    Result: new c.in.err, new c.input, and whether the code does `goto Again`. -/
def dispatch (typ : UInt8) (data : Bytes) (err0 : Option Err) : Option Err × Option Bytes × Bool :=
  if data.length > maxPlaintext then (some (.localAlert 22), none, false)   -- record_overflow
  else if typ = 21 then                                                     -- recordTypeAlert
    match data with
    | [lvl, desc] =>
      if desc = 0 then (some .eof, none, false)                             -- close_notify (any level)
      else if lvl = 1 then (err0, none, true)                               -- warning: drop, goto Again
      else if lvl = 2 then (some (.remoteAlert desc.toNat), none, false)
      else (some (.localAlert 10), none, false)
    | _ => (some (.localAlert 10), none, false)                             -- len(data) != 2
  else if typ = 20 then (some (.localAlert 10), none, false)                -- CCS: typ != want
  else if typ = 23 then (err0, some data, false)                            -- c.input = b (even if err0 is set!)
  else if typ = 22 then (some (.localAlert 100), none, false)               -- handshake: no_renegotiation
  else (some (.localAlert 10), none, false)                                 -- unknown type

/-- `readRecord(recordTypeApplicationData)` after the handshake (`haveVers`, `handshakeComplete`).
    `fuel` bounds the `goto Again` loop (each turn consumes ≥ 5 bytes).  On an error detected before
    or by decrypt, `raw` keeps pointing at the offending record. -/
def readRecord (dec : Nat → UInt8 → Bytes → Dec) (vers : UInt8 × UInt8) : Nat → St → St
  | 0, st => st
  | fuel + 1, st =>
    match st.raw with
    | t :: v1 :: v2 :: l1 :: l2 :: rest =>
      let n := hdrLen l1 l2
      if (v1, v2) ≠ vers then { st with err := some .badvers }
      else if n > maxCiphertext then { st with err := some .oversize }
      else if rest.length < n then { st with err := some .ueof }
      else
        match dec st.seq t (rest.take n) with
        | .ok p =>
          -- decrypt succeeded: hc.incSeq(); data = plaintext
          let r := dispatch t p none
          let st' := { st with seq := st.seq + 1, raw := rest.drop n, err := r.1, input := r.2.1 }
          if r.2.2 then readRecord dec vers fuel st' else st'
        | .fail x =>
          -- c.in.setErrorLocked(c.sendAlert(alertBadRecordMAC)); b.off = 0: data = raw block
          let r := dispatch t (List.replicate (x + 5) 0) (some (.localAlert 20))
          let st' := { st with err := r.1, input := r.2.1, macFailed := true }
          if r.2.2 then readRecord dec vers fuel { st' with raw := rest.drop n } else st'
    | _ => { st with err := some .eof }      -- io.EOF while reading the header (0..4 bytes left)

/-- the harness loop `for { n, err := conn.Read(buf); … if err != nil break }`, with the body of
    `Conn.Read` inlined (the concatenation of the returned bytes does not depend on `len(buf)`). -/
def serve (dec : Nat → UInt8 → Bytes → Dec) (vers : UInt8 × UInt8) : Nat → St → St
  | 0, st => st
  | fuel + 1, st =>
    let st := if st.input.isNone ∧ st.err.isNone then readRecord dec vers (st.raw.length + 1) st else st
    match st.err with
    | some _ => st
    | none =>
      match st.input with
      | none => st
      | some p =>
        if p.isEmpty then
          if st.empties + 1 > 100 then { st with input := none, err := some .noprogress }
          else serve dec vers fuel { st with input := none, empties := st.empties + 1 }
        else serve dec vers fuel { st with input := none, out := st.out ++ p, empties := 0 }

/-- run a whole incoming byte stream `w` (followed by EOF) -/
def runStream (dec : Nat → UInt8 → Bytes → Dec) (vers : UInt8 × UInt8) (w : Bytes) : St :=
  serve dec vers (w.length + 1) { raw := w }

/-- The first FATAL alert the server has written to the peer when the run ends (what the peer's `Read` reports as
    "remote error"): `sendAlert` precedes every locally detected failure — protocol_version(70) for a wrong record
    version, record_overflow(22) for an oversized record or plaintext, bad_record_mac(20) FIRST whenever decrypt failed
    (even if a later alert replaces the error kept in c.in.err), unexpected_message(10) otherwise; no_renegotiation(100)
    is sent at warning level (the peer drops it); nothing is sent on EOF, close_notify or a received fatal alert. -/
def alertSent (st : St) : Option Nat :=
  if st.macFailed then some 20
  else match st.err with
    | some .badvers => some 70
    | some .oversize => some 22
    | some (.localAlert a) => if a = 100 then none else some a
    | _ => none

/-- One more `Conn.Read` on a connection state (what the harness does four more times after the first error):
      for c.input == nil && c.in.err == nil { readRecord }        -- not entered once c.in.err is set
      if err := c.in.err; err != nil { return 0, err }            -- BEFORE looking at c.input
      n, err = c.input.Read(b); …
    Returns the new state, the bytes handed to the application and the error.  (`noprogress` is not a
    `c.in.err` in Go; the harness does not read on after it.) -/
def readAgain (dec : Nat → UInt8 → Bytes → Dec) (vers : UInt8 × UInt8) (st : St) : St × Bytes × Option Err :=
  let st1 := if st.input.isNone ∧ st.err.isNone then readRecord dec vers (st.raw.length + 1) st else st
  match st1.err with
  | some e => (st1, [], some e)
  | none =>
    match st1.input with
    | none => (st1, [], none)
    | some p => ({ st1 with input := none, out := st1.out ++ p }, p, none)

/-- `k` further Reads: the bytes they deliver and the errors they return -/
def readMore (dec : Nat → UInt8 → Bytes → Dec) (vers : UInt8 × UInt8) : Nat → St → Bytes × List (Option Err)
  | 0, _ => ([], [])
  | k + 1, st =>
    let r := readAgain dec vers st
    let m := readMore dec vers k r.1
    (r.2.1 ++ m.1, r.2.2 :: m.2)

/-! ### the honest sender -/

/-- a record on the wire: header (type, version, 16-bit length) ++ body -/
def frame (vers : UInt8 × UInt8) (t : UInt8) (c : Bytes) : Bytes :=
  t :: vers.1 :: vers.2 :: UInt8.ofNat (c.length / 256) :: UInt8.ofNat (c.length % 256) :: c

/-- what the peer sends: record `i` (type, plaintext) sealed under sequence number `i` -/
def honest (enc : Nat → UInt8 → Bytes → Bytes) (vers : UInt8 × UInt8) : Nat → List (UInt8 × Bytes) → Bytes
  | _, [] => []
  | i, (t, p) :: rs => frame vers t (enc i t p) ++ honest enc vers (i + 1) rs

/-- the application bytes contained in a list of sent records -/
def appBytes : List (UInt8 × Bytes) → Bytes
  | [] => []
  | (t, p) :: rs => (if t = 23 then p else []) ++ appBytes rs

/-- The ideal record protection for a given sender history: `decrypt` accepts a body at sequence
    number `s` and header type `t` iff it is exactly what the sender sealed as its `s`-th record with
    that type.  (Used by the driver and as the non-vacuity instance of `Authentic`.) -/
def idealDec (enc : Nat → UInt8 → Bytes → Bytes) (sent : List (UInt8 × Bytes)) (s : Nat) (t : UInt8)
    (c : Bytes) : Dec :=
  match sent[s]? with
  | some (t', p) => if t' = t ∧ c = enc s t p then .ok p else .fail c.length
  | none => .fail c.length

end BfeVerif.C42
