import BfeVerif.C33.Driver
def main : IO Unit := BfeVerif.Proto.driverMain BfeVerif.C33.run
