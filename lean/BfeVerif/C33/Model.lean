/-
  C33 — model of the inbound flow-control accounting of the HTTP/2 server (bfe_http2/server.go:
  processHeaders (stream creation), processData, noteBodyRead, sendWindowUpdate(32), closeStream,
  endStream, RequestBody.Read/Close, wroteFrame's stream closing, processResetStream) at message
  granularity.  Core-only.  One `Ev` = one client frame or one handler action, processed to
  quiescence; the output is the list of frames the server sends because of it.

  `conn`/`inflow` are `sc.inflow.n` / `st.inflow.n` (int32 in Go; all values stay within
  [0, 2^31) — `C33_windows_nonneg` and the ≤ 65535+… bounds — so `Int` is faithful).
  `st.inflow.conn = &sc.inflow`: `st.inflow.available()` = min of both, `st.inflow.take` debits both.

  The fields after `dead` are GHOST counters: no transition reads them; they only record what happened
  to every octet, so that the credit identity can be stated exactly (Props: `C33_credit`).

  This is the code AFTER fix C33-conn-credit (fixes/C33-conn-credit.md): over-declared DATA, DATA for a
  body the handler closed, and octets still buffered when a stream is closed are all credited back to
  the connection window.
-/
namespace BfeVerif.C33

inductive SS where
  | opn      -- stateOpen
  | hcr      -- stateHalfClosedRemote
  | closed   -- removed from sc.streams (the record is kept for a handler that is still running)
deriving DecidableEq, Repr

structure Stream where
  id : Nat
  st : SS
  inflow : Int           -- st.inflow.n
  decl : Int             -- st.declBodyBytes (-1 = undeclared)
  bodyBytes : Int        -- st.bodyBytes
  buf : Nat              -- octets in the request-body pipe
  hasPipe : Bool         -- st.body != nil
  bodyErr : Bool         -- pipe.err != nil (END_STREAM seen, stream closed, or handler called Body.Close)
  handler : Bool         -- the handler goroutine is still running
  note : Nat := 0        -- octets of a bodyReadMsg the handler is blocked sending on bodyReadCh (0 = none)
deriving Repr

structure St where
  isw : Nat                  -- Server.initialStreamRecvWindowSize (advertised SETTINGS_INITIAL_WINDOW_SIZE)
  conn : Int := 65535        -- sc.inflow.n
  maxId : Nat := 0           -- sc.maxStreamID
  streams : List Stream := []
  dead : Bool := false       -- GOAWAY sent
  -- ghost accounting
  sent : Int := 0            -- Σ Length of every DATA frame received
  wu0 : Int := 0             -- Σ increments of connection-level WINDOW_UPDATEs sent
  held : Int := 0            -- octets in body pipes that a handler can still read
  infl : Int := 0            -- octets pulled out of a pipe whose bodyReadMsg the serve loop has not received yet
  rej : Int := 0             -- Σ Length of DATA frames refused with FLOW_CONTROL_ERROR
deriving Repr

inductive Fr where
  | wu (id inc : Nat)        -- WINDOW_UPDATE (id 0 = connection)
  | rst (id code : Nat)      -- RST_STREAM
  | goaway (code : Nat)
  | resp (id : Nat)          -- response HEADERS with END_STREAM
  | ack                      -- SETTINGS ack
deriving DecidableEq, Repr

inductive Ev where
  | headers (id : Nat) (decl : Int) (endS : Bool)
  | data (id dlen : Nat) (pad : Option Nat) (endS : Bool)
  | read (id n : Nat)
  | closeBody (id : Nat)
  | exit (id : Nat)
  | rst (id : Nat)
  /-- the handler's `pipe.Read`: octets leave the pipe, the handler blocks sending the bodyReadMsg -/
  | pull (id n : Nat)
  /-- the serve loop receives that bodyReadMsg: `noteBodyRead` -/
  | deliver (id : Nat)
  /-- `resetStream` from a stream error / stream timeout detected by the server (code CANCEL here) -/
  | srvReset (id : Nat)
  /-- the client's own SETTINGS (e.g. INITIAL_WINDOW_SIZE = v): concerns the server's SEND windows only -/
  | clientSettings (v : Nat)
  /-- the client's WINDOW_UPDATE: concerns the server's SEND windows only -/
  | clientWU (id inc : Nat)
  /-- harness op Q: pull; then a close (`how` 0 client RST_STREAM, 1 server reset, 2 none); then deliver -/
  | readThenClose (id n how : Nat)
deriving Repr

def find (l : List Stream) (id : Nat) : Option Stream := l.find? (·.id == id)

def upd (l : List Stream) (x : Stream) : List Stream := l.map fun y => if y.id == x.id then x else y

/-- `sendWindowUpdate(nil, n)` for 0 ≤ n < 2^31: a frame iff n > 0, and `sc.inflow.add(n)` -/
def wuConn (s : St) (n : Nat) : List Fr × St :=
  if n == 0 then ([], s) else ([.wu 0 n], { s with conn := s.conn + n, wu0 := s.wu0 + n })

/-- `closeStream` (only called for streams still in `sc.streams`): the body pipe is closed, its unread
    octets are discarded (`p.Discard()`) and credited back to the connection window -/
def closeStream (s : St) (x : Stream) : List Fr × St :=
  let drop : Nat := if x.hasPipe then x.buf else 0
  let x' := { x with st := .closed, bodyErr := true, buf := 0 }
  wuConn { s with streams := upd s.streams x', held := s.held - (drop : Int) } drop

/-- `resetStream(se)` after the RST_STREAM frame was queued: closeStream if the stream is still in
    `sc.streams` -/
def resetStream (s : St) (id : Nat) : List Fr × St :=
  match find s.streams id with
  | some x => if x.st != .closed then closeStream s x else ([], s)
  | none => ([], s)

def frameLen (dlen : Nat) (pad : Option Nat) : Nat :=
  match pad with
  | none => dlen
  | some p => dlen + 1 + p

/-- `st.inflow.available()`: `n := f.n; if f.conn != nil && f.conn.n < n { n = f.conn.n }` -/
def availOf (conn n : Int) : Int := if conn < n then conn else n

/-- `processData`, stream not in `sc.streams` / not open: connection-level accounting only -/
def dataClosed (s : St) (id L : Nat) : List Fr × St :=
  if s.conn < (L : Int) then
    let r := resetStream { s with rej := s.rej + L } id
    ([.rst id 3] ++ r.1, r.2)
  else
    -- sc.inflow.take(L); sc.sendWindowUpdate(nil, L)
    let w := wuConn { s with conn := s.conn - L } L
    let r := resetStream w.2 id
    (w.1 ++ [.rst id 5] ++ r.1, r.2)

/-- `processData`, open stream, DATA beyond the declared content-length: connection-level accounting,
    RST_STREAM(PROTOCOL_ERROR) first, then the credit -/
def dataOverDeclared (s : St) (id L : Nat) : List Fr × St :=
  if s.conn < (L : Int) then
    let r := resetStream { s with rej := s.rej + L } id
    ([.rst id 3] ++ r.1, r.2)
  else
    let r := resetStream { s with conn := s.conn - L } id
    let w := wuConn r.2 L
    ([.rst id 1] ++ r.1 ++ w.1, w.2)

/-- `processData`, open stream, frame within the declared length, `Length > 0`, window check passed:
    debit both windows, write to the body pipe, refund the padding, END_STREAM -/
def dataAccept (s : St) (x : Stream) (dlen L : Nat) (endS : Bool) : List Fr × St :=
  let s1 := { s with conn := s.conn - L }
  let x1 := { x with inflow := x.inflow - L }
  if dlen > 0 && x1.bodyErr then
    -- st.body.Write fails (pipe closed by the handler, wrote = 0): the whole frame is credited back,
    -- StreamError STREAM_CLOSED
    let w := wuConn { s1 with streams := upd s1.streams x1 } L
    let r := resetStream w.2 x.id
    (w.1 ++ [.rst x.id 5] ++ r.1, r.2)
  else
    let x2 := { x1 with buf := x1.buf + dlen, bodyBytes := x1.bodyBytes + dlen }
    let s2 := { s1 with held := s1.held + dlen }
    let padv := L - dlen
    let x4 := { x2 with inflow := x2.inflow + padv,
                        st := if endS then .hcr else x2.st, bodyErr := endS || x2.bodyErr }
    (if padv > 0 then [Fr.wu 0 padv, Fr.wu x.id padv] else [],
     { s2 with conn := s2.conn + padv, wu0 := s2.wu0 + padv, streams := upd s2.streams x4 })

/-- `processData` -/
def processData (s0 : St) (id dlen : Nat) (pad : Option Nat) (endS : Bool) : List Fr × St :=
  let L := frameLen dlen pad
  let s := { s0 with sent := s0.sent + L }
  match find s.streams id with
  | none => dataClosed s id L
  | some x =>
    if x.st != .opn then dataClosed s id L
    else if x.decl != -1 && x.bodyBytes + dlen > x.decl then dataOverDeclared s id L
    else if L > 0 then
      let av := availOf s.conn x.inflow
      if av < (L : Int) then
        let r := resetStream { s with rej := s.rej + L } id
        ([.rst id 3] ++ r.1, r.2)
      else dataAccept s x dlen L endS
    else
      let x4 := if endS then { x with st := .hcr, bodyErr := true } else x
      ([], { s with streams := upd s.streams x4 })

/-- `RequestBody.Read(buf[:n])` by the handler of stream `id`, then `noteBodyRead` on the serve loop.
    First component: "x" no such handler, "rb" the read would block (harness skips it), "r<m>". -/
def handlerRead (s : St) (id n : Nat) : String × List Fr × St :=
  match find s.streams id with
  | none => ("x", [], s)
  | some x =>
    if !x.handler then ("x", [], s)
    else if x.note != 0 then ("rb", [], s)              -- blocked handing over the previous bodyReadMsg
    else if !x.hasPipe then ("r0", [], s)
    else if x.buf == 0 && !x.bodyErr then ("rb", [], s)
    else
      let m := min n x.buf
      if m == 0 then ("r0", [], s)
      else
        let x1 := { x with buf := x.buf - m }
        let s1 := { s with conn := s.conn + m, wu0 := s.wu0 + m, held := s.held - m }
        -- noteBodyRead: conn-level always; stream-level unless half-closed(remote) or closed
        if x.st == .opn then
          ("r" ++ toString m, [.wu 0 m, .wu id m], { s1 with streams := upd s1.streams { x1 with inflow := x1.inflow + m } })
        else
          ("r" ++ toString m, [.wu 0 m], { s1 with streams := upd s1.streams x1 })

def handlerClose (s : St) (id : Nat) : String × List Fr × St :=
  match find s.streams id with
  | none => ("x", [], s)
  | some x =>
    if !x.handler then ("x", [], s)
    else if x.note != 0 then ("rb", [], s)
    else ("", [], { s with streams := upd s.streams { x with bodyErr := x.bodyErr || x.hasPipe } })

/-- `wroteFrame` after the final response HEADERS(END_STREAM): RST_STREAM(NO_ERROR) if the client had
    not finished, and closeStream -/
def exitClose (s : St) (x : Stream) : List Fr × St :=
  match x.st with
  | .opn => let r := closeStream s x; ([.resp x.id, .rst x.id 0] ++ r.1, r.2)
  | .hcr => let r := closeStream s x; ([.resp x.id] ++ r.1, r.2)
  | .closed => ([], s)

/-- the handler returns -/
def handlerExit (s : St) (id : Nat) : String × List Fr × St :=
  match find s.streams id with
  | none => ("x", [], s)
  | some x =>
    if !x.handler then ("x", [], s)
    else if x.note != 0 then ("rb", [], s)
    else
      let r := exitClose s x
      match find r.2.streams id with
      | none => ("", r.1, r.2)
      | some y => ("", r.1, { r.2 with streams := upd r.2.streams { y with handler := false } })

def processRst (s : St) (id : Nat) : List Fr × St :=
  if id > s.maxId then ([.goaway 1], { s with dead := true })
  else resetStream s id

def processHeaders (s : St) (id : Nat) (decl : Int) (endS : Bool) : List Fr × St :=
  if id % 2 != 1 then ([.goaway 1], { s with dead := true })
  else
    match find s.streams id with
    | some x =>
      if x.st != .closed then
        let r := resetStream s id; ([.rst id 1] ++ r.1, r.2)     -- HEADERS with pseudo fields as trailers
      else ([.goaway 1], { s with dead := true })
    | none =>
      if id ≤ s.maxId then ([.goaway 1], { s with dead := true })
      else
        let x : Stream :=
          { id := id, st := if endS then .hcr else .opn, inflow := s.isw,
            decl := if endS then 0 else decl, bodyBytes := 0, buf := 0,
            hasPipe := !endS, bodyErr := false, handler := true }
        ([], { s with maxId := id, streams := s.streams ++ [x] })

/-- the handler pulls up to `n` octets out of its body pipe (`pipe.Read` returns) and is about to hand
    the bodyReadMsg to the serve loop; nothing is credited yet -/
def handlerPull (s : St) (id n : Nat) : String × List Fr × St :=
  match find s.streams id with
  | none => ("x", [], s)
  | some x =>
    if !x.handler then ("x", [], s)
    else if !x.hasPipe then ("r0", [], s)
    else if x.note != 0 then ("rb", [], s)             -- still blocked on the previous notification
    else if x.buf == 0 && !x.bodyErr then ("rb", [], s)
    else
      let m := min n x.buf
      if m == 0 then ("r0", [], s)
      else ("r" ++ toString m, [],
            { s with streams := upd s.streams { x with buf := x.buf - m, note := m },
                     held := s.held - m, infl := s.infl + m })

/-- `noteBodyRead(st, n)` when the serve loop receives the pending bodyReadMsg: connection-level credit
    always, stream-level only while the stream is neither half-closed(remote) nor closed -/
def deliverNote (s : St) (id : Nat) : String × List Fr × St :=
  match find s.streams id with
  | none => ("", [], s)
  | some x =>
    if x.note == 0 then ("", [], s)
    else
      let m := x.note
      let s1 := { s with conn := s.conn + m, wu0 := s.wu0 + m, infl := s.infl - m }
      if x.st == .opn then
        ("", [.wu 0 m, .wu id m], { s1 with streams := upd s1.streams { x with note := 0, inflow := x.inflow + m } })
      else
        ("", [.wu 0 m], { s1 with streams := upd s1.streams { x with note := 0 } })

/-- a reset decided by the server (stream error, stream timeout): RST_STREAM, closeStream -/
def serverReset (s : St) (id : Nat) : List Fr × St :=
  let r := resetStream s id
  ([.rst id 8] ++ r.1, r.2)

def step (s : St) : Ev → String × List Fr × St
  | .headers id decl e => let r := processHeaders s id decl e; ("", r.1, r.2)
  | .data id dlen pad e => let r := processData s id dlen pad e; ("", r.1, r.2)
  | .read id n => handlerRead s id n
  | .closeBody id => handlerClose s id
  | .exit id => handlerExit s id
  | .rst id => let r := processRst s id; ("", r.1, r.2)
  | .pull id n => handlerPull s id n
  | .deliver id => deliverNote s id
  | .srvReset id => let r := serverReset s id; ("", r.1, r.2)
  | .clientSettings _ => ("", [.ack], s)
  | .clientWU _ _ => ("", [], s)
  | .readThenClose id n how =>
    let a := handlerPull s id n
    if a.1 == "x" || a.1 == "rb" then a
    else
      let b : List Fr × St :=
        if how == 0 then processRst a.2.2 id else if how == 1 then serverReset a.2.2 id else ([], a.2.2)
      let c := deliverNote b.2 id
      (a.1, a.2.1 ++ b.1 ++ c.2.1, c.2.2)

def runEvs (s : St) : List Ev → St
  | [] => s
  | e :: r => if s.dead then s else runEvs (step s e).2.2 r

end BfeVerif.C33
