import BfeVerif.C33.Proofs
/-!
  C33 — HTTP/2 inbound flow control is enforced and replenished.  Property theorems only.
  `runEvs {isw} evs` = the server (after fix C33-conn-credit) after the client frames / handler actions
  `evs` (HEADERS, DATA with padding, handler reads, Body.Close, handler return, RST_STREAM), any order.
  Ghost counters (never read by the transitions): `sent` Σ DATA frame lengths received, `wu0` Σ
  connection WINDOW_UPDATE increments sent, `held` octets still readable in body pipes, `infl` octets a
  handler has pulled out of its pipe whose bodyReadMsg the serve loop has not received yet, `rej` Σ lengths
  of frames refused with FLOW_CONTROL_ERROR.
  The handler's read is split into two events (`pull`: pipe.Read returns and the handler blocks on
  bodyReadCh; `deliver`: the serve loop receives the message and runs noteBodyRead), so an event list is an
  arbitrary INTERLEAVING of read notifications with client frames, resets (client RST_STREAM `rst`,
  server-side `srvReset` as for stream errors/timeouts) and handler exits.
-/
namespace BfeVerif.C33

/-- **C33 credit (full strength, every interleaving)**: every DATA octet ever received (padding included)
    is either credited back by a connection WINDOW_UPDATE, still buffered for a handler that can read it,
    pulled by a handler and awaiting delivery of its read notification, or was refused with
    FLOW_CONTROL_ERROR — whatever the order of read notifications and stream closes.  Equivalently:
    window advertised to the client (65535 − sent + wu0) + in flight + unread = 65535 when nothing was
    refused. -/
theorem C33_credit (isw : Nat) (evs : List Ev) :
    let s := runEvs { isw := isw } evs
    s.sent = s.wu0 + s.held + s.infl + s.rej := by
  have h := (run_acct evs _ (init_acct isw)).1
  simp only [] at h ⊢
  omega

/-- **server view = advertised window**: `sc.inflow` is never negative and equals the window the
    client was told (`65535 - sent + wu0`) plus the octets the server refused. -/
theorem C33_server_view (isw : Nat) (evs : List Ev) :
    let s := runEvs { isw := isw } evs
    s.conn = (65535 - s.sent + s.wu0) + s.rej ∧ 0 ≤ s.conn := by
  have h := run_acct evs _ (init_acct isw)
  exact ⟨by have := h.2.1; omega, h.2.2⟩

/-- **C33 never over (full strength)**: a client that was never refused has never had more octets
    accepted than were advertised to it (initial 65535 + all connection WINDOW_UPDATEs). -/
theorem C33_never_over (isw : Nat) (evs : List Ev) :
    let s := runEvs { isw := isw } evs
    s.rej = 0 → s.sent ≤ 65535 + s.wu0 := by
  have h := C33_server_view isw evs
  simp only [] at h ⊢
  intro h2
  omega

/-- **C33 replenished (full strength)**: for a client that respects the windows, once the handlers
    have read (or the server has discarded) everything, all octets have been credited back: the
    (no read notification still on its way) the client's connection window is at its initial value
    again — it never stalls. -/
theorem C33_replenished (isw : Nat) (evs : List Ev) :
    let s := runEvs { isw := isw } evs
    s.rej = 0 → s.held = 0 → s.infl = 0 → s.wu0 = s.sent ∧ s.conn = 65535 := by
  have h := C33_credit isw evs
  have h' := C33_server_view isw evs
  simp only [] at h h' ⊢
  intro h4 h5 h6
  omega

/-- **excess is refused**: on an open stream, a DATA frame within the declared length whose Length
    exceeds the stream or the connection window is answered with RST_STREAM(FLOW_CONTROL_ERROR)
    (followed only by the credit for what the closed stream still had buffered), and the frame itself
    is not debited from `sc.inflow`. -/
theorem C33_excess_refused (s : St) (x : Stream) (id dlen : Nat) (pad : Option Nat) (e : Bool)
    (hf : find s.streams id = some x) (ho : x.st = .opn)
    (hd : (x.decl != -1 && x.bodyBytes + dlen > x.decl) = false)
    (hc : 0 ≤ s.conn) (hi : 0 ≤ x.inflow)
    (hex : (frameLen dlen pad : Int) > x.inflow ∨ (frameLen dlen pad : Int) > s.conn) :
    (processData s id dlen pad e).1.head? = some (.rst id 3) ∧
    (processData s id dlen pad e).2.rej = s.rej + frameLen dlen pad := by
  have hav : availOf s.conn x.inflow < (frameLen dlen pad : Int) := by
    unfold availOf; split <;> omega
  have hL : frameLen dlen pad > 0 := by omega
  have hst : (x.st != SS.opn) = false := by rw [ho]; rfl
  unfold processData
  simp only [hf, hst, hd, hL, hav, if_true]
  refine ⟨by simp, ?_⟩
  simp [resetStream_rej]

/-- **accepted ⇒ within both windows**: when such a frame is not refused, its Length fits the stream
    window and the connection window as advertised, and both are debited by Length minus the padding
    that is refunded at once. -/
theorem C33_accepted_within (s : St) (x : Stream) (id dlen : Nat) (pad : Option Nat) (e : Bool)
    (hf : find s.streams id = some x) (ho : x.st = .opn)
    (hd : (x.decl != -1 && x.bodyBytes + dlen > x.decl) = false)
    (hL : frameLen dlen pad > 0)
    (hacc : (processData s id dlen pad e).1.head? ≠ some (.rst id 3)) :
    (frameLen dlen pad : Int) ≤ x.inflow ∧ (frameLen dlen pad : Int) ≤ s.conn := by
  have hav := availOf_le s.conn x.inflow
  have hst : (x.st != SS.opn) = false := by rw [ho]; rfl
  unfold processData at hacc
  simp only [hf, hst, hd, hL, if_true] at hacc
  by_cases h : availOf s.conn x.inflow < (frameLen dlen pad : Int)
  · simp [h] at hacc
  · omega

/-- the client's SETTINGS (INITIAL_WINDOW_SIZE …) and WINDOW_UPDATEs govern what the SERVER may send; they
    leave every receive window and all buffered data untouched -/
theorem C33_client_settings_inert (s : St) (v id inc : Nat) :
    (step s (.clientSettings v)).2.2 = s ∧ (step s (.clientWU id inc)).2.2 = s := ⟨rfl, rfl⟩

/-! ### the former witnesses (inputs on which the unfixed code lost octets; corpus/C33/known.ops) -/

/-- content-length 0, one DATA octet: RST_STREAM(PROTOCOL_ERROR), and now the octet is credited -/
def wOverdeclared : List Ev := [.headers 1 0 false, .data 1 1 none false, .exit 1]
example : (step (runEvs { isw := 65535 } [.headers 1 0 false]) (.data 1 1 none false)).2.1
    = [.rst 1 1, .wu 0 1] := by decide
example : (runEvs { isw := 65535 } wOverdeclared).wu0 = 1 ∧ (runEvs { isw := 65535 } wOverdeclared).conn = 65535 := by
  decide

/-- the handler returns without reading 10 buffered octets: they are credited when the stream closes -/
def wUnread : List Ev := [.headers 1 (-1) false, .data 1 10 none false, .exit 1]
example : (runEvs { isw := 65535 } wUnread).wu0 = 10 ∧ (runEvs { isw := 65535 } wUnread).held = 0 ∧
    (runEvs { isw := 65535 } wUnread).conn = 65535 := by decide

/-- the handler closed the body; the next DATA frame is debited and credited back at once -/
def wBodyClosed : List Ev := [.headers 1 (-1) false, .closeBody 1, .data 1 10 none false, .exit 1]
example : (runEvs { isw := 65535 } wBodyClosed).wu0 = 10 ∧ (runEvs { isw := 65535 } wBodyClosed).conn = 65535 := by
  decide

/-- after an over-declared frame of 65535 octets the window is whole again, so 65535 more fit -/
def wOver : List Ev :=
  [.headers 1 1 false, .data 1 65535 none false, .headers 3 (-1) false, .data 3 65535 none false]
example : (runEvs { isw := 65535 } wOver).sent = 131070 ∧ (runEvs { isw := 65535 } wOver).wu0 = 65535 ∧
    (runEvs { isw := 65535 } wOver).rej = 0 := by decide

/-- the race of seeded/C33-c: the handler has pulled 300 of 1000 buffered octets, the client's
    RST_STREAM is processed first (700 discarded and credited), then the read notification arrives for a
    stream that is already closed: the 300 octets are still credited to the connection -/
def wRace : List Ev := [.headers 1 (-1) false, .data 1 1000 none false, .pull 1 300, .rst 1, .deliver 1]
example : (runEvs { isw := 65535 } (wRace.take 4)).infl = 300 ∧ (runEvs { isw := 65535 } (wRace.take 4)).wu0 = 700 := by
  decide
example : (step (runEvs { isw := 65535 } (wRace.take 4)) (.deliver 1)).2.1 = [.wu 0 300] := by decide
example : (runEvs { isw := 65535 } wRace).wu0 = 1000 ∧ (runEvs { isw := 65535 } wRace).conn = 65535 ∧
    (runEvs { isw := 65535 } wRace).infl = 0 := by decide
/-- the harness op Q is exactly that sequence -/
example : (runEvs { isw := 65535 } [.headers 1 (-1) false, .data 1 1000 none false, .readThenClose 1 300 0]).conn
    = 65535 := by decide

/-! ### non-vacuity: a window-respecting exchange -/
def clean : List Ev :=
  [.headers 1 20 false, .data 1 10 (some 5) false, .read 1 4, .data 1 10 none true, .read 1 100, .exit 1]

example : let s := runEvs { isw := 65535 } clean
    s.rej = 0 ∧ s.held = 0 ∧ s.infl = 0 ∧ s.sent = 26 ∧ s.wu0 = 26 ∧ s.conn = 65535 := by
  decide

end BfeVerif.C33
