import BfeVerif.C33.Proofs
/-!
  C33 — HTTP/2 inbound flow control is enforced and replenished.  Property theorems only.
  `runEvs {isw} evs` = the server after the client frames / handler actions `evs`
  (HEADERS, DATA with padding, handler reads, Body.Close, handler return, RST_STREAM), any order.
  Ghost counters (never read by the transitions): `sent` Σ DATA frame lengths received, `wu0` Σ
  connection WINDOW_UPDATE increments sent, `held` octets still readable in body pipes, `rej` refused
  with FLOW_CONTROL_ERROR, `leakOD`/`leakBC`/`leakUC` the three places where the code drops octets
  without crediting them.
-/
namespace BfeVerif.C33

/-- **credit identity (exact, no hypothesis)**: every DATA octet ever received (padding included) is
    either credited back by a connection WINDOW_UPDATE, still buffered for a handler, refused with
    FLOW_CONTROL_ERROR, or counted by one of the three leak counters. -/
theorem C33_credit_exact (isw : Nat) (evs : List Ev) :
    let s := runEvs { isw := isw } evs
    s.sent = s.wu0 + s.held + s.rej + s.leakOD + s.leakBC + s.leakUC :=
  (run_acct evs _ (init_acct isw)).1

/-- **server view vs advertised window**: `sc.inflow` is never negative and exceeds the window the
    client was told (`65535 - sent + wu0`) by exactly the refused octets plus the over-declared octets
    that `processData` dropped before touching `sc.inflow`. -/
theorem C33_server_view (isw : Nat) (evs : List Ev) :
    let s := runEvs { isw := isw } evs
    s.conn = (65535 - s.sent + s.wu0) + s.rej + s.leakOD ∧ 0 ≤ s.conn := by
  have h := run_acct evs _ (init_acct isw)
  exact ⟨by have := h.2.1; omega, h.2.2⟩

/-- The full-strength statements (what C33 demands). -/
def C33_never_over_full : Prop :=
  ∀ (isw : Nat) (evs : List Ev), let s := runEvs { isw := isw } evs
    s.rej = 0 → s.sent ≤ 65535 + s.wu0        -- accepted octets never exceed what was advertised
def C33_credit_full : Prop :=
  ∀ (isw : Nat) (evs : List Ev), let s := runEvs { isw := isw } evs
    s.rej = 0 → s.held = 0 → s.wu0 = s.sent   -- everything consumed/discarded is credited back

/-- **never over the advertised window — partial**: as long as no DATA frame exceeded its declared
    content-length, the octets accepted never exceed the octets advertised. -/
theorem C33_never_over_partial (isw : Nat) (evs : List Ev) :
    let s := runEvs { isw := isw } evs
    s.leakOD = 0 → s.rej = 0 → s.sent ≤ 65535 + s.wu0 := by
  have h := C33_server_view isw evs
  simp only [] at h ⊢
  intro h1 h2
  omega

/-- **replenished — partial**: if none of the three leak sites was hit, nothing was refused and the
    handlers have read everything, the connection window is back at its initial value. -/
theorem C33_credit_partial (isw : Nat) (evs : List Ev) :
    let s := runEvs { isw := isw } evs
    s.leakOD = 0 → s.leakBC = 0 → s.leakUC = 0 → s.rej = 0 → s.held = 0 → s.wu0 = s.sent := by
  have h := C33_credit_exact isw evs
  simp only [] at h ⊢
  intro h1 h2 h3 h4 h5
  omega

/-- **excess is refused**: on an open stream, a DATA frame within the declared length whose Length
    exceeds the stream or the connection window is answered with RST_STREAM(FLOW_CONTROL_ERROR) only,
    and `sc.inflow` is not debited. -/
theorem C33_excess_refused (s : St) (x : Stream) (id dlen : Nat) (pad : Option Nat) (e : Bool)
    (hf : find s.streams id = some x) (ho : x.st = .opn)
    (hd : (x.decl != -1 && x.bodyBytes + dlen > x.decl) = false)
    (hc : 0 ≤ s.conn) (hi : 0 ≤ x.inflow)
    (hex : (frameLen dlen pad : Int) > x.inflow ∨ (frameLen dlen pad : Int) > s.conn) :
    (processData s id dlen pad e).1 = [.rst id 3] ∧
    (processData s id dlen pad e).2.conn = s.conn := by
  have hav : availOf s.conn x.inflow < (frameLen dlen pad : Int) := by
    unfold availOf; split <;> omega
  have hL : frameLen dlen pad > 0 := by omega
  have hst : (x.st != SS.opn) = false := by rw [ho]; rfl
  unfold processData
  simp only [hf, hst, hd, hL, hav, if_true]
  refine ⟨by simp, ?_⟩
  simp [resetStream_conn]

/-- **accepted ⇒ within both windows**: when such a frame is not refused, its Length fits the stream
    window and the connection window as advertised, and both are debited by Length minus the padding
    that is refunded at once. -/
theorem C33_accepted_within (s : St) (x : Stream) (id dlen : Nat) (pad : Option Nat) (e : Bool)
    (hf : find s.streams id = some x) (ho : x.st = .opn)
    (hd : (x.decl != -1 && x.bodyBytes + dlen > x.decl) = false)
    (hL : frameLen dlen pad > 0)
    (hacc : (processData s id dlen pad e).1 ≠ [.rst id 3]) :
    (frameLen dlen pad : Int) ≤ x.inflow ∧ (frameLen dlen pad : Int) ≤ s.conn := by
  have hav := availOf_le s.conn x.inflow
  have hst : (x.st != SS.opn) = false := by rw [ho]; rfl
  unfold processData at hacc
  simp only [hf, hst, hd, hL, if_true] at hacc
  by_cases h : availOf s.conn x.inflow < (frameLen dlen pad : Int)
  · simp [h] at hacc
  · omega

/-! ### the unchanged code violates the full statements: witnesses (replayed: corpus/C33/known.ops) -/

/-- content-length 0, one DATA octet: RST_STREAM(PROTOCOL_ERROR), the octet is never credited -/
def wOverdeclared : List Ev := [.headers 1 0 false, .data 1 1 none false, .exit 1]

theorem C33_witness_leak_overdeclared : ¬ C33_credit_full := by
  intro h
  have := h 65535 wOverdeclared
  revert this
  decide

/-- the handler returns without reading 10 buffered octets: they are never credited -/
def wUnread : List Ev := [.headers 1 (-1) false, .data 1 10 none false, .exit 1]
example : (runEvs { isw := 65535 } wUnread).leakUC = 10 ∧ (runEvs { isw := 65535 } wUnread).wu0 = 0 ∧
    (runEvs { isw := 65535 } wUnread).held = 0 ∧ (runEvs { isw := 65535 } wUnread).rej = 0 := by decide

/-- the handler closed the body; the next DATA frame is debited, dropped and never credited -/
def wBodyClosed : List Ev := [.headers 1 (-1) false, .closeBody 1, .data 1 10 none false, .exit 1]
example : (runEvs { isw := 65535 } wBodyClosed).leakBC = 10 ∧ (runEvs { isw := 65535 } wBodyClosed).wu0 = 0 ∧
    (runEvs { isw := 65535 } wBodyClosed).held = 0 ∧ (runEvs { isw := 65535 } wBodyClosed).rej = 0 := by decide

/-- after an over-declared frame of 65535 octets the server still accepts 65535 more:
    131070 octets taken with 65535 advertised -/
def wOver : List Ev :=
  [.headers 1 1 false, .data 1 65535 none false, .headers 3 (-1) false, .data 3 65535 none false]

theorem C33_witness_over_advertised : ¬ C33_never_over_full := by
  intro h
  have := h 65535 wOver
  revert this
  decide

/-! ### non-vacuity: a clean exchange satisfies every hypothesis of the partial theorems -/
def clean : List Ev :=
  [.headers 1 20 false, .data 1 10 (some 5) false, .read 1 4, .data 1 10 none true, .read 1 100, .exit 1]

example : let s := runEvs { isw := 65535 } clean
    s.leakOD = 0 ∧ s.leakBC = 0 ∧ s.leakUC = 0 ∧ s.rej = 0 ∧ s.held = 0 ∧ s.sent = 26 ∧ s.wu0 = 26 ∧ s.conn = 65535 := by
  decide

end BfeVerif.C33
