import BfeVerif.Common.Proto
import BfeVerif.C33.Model
/-!
  C33 driver.   op = `cfg<isw>;` then `;`-separated
     H<id>:<decl>:<end>  D<id>:<dlen>:<pad>:<end>  R<id>:<n>  C<id>  X<id>  T<id>:<code>
     S<v>             client SETTINGS(INITIAL_WINDOW_SIZE = v): only an ack;  U<id>:<inc> client WINDOW_UPDATE: nothing
     cfg<isw>/<k>     the server's reads return at most k bytes (segmentation of the byte stream)
     Q<id>:<n>:<how>  the handler pulls ≤ n octets from its pipe, the serve loop processes a close first
                      (how 0 client RST_STREAM, 1 server-side reset, 2 none), then receives the bodyReadMsg
  result = one token per executed op (sorted frames `W<id>:<inc>` `R<id>:<code>` `G:<code>` `h<id>:1`,
  R ops prefixed `r<m>` | `rb` | `x`), then `|conn=<n>|<id>:<state>:<inflow>:<buffered>,..` or `|dead`.

  The verdict comes from `monitor`, which only uses the op line and the IMPLEMENTATION's tokens:
  it keeps the CLIENT's view of the windows (initial value − octets sent + WINDOW_UPDATEs received).
-/
namespace BfeVerif.C33
open BfeVerif.Proto

def Fr.render : Fr → String
  | .wu id inc => s!"W{id}:{inc}"
  | .rst id c => s!"R{id}:{c}"
  | .goaway c => s!"G:{c}"
  | .resp id => s!"h{id}:1"
  | .ack => "A"

def insStr (x : String) : List String → List String
  | [] => [x]
  | y :: r => if x ≤ y then x :: y :: r else y :: insStr x r

def sortStr (l : List String) : List String := l.foldr insStr []

def token (pre : String) (fr : List Fr) : String :=
  let body := ",".intercalate (sortStr (fr.map Fr.render))
  if pre.isEmpty then (if body.isEmpty then "-" else body)
  else if body.isEmpty then pre else pre ++ "," ++ body

def ints (s : String) : Option (List Int) := (s.splitOn ":").mapM (·.toInt?)

def parseEv (t : String) : Option Ev :=
  let k := (t.take 1).toString
  match k, ints (t.drop 1).toString with
  | "H", some [id, decl, e] => some (.headers id.toNat decl (e != 0))
  | "D", some [id, dlen, pad, e] =>
    some (.data id.toNat dlen.toNat (if pad < 0 then none else some pad.toNat) (e != 0))
  | "R", some [id, n] => some (.read id.toNat n.toNat)
  | "C", some [id] => some (.closeBody id.toNat)
  | "X", some [id] => some (.exit id.toNat)
  | "T", some [id, _] => some (.rst id.toNat)
  | "Q", some [id, n, how] => some (.readThenClose id.toNat n.toNat how.toNat)
  | "S", some [v] => some (.clientSettings v.toNat)
  | "U", some [id, inc] => some (.clientWU id.toNat inc.toNat)
  | _, _ => none

def runToks : St → List Ev → List String → List String × St
  | s, [], acc => (acc.reverse, s)
  | s, e :: r, acc =>
    if s.dead then (acc.reverse, s)
    else let (pre, fr, s') := step s e; runToks s' r (token pre fr :: acc)

def stNum : SS → Nat
  | .opn => 1 | .hcr => 3 | .closed => 4

def dump (s : St) : String :=
  if s.dead then "|dead"
  else
    let live := s.streams.filter (·.st != .closed)
    s!"|conn={s.conn}|" ++
      (if live.isEmpty then "-" else
        ",".intercalate (live.map fun x => s!"{x.id}:{stNum x.st}:{x.inflow}:{x.buf}"))

/-! ### spec monitor -/

structure CS where          -- the client's picture of one stream
  id : Nat
  win : Int                 -- client view of the stream receive window
  held : Nat := 0           -- octets accepted by the server and not yet read by the handler
  decl : Int := -1
  data : Int := 0           -- Σ data octets sent
  sendOpen : Bool := true   -- client may still send DATA (no END_STREAM, no reset seen)
  live : Bool := true       -- still a stream on the server (no RST either way, handler not finished)
  handler : Bool := true
  bodyClosed : Bool := false

structure Mon where
  isw : Nat
  conn : Int := 65535       -- client view of the connection receive window
  ss : List CS := []
  trigger : Option String := none   -- first situation met in which the unfixed code lost octets
  violated : Bool := false  -- the client itself exceeded a window: conservation no longer claimed
  od : Bool := false        -- an over-declared frame was dropped without debiting sc.inflow
  dead : Bool := false
  fail : Option String := none
  tags : List String := []

def Mon.flag (m : Mon) (c : String) : Mon := if m.fail.isSome then m else { m with fail := some c }
def Mon.tag (m : Mon) (t : String) : Mon := if m.tags.contains t then m else { m with tags := t :: m.tags }
/-- note a situation in which octets are discarded (they must all be credited back) -/
def Mon.leak (m : Mon) (n : Nat) (c : String) : Mon :=
  if n == 0 then m else
  { m with trigger := if m.trigger.isSome then m.trigger else some c }.tag c

def csFind (l : List CS) (id : Nat) : Option CS := l.find? (·.id == id)
def csUpd (l : List CS) (x : CS) : List CS := l.map fun y => if y.id == x.id then x else y

/-- frames of one implementation token (prefix `r..`/`rb`/`x`/`-` dropped) -/
def frames (tok : String) : List String :=
  (tok.splitOn ",").filter fun f => f.startsWith "W" || f.startsWith "R" || f.startsWith "G" || f.startsWith "h"

def readCount (tok : String) : Nat :=
  match tok.splitOn "," with
  | p :: _ => if p.startsWith "r" then ((p.drop 1).toString.toNat?).getD 0 else 0
  | [] => 0

/-- apply the credits of the received WINDOW_UPDATE frames to the client's windows -/
def credit (m : Mon) (fs : List String) : Mon :=
  fs.foldl (fun m f =>
    if f.startsWith "W" then
      match ((f.drop 1).toString.splitOn ":").mapM (·.toNat?) with
      | some [0, n] => { m with conn := m.conn + n }
      | some [id, n] =>
        match csFind m.ss id with
        | some c => { m with ss := csUpd m.ss { c with win := c.win + n } }
        | none => m
      | _ => m.flag "bad-token"
    else if f.startsWith "G" then { m with dead := true }
    else m) m

/-- the stream disappears on the server: its unread octets are discarded -/
def streamGone (m : Mon) (c : CS) (handlerGone : Bool) : Mon :=
  let lost := c.held
  let c' := { c with sendOpen := false, live := false, held := c.held - lost,
                     handler := c.handler && !handlerGone }
  ({ m with ss := csUpd m.ss c' }).leak lost "leak-unread-close"

def monStep (m : Mon) (e : Ev) (tok : String) : Mon :=
  if m.dead then m else
  let fs := frames tok
  let hasR (id code : Nat) : Bool := fs.contains s!"R{id}:{code}"
  let anyR (id : Nat) : Bool := fs.any fun f => f.startsWith s!"R{id}:"
  match e with
  | .headers id decl endS =>
    let m := credit m fs
    if csFind m.ss id |>.isSome then m
    else if fs.isEmpty then
      { m with ss := m.ss ++ [{ id := id, win := m.isw, decl := if endS then 0 else decl, sendOpen := !endS }] }
    else m
  | .data id dlen pad endS =>
    let L := frameLen dlen pad
    let flowErr := hasR id 3 || fs.contains "G:3"
    match csFind m.ss id with
    | some c =>
      if c.sendOpen && c.live then
        let viol := (L : Int) > c.win || (L : Int) > m.conn
        let over := c.decl != -1 && c.data + dlen > c.decl
        let m := { m with conn := m.conn - L, ss := csUpd m.ss { c with win := c.win - L } }
        let m := credit m fs
        let c := (csFind m.ss id).getD c
        if viol || m.violated then
          -- only the FIRST excess is judged: afterwards client and server views differ by design
          let first := !m.violated
          let m := ({ m with violated := true }).tag "client-violation"
          let m := if !first || flowErr then m
                   else if over && hasR id 1 then m.tag "excess-overdeclared-proto"   -- refused, with PROTOCOL_ERROR
                   else if m.od then m.flag "over-advertised-after-overdeclared"
                   else m.flag "excess-accepted"
          if anyR id then streamGone m c false else
          { m with ss := csUpd m.ss { c with held := c.held + dlen, data := c.data + dlen, sendOpen := !endS } }
        else if over then
          let m := (if hasR id 1 then { m with od := true } else m.flag "overdeclared-not-reset").leak L "leak-overdeclared"
          streamGone m c false
        else if !anyR id then
          let m := if dlen > 0 then m.tag "accepted" else m
          let m := if pad.isSome then m.tag "padded" else m
          { m with ss := csUpd m.ss { c with held := c.held + dlen, data := c.data + dlen, sendOpen := !endS } }
        else if c.bodyClosed && dlen > 0 && hasR id 5 then
          streamGone (m.leak L "leak-body-closed") c false
        else streamGone (m.flag "spurious-reset") c false
      else
        -- DATA on a stream the client already ended / that was reset
        let viol := (L : Int) > m.conn
        let m := { m with conn := m.conn - L }
        let m := credit m fs
        let m := m.tag "data-on-closed"
        let m := if viol || m.violated then
                   let first := !m.violated
                   let m := ({ m with violated := true }).tag "client-violation"
                   if !first || flowErr then m
                   else if m.od then m.flag "over-advertised-after-overdeclared"
                   else m.flag "excess-accepted"
                 else if anyR id then m else m.flag "closed-not-reset"
        if c.live && anyR id then streamGone m c false else m
    | none =>
      let viol := (L : Int) > m.conn
      let m := { m with conn := m.conn - L }
      let m := credit m fs
      if viol || m.violated then
        let first := !m.violated
        let m := ({ m with violated := true }).tag "client-violation"
        if !first || flowErr then m
        else if m.od then m.flag "over-advertised-after-overdeclared"
        else m.flag "excess-accepted"
      else if anyR id then m else m.flag "closed-not-reset"
  | .read id _ =>
    let m := credit m fs
    match csFind m.ss id with
    | some c =>
      let n := readCount tok
      let m := if n > 0 then m.tag "read" else m
      if n > c.held then m.flag "read-more-than-held"
      else { m with ss := csUpd m.ss { c with held := c.held - n } }
    | none => m
  | .readThenClose id _ how =>
    let m := credit m fs
    match csFind m.ss id with
    | some c =>
      if tok == "x" || tok == "rb" then m else
      let n := readCount tok
      let m := (if n > 0 then m.tag "read" else m).tag "race"
      if n > c.held then m.flag "read-more-than-held"
      else
        let c' := { c with held := c.held - n }
        let m := { m with ss := csUpd m.ss c' }
        if how == 2 then m
        else
          -- octets whose read notification arrives after the close must still be credited
          let m := m.leak n "leak-read-note-after-close"
          if c'.live then streamGone m c' false else m
    | none => m
  | .closeBody id =>
    match csFind m.ss id with
    | some c => if tok == "x" then m else ({ m with ss := csUpd m.ss { c with bodyClosed := true } }).tag "body-close"
    | none => m
  | .exit id =>
    let m := credit m fs
    match csFind m.ss id with
    | some c => if tok == "x" then m else streamGone m c true
    | none => m
  | .rst id =>
    let m := credit m fs
    match csFind m.ss id with
    | some c => if c.live then streamGone m c false else m
    | none => m
  | .pull .. => m
  | .deliver _ => m
  | .srvReset _ => m
  | .clientSettings _ => (credit m fs).tag "client-settings"
  | .clientWU .. => (credit m fs).tag "client-wu"

def monitorGo : Mon → List Ev → List String → Mon
  | m, [], _ => m
  | m, _, [] => m
  | m, e :: r, t :: ts => monitorGo (monStep m e t) r ts

def monFinish (m : Mon) : Mon :=
  if m.dead then m.tag "goaway"
  else if m.violated then m
  else
    let held : Nat := (m.ss.map (·.held)).sum
    let imbalance : Int := 65535 - m.conn - held
    let m := if imbalance != 0 then m.flag ((m.trigger.getD "leak-unexplained")) else m
    -- stream level: a stream the client may still send on has window + unread octets = initial window
    let m := if m.ss.any (fun c => c.sendOpen && c.live && c.win + c.held != (m.isw : Int))
             then m.flag "stream-window-drift" else m
    let m := if held == 0 && m.tags.contains "accepted" then m.tag "nt" else m
    if m.trigger.isNone && m.tags.contains "accepted" then m.tag "clean" else m

def run (op impl : String) : Ans :=
  match op.splitOn ";" with
  | cfg :: rest =>
    match (if cfg.startsWith "cfg" then (((cfg.drop 3).toString.splitOn "/").headD "").toNat? else none), rest.mapM parseEv with
    | some v, some evs =>
      let isw := if v == 0 then 65535 else v
      let (toks, s) := runToks { isw := isw } evs []
      let model := ";".intercalate toks ++ dump s
      let implToks := ((impl.splitOn "|").headD "").splitOn ";"
      let m := monFinish (monitorGo { isw := isw } evs implToks)
      let m := if impl.startsWith "PANIC" || impl == "HANG" || (impl.splitOn "noquiesce").length > 1 then m.flag "panic" else m
      { model := model
        verdict := match m.fail with | some c => "FAIL:" ++ c | none => "ok"
        tags := m.tags }
    | _, _ => { model := "bad-op", verdict := "skip" }
  | [] => { model := "bad-op", verdict := "skip" }

end BfeVerif.C33
