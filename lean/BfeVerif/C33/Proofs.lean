import BfeVerif.C33.Model
/-! C33 helper lemmas (core only). -/
namespace BfeVerif.C33

/-- accounting in the middle of an event: `u` octets are counted in `sent` but not yet decided
    (debited or refused), `d` octets are debited and still have to be credited back -/
def AcctD (s : St) (d u : Int) : Prop :=
  s.sent = s.wu0 + s.held + s.infl + s.rej + d + u ∧
  s.conn = 65535 - s.sent + s.rej + s.wu0 + u ∧
  0 ≤ s.conn

/-- between events: every octet received is credited, still held, or was refused (first line); the
    server's own counter `sc.inflow` is the window the client was told (`65535 - sent + wu0`) plus the
    refused octets (second line); it is never negative (third). -/
def Acct (s : St) : Prop := AcctD s 0 0

theorem wuConn_acct (s : St) (n : Nat) (d u : Int) (h : AcctD s d u) :
    AcctD (wuConn s n).2 (d - n) u := by
  unfold wuConn AcctD at *
  split
  · rename_i h0; have : n = 0 := by simpa using h0
    simp only []; omega
  · simp only []; omega

theorem closeStream_acct (s : St) (x : Stream) (d u : Int) (h : AcctD s d u) :
    AcctD (closeStream s x).2 d u := by
  unfold closeStream
  simp only []
  have := wuConn_acct { s with streams := upd s.streams { x with st := .closed, bodyErr := true, buf := 0 },
                               held := s.held - ((if x.hasPipe then x.buf else 0 : Nat) : Int) }
    (if x.hasPipe then x.buf else 0) (d + ((if x.hasPipe then x.buf else 0 : Nat) : Int)) u
    (by unfold AcctD at *; simp only []; omega)
  have e : d + ((if x.hasPipe then x.buf else 0 : Nat) : Int) - ((if x.hasPipe then x.buf else 0 : Nat) : Int) = d := by omega
  rw [e] at this
  exact this

theorem resetStream_acct (s : St) (id : Nat) (d u : Int) (h : AcctD s d u) :
    AcctD (resetStream s id).2 d u := by
  unfold resetStream
  split
  · split
    · exact closeStream_acct _ _ d u h
    · exact h
  · exact h

theorem wuConn_rej (s : St) (n : Nat) : (wuConn s n).2.rej = s.rej := by
  unfold wuConn; split <;> rfl

theorem resetStream_rej (s : St) (id : Nat) : (resetStream s id).2.rej = s.rej := by
  unfold resetStream
  split
  · split
    · unfold closeStream; simp [wuConn_rej]
    · rfl
  · rfl

theorem availOf_le (c n : Int) : availOf c n ≤ c ∧ availOf c n ≤ n := by
  unfold availOf; split <;> omega

theorem frameLen_ge (dlen : Nat) (pad : Option Nat) : dlen ≤ frameLen dlen pad := by
  unfold frameLen; split <;> omega

theorem dataClosed_acct (s : St) (id L : Nat) (h : AcctD s 0 L) : Acct (dataClosed s id L).2 := by
  unfold dataClosed Acct
  split
  · apply resetStream_acct; unfold AcctD at *; simp only [] at *; omega
  · simp only []
    apply resetStream_acct
    have := wuConn_acct { s with conn := s.conn - L } L L 0 (by unfold AcctD at *; simp only [] at *; omega)
    simpa using this

theorem dataOverDeclared_acct (s : St) (id L : Nat) (h : AcctD s 0 L) :
    Acct (dataOverDeclared s id L).2 := by
  unfold dataOverDeclared Acct
  split
  · apply resetStream_acct; unfold AcctD at *; simp only [] at *; omega
  · simp only []
    have hr := resetStream_acct { s with conn := s.conn - L } id L 0
      (by unfold AcctD at *; simp only [] at *; omega)
    have := wuConn_acct _ L L 0 hr
    simpa using this

theorem dataAccept_acct (s : St) (x : Stream) (dlen L : Nat) (e : Bool)
    (hL : dlen ≤ L) (hav : (L : Int) ≤ s.conn) (h : AcctD s 0 L) : Acct (dataAccept s x dlen L e).2 := by
  unfold dataAccept Acct
  simp only []
  split
  · apply resetStream_acct
    have := wuConn_acct { s with conn := s.conn - L, streams := upd s.streams { x with inflow := x.inflow - L } }
      L L 0 (by unfold AcctD at *; simp only [] at *; omega)
    simpa using this
  · unfold AcctD at *; simp only [] at *; omega

theorem processData_acct (s : St) (id dlen : Nat) (pad : Option Nat) (e : Bool) (h : Acct s) :
    Acct (processData s id dlen pad e).2 := by
  have hA : AcctD { s with sent := s.sent + (frameLen dlen pad : Int) } 0 (frameLen dlen pad) := by
    unfold Acct AcctD at *; simp only [] at *; omega
  unfold processData
  simp only []
  split
  · exact dataClosed_acct _ id _ hA
  · split
    · exact dataClosed_acct _ id _ hA
    · split
      · exact dataOverDeclared_acct _ id _ hA
      · split
        · split
          · unfold Acct; apply resetStream_acct; unfold AcctD at *; simp only [] at *; omega
          · rename_i x _ _ _ _ hav
            have := availOf_le s.conn x.inflow
            apply dataAccept_acct _ x dlen _ e (frameLen_ge dlen pad) _ hA
            show (frameLen dlen pad : Int) ≤ s.conn
            omega
        · rename_i hL
          have : frameLen dlen pad = 0 := by omega
          unfold Acct AcctD at *; simp only [] at *; omega

theorem handlerRead_acct (s : St) (id n : Nat) (h : Acct s) : Acct (handlerRead s id n).2.2 := by
  unfold handlerRead
  split
  · exact h
  · split
    · exact h
    · split
      · exact h
      · split
        · exact h
        · split
          · exact h
          · simp only []
            split
            · exact h
            · split <;> (unfold Acct AcctD at *; simp only [] at *; omega)

theorem handlerClose_acct (s : St) (id : Nat) (h : Acct s) : Acct (handlerClose s id).2.2 := by
  unfold handlerClose
  split
  · exact h
  · split
    · exact h
    · split
      · exact h
      · exact h

theorem exitClose_acct (s : St) (x : Stream) (h : Acct s) : Acct (exitClose s x).2 := by
  unfold exitClose
  split
  · exact closeStream_acct _ _ 0 0 h
  · exact closeStream_acct _ _ 0 0 h
  · exact h

theorem handlerExit_acct (s : St) (id : Nat) (h : Acct s) : Acct (handlerExit s id).2.2 := by
  unfold handlerExit
  split
  · exact h
  · split
    · exact h
    · split
      · exact h
      · rename_i x _ _ _
        have h1 := exitClose_acct s x h
        simp only []
        generalize exitClose s x = r at h1 ⊢
        split
        · exact h1
        · exact h1

theorem handlerPull_acct (s : St) (id n : Nat) (h : Acct s) : Acct (handlerPull s id n).2.2 := by
  unfold handlerPull
  split
  · exact h
  · split
    · exact h
    · split
      · exact h
      · split
        · exact h
        · split
          · exact h
          · simp only []
            split
            · exact h
            · unfold Acct AcctD at *; simp only [] at *; omega

theorem deliverNote_acct (s : St) (id : Nat) (h : Acct s) : Acct (deliverNote s id).2.2 := by
  unfold deliverNote
  split
  · exact h
  · split
    · exact h
    · simp only []
      split <;> (unfold Acct AcctD at *; simp only [] at *; omega)

theorem serverReset_acct (s : St) (id : Nat) (h : Acct s) : Acct (serverReset s id).2 := by
  unfold serverReset
  exact resetStream_acct _ _ 0 0 h

theorem processRst_acct (s : St) (id : Nat) (h : Acct s) : Acct (processRst s id).2 := by
  unfold processRst
  split
  · exact h
  · exact resetStream_acct _ _ 0 0 h

theorem processHeaders_acct (s : St) (id : Nat) (d : Int) (e : Bool) (h : Acct s) :
    Acct (processHeaders s id d e).2 := by
  unfold processHeaders
  split
  · exact h
  · split
    · split
      · exact resetStream_acct _ _ 0 0 h
      · exact h
    · split
      · exact h
      · exact h

theorem step_acct (s : St) (ev : Ev) (h : Acct s) : Acct (step s ev).2.2 := by
  cases ev with
  | headers id d e => exact processHeaders_acct s id d e h
  | data id dlen pad e => exact processData_acct s id dlen pad e h
  | read id n => exact handlerRead_acct s id n h
  | closeBody id => exact handlerClose_acct s id h
  | exit id => exact handlerExit_acct s id h
  | rst id => exact processRst_acct s id h
  | pull id n => exact handlerPull_acct s id n h
  | deliver id => exact deliverNote_acct s id h
  | srvReset id => exact serverReset_acct s id h
  | clientSettings v => exact h
  | clientWU id inc => exact h
  | readThenClose id n how =>
    simp only [step]
    split
    · exact handlerPull_acct s id n h
    · have ha := handlerPull_acct s id n h
      have hb : Acct (if how == 0 then processRst (handlerPull s id n).2.2 id
          else if how == 1 then serverReset (handlerPull s id n).2.2 id
          else (([] : List Fr), (handlerPull s id n).2.2)).2 := by
        split
        · exact processRst_acct _ id ha
        · split
          · exact serverReset_acct _ id ha
          · exact ha
      exact deliverNote_acct _ id hb

theorem run_acct (evs : List Ev) : ∀ s, Acct s → Acct (runEvs s evs) := by
  induction evs with
  | nil => intro s h; exact h
  | cons e r ih =>
    intro s h
    simp only [runEvs]
    split
    · exact h
    · exact ih _ (step_acct s e h)

theorem init_acct (isw : Nat) : Acct { isw := isw } := by
  unfold Acct AcctD; simp

end BfeVerif.C33
