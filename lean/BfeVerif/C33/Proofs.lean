import BfeVerif.C33.Model
/-! C33 helper lemmas (core only). -/
namespace BfeVerif.C33

/-- every octet received is accounted for (first line), and the server's own counter `sc.inflow`
    differs from the window the client was told (`65535 - sent + wu0`) by exactly the refused octets
    and the over-declared octets it never debited (second line); it is never negative (third). -/
def Acct (s : St) : Prop :=
  s.sent = s.wu0 + s.held + s.rej + s.leakOD + s.leakBC + s.leakUC ∧
  s.conn = 65535 - s.sent + s.rej + s.leakOD + s.wu0 ∧
  0 ≤ s.conn

theorem closeStream_acct (s : St) (x : Stream) (h : Acct s) : Acct (closeStream s x) := by
  unfold Acct closeStream at *
  simp only []
  omega

theorem resetStream_acct (s : St) (id : Nat) (h : Acct s) : Acct (resetStream s id) := by
  unfold resetStream
  split
  · split
    · exact closeStream_acct _ _ h
    · exact h
  · exact h

theorem resetStream_conn (s : St) (id : Nat) : (resetStream s id).conn = s.conn := by
  unfold resetStream
  split
  · split <;> rfl
  · rfl

theorem dataClosed_acct (s : St) (id L : Nat) (sent0 : Int) (hs : s.sent = sent0 + L)
    (h : Acct { s with sent := sent0 }) : Acct (dataClosed s id L).2 := by
  unfold dataClosed
  split
  · apply resetStream_acct; unfold Acct at *; simp only [] at *; omega
  · unfold wuConn; split
    · rename_i h0
      have : L = 0 := by simpa using h0
      apply resetStream_acct; unfold Acct at *; simp only [] at *; omega
    · apply resetStream_acct; unfold Acct at *; simp only [] at *; omega

theorem dataAccept_acct (s : St) (x : Stream) (dlen L : Nat) (e : Bool) (sent0 : Int)
    (hs : s.sent = sent0 + L) (hL : dlen ≤ L) (hav : (L : Int) ≤ s.conn)
    (h : Acct { s with sent := sent0 }) : Acct (dataAccept s x dlen L e).2 := by
  unfold dataAccept
  simp only []
  split
  · apply resetStream_acct; unfold Acct at *; simp only [] at *; omega
  · unfold Acct at *; simp only [] at *; omega

theorem availOf_le (c n : Int) : availOf c n ≤ c ∧ availOf c n ≤ n := by
  unfold availOf; split <;> omega

theorem frameLen_ge (dlen : Nat) (pad : Option Nat) : dlen ≤ frameLen dlen pad := by
  unfold frameLen; split <;> omega

theorem processData_acct (s : St) (id dlen : Nat) (pad : Option Nat) (e : Bool) (h : Acct s) :
    Acct (processData s id dlen pad e).2 := by
  have hA : Acct { ({ s with sent := s.sent + (frameLen dlen pad : Int) } : St) with sent := s.sent } := h
  unfold processData
  simp only []
  split
  · exact dataClosed_acct _ id _ s.sent rfl hA
  · split
    · exact dataClosed_acct _ id _ s.sent rfl hA
    · split
      · apply resetStream_acct; unfold Acct at *; simp only [] at *; omega
      · split
        · split
          · apply resetStream_acct; unfold Acct at *; simp only [] at *; omega
          · rename_i x _ _ _ _ hav
            apply dataAccept_acct _ x dlen _ e s.sent rfl (frameLen_ge dlen pad) _ hA
            have := availOf_le s.conn x.inflow
            show (frameLen dlen pad : Int) ≤ s.conn
            omega
        · rename_i hL
          have : frameLen dlen pad = 0 := by omega
          unfold Acct at *; simp only [] at *; omega

theorem handlerRead_acct (s : St) (id n : Nat) (h : Acct s) : Acct (handlerRead s id n).2.2 := by
  unfold handlerRead
  split
  · exact h
  · split
    · exact h
    · split
      · exact h
      · split
        · exact h
        · simp only []
          split
          · exact h
          · split <;> (unfold Acct at *; simp only [] at *; omega)

theorem handlerClose_acct (s : St) (id : Nat) (h : Acct s) : Acct (handlerClose s id).2.2 := by
  unfold handlerClose
  split
  · exact h
  · split
    · exact h
    · exact h

theorem exitClose_acct (s : St) (x : Stream) (h : Acct s) : Acct (exitClose s x).2 := by
  unfold exitClose
  split
  · exact closeStream_acct _ _ h
  · exact closeStream_acct _ _ h
  · exact h

theorem handlerExit_acct (s : St) (id : Nat) (h : Acct s) : Acct (handlerExit s id).2.2 := by
  unfold handlerExit
  split
  · exact h
  · split
    · exact h
    · rename_i x _ _
      have h1 := exitClose_acct s x h
      simp only []
      generalize exitClose s x = r at h1 ⊢
      split
      · exact h1
      · unfold Acct at *; simp only [] at *; omega

theorem processRst_acct (s : St) (id : Nat) (h : Acct s) : Acct (processRst s id).2 := by
  unfold processRst
  split
  · exact h
  · exact resetStream_acct _ _ h

theorem processHeaders_acct (s : St) (id : Nat) (d : Int) (e : Bool) (h : Acct s) :
    Acct (processHeaders s id d e).2 := by
  unfold processHeaders
  split
  · exact h
  · split
    · split
      · exact resetStream_acct _ _ h
      · exact h
    · split
      · exact h
      · exact h

theorem step_acct (s : St) (ev : Ev) (h : Acct s) : Acct (step s ev).2.2 := by
  cases ev with
  | headers id d e => exact processHeaders_acct s id d e h
  | data id dlen pad e => exact processData_acct s id dlen pad e h
  | read id n => exact handlerRead_acct s id n h
  | closeBody id => exact handlerClose_acct s id h
  | exit id => exact handlerExit_acct s id h
  | rst id => exact processRst_acct s id h

theorem run_acct (evs : List Ev) : ∀ s, Acct s → Acct (runEvs s evs) := by
  induction evs with
  | nil => intro s h; exact h
  | cons e r ih =>
    intro s h
    simp only [runEvs]
    split
    · exact h
    · exact ih _ (step_acct s e h)

theorem init_acct (isw : Nat) : Acct { isw := isw } := by
  unfold Acct; simp

end BfeVerif.C33
