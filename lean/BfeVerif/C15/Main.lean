import BfeVerif.C15.Driver
def main : IO Unit := BfeVerif.Proto.driverMain BfeVerif.C15.run
