import BfeVerif.C15.Model
/-! Lemmas for C15 (core only). -/
namespace BfeVerif.C15

/-- invariant of the snapshot model -/
structure Inv (s : St) : Prop where
  cur_valid : s.cur ∈ s.valid
  pending_valid : ∀ v ∈ s.pending, v ∈ s.valid
  snap_valid : ∀ i v, (s.reqs i).snap = some v → v ∈ s.valid
  reads_snap : ∀ i v, v ∈ (s.reqs i).reads → (s.reqs i).snap = some v

theorem inv_init : Inv St.init :=
  ⟨by simp [St.init], by simp [St.init], by simp [St.init], by simp [St.init]⟩

theorem inv_step (s : St) (h : Inv s) (st : Step) (hl : ∀ i, st ≠ .readLive i) : Inv (step s st) := by
  obtain ⟨h1, h2, h3, h4⟩ := h
  cases st with
  | load v ok =>
    simp only [step]
    split
    · refine ⟨?_, ?_, ?_, h4⟩
      · simp [h1]
      · intro w hw; simp at hw ⊢; rcases hw with rfl | hw
        · simp
        · exact Or.inr (h2 w hw)
      · intro i w hw; simp; exact Or.inr (h3 i w hw)
    · exact ⟨h1, h2, h3, h4⟩
  | swap v =>
    simp only [step]
    split
    · rename_i hc
      refine ⟨?_, ?_, h3, h4⟩
      · exact h2 v (by simpa using hc)
      · intro w hw; exact h2 w (List.mem_of_mem_erase hw)
    · exact ⟨h1, h2, h3, h4⟩
  | snap i =>
    simp only [step]
    split
    · rename_i hc
      simp only [Bool.and_eq_true, Option.isNone_iff_eq_none] at hc
      refine ⟨h1, h2, ?_, ?_⟩
      · intro j w hw
        simp only [upd] at hw
        split at hw
        · simp at hw; subst hw; exact h1
        · exact h3 j w hw
      · intro j w hw
        simp only [upd] at hw ⊢
        split
        · rename_i hj; subst hj
          simp at hw
          have := h4 j w hw
          rw [hc.1] at this; simp at this
        · rename_i hj; simp [hj] at hw; exact h4 j w hw
    · exact ⟨h1, h2, h3, h4⟩
  | read i =>
    simp only [step]
    split
    · rename_i v hv
      split
      · exact ⟨h1, h2, h3, h4⟩
      · refine ⟨h1, h2, ?_, ?_⟩
        · intro j w hw
          simp only [upd] at hw
          split at hw
          · rename_i hj; subst hj; simp at hw; exact h3 j w hw
          · exact h3 j w hw
        · intro j w hw
          simp only [upd] at hw ⊢
          split
          · rename_i hj; subst hj
            simp at hw ⊢
            rcases hw with hw | hw
            · exact h4 j w hw
            · subst hw; exact hv
          · rename_i hj; simp [hj] at hw; exact h4 j w hw
    · exact ⟨h1, h2, h3, h4⟩
  | readLive i => exact absurd rfl (hl i)
  | finish i =>
    simp only [step]
    split
    · refine ⟨h1, h2, ?_, ?_⟩
      · intro j w hw
        simp only [upd] at hw
        split at hw
        · rename_i hj; subst hj; simp at hw; exact h3 j w hw
        · exact h3 j w hw
      · intro j w hw
        simp only [upd] at hw ⊢
        split
        · rename_i hj; subst hj; simp at hw ⊢; exact h4 j w hw
        · rename_i hj; simp [hj] at hw; exact h4 j w hw
    · exact ⟨h1, h2, h3, h4⟩

theorem inv_run (steps : List Step) (hl : ∀ i, Step.readLive i ∉ steps) : ∀ s, Inv s → Inv (runSteps s steps) := by
  induction steps with
  | nil => intro s h; exact h
  | cons st rest ih =>
    intro s h
    exact ih (fun i hi => hl i (List.mem_cons_of_mem _ hi)) _
      (inv_step s h st fun i e => hl i (by simp [e]))

/-- a snapshot, once taken, is never changed by any later step of anybody -/
theorem snap_stable_step (s : St) (st : Step) (i v : Nat) (h : (s.reqs i).snap = some v) :
    ((step s st).reqs i).snap = some v := by
  cases st <;> simp only [step] <;> (repeat' split) <;> simp_all [upd] <;> (try split) <;> simp_all

theorem snap_stable_run (steps : List Step) : ∀ (s : St) (i v : Nat), (s.reqs i).snap = some v →
    ((runSteps s steps).reqs i).snap = some v := by
  induction steps with
  | nil => intro s i v h; exact h
  | cons st rest ih => intro s i v h; exact ih _ i v (snap_stable_step s st i v h)

/-! ### lock-set -/
/-- invariant: a thread inside a `Lock` access excludes every other locked access; RLock accesses exclude Lock -/
def LInv (ts : Threads) : Prop :=
  ∀ t u a b, t ≠ u → ts t = some a → ts u = some b →
    (lockMode a = 2 → lockMode b ≠ 1 ∧ lockMode b ≠ 2) ∧ (lockMode a = 1 → lockMode b ≠ 2)

theorem linv_reach {table : List Access} {ts : Threads} (h : Reach table ts) : LInv ts := by
  induction h with
  | init => intro t u a b _ h; simp at h
  | @enter ts t0 a0 _ _ hc ih =>
    obtain ⟨_, hw, hr⟩ := hc
    intro t u a b htu ha hb
    by_cases h1 : t = t0
    · subst h1
      have hu : ¬ u = t := fun e => htu e.symm
      simp only [if_true] at ha
      simp only [hu, if_false] at hb
      injection ha with ha; subst ha
      exact ⟨fun h2 => hw h2 u b hb, fun h2 => hr h2 u b hb⟩
    · simp only [h1, if_false] at ha
      by_cases h2 : u = t0
      · subst h2
        simp only [if_true] at hb
        injection hb with hb; subst hb
        refine ⟨fun h3 => ⟨fun h4 => ?_, fun h4 => ?_⟩, fun h3 h4 => ?_⟩
        · exact absurd h3 (hr h4 t a ha)
        · have := hw h4 t a ha; omega
        · have := hw h4 t a ha; omega
      · simp only [h2, if_false] at hb
        exact ih t u a b htu ha hb
  | @leave ts t0 _ ih =>
    intro t u a b htu ha hb
    by_cases h1 : t = t0
    · simp [h1] at ha
    · by_cases h2 : u = t0
      · simp [h2] at hb
      · simp only [h1, if_false] at ha
        simp only [h2, if_false] at hb
        exact ih t u a b htu ha hb

theorem reach_mem {table : List Access} {ts : Threads} (h : Reach table ts) :
    ∀ t a, ts t = some a → a ∈ table := by
  induction h with
  | init => intro t a h; simp at h
  | @enter ts t0 a0 _ hm _ ih =>
    intro t a h
    by_cases h1 : t = t0
    · simp only [h1, if_true] at h; injection h with h; subst h; exact hm
    · simp only [h1, if_false] at h; exact ih t a h
  | @leave ts t0 _ ih =>
    intro t a h
    by_cases h1 : t = t0
    · simp [h1] at h
    · simp only [h1, if_false] at h; exact ih t a h

theorem valid_step (s : St) (st : Step) (v : Nat) (h : v ∈ (step s st).valid) :
    v ∈ s.valid ∨ st = .load v true := by
  cases st with
  | load w ok =>
    simp only [step] at h
    split at h
    · rename_i hok; simp at h; rcases h with rfl | h
      · right; simp [hok]
      · exact Or.inl h
    · exact Or.inl h
  | swap w => simp only [step] at h; split at h <;> exact Or.inl h
  | snap i => simp only [step] at h; split at h <;> exact Or.inl h
  | read i => simp only [step] at h; (repeat' split at h) <;> exact Or.inl h
  | readLive i => simp only [step] at h; (repeat' split at h) <;> exact Or.inl h
  | finish i => simp only [step] at h; split at h <;> exact Or.inl h

theorem valid_run (steps : List Step) : ∀ (s : St) (v : Nat), v ∈ (runSteps s steps).valid →
    v ∈ s.valid ∨ Step.load v true ∈ steps := by
  induction steps with
  | nil => intro s v h; exact Or.inl h
  | cons st rest ih =>
    intro s v h
    rcases ih (step s st) v h with h1 | h1
    · rcases valid_step s st v h1 with h2 | h2
      · exact Or.inl h2
      · right; simp [h2]
    · right; simp [h1]

end BfeVerif.C15
