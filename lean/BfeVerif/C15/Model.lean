/-
  C15 — hot reload is atomic and race-free: model at the granularity of atomic steps (core-only).

  (A) snapshot model — bfe_server/bfe_confdata_load.go, http_conn.go, find_location.go, reverseproxy.go:
      reload thread :  new := LoadServerDataConf(files)        step `load v ok`   (v = fresh version id; ok = files pass all checks)
                       confLock.Lock; srv.ServerConf = new; Unlock   step `swap v`      (only a loaded version can be swapped in)
                       setTransports(new…); SetGslbBasic(new…)        (no access to srv.ServerConf after the fix: no step)
      request i     :  sf := GetServerConf()  (RLock)          step `snap i`      at readRequest / ProtocolHandler.ServeHTTP
                       findProduct / findCluster / ClusterTable.Lookup read req.SvrDataConf   step `read i`
                       req.SvrDataConf = nil                   step `finish i`
      A failed load never reaches the swap.

  (B) lock-set model — sync.RWMutex with threads entering / leaving accesses of a shared field, each access
      carrying the lock mode it holds (0 none, 1 RLock, 2 Lock) as extracted from the source.
-/
namespace BfeVerif.C15

/-! ## (A) snapshots -/
structure Req where
  snap : Option Nat := none
  reads : List Nat := []
  done : Bool := false
  deriving Repr, DecidableEq

structure St where
  cur : Nat                    -- version held by srv.ServerConf
  valid : List Nat             -- versions that passed LoadServerDataConf (incl. the initial one)
  pending : List Nat           -- loaded, not yet swapped (the reload goroutines' local `newServerConf`)
  reqs : Nat → Req

inductive Step where
  | load (v : Nat) (ok : Bool)
  | swap (v : Nat)
  | snap (i : Nat)
  | read (i : Nat)
  | readLive (i : Nat)         -- a routing read that goes to srv.ServerConf / GetServerConf() instead of the snapshot
  | finish (i : Nat)
  deriving Repr, DecidableEq

def St.init : St := { cur := 0, valid := [0], pending := [], reqs := fun _ => {} }

def upd (f : Nat → Req) (i : Nat) (r : Req) : Nat → Req := fun j => if j = i then r else f j

/-- one atomic step (a step that is not enabled leaves the state unchanged) -/
def step (s : St) : Step → St
  | .load v ok => if ok then { s with valid := v :: s.valid, pending := v :: s.pending } else s
  | .swap v => if s.pending.contains v then { s with cur := v, pending := s.pending.erase v } else s
  | .snap i => if (s.reqs i).snap.isNone && !(s.reqs i).done
      then { s with reqs := upd s.reqs i { (s.reqs i) with snap := some s.cur } } else s
  | .read i => match (s.reqs i).snap with
      | some v => if (s.reqs i).done then s else { s with reqs := upd s.reqs i { (s.reqs i) with reads := (s.reqs i).reads ++ [v] } }
      | none => s
  | .readLive i => match (s.reqs i).snap with
      | some _ => if (s.reqs i).done then s else { s with reqs := upd s.reqs i { (s.reqs i) with reads := (s.reqs i).reads ++ [s.cur] } }
      | none => s
  | .finish i => if (s.reqs i).snap.isSome then { s with reqs := upd s.reqs i { (s.reqs i) with done := true } } else s

def runSteps (s : St) (steps : List Step) : St := steps.foldl step s

/-! ### which reads can be live: the snapshot-site table extracted from the source -/

/-- functions that create a request object together with its snapshot: exactly ONE place that obtains the current
    configuration is reachable from each of them -/
def requestEntry : List String := ["conn.readRequest", "ProtocolHandler.ServeHTTP", "BfeServer.Balance"]

/-- functions that must be in the table (the request path proper) -/
def requestPathCore : List String :=
  ["ReverseProxy.ServeHTTP", "BfeServer.findProduct", "BfeServer.findCluster", "conn.readRequest"]

/-- the request path is clean: from every request-path function (ReverseProxy.ServeHTTP, clusterInvoke, FinishReq,
    findProduct, findCluster, FindLocation, conn.serveRequest) NO place that obtains the current configuration is
    reachable through same-package calls, and from every request-entry function exactly ONE (the snapshot).
    `sites` = (function, number of reachable `GetServerConf()` calls / `.ServerConf` accesses), extracted from the source. -/
def pathClean (sites : List (String × Nat)) : Bool :=
  sites.all (fun s => if requestEntry.contains s.1 then s.2 == 1 else s.2 == 0) &&
  requestPathCore.all (fun f => sites.any fun s => s.1 == f)

/-- a step sequence the code can perform: live reads exist only if the request path is not clean -/
def Conforms (clean : Bool) (steps : List Step) : Prop :=
  clean = true → ∀ i, Step.readLive i ∉ steps

/-! ## (B) RWMutex discipline -/
/-- one access site of the shared field: (function, isWrite, lock mode held: 0 none / 1 RLock / 2 Lock) -/
abbrev Access := String × Bool × Nat

/-- thread id ↦ the access it is currently performing -/
abbrev Threads := Nat → Option Access

def lockMode (a : Access) : Nat := a.2.2
def isWrite (a : Access) : Bool := a.2.1

inductive LStep where
  | enter (t : Nat) (a : Access)
  | leave (t : Nat)

/-- may thread `t` start access `a` now?  (semantics of sync.RWMutex; an access without lock is always possible) -/
def canEnter (ts : Threads) (t : Nat) (a : Access) : Prop :=
  ts t = none ∧
  (lockMode a = 2 → ∀ u b, ts u = some b → lockMode b ≠ 1 ∧ lockMode b ≠ 2) ∧
  (lockMode a = 1 → ∀ u b, ts u = some b → lockMode b ≠ 2)

inductive Reach (table : List Access) : Threads → Prop where
  | init : Reach table (fun _ => none)
  | enter {ts t a} : Reach table ts → a ∈ table → canEnter ts t a →
      Reach table (fun u => if u = t then some a else ts u)
  | leave {ts t} : Reach table ts → Reach table (fun u => if u = t then none else ts u)

/-- a data race: two different threads inside accesses of the field, one of them a write -/
def Race (ts : Threads) : Prop :=
  ∃ t u a b, t ≠ u ∧ ts t = some a ∧ ts u = some b ∧ (isWrite a = true ∨ isWrite b = true)

/-- the lock discipline of a table: every access holds the lock, writes hold it exclusively -/
def disciplined (a : Access) : Bool := (lockMode a == 1 || lockMode a == 2) && (!isWrite a || lockMode a == 2)

/-! ## (C) a mutex across complete calls: does every way out of a function give the lock back?

  `BalTable.lock` (and the other mutexes of the reload code) are locked and unlocked MANUALLY; a `return` between
  `Lock()` and `Unlock()` leaves the mutex held for ever and every later `Lookup` (request path) or reload blocks.
  One step = one complete call that leaves through exit `e` of the extracted table. -/

/-- (file:function, line of the exit, the lock is released there) -/
abbrev LockExit := String × Nat × Bool

structure MuState where
  held : Bool := false       -- the mutex is still held by a call that has already returned
  blocked : Nat := 0         -- calls that could never enter

/-- a complete call that takes the mutex and leaves through exit `e` -/
def callStep (s : MuState) (e : LockExit) : MuState :=
  if s.held then { s with blocked := s.blocked + 1 } else { s with held := !e.2.2 }

def runCalls (calls : List LockExit) : MuState := calls.foldl callStep {}

/-! ## (D) module data (mod_geo database, rule tables of mod_block / mod_redirect / mod_rewrite …)

  A handler takes the module's current data under the read lock (`take`) and then works on what it took WITHOUT the
  lock (`use`); a reload builds new data and swaps it in under the write lock.  The swap itself cannot hurt a request in
  flight — unless the reload also TOUCHES the value it replaced (closes the old database, clears the old map): then what
  the request holds is dead. -/

inductive MStep where
  | reload (v : Nat) (touchesOld : Bool)
  | take (i : Nat)
  | use (i : Nat)
  | handle                    -- a whole new request: take + use at once
  deriving Repr, DecidableEq

structure MSt where
  cur : Nat := 0
  dead : List Nat := []                         -- versions whose data a reload has closed / cleared
  snaps : Nat → Option Nat := fun _ => none
  out : List (String × Nat × Option Nat) := []  -- (step, version taken, answer: `some v` = data of version v, `none` = failure)

def answer (dead : List Nat) (v : Nat) : Option Nat := if dead.contains v then none else some v

def mstep (s : MSt) : MStep → MSt
  | .reload v t => { s with cur := v, dead := if t then s.cur :: s.dead else s.dead }
  | .take i => { s with snaps := fun j => if j = i then some s.cur else s.snaps j }
  | .use i => match s.snaps i with
    | some v => { s with out := s.out ++ [(s!"U{i}", v, answer s.dead v)] }
    | none => s
  | .handle => { s with out := s.out ++ [("H", s.cur, answer s.dead s.cur)] }

def mrun (steps : List MStep) : MSt := steps.foldl mstep {}

end BfeVerif.C15
