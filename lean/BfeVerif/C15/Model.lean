/-
  C15 — hot reload is atomic and race-free: model at the granularity of atomic steps (core-only).

  (A) snapshot model — bfe_server/bfe_confdata_load.go, http_conn.go, find_location.go, reverseproxy.go:
      reload thread :  new := LoadServerDataConf(files)        step `load v ok`   (v = fresh version id; ok = files pass all checks)
                       confLock.Lock; srv.ServerConf = new; Unlock   step `swap v`      (only a loaded version can be swapped in)
                       setTransports(new…); SetGslbBasic(new…)        (no access to srv.ServerConf after the fix: no step)
      request i     :  sf := GetServerConf()  (RLock)          step `snap i`      at readRequest / ProtocolHandler.ServeHTTP
                       findProduct / findCluster / ClusterTable.Lookup read req.SvrDataConf   step `read i`
                       req.SvrDataConf = nil                   step `finish i`
      A failed load never reaches the swap.

  (B) lock-set model — sync.RWMutex with threads entering / leaving accesses of a shared field, each access
      carrying the lock mode it holds (0 none, 1 RLock, 2 Lock) as extracted from the source.
-/
namespace BfeVerif.C15

/-! ## (A) snapshots -/
structure Req where
  snap : Option Nat := none
  reads : List Nat := []
  done : Bool := false
  deriving Repr, DecidableEq

structure St where
  cur : Nat                    -- version held by srv.ServerConf
  valid : List Nat             -- versions that passed LoadServerDataConf (incl. the initial one)
  pending : List Nat           -- loaded, not yet swapped (the reload goroutines' local `newServerConf`)
  reqs : Nat → Req

inductive Step where
  | load (v : Nat) (ok : Bool)
  | swap (v : Nat)
  | snap (i : Nat)
  | read (i : Nat)
  | finish (i : Nat)
  deriving Repr, DecidableEq

def St.init : St := { cur := 0, valid := [0], pending := [], reqs := fun _ => {} }

def upd (f : Nat → Req) (i : Nat) (r : Req) : Nat → Req := fun j => if j = i then r else f j

/-- one atomic step (a step that is not enabled leaves the state unchanged) -/
def step (s : St) : Step → St
  | .load v ok => if ok then { s with valid := v :: s.valid, pending := v :: s.pending } else s
  | .swap v => if s.pending.contains v then { s with cur := v, pending := s.pending.erase v } else s
  | .snap i => if (s.reqs i).snap.isNone && !(s.reqs i).done
      then { s with reqs := upd s.reqs i { (s.reqs i) with snap := some s.cur } } else s
  | .read i => match (s.reqs i).snap with
      | some v => if (s.reqs i).done then s else { s with reqs := upd s.reqs i { (s.reqs i) with reads := (s.reqs i).reads ++ [v] } }
      | none => s
  | .finish i => if (s.reqs i).snap.isSome then { s with reqs := upd s.reqs i { (s.reqs i) with done := true } } else s

def runSteps (s : St) (steps : List Step) : St := steps.foldl step s

/-! ## (B) RWMutex discipline -/
/-- one access site of the shared field: (function, isWrite, lock mode held: 0 none / 1 RLock / 2 Lock) -/
abbrev Access := String × Bool × Nat

/-- thread id ↦ the access it is currently performing -/
abbrev Threads := Nat → Option Access

def lockMode (a : Access) : Nat := a.2.2
def isWrite (a : Access) : Bool := a.2.1

inductive LStep where
  | enter (t : Nat) (a : Access)
  | leave (t : Nat)

/-- may thread `t` start access `a` now?  (semantics of sync.RWMutex; an access without lock is always possible) -/
def canEnter (ts : Threads) (t : Nat) (a : Access) : Prop :=
  ts t = none ∧
  (lockMode a = 2 → ∀ u b, ts u = some b → lockMode b ≠ 1 ∧ lockMode b ≠ 2) ∧
  (lockMode a = 1 → ∀ u b, ts u = some b → lockMode b ≠ 2)

inductive Reach (table : List Access) : Threads → Prop where
  | init : Reach table (fun _ => none)
  | enter {ts t a} : Reach table ts → a ∈ table → canEnter ts t a →
      Reach table (fun u => if u = t then some a else ts u)
  | leave {ts t} : Reach table ts → Reach table (fun u => if u = t then none else ts u)

/-- a data race: two different threads inside accesses of the field, one of them a write -/
def Race (ts : Threads) : Prop :=
  ∃ t u a b, t ≠ u ∧ ts t = some a ∧ ts u = some b ∧ (isWrite a = true ∨ isWrite b = true)

/-- the lock discipline of a table: every access holds the lock, writes hold it exclusively -/
def disciplined (a : Access) : Bool := (lockMode a == 1 || lockMode a == 2) && (!isWrite a || lockMode a == 2)

end BfeVerif.C15
