import BfeVerif.C15.Proofs
import BfeVerif.Generated.C15
/-!
  C15 — hot reload is atomic and race-free.   Property theorems only.

  Scope: the server-data configuration (`srv.ServerConf`: host, vip, route tables and cluster_conf).  The balancer
  table, TLS and module tables are separate snapshot domains and are not covered (see checks/C15.json).
  Granularity: one mutex-protected block = one atomic step; theorems hold for EVERY step sequence (= every interleaving
  of any number of reload goroutines and requests).  The lock-set theorem is instantiated with the access table
  extracted from bfe_server/*.go on every check run (`Generated.C15.accesses`).
-/
namespace BfeVerif.C15

/-- **one snapshot per request**: in every interleaving, every routing read of request `i` sees the version its
    `GetServerConf()` captured, and that version passed `LoadServerDataConf` completely. -/
theorem C15_snapshot (sites : List (String × Nat)) (hc : pathClean sites = true)
    (steps : List Step) (hs : Conforms (pathClean sites) steps) (i v : Nat)
    (h : v ∈ ((runSteps St.init steps).reqs i).reads) :
    ((runSteps St.init steps).reqs i).snap = some v ∧ v ∈ (runSteps St.init steps).valid := by
  have inv := inv_run steps (hs hc) St.init inv_init
  exact ⟨inv.reads_snap i v h, inv.snap_valid i v (inv.reads_snap i v h)⟩

/-- all reads of one request agree (no request is served half by the old and half by the new configuration) -/
theorem C15_single_version (sites : List (String × Nat)) (hc : pathClean sites = true)
    (steps : List Step) (hs : Conforms (pathClean sites) steps) (i v w : Nat)
    (hv : v ∈ ((runSteps St.init steps).reqs i).reads) (hw : w ∈ ((runSteps St.init steps).reqs i).reads) : v = w := by
  have h1 := (C15_snapshot sites hc steps hs i v hv).1
  have h2 := (C15_snapshot sites hc steps hs i w hw).1
  rw [h1] at h2; injection h2

/-- **in-flight requests keep their snapshot**: whatever happens after the snapshot (any number of reloads), the
    request's snapshot is unchanged, hence all its later reads still see that version. -/
theorem C15_inflight_keeps (sites : List (String × Nat)) (hc : pathClean sites = true)
    (pre post : List Step) (hconf : Conforms (pathClean sites) (pre ++ post)) (i v : Nat)
    (h : ((runSteps St.init pre).reqs i).snap = some v) :
    ((runSteps St.init (pre ++ post)).reqs i).snap = some v ∧
    ∀ w ∈ ((runSteps St.init (pre ++ post)).reqs i).reads, w = v := by
  have hs : ((runSteps St.init (pre ++ post)).reqs i).snap = some v := by
    simp only [runSteps, List.foldl_append]
    exact snap_stable_run post _ i v h
  refine ⟨hs, fun w hw => ?_⟩
  have := (C15_snapshot sites hc (pre ++ post) hconf i w hw).1
  rw [hs] at this; injection this with this; exact this.symm

/-- **a failed reload is invisible**: the version the server holds, and every version a request can see, is the
    initial one or one whose load succeeded. -/
theorem C15_only_loaded_versions (sites : List (String × Nat)) (hc : pathClean sites = true)
    (steps : List Step) (hs : Conforms (pathClean sites) steps) :
    ((runSteps St.init steps).cur = 0 ∨ Step.load (runSteps St.init steps).cur true ∈ steps) ∧
    ∀ i v, ((runSteps St.init steps).reqs i).snap = some v → v = 0 ∨ Step.load v true ∈ steps := by
  have inv := inv_run steps (hs hc) St.init inv_init
  have key : ∀ v, v ∈ (runSteps St.init steps).valid → v = 0 ∨ Step.load v true ∈ steps := by
    intro v hv
    rcases valid_run steps St.init v hv with h | h
    · left; simpa [St.init] using h
    · exact Or.inr h
  exact ⟨key _ inv.cur_valid, fun i v h => key v (inv.snap_valid i v h)⟩

/-- **one snapshot site per request, none in the request path** — checked on the table regenerated from the CURRENT
    bfe_server/*.go: following same-package calls (methods resolved by receiver type), no `GetServerConf()` call /
    `ServerConf` access is reachable from ReverseProxy.ServeHTTP, clusterInvoke, FinishReq, findProduct, findCluster,
    FindLocation, conn.serveRequest, and exactly one from each request-entry function (conn.readRequest,
    ProtocolHandler.ServeHTTP, BfeServer.Balance).  A `srv.GetServerConf()` inside ReverseProxy.ServeHTTP — or inside
    a helper it calls — makes this fail; extracting or renaming helpers elsewhere does not. -/
theorem C15_request_path_clean : pathClean BfeVerif.Generated.C15.pathSites = true := by decide

/-- the snapshot theorems for the code as it is now: every step sequence without live reads -/
theorem C15_snapshot_current (steps : List Step) (hs : Conforms (pathClean BfeVerif.Generated.C15.pathSites) steps)
    (i v w : Nat) (hv : v ∈ ((runSteps St.init steps).reqs i).reads) (hw : w ∈ ((runSteps St.init steps).reqs i).reads) :
    v = w ∧ ((runSteps St.init steps).reqs i).snap = some v :=
  ⟨C15_single_version _ C15_request_path_clean steps hs i v w hv hw,
   (C15_snapshot _ C15_request_path_clean steps hs i v hv).1⟩

/-- why the table matters: ONE live read in the request path (the cluster lookup reading `GetServerConf()`) lets a
    reload that lands between snapshot and lookup tear the request: routed under version 0, resolved under 7. -/
theorem C15_witness_live_read :
    ((runSteps St.init [.snap 1, .read 1, .load 7 true, .swap 7, .read 1, .readLive 1]).reqs 1).reads = [0, 0, 7] := by
  decide

example : pathClean [("ReverseProxy.ServeHTTP", 1), ("BfeServer.findProduct", 0), ("BfeServer.findCluster", 0), ("conn.readRequest", 1)] = false := by
  decide
example : Conforms true [.snap 1, .load 7 true, .swap 7, .read 1] := by
  intro _ i h; simp at h

/-- **lock-set theorem** (generic): if every access site of a field holds the RWMutex (writes exclusively), no
    reachable state has two threads inside conflicting accesses. -/
theorem C15_lockset (table : List Access) (hd : ∀ a ∈ table, disciplined a = true)
    (ts : Threads) (hr : Reach table ts) : ¬ Race ts := by
  rintro ⟨t, u, a, b, htu, ha, hb, hw⟩
  have hl := linv_reach hr
  have da := hd a (reach_mem hr t a ha)
  have db := hd b (reach_mem hr u b hb)
  simp only [disciplined, Bool.and_eq_true, Bool.or_eq_true, beq_iff_eq, Bool.not_eq_true'] at da db
  rcases hw with hw | hw
  · have ma : lockMode a = 2 := by rcases da.2 with h | h <;> simp_all
    have := (hl t u a b htu ha hb).1 ma
    rcases db.1 with h | h <;> omega
  · have mb : lockMode b = 2 := by rcases db.2 with h | h <;> simp_all
    have := (hl u t b a (fun e => htu e.symm) hb ha).1 mb
    rcases da.1 with h | h <;> omega

/-- the access sites of `srv.ServerConf` outside start-up, from the CURRENT source -/
def serverConfTable : List Access := BfeVerif.Generated.C15.accesses.filter fun a => a.1 != "InitDataLoad"

/-- **`srv.ServerConf` is race-free** after start-up: instantiation with the extracted table.
    (With the unlocked read `srv.ServerConf.ClusterTable` after `Unlock` in serverDataConfReload — the code before
    fix C15-unlocked-read — the table contains ("serverDataConfReload", false, 0) and this no longer checks.) -/
theorem C15_serverconf_race_free (ts : Threads) (hr : Reach serverConfTable ts) : ¬ Race ts :=
  C15_lockset serverConfTable (by decide) ts hr

/-- the request path never reads `srv.ServerConf` directly (only through the snapshot taken by GetServerConf):
    none of the routing functions occurs in the access table. -/
theorem C15_request_path_uses_snapshot :
    ∀ a ∈ BfeVerif.Generated.C15.accesses,
      a.1 ∉ ["findProduct", "findCluster", "FindLocation", "clusterInvoke", "ServeHTTP", "serveRequest", "FindProduct", "Balance"] := by
  decide

/-! non-vacuity -/
example : serverConfTable.length ≥ 2 := by decide
example : serverConfTable.any (fun a => a.2.1) = true := by decide   -- the swap (a locked write) is in the table
/-- a concrete interleaving: request 1 snapshots version 0, a reload to version 7 completes, request 1 still reads 0
    and request 2 reads 7 -/
example : let s := runSteps St.init [.snap 1, .read 1, .load 7 true, .swap 7, .snap 2, .read 1, .read 2, .load 8 false, .swap 8]
    (s.reqs 1).reads = [0, 0] ∧ (s.reqs 2).reads = [7] ∧ s.cur = 7 := by decide
/-- the undisciplined table of the unfixed code does admit a race -/
example : disciplined ("serverDataConfReload", false, 0) = false := by decide

/-! ### the lock domain of the balancer table: no exit keeps the mutex -/

theorem callStep_free (s : MuState) (e : LockExit) (hs : s.held = false ∧ s.blocked = 0) (he : e.2.2 = true) :
    (callStep s e).held = false ∧ (callStep s e).blocked = 0 := by
  unfold callStep
  simp [hs.1, hs.2, he]

/-- **no lock leak** (generic): if every exit of the table releases the mutex, then after ANY sequence of complete
    calls (reloads that succeed, fail half-way, lookups …) the mutex is free and no call was ever blocked. -/
theorem C15_no_lock_leak (table : List LockExit) (ht : ∀ e ∈ table, e.2.2 = true)
    (calls : List LockExit) (hc : ∀ e ∈ calls, e ∈ table) :
    (runCalls calls).held = false ∧ (runCalls calls).blocked = 0 := by
  unfold runCalls
  suffices h : ∀ (cs : List LockExit) (s : MuState), (∀ e ∈ cs, e ∈ table) → s.held = false ∧ s.blocked = 0 →
      (cs.foldl callStep s).held = false ∧ (cs.foldl callStep s).blocked = 0 from h calls {} hc ⟨rfl, rfl⟩
  intro cs
  induction cs with
  | nil => intro s _ hs; exact hs
  | cons e rest ih =>
    intro s hcs hs
    exact ih (callStep s e) (fun x hx => hcs x (by simp [hx])) (callStep_free s e hs (ht e (hcs e (by simp))))

/-- every exit of every lock-taking function of bal_table.go, bal_gslb.go, bfe_confdata_load.go, bfe_server.go,
    reverseproxy.go and bfe_cluster.go — regenerated from the CURRENT source — releases its mutex
    (each `return` is preceded by `Unlock` or covered by a deferred one). -/
theorem C15_reload_paths_release_lock : ∀ e ∈ BfeVerif.Generated.C15.lockExits, e.2.2 = true := by decide

/-- hence no interleaving of complete reload / lookup calls of the current code leaves a table lock held -/
theorem C15_no_lock_leak_current (calls : List LockExit) (hc : ∀ e ∈ calls, e ∈ BfeVerif.Generated.C15.lockExits) :
    (runCalls calls).held = false ∧ (runCalls calls).blocked = 0 :=
  C15_no_lock_leak _ C15_reload_paths_release_lock calls hc

/-- one exit that keeps the mutex (an early `return` above `t.lock.Unlock()`) blocks every later call for ever -/
theorem C15_witness_lock_leak :
    (runCalls [("bal_table.go:BalTable.BalTableReload", 263, false), ("bal_table.go:BalTable.Lookup", 287, true),
      ("bal_table.go:BalTable.BalTableReload", 277, true)]).blocked = 2 := by decide

example : BfeVerif.Generated.C15.lockExits.any (fun e => e.1 == "bal_table.go:BalTable.BalTableReload") = true := by decide

/-! ### module data: a reload that does not touch the replaced value cannot hurt a request in flight -/

theorem mstep_inv (s : MSt) (st : MStep) (ht : ∀ v, st ≠ .reload v true)
    (h : s.dead = [] ∧ ∀ o ∈ s.out, o.2.2 = some o.2.1) :
    (mstep s st).dead = [] ∧ ∀ o ∈ (mstep s st).out, o.2.2 = some o.2.1 := by
  obtain ⟨hd, ho⟩ := h
  cases st with
  | reload v t =>
    cases t with
    | true => exact absurd rfl (ht v)
    | false => exact ⟨by simp [mstep, hd], by simpa [mstep] using ho⟩
  | take i => exact ⟨by simp [mstep, hd], by simpa [mstep] using ho⟩
  | use i =>
    simp only [mstep]
    split
    · refine ⟨hd, fun o hmem => ?_⟩
      simp only [List.mem_append, List.mem_singleton] at hmem
      rcases hmem with hmem | rfl
      · exact ho o hmem
      · simp [answer, hd]
    · exact ⟨hd, ho⟩
  | handle =>
    refine ⟨by simp [mstep, hd], fun o hmem => ?_⟩
    simp only [mstep, List.mem_append, List.mem_singleton] at hmem
    rcases hmem with hmem | rfl
    · exact ho o hmem
    · simp [answer, hd]

/-- **in-flight requests finish with the data they took**: in every interleaving of reloads, takes and uses in which no
    reload touches the value it replaced, every `use` (and every whole request) is answered by exactly the version it
    took — never a failure, never newer data. -/
theorem C15_module_inflight (steps : List MStep) (ht : ∀ v, MStep.reload v true ∉ steps) :
    ∀ o ∈ (mrun steps).out, o.2.2 = some o.2.1 := by
  unfold mrun
  suffices h : ∀ (l : List MStep) (s : MSt), (∀ v, MStep.reload v true ∉ l) →
      (s.dead = [] ∧ ∀ o ∈ s.out, o.2.2 = some o.2.1) →
      ((l.foldl mstep s).dead = [] ∧ ∀ o ∈ (l.foldl mstep s).out, o.2.2 = some o.2.1) from
    (h steps {} ht ⟨rfl, by simp⟩).2
  intro l
  induction l with
  | nil => intro s _ hs; exact hs
  | cons st rest ih =>
    intro s hl hs
    exact ih (mstep s st) (fun v hv => hl v (List.mem_cons_of_mem _ hv))
      (mstep_inv s st (fun v e => hl v (by simp [e])) hs)

/-- no module reload of the CURRENT source touches the value it replaces (mod_geo loadConfData, the rule-table
    `Update`s of mod_block / mod_redirect / mod_rewrite): regenerated from the source on every run. -/
theorem C15_module_reloads_keep_old_data : ∀ e ∈ BfeVerif.Generated.C15.moduleSwaps, e.2 = false := by decide

/-- what closing the replaced database does to a request that took it before the reload -/
theorem C15_witness_module_close :
    (mrun [.take 1, .reload 1 true, .use 1, .handle]).out = [("U1", 0, none), ("H", 1, some 1)] := by decide

example : BfeVerif.Generated.C15.moduleSwaps.any (fun e => e.1 == "mod_geo:ModuleGeo.loadConfData") = true := by decide

end BfeVerif.C15
