import BfeVerif.Common.Proto
import BfeVerif.C15.Model
/-!
  C15 driver.  op = `sched <step>,<step>,…` with steps
     L<v>g / L<v>b  one whole serverDataConfReload with the good / broken files of version v  (= load v ok ; swap v)
     S<i>           request i takes its snapshot (GetServerConf + NewRequest)
     P<i>           FindLocation: findProduct and findCluster                 (two reads)
     C<i>           ClusterTable.Lookup through the request's snapshot        (one read)
     F<i>           request done (SvrDataConf = nil)
  result = `cur=<v>;1:s=<v>,r=<v>.<v>…;2:…`   (`-` = none)
  op = `stress <n>`: result `ok cur=<last good version>`; anything else is a torn request.
-/
namespace BfeVerif.C15
open BfeVerif.Proto

def parseStep (s : String) : Option (List Step) :=
  match s.toList with
  | 'L' :: rest =>
    let digits := rest.takeWhile Char.isDigit
    let suffix := rest.dropWhile Char.isDigit
    match (String.ofList digits).toNat?, suffix with
    | some v, ['g'] => some [.load v true, .swap v]
    | some v, ['b'] => some [.load v false, .swap v]
    | _, _ => none
  | c :: rest =>
    match (String.ofList rest).toNat? with
    | some i =>
      if c == 'S' then some [.snap i] else if c == 'P' then some [.read i, .read i]
      else if c == 'C' then some [.read i] else if c == 'F' then some [.finish i] else none
    | none => none
  | [] => none

def stepIds (steps : List Step) : Nat :=
  steps.foldl (fun m s => match s with
    | .snap i => max m i | .read i => max m i | .finish i => max m i | _ => m) 0

def renderReq (i : Nat) (r : Req) : String :=
  let s := match r.snap with | some v => toString v | none => "-"
  let rd := if r.reads.isEmpty then "-" else ".".intercalate (r.reads.map toString)
  s!"{i}:s={s},r={rd}"

def renderSt (s : St) (n : Nat) : String :=
  ";".intercalate (("cur=" ++ toString s.cur) :: (List.range n).map fun k => renderReq (k + 1) (s.reqs (k + 1)))

/-- spec oracle on the implementation's line: every request's reads equal its snapshot -/
def implConsistent (impl : String) : Bool :=
  ((impl.splitOn ";").drop 1).all fun part =>
    match part.splitOn ":s=" with
    | [_, rest] =>
      match rest.splitOn ",r=" with
      | [s, rd] => rd == "-" || (s != "-" && (rd.splitOn ".").all (· == s))
      | _ => false
    | _ => false

def run (op impl : String) : Ans :=
  match op.splitOn " " with
  | ["sched", body] =>
    match (body.splitOn ",").mapM parseStep with
    | none => { model := "bad-op", verdict := "skip" }
    | some ss =>
      let steps := ss.flatten
      let fin := runSteps St.init steps
      let n := stepIds steps
      let reloads := (steps.filter fun s => match s with | .swap _ => true | _ => false).length
      let failed := (steps.filter fun s => match s with | .load _ false => true | _ => false).length
      let inflight := steps.any fun s => match s with | .read _ => true | _ => false
      let verdict :=
        if impl.startsWith "PANIC" then "FAIL:panic"
        else if !implConsistent impl then "FAIL:torn-request"
        else "ok"
      { model := renderSt fin n, verdict := verdict,
        tags := [s!"reloads{min reloads 3}", s!"reqs{min n 4}"] ++ (if failed > 0 then ["failed-reload"] else []) ++
          (if reloads > 0 && inflight then ["nt"] else []) }
  | ["stress", n] =>
    match n.toNat? with
    | none => { model := "bad-op", verdict := "skip" }
    | some k =>
      -- versions 1..k are reloaded in order, every third one is broken: the last good one stays
      let last := if k % 3 == 0 then k - 1 else k
      { model := s!"ok cur={last}",
        verdict := if impl.startsWith "ok" then "ok" else if impl.startsWith "PANIC" then "FAIL:panic" else "FAIL:torn-request",
        tags := ["stress", "nt"] }
  | _ => { model := "bad-op", verdict := "skip" }

end BfeVerif.C15
