import BfeVerif.Common.Proto
import BfeVerif.C15.Model
/-!
  C15 driver.  op = `sched <step>,<step>,…` with steps
     L<v>g / L<v>b  one whole serverDataConfReload with the good / broken files of version v  (= load v ok ; swap v)
     S<i>           request i takes its snapshot (GetServerConf + NewRequest)
     P<i>           FindLocation: findProduct and findCluster                 (two reads)
     C<i>           ClusterTable.Lookup through the request's snapshot        (one read)
     F<i>           request done (SvrDataConf = nil)
  result = `cur=<v>;1:s=<v>,r=<v>.<v>…;2:…`   (`-` = none)
  op = `serve <c0>|<bl>|<fp>|<al>` (c = <version><n|s><g|b>): one request through the real ReverseProxy.ServeHTTP; c0 is loaded,
     the request takes its snapshot, the reloads <bl> land before findProduct, <fp> between findProduct and
     findCluster + cluster lookup, <al> after the lookup.  result =
     `snap=<v>;prod=<v>;cl=<cluster name>;obj=<version of the resolved cluster object>;err=<code|->;cur=<v>`
  op = `stress <n>`: result `ok cur=<last good version>`; anything else is a torn request.
-/
namespace BfeVerif.C15
open BfeVerif.Proto

def parseStep (s : String) : Option (List Step) :=
  match s.toList with
  | 'L' :: rest =>
    let digits := rest.takeWhile Char.isDigit
    let suffix := rest.dropWhile Char.isDigit
    match (String.ofList digits).toNat?, suffix with
    | some v, ['g'] => some [.load v true, .swap v]
    | some v, ['b'] => some [.load v false, .swap v]
    | _, _ => none
  | c :: rest =>
    match (String.ofList rest).toNat? with
    | some i =>
      if c == 'S' then some [.snap i] else if c == 'P' then some [.read i, .read i]
      else if c == 'C' then some [.read i] else if c == 'F' then some [.finish i] else none
    | none => none
  | [] => none

def stepIds (steps : List Step) : Nat :=
  steps.foldl (fun m s => match s with
    | .snap i => max m i | .read i => max m i | .finish i => max m i | _ => m) 0

def renderReq (i : Nat) (r : Req) : String :=
  let s := match r.snap with | some v => toString v | none => "-"
  let rd := if r.reads.isEmpty then "-" else ".".intercalate (r.reads.map toString)
  s!"{i}:s={s},r={rd}"

def renderSt (s : St) (n : Nat) : String :=
  ";".intercalate (("cur=" ++ toString s.cur) :: (List.range n).map fun k => renderReq (k + 1) (s.reqs (k + 1)))

/-- spec oracle on the implementation's line: every request's reads equal its snapshot -/
def implConsistent (impl : String) : Bool :=
  ((impl.splitOn ";").drop 1).all fun part =>
    match part.splitOn ":s=" with
    | [_, rest] =>
      match rest.splitOn ",r=" with
      | [s, rd] => rd == "-" || (s != "-" && (rd.splitOn ".").all (· == s))
      | _ => false
    | _ => false

/-- (version, shared cluster name?, good files?) -/
def parseCfg (s : String) : Option (Nat × Bool × Bool) :=
  let cs := s.toList
  let digits := cs.takeWhile Char.isDigit
  match (String.ofList digits).toNat?, cs.dropWhile Char.isDigit with
  | some v, [n, g] =>
    if (n == 'n' || n == 's') && (g == 'g' || g == 'b') then some (v, n == 's', g == 'g') else none
  | _, _ => none

def parseCfgs (s : String) : Option (List (Nat × Bool × Bool)) :=
  if s == "-" then some [] else (s.splitOn ",").mapM parseCfg

def reloadSteps (cs : List (Nat × Bool × Bool)) : List Step :=
  cs.flatMap fun c => [.load c.1 c.2.2, .swap c.1]

def clusterNameOf (cfgs : List (Nat × Bool × Bool)) (v : Nat) : String :=
  match cfgs.find? (fun c => c.1 == v) with
  | some c => if c.2.1 then "shared" else s!"cl{v}"
  | none => s!"cl{v}"

def fieldOf (impl k : String) : String :=
  match (impl.splitOn ";").find? (fun kv => kv.startsWith (k ++ "=")) with
  | some kv => (kv.drop (k.length + 1)).toString
  | none => "?"

def runServe (body impl : String) : Ans :=
  match body.splitOn "|" with
  | [c0s, bls, fps, als] =>
    match parseCfg c0s, parseCfgs bls, parseCfgs fps, parseCfgs als with
    | some c0, some bl, some fp, some al =>
      let all := c0 :: (bl ++ fp ++ al)
      let steps := reloadSteps [c0] ++ [Step.snap 1] ++ reloadSteps bl ++ [.read 1] ++ reloadSteps fp ++
        [.read 1, .read 1] ++ reloadSteps al
      let fin := runSteps St.init steps
      let r := fin.reqs 1
      let showV := fun (o : Option Nat) => match o with | some v => toString v | none => "-"
      let model := s!"snap={showV r.snap};prod={showV (r.reads[0]?)};cl=" ++
        (match r.reads[1]? with | some v => clusterNameOf all v | none => "-") ++
        s!";obj={showV (r.reads[2]?)};err=-;cur={fin.cur}"
      -- spec oracle on the implementation's own line: product, cluster name and resolved cluster object all
      -- belong to the version of the request's snapshot, and the request did not fail
      let snap := fieldOf impl "snap"
      let verdict :=
        if impl.startsWith "PANIC" then "FAIL:panic"
        else if fieldOf impl "prod" != snap then "FAIL:torn-product"
        else if some (fieldOf impl "cl") != (snap.toNat?.map (clusterNameOf all)) then "FAIL:torn-cluster-name"
        else if fieldOf impl "obj" != snap || fieldOf impl "err" != "-" then "FAIL:torn-cluster-lookup"
        else "ok"
      let mid := (bl ++ fp).filter fun c => c.2.2
      { model := model, verdict := verdict,
        tags := ["serve", s!"mid{min mid.length 3}"] ++ (if mid.isEmpty then [] else ["nt"]) ++
          (if fp.any (fun c => c.2.2) then ["reload-after-product"] else []) ++
          (if mid.any (fun c => c.2.1) && c0.2.1 then ["same-name-new-object"] else []) }
    | _, _, _, _ => { model := "bad-op", verdict := "skip" }
  | _ => { model := "bad-op", verdict := "skip" }

def run (op impl : String) : Ans :=
  match op.splitOn " " with
  | ["sched", body] =>
    match (body.splitOn ",").mapM parseStep with
    | none => { model := "bad-op", verdict := "skip" }
    | some ss =>
      let steps := ss.flatten
      let fin := runSteps St.init steps
      let n := stepIds steps
      let reloads := (steps.filter fun s => match s with | .swap _ => true | _ => false).length
      let failed := (steps.filter fun s => match s with | .load _ false => true | _ => false).length
      let inflight := steps.any fun s => match s with | .read _ => true | _ => false
      let verdict :=
        if impl.startsWith "PANIC" then "FAIL:panic"
        else if !implConsistent impl then "FAIL:torn-request"
        else "ok"
      { model := renderSt fin n, verdict := verdict,
        tags := [s!"reloads{min reloads 3}", s!"reqs{min n 4}"] ++ (if failed > 0 then ["failed-reload"] else []) ++
          (if reloads > 0 && inflight then ["nt"] else []) }
  | ["mod", name, body] =>
    -- module data: R<v> reload, T<i> take, U<i> use, H whole request; the value printed names the version that answered
    -- B<n> = a reload with a broken data file: rejected, no step at all in the model (nothing may change);
    -- modules whose handler is one piece (tag, trust) have no take/use split: T / U are ignored for them
    let split := name != "tag" && name != "trust"
    let parsed := (body.splitOn ",").mapM fun st =>
      if st == "H" then some [MStep.handle]
      else match st.toList with
        | c :: rest => (String.ofList rest).toNat?.bind fun n =>
            if c == 'R' then some [MStep.reload n false] else if c == 'B' then some []
            -- E<n>: a reload whose data has no entry for the product any more (version 100000+n answers "-")
            else if c == 'E' then some [MStep.reload (if name == "geo" then n else 100000 + n) false]
            else if c == 'T' then some (if split then [MStep.take n] else [])
            else if c == 'U' then some (if split then [MStep.use n] else []) else none
        | [] => none
    match parsed.map List.flatten with
    | none => { model := "bad-op", verdict := "skip" }
    | some steps =>
      let fin := mrun steps
      let showN := fun (n : Nat) => if name == "geo" then "ok" else if n ≥ 100000 then "-" else toString n
      let showV := fun (v : Option Nat) => match v with
        | some n => showN n
        | none => "err"
      let model := if fin.out.isEmpty then "-" else ",".intercalate (fin.out.map fun o => o.1 ++ "=" ++ showV o.2.2)
      -- oracle on the implementation's own line: every answer is the one of the version taken (never err / newer data)
      let expect := fin.out.map fun o => o.1 ++ "=" ++ showN o.2.1
      let got := if impl == "-" then [] else impl.splitOn ","
      let midReload := steps.any fun s => match s with | .use _ => true | _ => false
      { model := model,
        verdict := if impl.startsWith "PANIC" then "FAIL:panic-module-" ++ name
                   else if got != expect then "FAIL:module-inflight-" ++ name else "ok",
        tags := ["mod", "mod-" ++ name] ++ (if midReload then ["nt"] else []) }
  | ["balreload", body] =>
    -- balancer-table lock domain: g good reload, m gslb cluster missing from the cluster table (fails under the lock),
    -- w gslb file rejected by the loader (before the lock), l Lookup; every call returns — none may HANG
    let steps := body.toList
    if steps.all (fun c => c == 'g' || c == 'm' || c == 'w' || c == 'l') then
      let model := ",".intercalate (steps.map fun c => if c == 'g' || c == 'l' then "ok" else "err")
      let fails := (steps.filter (· == 'm')).length
      { model := model,
        verdict := if (impl.splitOn ",").contains "HANG" then "FAIL:lock-leak"
                   else if impl.startsWith "PANIC" then "FAIL:panic" else "ok",
        tags := ["balreload", s!"failed-under-lock{min fails 2}"] ++ (if fails > 0 then ["nt"] else []) }
    else { model := "bad-op", verdict := "skip" }
  | ["serve", body] => runServe body impl
  | ["stress", n] =>
    match n.toNat? with
    | none => { model := "bad-op", verdict := "skip" }
    | some k =>
      -- versions 1..k are reloaded in order, every third one is broken: the last good one stays
      let last := if k % 3 == 0 then k - 1 else k
      { model := s!"ok cur={last}",
        verdict := if impl.startsWith "ok" then "ok" else if impl.startsWith "PANIC" then "FAIL:panic" else "FAIL:torn-request",
        tags := ["stress", "nt"] }
  | _ => { model := "bad-op", verdict := "skip" }

end BfeVerif.C15
