import BfeVerif.Common.Proto
import BfeVerif.C44.Nego
/-!
  Parsing and rendering of negotiation cases (sed copy of the round-1 C41/Driver.lean — rch and hs streams only; `run` renamed `runRch`).  One op = one (Config, Rule, ClientHello, session lookups) case, 23 space separated fields:

  `rch <min> <max> <cs> <pri> <cfgflags> <np> <clientAuth> <curvePrefs> <cert> <ruleOn> <grade> <ruleflags> <ruleNp>
       <vers> <suites> <compression> <curves> <points> <alpn> <helloflags> <ticket> <sid>`

  hex4 for versions / suite ids, decimal for the rest; lists comma separated, `-` = empty, cs `n` = nil slice;
  cfgflags = preferServer,poodleProofed,ticketsDisabled,cacheDisabled,hasCache; ruleflags = clientAuth,chacha20;
  helloflags = nextProtoNeg,ticketSupported; ticket = `-` | `bad` | `vers:suite:ncerts`;
  sid = `-` | `miss` | `badcache` | `vers:suite:ncerts`.

  result: `alert=<n>` or `ok r= v= s= al= cp= npn= ca= ex= sv=`.
-/
namespace BfeVerif.C44
open BfeVerif.Proto BfeVerif.Generated.C44

def hex4 (n : Nat) : String :=
  String.ofList [hexDigit (n / 4096 % 16), hexDigit (n / 256 % 16), hexDigit (n / 16 % 16), hexDigit (n % 16)]

def parseHex (s : String) : Option Nat :=
  if s.isEmpty then none
  else s.toList.foldl (fun acc c => match acc, hexVal c with
    | some a, some d => some (a * 16 + d)
    | _, _ => none) (some 0)

def parseList (f : String → Option α) (s : String) : Option (List α) :=
  if s == "-" then some [] else (s.splitOn ",").mapM f

def parseFlags (s : String) (n : Nat) : Option (List Bool) :=
  let cs := s.toList
  if cs.length != n then none
  else cs.mapM fun c => if c == '1' then some true else if c == '0' then some false else none

def parseSession (s : String) : Option Session :=
  match s.splitOn ":" with
  | [v, su, n] => do
    let v ← parseHex v
    let su ← parseHex su
    let n ← n.toNat?
    pure { vers := v, suite := su, hasCerts := n != 0 }
  | _ => none

structure Case where
  cfg : Config
  rule : Option Rule
  hello : Hello
  lk : Lookups

def strList (s : String) : Option (List String) := parseList (fun x => some x) s

def parseCase (op : String) : Option Case :=
  match op.splitOn " " with
  | ["rch", mn, mx, cs, pri, cf, np, ca, cv, cert, ruleOn, grade, rf, rnp, hv, hs, hc, hcu, hp, al, hf, tk, sid] => do
    let mn ← parseHex mn
    let mx ← parseHex mx
    let cs ← if cs == "n" then some none else (parseList parseHex cs).map some
    let pri ← parseList String.toNat? pri
    let cf ← parseFlags cf 5
    let np ← strList np
    let ca ← ca.toNat?
    let cv ← parseList String.toNat? cv
    let rf ← parseFlags rf 2
    let rnp ← strList rnp
    let hv ← parseHex hv
    let hs ← parseList parseHex hs
    let hc ← parseList String.toNat? hc
    let hcu ← parseList String.toNat? hcu
    let hp ← parseList String.toNat? hp
    let al ← strList al
    let hf ← parseFlags hf 2
    let ticket ← if tk == "-" || tk == "bad" then some none else (parseSession tk).map some
    let cache ← if sid == "-" || sid == "miss" || sid == "badcache" then some none else (parseSession sid).map some
    let cfg : Config := {
      minVersionRaw := mn, maxVersionRaw := mx, cipherSuitesRaw := cs, priority := pri,
      preferServer := cf.getD 0 false, ssl3PoodleProofed := cf.getD 1 false, ticketsDisabled := cf.getD 2 false,
      cacheEnabled := !cf.getD 3 false && cf.getD 4 false, nextProtos := np, clientAuth := ca,
      curvePrefsRaw := cv, hasCert := cert != "n", certEcdsa := cert == "e" }
    let rule : Option Rule :=
      if ruleOn == "1" then
        some { grade := if grade == "-" then "" else grade, clientAuth := rf.getD 0 false,
               chacha20 := rf.getD 1 false, nextProtos := rnp }
      else none
    let hello : Hello := {
      vers := hv, suites := hs, compression := hc, curves := hcu, points := hp, alpn := al,
      npn := hf.getD 0 false, ticketSupported := hf.getD 1 false,
      -- an empty-bodied ticket extension is sent when ticketSupported is set; otherwise no ticket reaches the server
      ticketPresent := hf.getD 1 false && tk != "-", sessionIdPresent := sid != "-" }
    pure { cfg, rule, hello, lk := { ticket, cache } }
  | _ => none

def alertCode : Alert → Nat
  | .protocolVersion => 70
  | .handshakeFailure => 40
  | .internalError => 80
  | .inappropriateFallback => 86

def dash (s : String) : String := if s.isEmpty then "-" else s

def render : Except Alert Params → String
  | .error a => "alert=" ++ toString (alertCode a)
  | .ok p =>
    "ok r=" ++ (if p.resume then "1" else "0") ++ " v=" ++ hex4 p.vers ++ " s=" ++ hex4 p.suite.id ++
    " al=" ++ dash p.alpn ++ " cp=" ++ dash p.clientProto ++
    " npn=" ++ (match p.npn with | none => "off" | some l => dash (",".intercalate l)) ++
    " ca=" ++ toString p.clientAuth ++ " ex=" ++ (if p.ecdheNoExt then "1" else "0") ++
    " sv=" ++ (match p.sess with | none => "-" | some s => hex4 s.vers)

/-- value of `key=` in a space separated result line -/
def field (line key : String) : Option String :=
  (line.splitOn " ").findSome? fun kv =>
    if kv.startsWith (key ++ "=") then some ((kv.drop (key.length + 1)).toString) else none

/-! ### the specification oracle (what C41 demands of an accepted hello), applied to the implementation's answer -/

def grade (c : Case) : String := gradeOf c.rule
def caseProtos (c : Case) : List String := nextProtosOf c.cfg c.rule

/-- the client's ECC extensions, where present, are compatible with the server's curves / point format -/
def eccCompat (c : Case) (v : Nat) : Bool :=
  let sc := c.hello.curves.any fun x => c.cfg.curvePreferences.contains x
  let sp := c.hello.points.contains pointFormatUncompressed
  (sc || c.hello.curves.isEmpty) && (sp || c.hello.points.isEmpty) &&
  (!(c.hello.curves.isEmpty || c.hello.points.isEmpty) || decide (v > versionSSL30))

def scsvDemandsRefusal (c : Case) : Bool :=
  c.hello.suites.contains fallbackSCSV && decide (c.hello.vers < c.cfg.maxVersion)

/-- classes of violations, unexpected ones first -/
def oracleOk (c : Case) (v s : Nat) (al : String) (resumed : Bool) : Option String :=
  let g := grade c
  let np := caseProtos c
  let rc4 := checkCipherGrade c.cfg g v
  if v > c.cfg.maxVersion then some "version-above-max"
  else if v > c.hello.vers then some "version-above-client"
  else if v < c.cfg.minVersion && c.cfg.minVersion ≤ c.cfg.maxVersion then some "version-below-min"
  else if (g == gradeA && v < versionTLS10) || (g == gradeAPlus && v < versionTLS12) then some "version-grade"
  else if !c.hello.suites.contains s then some "suite-not-offered"
  else if !c.cfg.cipherSuites.contains s then some "suite-not-enabled"
  else match lookupSuite s with
  | none => some "suite-unknown"
  | some su =>
  if su.has suiteECDHE && !eccCompat c v then some "suite-ecdhe-no-curve"
  else if su.has suiteECDSA != c.cfg.certEcdsa then some "suite-cert-type"
  else if su.has suiteTLS12 && v < versionTLS12 then some "suite-tls12-only"
  else if su.has suiteChacha20 && !chachaOf c.rule then some "suite-chacha-disabled"
  else if (su.has suiteRC4 && rc4 == .disable) || (!su.has suiteRC4 && rc4 == .only) then some "suite-rc4-policy"
  else if al != "-" && !(c.hello.alpn.contains al && np.contains al) &&
      !(al == "http/1.1" && c.hello.alpn.contains "h2" && np.contains "h2") then some "alpn-not-mutual"
  else if scsvDemandsRefusal c && !resumed && c.cfg.maxVersionRaw != 0 then some "scsv-ignored"
  else if scsvDemandsRefusal c && !resumed then some "scsv-default-max"
  else if scsvDemandsRefusal c then some "scsv-skipped-on-resumption"
  else if al != "-" && !(c.hello.alpn.contains al && np.contains al) then some "alpn-h2-downgrade-unoffered"
  else if v < c.cfg.minVersion then some "version-range-inverted"
  else none

def oracle (c : Case) (impl : String) : String :=
  if impl.startsWith "ok " then
    match (field impl "v").bind parseHex, (field impl "s").bind parseHex, field impl "al", field impl "r" with
    | some v, some s, some al, some r =>
      match oracleOk c v s al (r == "1") with
      | none => "ok"
      | some cls => "FAIL:" ++ cls
    | _, _, _, _ => "FAIL:unparsable-result"
  else if impl == "alert=86" then
    if scsvDemandsRefusal c then "ok" else "FAIL:scsv-spurious"
  else if impl.startsWith "alert=" then "ok"
  else "FAIL:unexpected-result"

def tagsOf (c : Case) (m : Except Alert Params) : List String :=
  let kind := match m with
    | .error a => "alert" ++ toString (alertCode a)
    | .ok p => if p.resume then "resume" else "full"
  let sel :=
    if c.cfg.preferServer && c.cfg.priority.length == c.cfg.cipherSuites.length then "equiv"
    else if c.cfg.preferServer then "srvpref" else "clipref"
  let extra := match m with
    | .ok p =>
      (if p.ecdheNoExt then ["ecdhe-noext"] else []) ++ (if p.alpn != "" then ["alpn"] else []) ++
      (if p.npn.isSome then ["npn"] else []) ++
      (if p.alpn == "http/1.1" && (mutualProtocol c.hello.alpn (caseProtos c)) == some "h2" then ["h2down"] else []) ++
      (if p.suite.has suiteRC4 then ["rc4"] else []) ++ (if p.vers < c.hello.vers then ["vclamp"] else [])
    | .error _ => []
  let nt := match m with
    | .ok _ => true
    | .error .inappropriateFallback => true
    | .error .handshakeFailure => c.hello.compression.contains compressionNone
    | _ => false
  [kind, sel, "g" ++ grade c] ++ extra ++
  (if c.hello.suites.contains fallbackSCSV then ["scsv"] else []) ++
  (if c.rule.isSome then [] else ["norule"]) ++ (if nt then ["nt"] else [])

/-! ### stream `hs`: complete handshakes with Go's crypto/tls client

  op  = `hs <cfg:13> <cmin> <cmax> <csuites> <ccurves> <calpn> <resume> <datalen>`
  impl = `<hello as parsed by the server: 9 fields> | srv=… cli=… echo=…`
  The model is run on the configuration of the op and the hello reported by the implementation. -/

def sideStr (p : Params) (al : String) : String :=
  "ok v=" ++ hex4 p.vers ++ " s=" ++ hex4 p.suite.id ++ " al=" ++ dash al ++ " r=" ++ (if p.resume then "1" else "0")

def runHs (f : List String) (impl : String) : Ans :=
  if f.length != 20 then { model := "bad-op", verdict := "skip" } else
  match impl.splitOn " | " with
  | [helloStr, outcome] =>
    match parseCase (" ".intercalate (["rch"] ++ f.take 13 ++ [helloStr])), parseHex (f.getD 13 "") with
    | some c, some cmin =>
      let m := readClientHello c.cfg c.rule c.hello c.lk
      let expected :=
        match m with
        | .error _ => "srv=err cli=err echo=-"
        | .ok p =>
          -- what a standard client does with the ServerHello: it refuses a version below its minimum and an ALPN
          -- protocol it did not offer
          if p.vers < cmin || (p.alpn != "" && !c.hello.alpn.contains p.alpn) then "srv=err cli=err echo=-"
          else "srv=" ++ sideStr p p.clientProto ++ " cli=" ++ sideStr p p.alpn ++ " echo=ok"
      let srvOk := (outcome.splitOn " cli=").getD 0 ""
      let cliOk := (outcome.splitOn " cli=").getD 1 ""
      let verdict :=
        if srvOk.startsWith "srv=ok" && cliOk.startsWith "ok" then
          let sv := field srvOk "v"; let ss := field srvOk "s"; let sa := field srvOk "al"; let sr := field srvOk "r"
          if sv != field cliOk "v" || ss != field cliOk "s" || sa != field cliOk "al" || sr != field cliOk "r" then
            "FAIL:hs-ends-disagree"
          else if field cliOk "echo" != some "ok" then "FAIL:hs-echo"
          else match sv.bind parseHex, ss.bind parseHex, sa with
            | some v, some su, some al =>
              (match oracleOk c v su al (sr == some "1") with
               | none => "ok"
               | some cls => "FAIL:" ++ cls)
            | _, _, _ => "FAIL:unparsable-result"
        else "ok"
      let kind := match m with
        | .error _ => "hs-refused"
        | .ok p => if expected.startsWith "srv=err" then "hs-client-rejects" else if p.resume then "hs-resumed" else "hs-full"
      { model := helloStr ++ " | " ++ expected, verdict := verdict,
        tags := ["hs", kind] ++ (if expected.startsWith "srv=ok" then ["nt"] else []) }
    | _, _ => { model := "bad-hello", verdict := "FAIL:hs-hello-not-captured" }
  | _ => { model := "bad-result", verdict := "FAIL:unparsable-result" }

def runRch (op impl : String) : Ans :=
  match op.splitOn " " with
  | "hs" :: f => runHs f impl
  | _ =>
  match parseCase op with
  | none => { model := "bad-op", verdict := "skip" }
  | some c =>
    let m := readClientHello c.cfg c.rule c.hello c.lk
    { model := render m, verdict := oracle c impl, tags := tagsOf c m }

end BfeVerif.C44
