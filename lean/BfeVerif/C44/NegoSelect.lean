import BfeVerif.Generated.C44
/-! (sed copy of the C41 file of the same name, namespace C44)
  C41 — which rule and which certificate govern a connection.

  * `getRule`        : `(*TLSServerRuleMap).getRule` (bfe_server/tls_server_rule.go): rule of the connection's VIP,
                       else rule whose SniConf lists the presented server name, else the default rule.
                       The two maps are Go maps built by `Update` from the rule configuration (keys are unique:
                       `checkVip` / `checkSniConf` refuse duplicates), modelled as association lists.
  * `certGet`        : `(*MultiCertMap).Get` + `(*NameCertMap).Get` (bfe_server/tls_multi_cert.go): certificate of the
                       VIP, else by server name (lower-cased, trailing dots removed): exact name first, then the
                       wildcard patterns — a Go map, iterated in unspecified order: `wildcard` is given in the order
                       the iteration happens to take —, else the default certificate.
  * `certForName`    : `(*Config).getCertificateForName` (bfe_tls/common.go), the library-level selection used when no
                       MultiCert policy is installed.
  * `keyExchangeCurve`: the curve `generateServerKeyExchange` picks (first server preference the client lists).

  Core-only.
-/
namespace BfeVerif.C44
open BfeVerif.Generated.C44

def lowerAscii (s : String) : String := String.ofList (s.toList.map Char.toLower)

def dropTrailingDots (cs : List Char) : List Char := (cs.reverse.dropWhile (· == '.')).reverse

/-- `strings.ToLower` followed by the loop that strips trailing dots -/
def normName (s : String) : String := String.ofList (dropTrailingDots (s.toList.map Char.toLower))

/-- `tls_rule_conf.MatchHostnames` -/
def matchHostnames (pattern host : String) : Bool :=
  if pattern.isEmpty || host.isEmpty then false
  else
    let pp := pattern.splitOn "."
    let hp := host.splitOn "."
    pp.length == hp.length && (pp.zip hp).all fun p => p.1 == "*" || p.1 == p.2

def lookup {α : Type} (l : List (String × α)) (k : String) : Option α := (l.find? fun p => p.1 == k).map (·.2)

structure RuleTable (α : Type) where
  vip : List (String × α)        -- vipRuleMap as configured (VipConf entries)
  sni : List (String × α)        -- SniConf entries as configured
  dflt : α                       -- what getDefaultRule builds

/-- key under which `Update` stores a configured name -/
def sniLoadKey (name : String) : String := if sniRuleLookupNormalised then lowerAscii name else name
/-- key `getRuleBySni` looks up for the presented server name -/
def sniLookupKey (name : String) : String := if sniRuleLookupNormalised then normName name else name

def getRule {α : Type} (t : RuleTable α) (vip : Option String) (sni : String) : α :=
  match vip.bind (lookup t.vip) with
  | some r => r
  | none =>
    match lookup (t.sni.map fun p => (sniLoadKey p.1, p.2)) (sniLookupKey sni) with
    | some r => r
    | none => t.dflt

structure CertTable where
  vip : List (String × String)        -- vip → certificate name
  normal : List (String × String)     -- exact DNS name → certificate name
  wildcard : List (String × String)   -- wildcard pattern → certificate name, in map-iteration order
  dflt : String

def nameCertGet (t : CertTable) (serverName : String) : Option String :=
  let n := normName serverName
  match lookup t.normal n with
  | some c => some c
  | none => (t.wildcard.find? fun p => matchHostnames p.1 n).map (·.2)

def certGet (t : CertTable) (vip : Option String) (sni : String) : String :=
  match vip.bind (lookup t.vip) with
  | some c => c
  | none =>
    match (if sni.isEmpty then none else nameCertGet t sni) with
    | some c => c
    | none => t.dflt

/-- the candidates `labels[i] = "*"` produces, cumulatively: `*.b.c`, `*.*.c`, `*.*.*` -/
def starCandidates : List String → List String → List String
  | _, [] => []
  | done, _ :: rest => ".".intercalate (done ++ ["*"] ++ rest) :: starCandidates (done ++ ["*"]) rest

/-- `getCertificateForName`: index into `Config.Certificates`; `n2c = none` is a nil NameToCertificate -/
def certForName (ncerts : Nat) (n2c : Option (List (String × Nat))) (name : String) : Nat :=
  match n2c with
  | none => 0
  | some m =>
    if ncerts == 1 then 0
    else
      let n := normName name
      match lookup m n with
      | some i => i
      | none =>
        match (starCandidates [] (n.splitOn ".")).findSome? (lookup m) with
        | some i => i
        | none => 0

/-- `generateServerKeyExchange`: first of the server's preferences that the client lists (0 = none) -/
def keyExchangeCurve (prefs clientCurves : List Nat) : Nat :=
  match prefs.find? fun c => clientCurves.contains c with
  | some c => c
  | none => 0

/-! ### client certificates (`doFullHandshake` / `processCertsFromClient`, handshake_server.go) -/

/-- what the server's checks can tell about the chain in the client's Certificate message -/
structure ClientCert where
  parses : Bool        -- every element is a parseable X.509 certificate
  revoked : Bool       -- some element is in the connection's CRL pool
  chainOk : Bool       -- x509 Verify of the leaf against the connection's CA pool for ExtKeyUsageClientAuth succeeds
  ekuListed : Bool     -- the leaf's ExtKeyUsage lists ClientAuth explicitly
  keyOk : Bool         -- the leaf's public key is RSA or ECDSA
  sigOk : Bool         -- the CertificateVerify signature over the handshake transcript verifies
deriving DecidableEq, Repr

/-- Outcome of the client-certificate part of a full handshake under the connection's policy `c.clientAuth`
    (`cc = none`: the client sent no certificate — no Certificate message when none was requested, an empty one
    otherwise).  Error = number of the alert sent. -/
def clientAuthStep (policy : Nat) (cc : Option ClientCert) : Except Nat (Option ClientCert) :=
  if policy < requestClientCert then .ok none
  else
    match cc with
    | none =>
      if policy == requireAnyClientCert || policy == requireAndVerifyClientCert then .error 42 else .ok none
    | some c =>
      if !c.parses then .error 42
      else if c.revoked then .error 44
      else if policy ≥ verifyClientCertIfGiven && !c.chainOk then .error 42
      else if policy ≥ verifyClientCertIfGiven && !c.ekuListed then .error 40
      else if !c.keyOk then .error 43
      else if !c.sigOk then .error 42
      else .ok (some c)

/-- which CA pool `getClientCAs` returns: the rule's when the rule demands client auth and has a pool, else the
    Config's (`none` = no pool at all, i.e. the platform's roots) -/
def clientCAPool (cfgPool rulePool : Option String) (ruleClientAuth : Bool) : Option String :=
  if ruleClientAuth then (match rulePool with | some p => some p | none => cfgPool) else cfgPool

/-! ### lemmas about `lookup` (used by Props.lean) -/

theorem lookup_of_mem_nodup {α : Type} (key : String → String) (l : List (String × α)) (k : String) (v : α)
    (hnd : (l.map fun p => key p.1).Nodup) (hm : (k, v) ∈ l) :
    lookup (l.map fun p => (key p.1, p.2)) (key k) = some v := by
  induction l with
  | nil => cases hm
  | cons a rest ih =>
    simp only [List.map_cons, List.nodup_cons] at hnd
    unfold lookup
    simp only [List.map_cons, List.find?_cons]
    rcases List.mem_cons.mp hm with h | h
    · subst h; simp
    · have hne : (key a.1 == key k) = false := by
        apply beq_false_of_ne
        intro he
        exact hnd.1 (he ▸ List.mem_map.mpr ⟨(k, v), h, rfl⟩)
      simp only [hne]
      exact ih hnd.2 h

theorem lookup_none_of_forall {α : Type} (l : List (String × α)) (k : String) (h : ∀ p ∈ l, p.1 ≠ k) :
    lookup l k = none := by
  unfold lookup
  rw [List.find?_eq_none.mpr]
  · rfl
  · intro p hp; simpa using h p hp

end BfeVerif.C44
