import BfeVerif.Generated.C44
/-!
  C44 (copy of the C41 negotiation model, kept textually identical by construction: sed of C41/Model.lean) — model of the server side of TLS parameter negotiation:
  `(*serverHandshakeState).readClientHello`, `checkForResumption`, `negotiateEquivalentCipherSuites`,
  `checkEllipticMayOk`, `validateHttp2Accepted`, `(*Conn).tryCipherSuite` (bfe_tls/handshake_server.go),
  `mutualVersion`, `checkVersionGrade`, `checkCipherGrade`, `cipherSuites()`, `curvePreferences()`
  (bfe_tls/common.go), `mutualProtocol` (handshake_client.go), over the suite table and constants that
  /verif/extract regenerates from the current source (`BfeVerif.Generated.C44`).

  Core-only.  Same statement order as the Go code (so the same alert wins when several apply).
  What the model takes as inputs instead of computing: the results of `decryptTicket` and of the session
  cache lookup (`Lookups`), the type of the selected certificate's key (`certEcdsa`), the rule returned by
  `ServerRule.Get`.  Two source facts select between code variants:
  `scsvUsesEffectiveMax` (right-hand side of the SCSV comparison) and `resumeRequiresSameVersion`.
-/
namespace BfeVerif.C44
open BfeVerif.Generated.C44

structure Suite where
  id : Nat
  flags : Nat
deriving DecidableEq, Repr

/-- the `cipherSuites` table -/
def table : List Suite := cipherSuiteTable.map fun p => ⟨p.1, p.2⟩

def Suite.has (s : Suite) (flag : Nat) : Bool := (s.flags &&& flag) != 0

/-- `for _, s := range cipherSuites { if s.id == id { candidate = s; break } }` -/
def lookupSuite (id : Nat) : Option Suite := table.find? fun s => s.id == id

structure Rule where
  grade : String
  clientAuth : Bool
  chacha20 : Bool
  nextProtos : List String
deriving Repr

structure Config where
  minVersionRaw : Nat            -- Config.MinVersion (0 = default)
  maxVersionRaw : Nat            -- Config.MaxVersion (0 = default)
  cipherSuitesRaw : Option (List Nat)   -- Config.CipherSuites (none = nil slice)
  priority : List Nat            -- Config.CipherSuitesPriority
  preferServer : Bool            -- Config.PreferServerCipherSuites
  ssl3PoodleProofed : Bool
  ticketsDisabled : Bool         -- Config.SessionTicketsDisabled
  cacheEnabled : Bool            -- !SessionCacheDisabled && ServerSessionCache != nil
  nextProtos : List String
  clientAuth : Nat               -- Config.ClientAuth
  curvePrefsRaw : List Nat       -- Config.CurvePreferences
  hasCert : Bool                 -- len(Config.Certificates) != 0
  certEcdsa : Bool               -- the selected certificate has an ECDSA key
deriving Repr

structure Session where
  vers : Nat
  suite : Nat
  hasCerts : Bool
deriving DecidableEq, Repr

structure Hello where
  vers : Nat
  suites : List Nat
  compression : List Nat
  curves : List Nat
  points : List Nat
  alpn : List String
  npn : Bool
  ticketSupported : Bool
  ticketPresent : Bool           -- len(sessionTicket) != 0
  sessionIdPresent : Bool        -- len(sessionId) != 0
deriving Repr

/-- results of the two external session lookups -/
structure Lookups where
  ticket : Option Session        -- decryptTicket: `some` iff it returned ok
  cache : Option Session         -- ServerSessionCache.Get + unmarshal: `some` iff both succeeded
deriving Repr

inductive Alert where
  | protocolVersion | handshakeFailure | internalError | inappropriateFallback
deriving DecidableEq, Repr

inductive RC4Mode where
  | disable | enable | only
deriving DecidableEq, Repr

structure Params where
  resume : Bool
  vers : Nat
  suite : Suite
  alpn : String                  -- serverHello.alpnProtocol ("" = none)
  clientProto : String           -- conn.clientProtocol
  npn : Option (List String)     -- serverHello.nextProtos when nextProtoNeg is set
  clientAuth : Nat
  ecdheNoExt : Bool              -- the ECDHE-without-extension fallback was taken
  sess : Option Session          -- the session being resumed
deriving Repr

def Config.minVersion (c : Config) : Nat := if c.minVersionRaw = 0 then minVersionDefault else c.minVersionRaw
def Config.maxVersion (c : Config) : Nat := if c.maxVersionRaw = 0 then maxVersionDefault else c.maxVersionRaw

def defaultSuiteIds : List Nat := table.map (·.id)

def Config.cipherSuites (c : Config) : List Nat :=
  match c.cipherSuitesRaw with
  | none => defaultSuiteIds
  | some s => s

def Config.curvePreferences (c : Config) : List Nat :=
  if c.curvePrefsRaw.isEmpty then defaultCurvePreferences else c.curvePrefsRaw

def mutualVersion (c : Config) (vers : Nat) : Option Nat :=
  if vers < c.minVersion then none
  else if vers > c.maxVersion then some c.maxVersion
  else some vers

def checkVersionGrade (vers : Nat) (grade : String) : Option Nat :=
  if grade == gradeA && vers < versionTLS10 then none
  else if grade == gradeAPlus && vers < versionTLS12 then none
  else some vers

def checkCipherGrade (c : Config) (grade : String) (vers : Nat) : RC4Mode :=
  if grade == gradeAPlus then .disable
  else if grade == gradeA then .disable
  else if grade == gradeB then (if vers ≥ versionTLS10 then .disable else .only)
  else if grade == gradeC then (if c.ssl3PoodleProofed && vers == versionSSL30 then .only else .enable)
  else .enable

/-- the flag tests of `tryCipherSuite` on a candidate -/
def suiteOk (s : Suite) (version : Nat) (ellipticOk ecdsaOk chachaOk : Bool) (rc4 : RC4Mode) : Bool :=
  !(s.has suiteECDHE && !ellipticOk) &&
  (s.has suiteECDSA == ecdsaOk) &&
  !(decide (version < versionTLS12) && s.has suiteTLS12) &&
  !(s.has suiteChacha20 && !chachaOk) &&
  !(s.has suiteRC4 && rc4 == .disable) &&
  !(!s.has suiteRC4 && rc4 == .only)

/-- `tryCipherSuite`: the loop over `supportedCipherSuites` with its `continue`s; returns the candidate and
    the index at which it was found. -/
def tryLoop (id : Nat) (version : Nat) (ellipticOk ecdsaOk chachaOk : Bool) (rc4 : RC4Mode) :
    List Nat → Nat → Option (Suite × Nat)
  | [], _ => none
  | sup :: rest, i =>
    if id == sup then
      match lookupSuite id with
      | none => tryLoop id version ellipticOk ecdsaOk chachaOk rc4 rest (i + 1)
      | some cand =>
        if suiteOk cand version ellipticOk ecdsaOk chachaOk rc4 then some (cand, i)
        else tryLoop id version ellipticOk ecdsaOk chachaOk rc4 rest (i + 1)
    else tryLoop id version ellipticOk ecdsaOk chachaOk rc4 rest (i + 1)

def tryCipherSuite (id : Nat) (supported : List Nat) (version : Nat) (ellipticOk ecdsaOk chachaOk : Bool)
    (rc4 : RC4Mode) : Option (Suite × Nat) :=
  tryLoop id version ellipticOk ecdsaOk chachaOk rc4 supported 0

/-- `for _, id := range preferenceList { if hs.suite, _ = try(id); hs.suite != nil { break } }`
    (`cur` is the value `hs.suite` had before the loop: it survives only if the list is empty). -/
def pickLoop (try_ : Nat → Option (Suite × Nat)) : List Nat → Option Suite → Option Suite
  | [], cur => cur
  | id :: rest, _ =>
    match try_ id with
    | some (s, _) => some s
    | none => pickLoop try_ rest none

/-- the ECDHE-only loop of the fallback: non-ECDHE ids are skipped without touching `hs.suite` -/
def pickLoopEcdhe (try_ : Nat → Option (Suite × Nat)) : List Nat → Option Suite → Option Suite
  | [], cur => cur
  | id :: rest, cur =>
    if !checkSuiteECDHE.contains id then pickLoopEcdhe try_ rest cur
    else
      match try_ id with
      | some (s, _) => some s
      | none => pickLoopEcdhe try_ rest none

/-- one iteration's update of (suiteSelected, suiteServerOrder, suiteClientOrder) in
    `negotiateEquivalentCipherSuites` -/
def equivStep (try_ : Nat → Option (Suite × Nat)) (serverOrder id : Nat) (sel : Option (Suite × Nat × Nat)) :
    Option (Suite × Nat × Nat) :=
  match try_ id with
  | some (s, clientOrder) =>
    match sel with
    | none => some (s, serverOrder, clientOrder)
    | some (_, so, co) =>
      if serverOrder == so && clientOrder < co then some (s, serverOrder, clientOrder) else sel
  | none => sel

/-- the loop, with its early `break` once a suite is selected and the priority value increases -/
def equivLoop (try_ : Nat → Option (Suite × Nat)) :
    List (Nat × Nat) → Option (Suite × Nat × Nat) → Option (Suite × Nat × Nat)
  | [], sel => sel
  | (serverOrder, id) :: rest, sel =>
    match equivStep try_ serverOrder id sel with
    | some (s, so, co) =>
      if so < serverOrder then some (s, so, co) else equivLoop try_ rest (some (s, so, co))
    | none => equivLoop try_ rest none

def negotiateEquivalent (try_ : Nat → Option (Suite × Nat)) (priority serverSuites : List Nat) : Option Suite :=
  (equivLoop try_ (priority.zip serverSuites) none).map (·.1)

/-- `mutualProtocol(clientProtos, serverProtos)`: `some p` = (p, fallback=false), `none` = fallback -/
def mutualProtocol (clientProtos : List String) : List String → Option String
  | [] => none
  | s :: rest => if clientProtos.contains s then some s else mutualProtocol clientProtos rest

def checkAndRemoveH2 (protos : List String) : List String := protos.filter (· != "h2")

def checkEllipticMayOk (vers : Nat) (supportedCurve supportedPoint : Bool) (h : Hello) : Bool :=
  if vers ≤ versionSSL30 then false
  else if supportedCurve && h.points.isEmpty then true
  else if supportedPoint && h.curves.isEmpty then true
  else if h.curves.isEmpty && h.points.isEmpty then true
  else false

/-- `validateHttp2Accepted`: returns (alpnProtocol, clientProtocol) -/
def validateHttp2 (alpn cproto : String) (suite : Suite) (vers : Nat) : String × String :=
  if alpn == "h2" then
    if !http2Accepted.contains suite.id || vers < versionTLS12 then ("http/1.1", "http/1.1") else (alpn, cproto)
  else (alpn, cproto)

/-- which session state `checkForResumption` looks at: the ticket's if a ticket is presented and tickets
    are enabled (never the cache then), otherwise the cache entry of the session id -/
def sessionLookup (cfg : Config) (h : Hello) (lk : Lookups) : Option Session :=
  if !cfg.ticketsDisabled && h.ticketSupported && h.ticketPresent then lk.ticket
  else if !h.sessionIdPresent then none
  else if cfg.cacheEnabled then lk.cache else none

/-- the version tests of `checkForResumption`, in whichever form the source has them -/
def resumeVersionOk (cfg : Config) (h : Hello) (cvers : Nat) (st : Session) : Bool :=
  (if resumeRequiresSameVersion then cvers == st.vers else true) &&
  (if resumeHasLegacyVersionTests then
    !(st.vers > h.vers) && (mutualVersion cfg st.vers == some st.vers) else true)

/-- the two client-certificate tests of `checkForResumption` -/
def resumeClientCertOk (clientAuth : Nat) (st : Session) : Bool :=
  !((clientAuth == requireAnyClientCert || clientAuth == requireAndVerifyClientCert) && !st.hasCerts) &&
  !(st.hasCerts && clientAuth == noClientCert)

/-- `checkForResumption`.  `cvers` is `c.vers`. -/
def checkForResumption (cfg : Config) (h : Hello) (lk : Lookups) (cvers : Nat) (clientAuth : Nat)
    (ellipticOk ecdsaOk chachaOk : Bool) (rc4 : RC4Mode) : Option (Suite × Session) :=
  match sessionLookup cfg h lk with
  | none => none
  | some st =>
    if !resumeVersionOk cfg h cvers st then none
    else if !h.suites.contains st.suite then none
    else
      match tryCipherSuite st.suite cfg.cipherSuites st.vers ellipticOk ecdsaOk chachaOk rc4 with
      | none => none
      | some (suite, _) => if !resumeClientCertOk clientAuth st then none else some (suite, st)

/-- the bound the SCSV test compares `clientHello.vers` against -/
def scsvBound (cfg : Config) : Nat := if scsvUsesEffectiveMax then cfg.maxVersion else cfg.maxVersionRaw

def gradeOf (rule : Option Rule) : String := match rule with | some r => r.grade | none => gradeC

def nextProtosOf (cfg : Config) (rule : Option Rule) : List String :=
  match rule with | some r => r.nextProtos | none => cfg.nextProtos

def clientAuthOf (cfg : Config) (rule : Option Rule) : Nat :=
  match rule with
  | some r => if r.clientAuth then requireAndVerifyClientCert else cfg.clientAuth
  | none => cfg.clientAuth

def chachaOf (rule : Option Rule) : Bool := match rule with | some r => r.chacha20 | none => false

/-- `hs.hello.alpnProtocol` before `validateHttp2Accepted` ("" = none selected) -/
def alpnChoice (h : Hello) (nextProtos : List String) : String :=
  if !h.alpn.isEmpty then
    match mutualProtocol h.alpn nextProtos with
    | some p => p
    | none => ""
  else ""

/-- `hs.hello.nextProtos` when `hs.hello.nextProtoNeg` is set -/
def npnChoice (h : Hello) (nextProtos : List String) : Option (List String) :=
  if !h.alpn.isEmpty then none
  else if h.npn && !(checkAndRemoveH2 nextProtos).isEmpty then some (checkAndRemoveH2 nextProtos) else none

def supportedCurveOf (cfg : Config) (h : Hello) : Bool := h.curves.any fun c => cfg.curvePreferences.contains c
def supportedPointOf (h : Hello) : Bool := h.points.contains pointFormatUncompressed

def preferenceList (cfg : Config) (h : Hello) : List Nat := if cfg.preferServer then cfg.cipherSuites else h.suites
def supportedList (cfg : Config) (h : Hello) : List Nat := if cfg.preferServer then h.suites else cfg.cipherSuites

/-- the first negotiation (equivalent-suite or plain preference loop) -/
def firstPick (cfg : Config) (h : Hello) (v : Nat) (ellipticOk ecdsaOk chachaOk : Bool) (rc4 : RC4Mode) : Option Suite :=
  let try_ (id : Nat) := tryCipherSuite id (supportedList cfg h) v ellipticOk ecdsaOk chachaOk rc4
  if cfg.preferServer && cfg.priority.length == (preferenceList cfg h).length then
    negotiateEquivalent try_ cfg.priority (preferenceList cfg h)
  else pickLoop try_ (preferenceList cfg h) none

/-- the ECDHE-without-extension retry -/
def fallbackPick (cfg : Config) (h : Hello) (v : Nat) (ecdsaOk chachaOk : Bool) (rc4 : RC4Mode) : Option Suite :=
  if checkEllipticMayOk v (supportedCurveOf cfg h) (supportedPointOf h) h then
    pickLoopEcdhe (fun id => tryCipherSuite id (supportedList cfg h) v true ecdsaOk chachaOk rc4) (preferenceList cfg h) none
  else none

def mkParams (cfg : Config) (rule : Option Rule) (h : Hello) (v : Nat) (suite : Suite) (resume ex : Bool)
    (sess : Option Session) : Params :=
  let a := alpnChoice h (nextProtosOf cfg rule)
  { resume := resume, vers := v, suite := suite, alpn := (validateHttp2 a a suite v).1,
    clientProto := (validateHttp2 a a suite v).2, npn := npnChoice h (nextProtosOf cfg rule),
    clientAuth := clientAuthOf cfg rule, ecdheNoExt := ex, sess := sess }

def readClientHello (cfg : Config) (rule : Option Rule) (h : Hello) (lk : Lookups) : Except Alert Params :=
  match mutualVersion cfg h.vers with
  | none => .error .protocolVersion
  | some v0 =>
  match checkVersionGrade v0 (gradeOf rule) with
  | none => .error .protocolVersion
  | some v =>
  let rc4 := checkCipherGrade cfg (gradeOf rule) v
  let ellipticOk := supportedCurveOf cfg h && supportedPointOf h
  if !h.compression.contains compressionNone then .error .handshakeFailure
  else if !cfg.hasCert then .error .internalError
  else
  let ecdsaOk := cfg.certEcdsa
  let chachaOk := chachaOf rule
  match checkForResumption cfg h lk v (clientAuthOf cfg rule) ellipticOk ecdsaOk chachaOk rc4 with
  | some (suite, st) => .ok (mkParams cfg rule h v suite true false (some st))
  | none =>
  match firstPick cfg h v ellipticOk ecdsaOk chachaOk rc4 with
  | some suite =>
    if h.suites.contains fallbackSCSV && h.vers < scsvBound cfg then .error .inappropriateFallback
    else .ok (mkParams cfg rule h v suite false false none)
  | none =>
  match fallbackPick cfg h v ecdsaOk chachaOk rc4 with
  | none => .error .handshakeFailure
  | some suite =>
    if h.suites.contains fallbackSCSV && h.vers < scsvBound cfg then .error .inappropriateFallback
    else .ok (mkParams cfg rule h v suite false true none)

end BfeVerif.C44
