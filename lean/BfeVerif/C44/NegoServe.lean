import BfeVerif.C44.Nego
import BfeVerif.C44.NegoSelect
/-! (sed copy of the C41 file of the same name, namespace C44)
  C41 — end to end: the rule that governs a connection is looked up FROM INSIDE `readClientHello`
  (`config.ServerRule.Get(c)`), through the Conn, i.e. with whatever `c.serverName` holds at that moment.
  `serve` composes the production rule lookup (`getRule`, Select.lean) with `readClientHello` (Model.lean); the
  order of operations of the source — server name assigned before the lookups — enters as the extracted fact
  `serverNameSetBeforeLookups`.  Core-only.
-/
namespace BfeVerif.C44
open BfeVerif.Generated.C44

/-- the server name the lookups see through the Conn when `readClientHello` calls them -/
def nameSeenByLookups (sni : String) : String := if serverNameSetBeforeLookups then sni else ""

/-- `readClientHello` on a connection (VIP, hello with SNI) of a server whose `Config.ServerRule` is the rule table
    (TLSServerRuleMap always answers with a rule: the default one if nothing matches) -/
def serve (t : RuleTable Rule) (cfg : Config) (vip : Option String) (sni : String) (h : Hello) (lk : Lookups) :
    Except Alert Params :=
  readClientHello cfg (some (getRule t vip (nameSeenByLookups sni))) h lk

end BfeVerif.C44
