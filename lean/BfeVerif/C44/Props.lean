import BfeVerif.C44.Proofs
import BfeVerif.C44.NegoProps
import BfeVerif.C44.NegoServe
/-!
  C44 — session resumption cannot be forged or used to bypass policy.  Property theorems only.

  Cryptographic strength is a HYPOTHESIS here, never a result: `C44_authentic` assumes that a tag which verifies
  under the server's MAC key exists only on bodies that the holder of that key MACed (`Unforgeable`), which is
  what HMAC-SHA256 is believed to provide; secrecy of the master secret inside the ticket (AES-CTR) is not
  stated at all.  What IS proved: the code checks the tag over everything but the tag before it decrypts or
  parses anything, a ticket that verifies decrypts to exactly the state that was sealed, and the decision
  list of `checkForResumption` keeps the session's parameters and re-applies the current policy.
-/
namespace BfeVerif.C44
open BfeVerif.Generated.C44

/-- **The MAC is checked first.**  A ticket whose tag does not verify is refused whatever the decryption
    primitive and the parser would have made of it (`decryptTicket` never reaches them). -/
theorem C44_mac_first (C : Crypto) (key t : List UInt8) (h : macValid C key t = false) :
    decryptTicket C key t = none := by
  unfold decryptTicket
  split
  · rfl
  · simp [h]

/-- … and the verdict does not depend on the decryption primitive at all. -/
theorem C44_mac_first_indep (C C' : Crypto) (key t : List UInt8) (hh : C.hmac = C'.hmac)
    (h : macValid C key t = false) : decryptTicket C' key t = none := by
  apply C44_mac_first
  unfold macValid at h ⊢
  rw [← hh]; exact h

/-- Too short to hold an IV and a tag: refused. -/
theorem C44_short_refused (C : Crypto) (key t : List UInt8) (h : t.length < 48) : decryptTicket C key t = none := by
  unfold decryptTicket ivLen macLen
  simp [h]

/-- **A ticket this server sealed is honoured, with exactly the sealed state** (functional correctness;
    needs only: CTR with equal key and IV is an involution, tags are 32 bytes). -/
theorem C44_roundtrip {C : Crypto} (hl : Laws C) (key iv : List UInt8) (s : SessionState)
    (hiv : iv.length = 16) (hs : WF s) : decryptTicket C key (encryptTicket C key iv s) = some s :=
  decrypt_encrypt hl key iv s hiv hs

/-- The ideal-MAC hypothesis for one presented ticket `t`: if its tag verifies under the server's MAC key,
    then its body is one of the bodies the server MACed — and the server MACs only inside `encryptTicket`,
    i.e. the bodies of the tickets it `issued` (state, IV). -/
def Unforgeable (C : Crypto) (key : List UInt8) (issued : List (SessionState × List UInt8)) (t : List UInt8) : Prop :=
  macValid C key t = true → ∃ p ∈ issued, bodyOf t = ticketBody C key p.2 p.1

/-- **Authenticity (under the ideal-MAC hypothesis).**  Whatever byte string is presented — bit-flipped,
    truncated, extended, spliced, sealed under another key — if `decryptTicket` accepts it then it is, byte for
    byte, a ticket this server issued, and the state handed to the handshake is the state that was sealed. -/
theorem C44_authentic {C : Crypto} (hl : Laws C) (key : List UInt8) (issued : List (SessionState × List UInt8))
    (hissued : ∀ p ∈ issued, WF p.1 ∧ p.2.length = 16)
    (t : List UInt8) (hunf : Unforgeable C key issued t)
    {s : SessionState} (hd : decryptTicket C key t = some s) :
    ∃ p ∈ issued, t = encryptTicket C key p.2 p.1 ∧ s = p.1 := by
  have hv : macValid C key t = true := by
    cases hmv : macValid C key t with
    | true => rfl
    | false => rw [C44_mac_first C key t hmv] at hd; cases hd
  obtain ⟨p, hp, hbody⟩ := hunf hv
  have htag : tagOf t = C.hmac (key.drop 16) (bodyOf t) := by
    unfold macValid at hv; simpa using hv
  have ht : t = encryptTicket C key p.2 p.1 := by
    conv => lhs; rw [split_ticket t]
    unfold encryptTicket
    rw [htag, hbody]
  refine ⟨p, hp, ht, ?_⟩
  have hw := hissued p hp
  have := decrypt_encrypt hl key p.2 p.1 hw.2 hw.1
  rw [← ht, hd] at this
  exact Option.some.inj this

/-- Serialisation is injective on well-formed states: two different sessions never share a ticket body. -/
theorem C44_marshal_injective {s s' : SessionState} (h : WF s) (h' : WF s') (e : marshal s = marshal s') : s = s' := by
  have a := unmarshal_marshal s h
  have b := unmarshal_marshal s' h'
  rw [e, b] at a
  exact (Option.some.inj a).symm

/-- **A resumed connection keeps the session's parameters.**  If `readClientHello` decides to resume, then the
    session state it resumes is the one obtained from the presented ticket (by `decryptTicket`) or from the
    cache entry of the presented session id (never a mix), the connection's version and suite are that
    state's, the master secret installed by `doResumeHandshake` is that state's, and the client still offers
    and the server still enables that suite. -/
theorem C44_keeps_params {C : Crypto} {key : List UInt8} {cfg : Config} {rule : Option Rule} {h : Hello}
    {ticket : List UInt8} {entry : Option (List UInt8)} {r : Resumption}
    (hr : resume C key cfg rule h ticket entry = .ok r) (hres : r.params.resume = true) :
    ∃ st, r.state = some st ∧
      stateLookup cfg h (decryptTicket C key ticket) (entry.bind unmarshal) = some st ∧
      r.params.vers = st.vers ∧ r.params.suite.id = st.suite ∧ r.master = st.master ∧
      st.suite ∈ h.suites ∧ st.suite ∈ cfg.cipherSuites ∧ st.vers ≤ h.vers ∧
      st.vers ≤ cfg.maxVersion := by
  obtain ⟨hrch, hst, _⟩ := resume_ok hr
  obtain ⟨hstate, hmaster⟩ := hst hres
  obtain ⟨se, hse, hlk, hv, hs⟩ := nego_resume_keeps_version hrch hres
  rw [sessionLookup_map] at hlk
  cases hl : stateLookup cfg h (decryptTicket C key ticket) (entry.bind unmarshal) with
  | none => rw [hl] at hlk; cases hlk
  | some st =>
    rw [hl] at hlk hstate
    have hse' : se = toSession st := (Option.some.inj hlk).symm
    have hsu := nego_suite hrch
    have hvu := nego_version_upper hrch
    rw [hstate] at hmaster
    subst hse'
    refine ⟨st, hstate, rfl, hv.symm, hs.symm, hmaster, ?_, ?_, ?_, ?_⟩
    · have := hsu.1; rw [← hs] at this; exact this
    · have := hsu.2.1; rw [← hs] at this; exact this
    · have := hvu.2.1; rw [← hv] at this; exact this
    · have := hvu.1; rw [← hv] at this; exact this

/-- **Resumption never skips a client-certificate requirement.**  Under the client-auth policy in force for this
    connection (the rule's `ClientAuth` forces RequireAndVerifyClientCert), a session is resumed only if it
    carries client certificates when they are required, and carries none when the policy is NoClientCert. -/
theorem C44_client_cert {C : Crypto} {key : List UInt8} {cfg : Config} {rule : Option Rule} {h : Hello}
    {ticket : List UInt8} {entry : Option (List UInt8)} {r : Resumption}
    (hr : resume C key cfg rule h ticket entry = .ok r) (hres : r.params.resume = true) :
    ∃ st, r.state = some st ∧
      ((clientAuthOf cfg rule = requireAnyClientCert ∨ clientAuthOf cfg rule = requireAndVerifyClientCert) → st.certs ≠ []) ∧
      (clientAuthOf cfg rule = noClientCert → st.certs = []) := by
  obtain ⟨st, hstate, hlk, _⟩ := C44_keeps_params hr hres
  obtain ⟨hrch, _, _⟩ := resume_ok hr
  obtain ⟨v0, v, suite, hv0, hvg, ho⟩ := rch_ok hrch
  cases ho with
  | resumed se hc hp =>
    have c := checkForResumption_spec hc
    rw [sessionLookup_map, hlk] at c
    have hse : toSession st = se := Option.some.inj c.1
    have hcc := c.2.2.2.2
    rw [← hse] at hcc
    refine ⟨st, hstate, ?_, ?_⟩
    · intro hneed
      have := hcc.1 hneed
      simp only [toSession, Bool.not_eq_true', List.isEmpty_eq_false_iff] at this
      exact this
    · intro hno
      have := hcc.2 hno
      simpa [toSession] using this
  | full _ _ hp => rw [hp] at hres; cases hres
  | fullNoExt _ _ hp => rw [hp] at hres; cases hres

/-- **The resumed parameters satisfy the CURRENT configuration and rule**, not the ones in force when the session
    was issued: version within the current maximum and allowed by the current grade, suite acceptable under
    the current rule (chacha20 switch, RC4 policy of the current grade, certificate type, curves).
    (Full strength thanks to `resumeRequiresSameVersion`: before that fix the grade was applied to the hello's
    version while the connection ran with it too — but with the session's master secret of another version.) -/
theorem C44_policy {C : Crypto} {key : List UInt8} {cfg : Config} {rule : Option Rule} {h : Hello}
    {ticket : List UInt8} {entry : Option (List UInt8)} {r : Resumption}
    (hr : resume C key cfg rule h ticket entry = .ok r) (hres : r.params.resume = true) :
    ∃ st, r.state = some st ∧ GradeAllows (gradeOf rule) st.vers ∧
      (cfg.minVersion ≤ cfg.maxVersion → cfg.minVersion ≤ st.vers) ∧
      ∃ su, su.id = st.suite ∧ SuiteAcceptable cfg rule h st.vers su := by
  obtain ⟨st, hstate, _, hv, hs, _⟩ := C44_keeps_params hr hres
  obtain ⟨hrch, _, _⟩ := resume_ok hr
  have hvu := nego_version_upper hrch
  have hsu := nego_suite hrch
  refine ⟨st, hstate, ?_, ?_, r.params.suite, hs, ?_⟩
  · rw [← hv]; exact hvu.2.2
  · intro hwf; rw [← hv]; exact nego_version_lower_partial hwf hrch
  · rw [← hv]; exact hsu.2.2

/-- The pre-fix behaviour, kept as a checked fact about the source: the version test is the equality test. -/
theorem C44_fact_resume_same_version : resumeRequiresSameVersion = true := by decide

/-! ## Session-ID cache, stored client certificates, key replacement -/

/-- **Cache: what was stored is what is found, until it expires.**  After `Put` under (prefix, id) a `Get` of the same
    (prefix, id) returns exactly the stored bytes while the expiry has not elapsed, and nothing afterwards. -/
theorem C44_cache_get_put (c : List CacheEntry) (pfx id : String) (v : List UInt8) (now ttl now' : Nat) :
    cacheGet (cachePut c pfx id v now ttl) pfx id now' = if now' < now + ttl then some v else none := by
  unfold cacheGet cachePut
  simp

/-- **Cache isolation.**  A `Put` / deletion under another key (another session id, or another server's prefix)
    does not change what a `Get` returns. -/
theorem C44_cache_other_key (c : List CacheEntry) (pfx id pfx' id' : String) (v : List UInt8) (now ttl now' : Nat)
    (h : cacheKey pfx' id' ≠ cacheKey pfx id) :
    cacheGet (cachePut c pfx' id' v now ttl) pfx id now' = cacheGet c pfx id now' := by
  unfold cacheGet cachePut
  have h1 : (cacheKey pfx' id' == cacheKey pfx id) = false := beq_false_of_ne h
  simp only [List.find?_cons, h1]
  rw [List.find?_filter]
  have hf : (fun e : CacheEntry => decide ((e.key != cacheKey pfx' id') = true ∧ (e.key == cacheKey pfx id) = true)) =
      (fun e => e.key == cacheKey pfx id) := by
    funext e
    by_cases he : e.key = cacheKey pfx id
    · simp [he, Ne.symm h]
    · simp [he]
  rw [hf]

theorem C44_cache_deleted (c : List CacheEntry) (pfx id : String) (now : Nat) :
    cacheGet (cacheDel c (cacheKey pfx id)) pfx id now = none := by
  unfold cacheGet cacheDel
  rw [List.find?_filter]
  have hf : (fun e : CacheEntry => decide ((e.key != cacheKey pfx id) = true ∧ (e.key == cacheKey pfx id) = true)) =
      (fun _ => false) := by
    funext e
    by_cases he : e.key = cacheKey pfx id <;> simp [he]
  rw [hf, find?_never]

/-- **Stored client certificates are judged again, now.**  When a session that carries client certificates is resumed,
    `doResumeHandshake` succeeds only if the stored chain parses, is not revoked and has a usable key; and under a
    verifying policy (VerifyClientCertIfGiven, RequireAndVerifyClientCert — which a rule's ClientAuth forces) only if
    the chain verifies against the CA pool of the CURRENT connection and lists the ClientAuth usage.  A CA change
    between issue and resume therefore ends the resumed handshake with bad_certificate. -/
theorem C44_resume_reverifies {policy : Nat} {c : StoredCert} {v : Bool}
    (h : resumeCertStep policy (some c) = .ok v) :
    c.parses = true ∧ c.revoked = false ∧ c.keyOk = true ∧
    (verifyClientCertIfGiven ≤ policy → c.chainOk = true ∧ c.ekuListed = true ∧ v = true) := by
  unfold resumeCertStep at h
  simp only at h
  split at h; · cases h
  rename_i h1
  split at h; · cases h
  rename_i h2
  split at h; · cases h
  rename_i h3
  split at h; · cases h
  rename_i h4
  split at h; · cases h
  rename_i h5
  cases h
  refine ⟨by simpa using h1, by simpa using h2, by simpa using h5, ?_⟩
  intro hp
  have hd : decide (policy ≥ verifyClientCertIfGiven) = true := by simpa using hp
  refine ⟨?_, ?_, hd⟩
  · cases hco : c.chainOk with
    | true => rfl
    | false => exact absurd (by simp [hd, hco]) h3
  · cases hco : c.ekuListed with
    | true => rfl
    | false => exact absurd (by simp [hd, hco]) h4

/-- **One key; replacing it retires every ticket.**  A server accepts a ticket only if it is byte-for-byte one it
    sealed under its CURRENT key (ideal-MAC hypothesis, as in `C44_authentic`) … -/
theorem C44_rotation {C : Crypto} (hl : Laws C) (srv : TicketServer)
    (hissued : ∀ p ∈ srv.issued, WF p.1 ∧ p.2.length = 16)
    (t : List UInt8) (hunf : Unforgeable C srv.key srv.issued t) {s : SessionState}
    (hd : srv.accept C t = some s) : ∃ p ∈ srv.issued, t = encryptTicket C srv.key p.2 p.1 ∧ s = p.1 :=
  C44_authentic hl srv.key srv.issued hissued t hunf hd

/-- … so right after `UpdateSessionTicketKey` (nothing sealed under the new key yet) every presented ticket — in
    particular every ticket of the previous key — is refused: bfe has no list of old keys that are still accepted. -/
theorem C44_rotation_refuses_old (C : Crypto) (srv : TicketServer) (newKey t : List UInt8)
    (hunf : Unforgeable C newKey [] t) : (srv.rotate newKey).accept C t = none := by
  unfold TicketServer.accept TicketServer.rotate
  cases hmv : macValid C newKey t with
  | false => exact C44_mac_first C newKey t hmv
  | true =>
    obtain ⟨p, hp, _⟩ := hunf hmv
    cases hp

/-- issuing records the ticket: a freshly issued ticket is accepted by the same server (until the key is replaced) -/
theorem C44_issue_then_accept {C : Crypto} (hl : Laws C) (srv : TicketServer) (s : SessionState) (iv : List UInt8)
    (hiv : iv.length = 16) (hs : WF s) : ((srv.issue C s iv).1).accept C (srv.issue C s iv).2 = some s := by
  unfold TicketServer.issue TicketServer.accept
  exact decrypt_encrypt hl srv.key iv s hiv hs

example : resumeCertStep 4 (some ⟨true, false, false, true, true⟩) = .error 42 := rfl
example : resumeCertStep 4 (some ⟨true, false, true, true, true⟩) = .ok true := rfl
example : resumeCertStep 2 (some ⟨true, false, false, true, true⟩) = .ok false := rfl

/-! ## Issue side: what a full handshake stores, and histories issue → reconfigure → resume -/

theorem C44_fact_issue_negotiated :
    ticketStoresNegotiatedVersion = true ∧ cacheStoresNegotiatedVersion = true := by decide

/-- **The stored session is the negotiated one.**  The state a full handshake seals into its ticket / puts into the
    session cache carries the NEGOTIATED version and suite of that connection (not what the client offered), its
    master secret and the client's certificates. -/
theorem C44_issue_stores_negotiated (viaTicket : Bool) (helloVers : Nat) (p : Params) (m : List UInt8)
    (cs : List (List UInt8)) :
    issueState viaTicket helloVers p m cs = { vers := p.vers, suite := p.suite.id, master := m, certs := cs } := by
  unfold issueState issuedVersion
  rw [C44_fact_issue_negotiated.1, C44_fact_issue_negotiated.2]
  cases viaTicket <;> rfl

/-- **Issue, reconfigure, resume.**  A connection is negotiated by a full handshake (hello₁ under config₁ / rule₁) and its
    ticket is later presented in hello₂ to a server holding the same ticket key under ANY other config₂ / rule₂ (version
    range, suites, grade … changed).  If that server resumes, the resumed connection has the version, suite and master
    secret of the FIRST connection — whatever the client offered then or offers now. -/
theorem C44_issue_then_resume_keeps {C : Crypto} (hl : Laws C) (key iv : List UInt8) (hiv : iv.length = 16)
    {cfg₁ cfg₂ : Config} {rule₁ rule₂ : Option Rule} {h₁ h₂ : Hello} {lk₁ : Lookups} {p₁ : Params}
    (_hfull : readClientHello cfg₁ rule₁ h₁ lk₁ = .ok p₁)
    (m : List UInt8) (cs : List (List UInt8)) (hwf : WF (issueState true h₁.vers p₁ m cs))
    {r : Resumption}
    (hr : resume C key cfg₂ rule₂ h₂ (encryptTicket C key iv (issueState true h₁.vers p₁ m cs)) none = .ok r)
    (hres : r.params.resume = true) :
    r.params.vers = p₁.vers ∧ r.params.suite.id = p₁.suite.id ∧ r.master = m := by
  obtain ⟨st, _, hlk, hv, hs, hm, _⟩ := C44_keeps_params hr hres
  have hdec := decrypt_encrypt hl key iv (issueState true h₁.vers p₁ m cs) hiv hwf
  rw [hdec] at hlk
  have hst : some (issueState true h₁.vers p₁ m cs) = some st := stateLookup_no_cache hlk
  have hst' : st = issueState true h₁.vers p₁ m cs := (Option.some.inj hst).symm
  rw [C44_issue_stores_negotiated] at hst'
  subst hst'
  exact ⟨hv, hs, hm⟩

/-! ## Resumption on a connection that presents another SNI -/

/-- **The policy that a resumption must meet is the one of the SNI (and VIP) presented NOW.**  With the production rule map
    as `Config.ServerRule`, a session — wherever and under whichever server name it was issued — is resumed on a connection
    presenting `sni` only if its version is allowed by the grade of the rule configured for `sni`, and, when that rule
    demands client certificates, only if the session carries them. -/
theorem C44_resume_under_presented_sni (t : RuleTable Rule) (cfg : Config) (vip : Option String) (sni : String)
    (h : Hello) (lk : Lookups) (p : Params)
    (hs : serve t cfg vip sni h lk = .ok p) (hres : p.resume = true) :
    GradeAllows (getRule t vip sni).grade p.vers ∧
    ((getRule t vip sni).clientAuth = true → ∃ st, p.sess = some st ∧ st.hasCerts = true) := by
  have hf : serverNameSetBeforeLookups = true := by decide
  have hr : readClientHello cfg (some (getRule t vip sni)) h lk = .ok p := by
    unfold serve nameSeenByLookups at hs; rw [hf] at hs; exact hs
  refine ⟨(nego_version_upper hr).2.2, ?_⟩
  intro hca
  obtain ⟨v0, v, suite, _, _, ho⟩ := rch_ok hr
  cases ho with
  | resumed st hc hp =>
    have c := checkForResumption_spec hc
    have hcc := c.2.2.2.2
    have hpol : clientAuthOf cfg (some (getRule t vip sni)) = requireAndVerifyClientCert := by
      unfold clientAuthOf; simp [hca]
    rw [hpol] at hcc
    exact ⟨st, by rw [hp]; rfl, hcc.1 (Or.inr rfl)⟩
  | full _ _ hp => rw [hp] at hres; cases hres
  | fullNoExt _ _ hp => rw [hp] at hres; cases hres

/-! Non-vacuity: a concrete history that resumes, and the forms of refusal. -/
def xorC (ks : List UInt8) : Crypto :=
  { ctr := fun _ _ d => (d.zip (ks ++ List.replicate d.length 0)).map fun p => p.1 ^^^ p.2,
    hmac := fun _ m => List.replicate 31 0 ++ [m.foldl (· + ·) 0] }   -- a toy checksum, only to run the definitions

def wState : SessionState := { vers := 0x0303, suite := 0x002f, master := [1, 2, 3], certs := [] }
def wKey : List UInt8 := List.replicate 32 7
def wIv : List UInt8 := List.replicate 16 9
def wTicket : List UInt8 := encryptTicket (xorC [5, 6, 7]) wKey wIv wState

example : WF wState := ⟨by decide, by decide, by decide, by decide, by intro c hc; cases hc⟩
example : decryptTicket (xorC [5, 6, 7]) wKey wTicket = some wState := by decide
example : decryptTicket (xorC [5, 6, 7]) wKey (wTicket.dropLast) = none := by decide
example : decryptTicket (xorC [5, 6, 7]) wKey (wTicket.set 16 0) = none := by decide
example : decryptTicket (xorC [5, 6, 7]) wKey (wTicket.set (wTicket.length - 1) 0) = none := by decide
example : (resume (xorC [5, 6, 7]) wKey wCfg none
      { wHello with ticketSupported := true, ticketPresent := true } wTicket none).toOption.map
      (fun r => (r.params.resume, r.params.vers, r.params.suite.id, r.master)) = some (true, 0x0303, 0x002f, [1, 2, 3]) := by decide
example : (resume (xorC [5, 6, 7]) wKey wCfg (some ⟨"C", true, false, []⟩)
      { wHello with ticketSupported := true, ticketPresent := true } wTicket none).toOption.map
      (fun r => r.params.resume) = some false := by decide

end BfeVerif.C44
