import BfeVerif.C44.Driver
def main : IO Unit := BfeVerif.Proto.driverMain BfeVerif.C44.run
