import BfeVerif.C44.Nego
/-!
  C44 — model of session tickets and of the resumption decision.

  * `marshal` / `unmarshal`: `(*sessionState).marshal/unmarshal` of bfe_tls/ticket.go, byte for byte
    (16-bit length of the master secret and of the certificate count, 32-bit certificate lengths, the
    "at least 8 bytes" test, "no trailing bytes" at the end).
  * `encryptTicket` / `decryptTicket`: `(*Conn).encryptTicket/decryptTicket` with the two primitives abstract:
    `ctr key iv data` = AES-128-CTR keystream XOR, `hmac key msg` = HMAC-SHA256.  `SessionTicketKey[:16]` is the
    CTR key, `SessionTicketKey[16:32]` the MAC key; layout  iv(16) ‖ ctr(marshal state) ‖ hmac(iv ‖ ciphertext)(32).
    The MAC is verified over everything but the tag, BEFORE anything is decrypted or parsed.
  * `resume`: `readClientHello` (Nego.lean, the negotiation model shared with C41) fed with the results of
    `decryptTicket` on the presented ticket and of `unmarshal` on the session-cache entry, returning the
    full session state whose master secret `doResumeHandshake` installs.

  Core-only.
-/
namespace BfeVerif.C44

structure SessionState where
  vers : Nat
  suite : Nat
  master : List UInt8
  certs : List (List UInt8)
deriving DecidableEq, Repr

def byteOf (n : Nat) : UInt8 := UInt8.ofNat n      -- Go `byte(x)`: truncation

def be16 (a b : UInt8) : Nat := a.toNat * 256 + b.toNat
def be32 (a b c d : UInt8) : Nat := a.toNat * 16777216 + b.toNat * 65536 + c.toNat * 256 + d.toNat

def marshalCerts : List (List UInt8) → List UInt8
  | [] => []
  | c :: rest =>
    [byteOf (c.length / 16777216), byteOf (c.length / 65536), byteOf (c.length / 256), byteOf c.length] ++ c ++
      marshalCerts rest

def marshal (s : SessionState) : List UInt8 :=
  [byteOf (s.vers / 256), byteOf s.vers, byteOf (s.suite / 256), byteOf s.suite,
   byteOf (s.master.length / 256), byteOf s.master.length] ++ s.master ++
  [byteOf (s.certs.length / 256), byteOf s.certs.length] ++ marshalCerts s.certs

/-- the certificate loop of `unmarshal`: `n` entries, returns them and the unread rest -/
def readCerts : Nat → List UInt8 → Option (List (List UInt8) × List UInt8)
  | 0, d => some ([], d)
  | n + 1, b0 :: b1 :: b2 :: b3 :: rest =>
    let l := be32 b0 b1 b2 b3
    if rest.length < l then none
    else
      match readCerts n (rest.drop l) with
      | some (cs, r) => some (rest.take l :: cs, r)
      | none => none
  | _ + 1, _ => none

def unmarshal (data : List UInt8) : Option SessionState :=
  if data.length < 8 then none
  else
    match data with
    | v0 :: v1 :: s0 :: s1 :: m0 :: m1 :: rest =>
      let ml := be16 m0 m1
      if rest.length < ml then none
      else
        match rest.drop ml with
        | n0 :: n1 :: rest2 =>
          match readCerts (be16 n0 n1) rest2 with
          | some (cs, []) => some { vers := be16 v0 v1, suite := be16 s0 s1, master := rest.take ml, certs := cs }
          | _ => none
        | _ => none
    | _ => none

/-- the two primitives the ticket code calls -/
structure Crypto where
  ctr : List UInt8 → List UInt8 → List UInt8 → List UInt8     -- key, iv, data
  hmac : List UInt8 → List UInt8 → List UInt8                 -- key, message

def ivLen : Nat := 16      -- aes.BlockSize
def macLen : Nat := 32     -- sha256.Size

def ticketBody (C : Crypto) (key iv : List UInt8) (s : SessionState) : List UInt8 :=
  iv ++ C.ctr (key.take 16) iv (marshal s)

def encryptTicket (C : Crypto) (key iv : List UInt8) (s : SessionState) : List UInt8 :=
  ticketBody C key iv s ++ C.hmac (key.drop 16) (ticketBody C key iv s)

def bodyOf (t : List UInt8) : List UInt8 := t.take (t.length - macLen)
def tagOf (t : List UInt8) : List UInt8 := t.drop (t.length - macLen)

/-- `subtle.ConstantTimeCompare(macBytes, expected) == 1` -/
def macValid (C : Crypto) (key t : List UInt8) : Bool := tagOf t == C.hmac (key.drop 16) (bodyOf t)

def decryptTicket (C : Crypto) (key t : List UInt8) : Option SessionState :=
  if t.length < ivLen + macLen then none
  else if !macValid C key t then none
  else unmarshal (C.ctr (key.take 16) (t.take ivLen) ((bodyOf t).drop ivLen))

def toSession (s : SessionState) : Session := { vers := s.vers, suite := s.suite, hasCerts := !s.certs.isEmpty }

/-- which full session state `checkForResumption` ends up with (same selection as `sessionLookup`) -/
def stateLookup (cfg : Config) (h : Hello) (fromTicket fromCache : Option SessionState) : Option SessionState :=
  if !cfg.ticketsDisabled && h.ticketSupported && h.ticketPresent then fromTicket
  else if !h.sessionIdPresent then none
  else if cfg.cacheEnabled then fromCache else none

structure Resumption where
  params : Params
  state : Option SessionState      -- `hs.sessionState` when resuming
  master : List UInt8              -- what `doResumeHandshake` assigns to `hs.masterSecret` ([] when not resuming)
deriving Repr

/-- `readClientHello` + `doResumeHandshake`'s choice of master secret, from the raw ticket / cache entry -/
def resume (C : Crypto) (key : List UInt8) (cfg : Config) (rule : Option Rule) (h : Hello)
    (ticket : List UInt8) (cacheEntry : Option (List UInt8)) : Except Alert Resumption :=
  let ft := decryptTicket C key ticket
  let fc := cacheEntry.bind unmarshal
  match readClientHello cfg rule h { ticket := ft.map toSession, cache := fc.map toSession } with
  | .error a => .error a
  | .ok p =>
    if p.resume then
      let st := stateLookup cfg h ft fc
      .ok { params := p, state := st, master := match st with | some s => s.master | none => [] }
    else .ok { params := p, state := none, master := [] }

/-! ### what a full handshake stores for later resumption (`sendSessionTicket`, and the cache `Put` at the end of
    `serverHandshake`): version, suite, master secret and client certificates of the connection just established -/

/-- the `vers` field of the stored state, in whichever form the source has it (`viaTicket`: ticket, else cache entry) -/
def issuedVersion (viaTicket : Bool) (helloVers negotiated : Nat) : Nat :=
  if viaTicket then (if Generated.C44.ticketStoresNegotiatedVersion then negotiated else helloVers)
  else (if Generated.C44.cacheStoresNegotiatedVersion then negotiated else helloVers)

def issueState (viaTicket : Bool) (helloVers : Nat) (p : Params) (master : List UInt8) (certs : List (List UInt8)) :
    SessionState :=
  { vers := issuedVersion viaTicket helloVers p.vers, suite := p.suite.id, master := master, certs := certs }

/-! ### session-ID cache: `bfe_server.ServerSessionCache` (redis: `SET key value` + `EXPIRE key SessionExpire`, `GET key`)

  One store may be shared by several servers; each prepends its own `KeyPrefix`.  Time is a logical clock in
  seconds; redis drops a key when its expiry has elapsed. -/

structure CacheEntry where
  key : String
  value : List UInt8
  expiresAt : Nat
deriving Repr

def cacheKey (keyPrefix sessionKey : String) : String := keyPrefix ++ ":" ++ sessionKey

/-- `Put`: SET then EXPIRE -/
def cachePut (c : List CacheEntry) (keyPrefix sessionKey : String) (v : List UInt8) (now ttl : Nat) : List CacheEntry :=
  { key := cacheKey keyPrefix sessionKey, value := v, expiresAt := now + ttl } ::
    c.filter fun e => e.key != cacheKey keyPrefix sessionKey

/-- `Get` -/
def cacheGet (c : List CacheEntry) (keyPrefix sessionKey : String) (now : Nat) : Option (List UInt8) :=
  match c.find? fun e => e.key == cacheKey keyPrefix sessionKey with
  | some e => if now < e.expiresAt then some e.value else none
  | none => none

/-- eviction / deletion of one key -/
def cacheDel (c : List CacheEntry) (key : String) : List CacheEntry := c.filter fun e => e.key != key

/-! ### stored client certificates on resumption (`doResumeHandshake` → `processCertsFromClient`) -/

/-- what the checks can tell about the chain stored in the session, judged NOW: `chainOk` is x509 Verify against the
    CA pool of the current connection (the current rule's ClientCAs, else the Config's) -/
structure StoredCert where
  parses : Bool
  revoked : Bool
  chainOk : Bool
  ekuListed : Bool
  keyOk : Bool
deriving DecidableEq, Repr

/-- error = alert number; ok b: b = the chain was verified (conn.verifiedChains set) -/
def resumeCertStep (policy : Nat) (stored : Option StoredCert) : Except Nat Bool :=
  match stored with
  | none => .ok false
  | some c =>
    if !c.parses then .error 42
    else if c.revoked then .error 44
    else if policy ≥ Generated.C44.verifyClientCertIfGiven && !c.chainOk then .error 42
    else if policy ≥ Generated.C44.verifyClientCertIfGiven && !c.ekuListed then .error 40
    else if !c.keyOk then .error 43
    else .ok (decide (policy ≥ Generated.C44.verifyClientCertIfGiven))

/-! ### the one ticket key of a server and its replacement (`HttpsListener.UpdateSessionTicketKey`) -/

/-- bfe keeps exactly ONE ticket key (`Config.SessionTicketKey`); a reload replaces it — there is no ring of old keys -/
structure TicketServer where
  key : List UInt8
  issued : List (SessionState × List UInt8)      -- (state, iv) sealed under the CURRENT key

def TicketServer.issue (C : Crypto) (srv : TicketServer) (s : SessionState) (iv : List UInt8) : TicketServer × List UInt8 :=
  ({ srv with issued := (s, iv) :: srv.issued }, encryptTicket C srv.key iv s)

def TicketServer.rotate (_srv : TicketServer) (newKey : List UInt8) : TicketServer := { key := newKey, issued := [] }

def TicketServer.accept (C : Crypto) (srv : TicketServer) (t : List UInt8) : Option SessionState := decryptTicket C srv.key t

end BfeVerif.C44
