import BfeVerif.Common.Proto
import BfeVerif.C44.Model
import BfeVerif.C44.NegoIO
/-!
  C44 driver.  Ops (space separated fields; byte strings in hex, `-` = empty):

  `um <data>`                                   unmarshal of arbitrary bytes      → `rej` | `<state>`
  `tk <key1> <iv> <state> <ks1> <mac1> <key2> <pres> <ks2> <mac2> <T2> <state2>`
        issue a ticket for <state> under key1 (iv from the config's Rand), then present <pres> to a server
        holding key2 (T2 = a second ticket the key1 server issued, for <state2>).  ks*/mac* are the values of the abstract primitives on exactly the arguments the code
        passes (AES-CTR keystream for (key[:16], iv), HMAC-SHA256 tag of the body under key[16:]), computed by
        the harness with Go's std crypto.                                          → `T=<ticket> D=<state>|rej`
  `res <cfg1:13> <hello1:7> <ncerts> <T1> <via> <key2> <pres> <ks2> <mac2> <cfg2:13> <hello2:7>`
        a history: full negotiation of hello1 under cfg1/rule1, session issued as ticket T1 (key1, zero iv) or
        stored in the cache, then hello2 presenting <pres> (ticket, or the cache entry when via=sid) under
        cfg2/rule2/key2.                                    → `<nego1> | t1=ok | <nego2> ms=<1|0|->`

  <state> = `vers:suite:master:certs`, certs = `n` or `/`-separated byte strings.
-/
namespace BfeVerif.C44
open BfeVerif.Proto BfeVerif.Generated.C44

def renderState (s : SessionState) : String :=
  hex4 s.vers ++ ":" ++ hex4 s.suite ++ ":" ++ hexField s.master ++ ":" ++
  (if s.certs.isEmpty then "n" else "/".intercalate (s.certs.map hexField))

def parseState (s : String) : Option SessionState :=
  match s.splitOn ":" with
  | [v, su, m, cs] => do
    let v ← parseHex v
    let su ← parseHex su
    let m ← bytesOfHex m
    let cs ← if cs == "n" then some [] else (cs.splitOn "/").mapM bytesOfHex
    pure { vers := v, suite := su, master := m, certs := cs }
  | _ => none

def xorBytes : List UInt8 → List UInt8 → List UInt8
  | [], _ => []
  | d :: ds, [] => d :: xorBytes ds []
  | d :: ds, k :: ks => (d ^^^ k) :: xorBytes ds ks

/-- the primitives, with their values on the one call each that the case makes -/
def oracleCrypto (ks mac : List UInt8) : Crypto := { ctr := fun _ _ d => xorBytes d ks, hmac := fun _ _ => mac }

def master48 : List UInt8 := (List.range 48).map fun i => UInt8.ofNat (0xa0 + i)
def certsN (n : Nat) : List (List UInt8) := (List.range n).map fun i => [0x30, UInt8.ofNat i]
def key1 : List UInt8 := (List.range 32).map fun i => UInt8.ofNat (i + 1)

/-- position class of the first difference between the presented and the issued ticket -/
def diffClass (pres t : List UInt8) (sameKey : Bool) : String :=
  if !sameKey then "foreignkey"
  else if pres == t then "valid"
  else if pres.length < ivLen + macLen then "short"
  else if pres.length < t.length then "trunc"
  else if pres.length > t.length then "ext"
  else
    let i := ((pres.zip t).takeWhile fun p => p.1 == p.2).length
    if i < ivLen then "mut-iv"
    else if i ≥ t.length - macLen then "mut-mac"
    else if i < ivLen + 6 then "mut-head"
    else "mut-ct"

def runUm (hx impl : String) : Ans :=
  match bytesOfHex hx with
  | none => { model := "bad-op", verdict := "skip" }
  | some d =>
    let m := match unmarshal d with | some s => renderState s | none => "rej"
    -- spec: an accepted byte string is exactly the canonical serialisation of the state it is parsed to
    let verdict :=
      if impl == "rej" then "ok"
      else match parseState impl with
        | some s => if marshal s == d then "ok" else "FAIL:unmarshal-noncanonical"
        | none => "FAIL:unparsable-result"
    { model := m, verdict := verdict,
      tags := [if m == "rej" then "um-rej" else "um-ok"] ++ (if d.length ≥ 8 then ["nt"] else []) }

def runTk (f : List String) (impl : String) : Ans :=
  match f with
  | [k1, iv, st, ks1, mac1, k2, pres, ks2, mac2, t2, st2] =>
    match bytesOfHex k1, bytesOfHex iv, parseState st, bytesOfHex ks1, bytesOfHex mac1, bytesOfHex k2,
          bytesOfHex pres, bytesOfHex ks2, bytesOfHex mac2, bytesOfHex t2, parseState st2 with
    | some k1, some iv, some st, some ks1, some mac1, some k2, some pres, some ks2, some mac2, some t2, some st2 =>
      let t := encryptTicket (oracleCrypto ks1 mac1) k1 iv st
      let d := decryptTicket (oracleCrypto ks2 mac2) k2 pres
      let m := "T=" ++ hexField t ++ " D=" ++ (match d with | some s => renderState s | none => "rej")
      let cls := if pres == t2 && k1 == k2 then "valid-other" else diffClass pres t (k1 == k2)
      -- spec, on the implementation's own answer
      let verdict :=
        match (field impl "T").bind bytesOfHex, field impl "D" with
        | some it, some idec =>
          if it.take ivLen != iv || it.length != ivLen + (marshal st).length + macLen then "FAIL:ticket-shape"
          else if idec == "rej" then
            (if pres == it && k1 == k2 then "FAIL:valid-refused" else "ok")
          else if k1 != k2 then "FAIL:foreign-key-accepted"
          else if pres == t2 then (if idec == renderState st2 then "ok" else "FAIL:state-changed")
          else if pres != it then "FAIL:forged-accepted-" ++ diffClass pres it true
          else if idec != renderState st then "FAIL:state-changed"
          else "ok"
        | _, _ => "FAIL:unparsable-result"
      { model := m, verdict := verdict, tags := ["tk-" ++ cls] ++ (if pres.length ≥ ivLen + macLen then ["nt"] else []) }
    | _, _, _, _, _, _, _, _, _, _, _ => { model := "bad-op", verdict := "skip" }
  | _ => { model := "bad-op", verdict := "skip" }

def mkCase (cfg hello : List String) : Option Case :=
  parseCase (" ".intercalate (["rch"] ++ cfg ++ hello ++ ["-", "-"]))

def renderRes (r : Except Alert Resumption) : String :=
  match r with
  | .error a => render (.error a) ++ " ms=-"
  | .ok x => render (.ok x.params) ++ " ms=" ++
      (if x.params.resume then (if x.master == master48 then "1" else "0") else "-")

def classIgnoredHere (cls : String) : Bool :=
  cls.startsWith "scsv" || cls.startsWith "alpn" || cls == "version-range-inverted"

def runRes (f : List String) (impl : String) : Ans :=
  if f.length != 47 then { model := "bad-op", verdict := "skip" } else
  let cfg1 := f.take 13
  let hello1 := (f.drop 13).take 7
  let rest := f.drop 20
  let cfg2 := (rest.drop 7).take 13
  let hello2 := (rest.drop 20).take 7
  match mkCase cfg1 hello1, mkCase cfg2 hello2, (rest.getD 0 "").toNat?, bytesOfHex (rest.getD 1 ""),
        bytesOfHex (rest.getD 3 ""), bytesOfHex (rest.getD 4 ""), bytesOfHex (rest.getD 5 ""), bytesOfHex (rest.getD 6 "") with
  | some c1, some c2, some ncerts, some t1, some k2, some pres, some ks2, some mac2 =>
    let via := rest.getD 2 ""
    let r1 := readClientHello c1.cfg c1.rule c1.hello c1.lk
    match r1 with
    | .error _ => { model := render r1 ++ " | t1=- | -", verdict := "skip", tags := ["res-first-refused"] }
    | .ok p1 =>
      let st : SessionState := { vers := p1.vers, suite := p1.suite.id, master := master48, certs := certsN ncerts }
      let viaTk := via == "tk"
      let h2 : Hello := { c2.hello with
        ticketPresent := viaTk && c2.hello.ticketSupported && !pres.isEmpty,
        sessionIdPresent := !viaTk }
      let C := oracleCrypto ks2 mac2
      let r2 := resume C k2 c2.cfg c2.rule h2 (if viaTk then pres else []) (if viaTk || pres.isEmpty then none else some pres)
      let m := render r1 ++ " | t1=ok | " ++ renderRes r2
      -- spec oracle on the implementation's third part
      let parts := impl.splitOn " | "
      let second := parts.getD 2 ""
      let legit := if viaTk then (pres == t1 && k2 == key1) else pres == marshal st
      let ca2 := clientAuthOf c2.cfg c2.rule
      let verdict :=
        if parts.getD 1 "" != "t1=ok" then "FAIL:issued-ticket-differs"
        else if !second.startsWith "ok " then "ok"
        else if field second "r" != some "1" then (if field second "ms" == some "-" then "ok" else "FAIL:master-without-resume")
        else if !legit && viaTk && k2 != key1 then "FAIL:foreign-key-resumed"
        else if !legit then "FAIL:forged-resumed"
        else
          match (field second "v").bind parseHex, (field second "s").bind parseHex with
          | some v, some s =>
            if v != st.vers || s != st.suite then "FAIL:resumed-params-changed"
            else if field second "ms" != some "1" then "FAIL:resumed-master-changed"
            else if (ca2 == requireAnyClientCert || ca2 == requireAndVerifyClientCert) && ncerts == 0 then "FAIL:client-cert-skipped"
            else if ca2 == noClientCert && ncerts != 0 then "FAIL:client-cert-leftover"
            else match oracleOk { c2 with hello := h2 } v s "-" true with
              | some cls => if classIgnoredHere cls then "ok" else "FAIL:resumed-" ++ cls
              | none => "ok"
          | _, _ => "FAIL:unparsable-result"
      let kind := match r2 with
        | .error _ => "res-alert"
        | .ok x => if x.params.resume then "res-resumed" else "res-full"
      let g1 := gradeOf c1.rule
      let g2 := gradeOf c2.rule
      { model := m, verdict := verdict,
        tags := [kind, if viaTk then "via-tk" else "via-sid",
                 "pres-" ++ (if viaTk then diffClass pres t1 (k2 == key1) else if pres == marshal st then "valid" else if pres.isEmpty then "absent" else "mut")] ++
                (if g1 != g2 then ["grade-changed"] else []) ++
                (if clientAuthOf c1.cfg c1.rule != ca2 then ["clientauth-changed"] else []) ++
                (if c1.cfg.cipherSuites != c2.cfg.cipherSuites then ["suites-changed"] else []) ++
                (if ncerts != 0 then ["has-certs"] else []) ++ ["nt"] }
  | _, _, _, _, _, _, _, _ => { model := "bad-op", verdict := "skip" }

def run (op impl : String) : Ans :=
  match op.splitOn " " with
  | ["um", hx] => runUm hx impl
  | "tk" :: f => runTk f impl
  | "res" :: f => runRes f impl
  | _ => { model := "bad-op", verdict := "skip" }

end BfeVerif.C44
