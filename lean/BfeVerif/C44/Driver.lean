import BfeVerif.Common.Proto
import BfeVerif.C44.Model
import BfeVerif.C44.NegoIO
import BfeVerif.C44.NegoServe
/-!
  C44 driver.  Ops (space separated fields; byte strings in hex, `-` = empty):

  `um <data>`                                   unmarshal of arbitrary bytes      → `rej` | `<state>`
  `tk <key1> <iv> <state> <ks1> <mac1> <key2> <pres> <ks2> <mac2> <T2> <state2>`
        issue a ticket for <state> under key1 (iv from the config's Rand), then present <pres> to a server
        holding key2 (T2 = a second ticket the key1 server issued, for <state2>).  ks*/mac* are the values of the abstract primitives on exactly the arguments the code
        passes (AES-CTR keystream for (key[:16], iv), HMAC-SHA256 tag of the body under key[16:]), computed by
        the harness with Go's std crypto.                                          → `T=<ticket> D=<state>|rej`
  `res <cfg1:13> <hello1:7> <ncerts> <T1> <via> <key2> <pres> <ks2> <mac2> <cfg2:13> <hello2:7>`
        a history: full negotiation of hello1 under cfg1/rule1, session issued as ticket T1 (key1, zero iv) or
        stored in the cache, then hello2 presenting <pres> (ticket, or the cache entry when via=sid) under
        cfg2/rule2/key2.                                    → `<nego1> | t1=ok | <nego2> ms=<1|0|->`

  <state> = `vers:suite:master:certs`, certs = `n` or `/`-separated byte strings.
-/
namespace BfeVerif.C44
open BfeVerif.Proto BfeVerif.Generated.C44

def renderState (s : SessionState) : String :=
  hex4 s.vers ++ ":" ++ hex4 s.suite ++ ":" ++ hexField s.master ++ ":" ++
  (if s.certs.isEmpty then "n" else "/".intercalate (s.certs.map hexField))

def parseState (s : String) : Option SessionState :=
  match s.splitOn ":" with
  | [v, su, m, cs] => do
    let v ← parseHex v
    let su ← parseHex su
    let m ← bytesOfHex m
    let cs ← if cs == "n" then some [] else (cs.splitOn "/").mapM bytesOfHex
    pure { vers := v, suite := su, master := m, certs := cs }
  | _ => none

def xorBytes : List UInt8 → List UInt8 → List UInt8
  | [], _ => []
  | d :: ds, [] => d :: xorBytes ds []
  | d :: ds, k :: ks => (d ^^^ k) :: xorBytes ds ks

/-- the primitives, with their values on the one call each that the case makes -/
def oracleCrypto (ks mac : List UInt8) : Crypto := { ctr := fun _ _ d => xorBytes d ks, hmac := fun _ _ => mac }

def master48 : List UInt8 := (List.range 48).map fun i => UInt8.ofNat (0xa0 + i)
def certsN (n : Nat) : List (List UInt8) := (List.range n).map fun i => [0x30, UInt8.ofNat i]
def key1 : List UInt8 := (List.range 32).map fun i => UInt8.ofNat (i + 1)

/-- position class of the first difference between the presented and the issued ticket -/
def diffClass (pres t : List UInt8) (sameKey : Bool) : String :=
  if !sameKey then "foreignkey"
  else if pres == t then "valid"
  else if pres.length < ivLen + macLen then "short"
  else if pres.length < t.length then "trunc"
  else if pres.length > t.length then "ext"
  else
    let i := ((pres.zip t).takeWhile fun p => p.1 == p.2).length
    if i < ivLen then "mut-iv"
    else if i ≥ t.length - macLen then "mut-mac"
    else if i < ivLen + 6 then "mut-head"
    else "mut-ct"

def runUm (hx impl : String) : Ans :=
  match bytesOfHex hx with
  | none => { model := "bad-op", verdict := "skip" }
  | some d =>
    let m := match unmarshal d with | some s => renderState s | none => "rej"
    -- spec: an accepted byte string is exactly the canonical serialisation of the state it is parsed to
    let verdict :=
      if impl == "rej" then "ok"
      else match parseState impl with
        | some s => if marshal s == d then "ok" else "FAIL:unmarshal-noncanonical"
        | none => "FAIL:unparsable-result"
    { model := m, verdict := verdict,
      tags := [if m == "rej" then "um-rej" else "um-ok"] ++ (if d.length ≥ 8 then ["nt"] else []) }

def runTk (f : List String) (impl : String) : Ans :=
  match f with
  | [k1, iv, st, ks1, mac1, k2, pres, ks2, mac2, t2, st2] =>
    match bytesOfHex k1, bytesOfHex iv, parseState st, bytesOfHex ks1, bytesOfHex mac1, bytesOfHex k2,
          bytesOfHex pres, bytesOfHex ks2, bytesOfHex mac2, bytesOfHex t2, parseState st2 with
    | some k1, some iv, some st, some ks1, some mac1, some k2, some pres, some ks2, some mac2, some t2, some st2 =>
      let t := encryptTicket (oracleCrypto ks1 mac1) k1 iv st
      let d := decryptTicket (oracleCrypto ks2 mac2) k2 pres
      let m := "T=" ++ hexField t ++ " D=" ++ (match d with | some s => renderState s | none => "rej")
      let cls := if pres == t2 && k1 == k2 then "valid-other" else diffClass pres t (k1 == k2)
      -- spec, on the implementation's own answer
      let verdict :=
        match (field impl "T").bind bytesOfHex, field impl "D" with
        | some it, some idec =>
          if it.take ivLen != iv || it.length != ivLen + (marshal st).length + macLen then "FAIL:ticket-shape"
          else if idec == "rej" then
            (if pres == it && k1 == k2 then "FAIL:valid-refused" else "ok")
          else if k1 != k2 then "FAIL:foreign-key-accepted"
          else if pres == t2 then (if idec == renderState st2 then "ok" else "FAIL:state-changed")
          else if pres != it then "FAIL:forged-accepted-" ++ diffClass pres it true
          else if idec != renderState st then "FAIL:state-changed"
          else "ok"
        | _, _ => "FAIL:unparsable-result"
      { model := m, verdict := verdict, tags := ["tk-" ++ cls] ++ (if pres.length ≥ ivLen + macLen then ["nt"] else []) }
    | _, _, _, _, _, _, _, _, _, _, _ => { model := "bad-op", verdict := "skip" }
  | _ => { model := "bad-op", verdict := "skip" }

def mkCase (cfg hello : List String) : Option Case :=
  parseCase (" ".intercalate (["rch"] ++ cfg ++ hello ++ ["-", "-"]))

def renderRes (r : Except Alert Resumption) : String :=
  match r with
  | .error a => render (.error a) ++ " ms=-"
  | .ok x => render (.ok x.params) ++ " ms=" ++
      (if x.params.resume then (if x.master == master48 then "1" else "0") else "-")

def classIgnoredHere (cls : String) : Bool :=
  cls.startsWith "scsv" || cls.startsWith "alpn" || cls == "version-range-inverted"

def runRes (f : List String) (impl : String) : Ans :=
  if f.length != 47 then { model := "bad-op", verdict := "skip" } else
  let cfg1 := f.take 13
  let hello1 := (f.drop 13).take 7
  let rest := f.drop 20
  let cfg2 := (rest.drop 7).take 13
  let hello2 := (rest.drop 20).take 7
  match mkCase cfg1 hello1, mkCase cfg2 hello2, (rest.getD 0 "").toNat?, bytesOfHex (rest.getD 1 ""),
        bytesOfHex (rest.getD 3 ""), bytesOfHex (rest.getD 4 ""), bytesOfHex (rest.getD 5 ""), bytesOfHex (rest.getD 6 "") with
  | some c1, some c2, some ncerts, some t1, some k2, some pres, some ks2, some mac2 =>
    let via := rest.getD 2 ""
    let r1 := readClientHello c1.cfg c1.rule c1.hello c1.lk
    match r1 with
    | .error _ => { model := render r1 ++ " | t1=- | -", verdict := "skip", tags := ["res-first-refused"] }
    | .ok p1 =>
      let st : SessionState := { vers := p1.vers, suite := p1.suite.id, master := master48, certs := certsN ncerts }
      let viaTk := via == "tk"
      let h2 : Hello := { c2.hello with
        ticketPresent := viaTk && c2.hello.ticketSupported && !pres.isEmpty,
        sessionIdPresent := !viaTk }
      let C := oracleCrypto ks2 mac2
      let r2 := resume C k2 c2.cfg c2.rule h2 (if viaTk then pres else []) (if viaTk || pres.isEmpty then none else some pres)
      let m := render r1 ++ " | t1=ok | " ++ renderRes r2
      -- spec oracle on the implementation's third part
      let parts := impl.splitOn " | "
      let second := parts.getD 2 ""
      let legit := if viaTk then (pres == t1 && k2 == key1) else pres == marshal st
      let ca2 := clientAuthOf c2.cfg c2.rule
      let verdict :=
        if parts.getD 1 "" != "t1=ok" then "FAIL:issued-ticket-differs"
        else if !second.startsWith "ok " then "ok"
        else if field second "r" != some "1" then (if field second "ms" == some "-" then "ok" else "FAIL:master-without-resume")
        else if !legit && viaTk && k2 != key1 then "FAIL:foreign-key-resumed"
        else if !legit then "FAIL:forged-resumed"
        else
          match (field second "v").bind parseHex, (field second "s").bind parseHex with
          | some v, some s =>
            if v != st.vers || s != st.suite then "FAIL:resumed-params-changed"
            else if field second "ms" != some "1" then "FAIL:resumed-master-changed"
            else if (ca2 == requireAnyClientCert || ca2 == requireAndVerifyClientCert) && ncerts == 0 then "FAIL:client-cert-skipped"
            else if ca2 == noClientCert && ncerts != 0 then "FAIL:client-cert-leftover"
            else match oracleOk { c2 with hello := h2 } v s "-" true with
              | some cls => if classIgnoredHere cls then "ok" else "FAIL:resumed-" ++ cls
              | none => "ok"
          | _, _ => "FAIL:unparsable-result"
      let kind := match r2 with
        | .error _ => "res-alert"
        | .ok x => if x.params.resume then "res-resumed" else "res-full"
      let g1 := gradeOf c1.rule
      let g2 := gradeOf c2.rule
      { model := m, verdict := verdict,
        tags := [kind, if viaTk then "via-tk" else "via-sid",
                 "pres-" ++ (if viaTk then diffClass pres t1 (k2 == key1) else if pres == marshal st then "valid" else if pres.isEmpty then "absent" else "mut")] ++
                (if g1 != g2 then ["grade-changed"] else []) ++
                (if clientAuthOf c1.cfg c1.rule != ca2 then ["clientauth-changed"] else []) ++
                (if c1.cfg.cipherSuites != c2.cfg.cipherSuites then ["suites-changed"] else []) ++
                (if ncerts != 0 then ["has-certs"] else []) ++ ["nt"] }
  | _, _, _, _, _, _, _, _ => { model := "bad-op", verdict := "skip" }

/-! ### round 2 streams: `rv` (stored client certificates re-verified on resumption), `sc` (session-ID cache) -/

def storedKind (k : String) : Option (String × Bool × Bool × Bool) :=   -- issuer, parses, EKU admits client auth, EKU lists it
  if k == "A" then some ("A", true, true, true)
  else if k == "B" then some ("B", true, true, true)
  else if k == "noeku" then some ("A", true, true, false)
  else if k == "srvonly" then some ("A", true, false, false)
  else if k == "self" then some ("self", true, true, true)
  else if k == "garbage" then some ("-", false, false, false)
  else none

def baseCfg (clientAuth : Nat) (ecdsa : Bool) (maxV : Nat) : Config :=
  { minVersionRaw := 0, maxVersionRaw := maxV, cipherSuitesRaw := none, priority := [], preferServer := false,
    ssl3PoodleProofed := false, ticketsDisabled := false, cacheEnabled := true, nextProtos := [],
    clientAuth := clientAuth, curvePrefsRaw := [], hasCert := true, certEcdsa := ecdsa }

def runRv (f : List String) (impl : String) : Ans :=
  match f with
  | [pol, ruleCA, cfgPool, rulePool, stored, via] =>
    match pol.toNat? with
    | some cfgPol =>
      let rca := ruleCA == "1"
      let rule : Option Rule := if rca then some { grade := "C", clientAuth := true, chacha20 := false, nextProtos := [] } else none
      let cfg := baseCfg cfgPol false 0
      let policy := clientAuthOf cfg rule
      let po (s : String) : Option String := if s == "-" then none else some s
      let pool : Option String := if rca then (match po rulePool with | some p => some p | none => po cfgPool) else po cfgPool
      let sess : Session := { vers := 0x0303, suite := 0x002f, hasCerts := stored != "none" }
      let viaTk := via == "tk"
      let h : Hello := { vers := 0x0303, suites := [0x002f], compression := [0], curves := [], points := [], alpn := [], npn := false,
                         ticketSupported := viaTk, ticketPresent := viaTk, sessionIdPresent := !viaTk }
      let lk : Lookups := if viaTk then { ticket := some sess, cache := none } else { ticket := none, cache := some sess }
      let sc : Option StoredCert := (storedKind stored).map fun k =>
        { parses := k.2.1, revoked := false, chainOk := k.2.1 && pool == some k.1 && k.2.2.1, ekuListed := k.2.2.2, keyOk := true }
      let m :=
        match readClientHello cfg rule h lk with
        | .error a => "alert=" ++ toString (alertCode a)
        | .ok p =>
          if !p.resume then "r=0 cert=-"
          else match resumeCertStep policy sc with
            | .error a => "r=1 cert=alert=" ++ toString a
            | .ok v => "r=1 cert=ok v=" ++ (if v then "1" else "0") ++ " n=" ++ (if sc.isSome then "1" else "0")
      -- spec on the implementation's answer: a resumption that gets past the certificates met the CURRENT policy
      let verdict :=
        if impl.startsWith "r=1 cert=ok" then
          if (policy == requireAnyClientCert || policy == requireAndVerifyClientCert) && stored == "none" then "FAIL:client-cert-skipped"
          else if policy == noClientCert && stored != "none" then "FAIL:client-cert-leftover"
          else if policy ≥ verifyClientCertIfGiven && stored != "none" &&
              !(match storedKind stored with | some k => k.2.1 && pool == some k.1 && k.2.2.2 | none => false) then
            "FAIL:stale-client-cert-accepted"
          else "ok"
        else "ok"
      { model := m, verdict := verdict,
        tags := ["rv", "rv-pol" ++ toString policy, if m.startsWith "r=1 cert=ok" then "rv-resumed" else if m.startsWith "r=1" then "rv-cert-refused" else "rv-full", "nt"] }
    | none => { model := "bad-op", verdict := "skip" }
  | _ => { model := "bad-op", verdict := "skip" }

structure ScSess where
  ok : Bool
  srv : Nat
  vers : Nat
  suite : Nat

structure ScState where
  now : Nat := 0
  cache : List CacheEntry := []
  sessions : List ScSess := []
  out : List String := []
  bad : Option String := none      -- first spec violation seen on the implementation's items

def scStep (ttl : Nat) (prefixes : List String) (maxB : Nat) (st : ScState) (item implItem : String) : ScState :=
  let srvOf (c : Char) : Nat := if c == 'B' then 1 else 0
  let cs := item.toList
  match cs with
  | 'F' :: s :: [] =>
    let srv := srvOf s
    -- the negotiated parameters of a real handshake are taken from the implementation's answer
    match implItem.splitOn ":" with
    | ["f", v, su, _] =>
      match parseHex v, parseHex su with
      | some v, some su =>
        let n := st.sessions.length
        { st with sessions := st.sessions ++ [{ ok := true, srv := srv, vers := v, suite := su }],
                  cache := cachePut st.cache (prefixes.getD srv "") ("id" ++ toString n) [] st.now ttl,
                  out := st.out ++ [implItem] }
      | _, _ => { st with sessions := st.sessions ++ [{ ok := false, srv := srv, vers := 0, suite := 0 }], out := st.out ++ [implItem] }
    | _ => { st with sessions := st.sessions ++ [{ ok := false, srv := srv, vers := 0, suite := 0 }], out := st.out ++ [implItem] }
  | 'R' :: s :: rest =>
    let srv := srvOf s
    match (String.ofList rest).toNat? with
    | some n =>
      let sess := st.sessions[n]?
      let alive : Bool := match sess with
        | some se => se.ok && (cacheGet st.cache (prefixes.getD srv "") ("id" ++ toString n) st.now).isSome
        | none => false
      let lk : Lookups := match sess with
        | some se => if alive then { ticket := none, cache := some { vers := se.vers, suite := se.suite, hasCerts := false } } else { ticket := none, cache := none }
        | none => { ticket := none, cache := none }
      let cfg := baseCfg 0 true (if srv == 1 then maxB else 0)
      let h : Hello := { vers := 0x0303, suites := [0xc02b, 0xc009], compression := [0], curves := [23], points := [0], alpn := [],
                         npn := false, ticketSupported := false, ticketPresent := false, sessionIdPresent := true }
      let o := match readClientHello cfg none h lk with
        | .error a => "alert=" ++ toString (alertCode a)
        | .ok p => if p.resume then "r=1:ms=1" else "r=0:ms=-"
      let bad := if st.bad.isSome then st.bad
        else if implItem.startsWith "r=1" && !alive then some "cache-resumed-without-live-entry"
        else if implItem.startsWith "r=1" && implItem != "r=1:ms=1" then some "cache-master-changed"
        else none
      { st with out := st.out ++ [o], bad := bad }
    | none => { st with out := st.out ++ ["bad-item"] }
  | 'T' :: rest =>
    { st with now := st.now + ((String.ofList rest).toNat?.getD 0), out := st.out ++ ["."] }
  | 'X' :: rest =>
    match (String.ofList rest).toNat? with
    | some n =>
      let c := prefixes.foldl (fun c p => cacheDel c (cacheKey p ("id" ++ toString n))) st.cache
      { st with cache := c, out := st.out ++ ["."] }
    | none => { st with out := st.out ++ ["bad-item"] }
  | _ => { st with out := st.out ++ ["bad-item"] }

def runSc (f : List String) (impl : String) : Ans :=
  match f with
  | [ttl, pa, pb, maxB, script] =>
    match ttl.toNat?, parseHex maxB with
    | some ttl, some maxB =>
      let items := script.splitOn ","
      let implItems := impl.splitOn ","
      let st := (items.zip (implItems ++ List.replicate items.length "")).foldl
        (fun st p => scStep ttl [pa, pb] maxB st p.1 p.2) ({} : ScState)
      let resumed := st.out.any (· == "r=1:ms=1")
      { model := ",".intercalate st.out,
        verdict := match st.bad with | some b => "FAIL:" ++ b | none => "ok",
        tags := ["sc"] ++ (if resumed then ["sc-resumed"] else []) ++ (if pa != pb then ["sc-prefix-differs"] else []) ++
                (if st.sessions.isEmpty then [] else ["nt"]) }
    | _, _ => { model := "bad-op", verdict := "skip" }
  | _ => { model := "bad-op", verdict := "skip" }

/-! ### stream `is`: what a real full handshake issues (ticket / cache entry), then presentation after reconfiguration -/

def runIs (f : List String) (impl : String) : Ans :=
  if f.length != 21 then { model := "bad-op", verdict := "skip" } else
  match impl.splitOn " | " with
  | [helloStr, first, second] =>
    let cfgF := f.take 13
    match parseCase (" ".intercalate (["rch"] ++ cfgF ++ [helloStr])), parseHex (f.getD 13 ""), parseHex (f.getD 18 ""), parseHex (f.getD 19 "") with
    | some c, some cmin, some min2, some max2 =>
      let client := f.getD 16 "none"
      let viaTk := f.getD 17 "" == "tk"
      let cs2 := f.getD 20 "same"
      let h := c.hello
      let expected : String × String :=
        match readClientHello c.cfg c.rule h { ticket := none, cache := none } with
        | .error _ => ("conn=err", "-")
        | .ok p =>
          let kxCurves := if p.ecdheNoExt then h.curves ++ [23] else h.curves
          let kxPick := (c.cfg.curvePreferences.find? fun x => kxCurves.contains x).getD 0
          let kxBad := p.suite.has suiteECDHE && !([23, 24, 25] : List Nat).contains kxPick
          let sendsCert := p.clientAuth ≥ requestClientCert && client == "A"
          let caBad := (p.clientAuth == requireAnyClientCert || p.clientAuth == requireAndVerifyClientCert) && !sendsCert
          if kxBad || caBad || p.vers < cmin then ("conn=err", "-")
          else
            let n : Nat := if sendsCert then 1 else 0
            let conn := "conn=" ++ hex4 p.vers ++ ":" ++ hex4 p.suite.id ++ ":" ++ toString n
            let ticketIssued := h.ticketSupported && !c.cfg.ticketsDisabled
            let issuedNow := if viaTk then ticketIssued else (!ticketIssued && c.cfg.cacheEnabled)
            if !issuedNow then (conn ++ " iss=none", "-")
            else
              let st := issueState viaTk h.vers p master48 (certsN n)
              let iss := "iss=" ++ hex4 st.vers ++ ":" ++ hex4 st.suite ++ ":ms1:" ++ toString n ++ ":cm1"
              let cfg1 := c.cfg
              let newSuites : Option (List Nat) :=
                if cs2 == "same" then cfg1.cipherSuitesRaw else if cs2 == "n" then none else parseList parseHex cs2
              let newPri : List Nat := if cs2 == "same" then cfg1.priority else []
              let cfg2 : Config := { cfg1 with minVersionRaw := min2, maxVersionRaw := max2, cipherSuitesRaw := newSuites, priority := newPri }
              let h2 : Hello := { h with alpn := [], npn := false, ticketSupported := viaTk, ticketPresent := viaTk, sessionIdPresent := (!viaTk) }
              let sess : Session := toSession st
              let lk : Lookups := if viaTk then { ticket := some sess, cache := none } else { ticket := none, cache := some sess }
              let sec := match readClientHello cfg2 c.rule h2 lk with
                | .error a => "alert=" ++ toString (alertCode a)
                | .ok p2 => "r=" ++ (if p2.resume then "1" else "0") ++ " v=" ++ hex4 p2.vers ++ " s=" ++ hex4 p2.suite.id ++
                            " ms=" ++ (if p2.resume then "1" else "-")
              (conn ++ " " ++ iss, sec)
      -- spec oracle on the implementation's answer
      let connF := (field first "conn").getD ""
      let issF := (field first "iss").getD ""
      let connP := connF.splitOn ":"
      let issP := issF.splitOn ":"
      let verdict :=
        if connF == "err" || issF == "" || issF == "none" then "ok"
        else if !(issP.getD 0 "" == connP.getD 0 "x" && issP.getD 1 "" == connP.getD 1 "x" && issP.getD 2 "" == "ms1" &&
                  issP.getD 3 "" == connP.getD 2 "x" && issP.getD 4 "" == "cm1") then "FAIL:issued-state-wrong"
        else if second.startsWith "r=1" &&
            !(field second "v" == some (connP.getD 0 "x") && field second "s" == some (connP.getD 1 "x") && field second "ms" == some "1") then
          "FAIL:resumed-params-changed"
        else "ok"
      let hv := h.vers
      let capped : Bool := match parseHex (connP.getD 0 "") with | some v => decide (v < hv) | none => false
      { model := helloStr ++ " | " ++ expected.1 ++ " | " ++ expected.2, verdict := verdict,
        tags := ["is", if viaTk then "is-ticket" else "is-cache"] ++ (if capped then ["is-version-capped"] else []) ++
                (if expected.2.startsWith "r=1" then ["is-resumed"] else if expected.2.startsWith "r=0" then ["is-full-after-reconf"] else []) ++
                (if expected.1.startsWith "conn=err" then [] else ["nt"]) }
    | _, _, _, _ => { model := "bad-hello", verdict := "FAIL:hs-hello-not-captured" }
  | _ => { model := "bad-result", verdict := "FAIL:unparsable-result" }

/-! ### stream `kr`: ticket-key rotation through the real listener / reload path -/

structure KrState where
  curKey : Nat := 1
  pendKey : Option Nat := none                   -- key of the configuration the pending (accepted) connection is bound to
  client : Option (Nat × Nat × Nat) := none      -- the client's cached session: version, suite, key it was sealed under
  out : List String := []
  bad : Option String := none

def krConn (cfgF : List String) (st : KrState) (acceptKey : Nat) (implItem : String) : KrState :=
  match implItem.splitOn " | " with
  | [helloStr, outcome] =>
    match parseCase (" ".intercalate (["rch"] ++ cfgF ++ [helloStr])) with
    | some c =>
      let h := c.hello
      let offered := h.ticketSupported && h.ticketPresent
      let sess : Option Session := match st.client with
        | some (v, su, k) => if offered && k == acceptKey then some { vers := v, suite := su, hasCerts := false } else none
        | none => none
      let r := readClientHello c.cfg c.rule h { ticket := sess, cache := none }
      let (expected, client') : String × Option (Nat × Nat × Nat) :=
        match r with
        | .error _ => ("srv=err", if offered then none else st.client)
        | .ok p =>
          let kxCurves := if p.ecdheNoExt then h.curves ++ [23] else h.curves
          let kxPick := (c.cfg.curvePreferences.find? fun x => kxCurves.contains x).getD 0
          let kxBad := !p.resume && p.suite.has suiteECDHE && !([23, 24, 25] : List Nat).contains kxPick
          if kxBad || p.vers < 0x0301 || (p.alpn != "" && !h.alpn.contains p.alpn) then ("srv=err", if offered then none else st.client)
          else
            ("srv=ok v=" ++ hex4 p.vers ++ " s=" ++ hex4 p.suite.id ++ " al=" ++ dash p.clientProto ++ " r=" ++ (if p.resume then "1" else "0"),
             if p.resume then st.client
             else if h.ticketSupported && !c.cfg.ticketsDisabled then some (p.vers, p.suite.id, acceptKey) else st.client)
      -- spec: a ticket is honoured only under the key of the configuration this connection was accepted with, and the
      -- reload changes nothing else of the policy
      let bad :=
        if st.bad.isSome then st.bad
        else if outcome.startsWith "srv=ok" then
          let resumed := field outcome "r" == some "1"
          let legit := match st.client with | some (_, _, k) => offered && k == acceptKey | none => false
          if resumed && !legit then some "retired-key-ticket-resumed"
          else match (field outcome "v").bind parseHex, (field outcome "s").bind parseHex, field outcome "al" with
            | some v, some su, some al =>
              (match oracleOk c v su al resumed with
               | some cls => if classIgnoredHere cls then none else some ("policy-lost-after-reload-" ++ cls)
               | none => none)
            | _, _, _ => some "unparsable-result"
        else none
      { st with client := client', out := st.out ++ [helloStr ++ " | " ++ expected], bad := bad }
    | none => { st with out := st.out ++ ["bad-hello"] }
  | _ => { st with out := st.out ++ ["bad-item"] }

def runKr (f : List String) (impl : String) : Ans :=
  if f.length != 15 then { model := "bad-op", verdict := "skip" } else
  let cfgF := f.take 13
  let items := (f.getD 14 "").splitOn ","
  let implItems := impl.splitOn " || "
  let step (st : KrState) (p : String × String) : KrState :=
    let it := p.1
    if it == "C" then krConn cfgF st st.curKey p.2
    else if it == "A" then { st with pendKey := some st.curKey, out := st.out ++ ["."] }
    else if it == "H" then
      match st.pendKey with
      | some k => { krConn cfgF st k p.2 with pendKey := none }
      | none => { st with out := st.out ++ ["no-conn"] }
    else if it.startsWith "K" then { st with curKey := ((it.drop 1).toString.toNat?).getD st.curKey, out := st.out ++ ["."] }
    else { st with out := st.out ++ ["bad-item"] }
  let fin := (items.zip (implItems ++ List.replicate items.length "")).foldl step {}
  { model := " || ".intercalate fin.out, verdict := match fin.bad with | some b => "FAIL:" ++ b | none => "ok",
    tags := ["kr"] ++ (if fin.out.any (fun o => (o.splitOn " r=1").length > 1) then ["kr-resumed"] else []) ++
            (if items.contains "H" then ["kr-accept-rotate-handshake"] else []) ++
            (if items.any (·.startsWith "K") then ["kr-rotated", "nt"] else []) }

/-! ### stream `rs`: issued under SNI₁, presented under SNI₂, rule found by the production rule map -/

def rsDefaultRule : Rule := { grade := gradeC, clientAuth := false, chacha20 := false, nextProtos := ["http/1.1"] }

def rsCfg (cert : String) : Config :=
  { minVersionRaw := 0, maxVersionRaw := 0, cipherSuitesRaw := none, priority := [], preferServer := false,
    ssl3PoodleProofed := false, ticketsDisabled := false, cacheEnabled := true, nextProtos := [], clientAuth := 0,
    curvePrefsRaw := [], hasCert := true, certEcdsa := cert == "e" }

def runRs (f : List String) (impl : String) : Ans :=
  if f.length != 14 then { model := "bad-op", verdict := "skip" } else
  let prods : Option (List (String × Rule)) := ((f.getD 0 "").splitOn ";").mapM fun e =>
    match e.splitOn ":" with
    | [n, g, a, c, ps] => some (n, { grade := g, clientAuth := a == "1", chacha20 := c == "1", nextProtos := ps.splitOn "+" })
    | _ => none
  let smS := f.getD 1 "-"
  let sm : Option (List (String × String)) :=
    if smS == "-" then some [] else (smS.splitOn ",").mapM fun e => match e.splitOn "=" with | [k, v] => some (k, v) | _ => none
  match prods, sm, mkCase (["0000", "0000", "n", "-", "00001", "-", "0", "-", f.getD 4 "r", "0", "C", "00", "-"]) ((f.drop 5).take 7),
        (f.getD 12 "").toNat? with
  | some ps, some sm, some c, some ncerts =>
    let cfg := rsCfg (f.getD 4 "r")
    let ruleOf (n : String) : Rule := ((ps.find? fun p => p.1 == n).map (·.2)).getD rsDefaultRule
    let t : RuleTable Rule := { vip := [], sni := sm.map fun p => (p.1, ruleOf p.2), dflt := rsDefaultRule }
    let name (s : String) : String := if s == "-" then "" else s
    let sni1 := name (f.getD 2 "-")
    let sni2 := name (f.getD 3 "-")
    let viaTk := f.getD 13 "" == "tk"
    let h1 := c.hello
    let r1 := serve t cfg none sni1 h1 { ticket := none, cache := none }
    match r1 with
    | .error _ => { model := render r1 ++ " | -", verdict := "skip", tags := ["rs", "rs-first-refused"] }
    | .ok p1 =>
      let sess : Session := { vers := p1.vers, suite := p1.suite.id, hasCerts := ncerts != 0 }
      let h2 : Hello := { h1 with ticketSupported := viaTk, ticketPresent := viaTk, sessionIdPresent := (!viaTk) }
      let lk : Lookups := if viaTk then { ticket := some sess, cache := none } else { ticket := none, cache := some sess }
      let r2 := serve t cfg none sni2 h2 lk
      let sec := match r2 with
        | .error a => "alert=" ++ toString (alertCode a) ++ " ms=-"
        | .ok p2 => render (.ok p2) ++ " ms=" ++ (if p2.resume then "1" else "-")
      -- spec: the product that governs SNI₂ (names compare case-insensitively, without trailing dots)
      let rule2 : Rule := match sm.find? fun p => normName p.1 == normName sni2 with
        | some p => ruleOf p.2
        | none => rsDefaultRule
      let second := (impl.splitOn " | ").getD 1 ""
      let verdict :=
        if second.startsWith "ok " && field second "r" == some "1" then
          match (field second "v").bind parseHex, (field second "s").bind parseHex with
          | some v, some su =>
            let rc4 := checkCipherGrade cfg rule2.grade v
            let suiteOk' := match lookupSuite su with
              | some x => !(x.has suiteChacha20 && !rule2.chacha20) && !(x.has suiteRC4 && rc4 == .disable) && !(!x.has suiteRC4 && rc4 == .only)
              | none => false
            if v != p1.vers || su != p1.suite.id || field second "ms" != some "1" then "FAIL:resumed-params-changed"
            else if rule2.clientAuth && ncerts == 0 then "FAIL:client-cert-skipped"
            else if (rule2.grade == gradeA && v < versionTLS10) || (rule2.grade == gradeAPlus && v < versionTLS12) || !suiteOk' then
              "FAIL:resumed-against-policy-of-presented-sni"
            else "ok"
          | _, _ => "FAIL:unparsable-result"
        else "ok"
      { model := render r1 ++ " | " ++ sec, verdict := verdict,
        tags := ["rs", if viaTk then "rs-ticket" else "rs-cache"] ++ (if normName sni1 != normName sni2 then ["rs-sni-changed"] else []) ++
                (match r2 with | .ok p2 => if p2.resume then ["rs-resumed"] else ["rs-full"] | .error _ => ["rs-alert"]) ++ ["nt"] }
  | _, _, _, _ => { model := "bad-op", verdict := "skip" }

def run (op impl : String) : Ans :=
  match op.splitOn " " with
  | ["um", hx] => runUm hx impl
  | "tk" :: f => runTk f impl
  | "res" :: f => runRes f impl
  | "rs" :: f => runRs f impl
  | "kr" :: f => runKr f impl
  | "is" :: f => runIs f impl
  | "rv" :: f => runRv f impl
  | "sc" :: f => runSc f impl
  | _ => { model := "bad-op", verdict := "skip" }

end BfeVerif.C44
