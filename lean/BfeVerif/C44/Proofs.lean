import BfeVerif.C44.Model
import BfeVerif.C44.NegoProofs
/-! Lemmas for C44 (core Lean only). -/
namespace BfeVerif.C44
open BfeVerif.Generated.C44

theorem byteOf_toNat (n : Nat) : (byteOf n).toNat = n % 256 := by
  unfold byteOf; simp [UInt8.toNat_ofNat']

theorem be16_bytes (n : Nat) (h : n < 65536) : be16 (byteOf (n / 256)) (byteOf n) = n := by
  unfold be16; rw [byteOf_toNat, byteOf_toNat]; omega

theorem be32_bytes (n : Nat) (h : n < 4294967296) :
    be32 (byteOf (n / 16777216)) (byteOf (n / 65536)) (byteOf (n / 256)) (byteOf n) = n := by
  unfold be32; rw [byteOf_toNat, byteOf_toNat, byteOf_toNat, byteOf_toNat]; omega

/-- a session state whose lengths fit the fields of the serialisation -/
structure WF (s : SessionState) : Prop where
  vers : s.vers < 65536
  suite : s.suite < 65536
  master : s.master.length < 65536
  ncerts : s.certs.length < 65536
  certs : ∀ c ∈ s.certs, c.length < 4294967296

theorem readCerts_marshalCerts (cs : List (List UInt8)) (rest : List UInt8)
    (h : ∀ c ∈ cs, c.length < 4294967296) :
    readCerts cs.length (marshalCerts cs ++ rest) = some (cs, rest) := by
  induction cs with
  | nil => simp [readCerts, marshalCerts]
  | cons c tl ih =>
    have hc := h c (by simp)
    have htl : ∀ c' ∈ tl, c'.length < 4294967296 := fun c' hm => h c' (List.mem_cons_of_mem _ hm)
    simp only [marshalCerts, List.length_cons, List.cons_append, List.nil_append, List.append_assoc, readCerts]
    rw [be32_bytes _ hc]
    have hlen : ¬ (c ++ (marshalCerts tl ++ rest)).length < c.length := by simp
    simp only [hlen, if_false, List.drop_left', List.take_left']
    rw [ih htl]

theorem unmarshal_marshal (s : SessionState) (h : WF s) : unmarshal (marshal s) = some s := by
  unfold unmarshal marshal
  simp only [List.cons_append, List.nil_append, List.append_assoc]
  rw [be16_bytes _ h.master]
  have h2 : ¬ (s.master ++ (byteOf (s.certs.length / 256) :: byteOf s.certs.length :: marshalCerts s.certs)).length
      < s.master.length := by simp
  simp only [h2, if_false, List.drop_left', List.take_left']
  rw [be16_bytes _ h.ncerts]
  have := readCerts_marshalCerts s.certs [] h.certs
  rw [List.append_nil] at this
  rw [this, be16_bytes _ h.vers, be16_bytes _ h.suite]
  split
  · rename_i hc
    simp only [List.length_cons, List.length_append] at hc
    omega
  · rfl

/-- the two laws of the primitives that functional correctness needs (not security assumptions):
    CTR with the same key and IV is an involution; an HMAC-SHA256 tag has 32 bytes -/
structure Laws (C : Crypto) : Prop where
  ctr_invol : ∀ k iv d, C.ctr k iv (C.ctr k iv d) = d
  hmac_len : ∀ k m, (C.hmac k m).length = macLen

theorem bodyOf_append {b t : List UInt8} (ht : t.length = macLen) : bodyOf (b ++ t) = b := by
  unfold bodyOf; rw [List.length_append, ht]; simp

theorem tagOf_append {b t : List UInt8} (ht : t.length = macLen) : tagOf (b ++ t) = t := by
  unfold tagOf; rw [List.length_append, ht]; simp

theorem decrypt_encrypt {C : Crypto} (hl : Laws C) (key iv : List UInt8) (s : SessionState)
    (hiv : iv.length = ivLen) (hs : WF s) :
    decryptTicket C key (encryptTicket C key iv s) = some s := by
  unfold decryptTicket encryptTicket
  have hm := hl.hmac_len (key.drop 16) (ticketBody C key iv s)
  have hb : (ticketBody C key iv s).length ≥ ivLen := by unfold ticketBody; simp [hiv]
  have h1 : ¬ (ticketBody C key iv s ++ C.hmac (key.drop 16) (ticketBody C key iv s)).length < ivLen + macLen := by
    rw [List.length_append, hm]; omega
  simp only [h1, if_false]
  have hv : macValid C key (ticketBody C key iv s ++ C.hmac (key.drop 16) (ticketBody C key iv s)) = true := by
    unfold macValid; rw [tagOf_append hm, bodyOf_append hm]; simp
  simp only [hv, Bool.not_true, Bool.false_eq_true, if_false]
  rw [bodyOf_append hm]
  have ht : (ticketBody C key iv s ++ C.hmac (key.drop 16) (ticketBody C key iv s)).take ivLen = iv := by
    unfold ticketBody; rw [List.append_assoc, ← hiv]; simp
  have hd : (ticketBody C key iv s).drop ivLen = C.ctr (key.take 16) iv (marshal s) := by
    unfold ticketBody; rw [← hiv]; simp
  rw [ht, hd, hl.ctr_invol, unmarshal_marshal s hs]

theorem split_ticket (t : List UInt8) : t = bodyOf t ++ tagOf t := by
  unfold bodyOf tagOf; simp

/-- `resume` returns exactly what `readClientHello` returns on the looked-up sessions -/
theorem resume_ok {C : Crypto} {key : List UInt8} {cfg : Config} {rule : Option Rule} {h : Hello}
    {ticket : List UInt8} {entry : Option (List UInt8)} {r : Resumption}
    (hr : resume C key cfg rule h ticket entry = .ok r) :
    readClientHello cfg rule h { ticket := (decryptTicket C key ticket).map toSession,
                                 cache := (entry.bind unmarshal).map toSession } = .ok r.params ∧
    (r.params.resume = true →
      r.state = stateLookup cfg h (decryptTicket C key ticket) (entry.bind unmarshal) ∧
      r.master = (match r.state with | some s => s.master | none => [])) ∧
    (r.params.resume = false → r.state = none) := by
  unfold resume at hr
  simp only at hr
  split at hr
  · cases hr
  · rename_i p hp
    split at hr
    · rename_i hres
      cases hr
      exact ⟨hp, fun _ => ⟨rfl, rfl⟩, fun hf => by rw [hres] at hf; cases hf⟩
    · rename_i hres
      cases hr
      exact ⟨hp, fun ht => absurd ht hres, fun _ => rfl⟩

theorem sessionLookup_map (cfg : Config) (h : Hello) (a b : Option SessionState) :
    sessionLookup cfg h { ticket := a.map toSession, cache := b.map toSession } =
      (stateLookup cfg h a b).map toSession := by
  unfold sessionLookup stateLookup
  split
  · rfl
  · split
    · rfl
    · split <;> rfl

theorem find?_never {α : Type} (l : List α) : l.find? (fun _ => false) = none := by
  induction l with
  | nil => rfl
  | cons a t ih => simp [ih]

theorem stateLookup_no_cache {cfg : Config} {h : Hello} {a : Option SessionState} {st : SessionState}
    (hl : stateLookup cfg h a none = some st) : a = some st := by
  unfold stateLookup at hl
  split at hl
  · exact hl
  · split at hl
    · cases hl
    · split at hl <;> cases hl

end BfeVerif.C44
