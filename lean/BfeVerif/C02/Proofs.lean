import BfeVerif.C02.Model
/-! C02 helper lemmas (core only) -/
namespace BfeVerif.C02

/-! ### walk by position -/

/-- the walk, returning the position instead of the element -/
def walkPos {α : Type} : List (α × Int) → Int → Option Nat
  | [], _ => none
  | (_, w) :: rest, v => if v - w < 0 then some 0 else (walkPos rest (v - w)).map (· + 1)

/-- cumulative weight `c_i` of the first `i` entries -/
def cum {α : Type} (cs : List (α × Int)) (i : Nat) : Int := sumW (cs.take i)

theorem sumW_nil {α : Type} : sumW ([] : List (α × Int)) = 0 := rfl
theorem sumW_cons {α : Type} (p : α × Int) (cs : List (α × Int)) : sumW (p :: cs) = p.2 + sumW cs := by
  simp [sumW]

theorem sumW_nonneg {α : Type} (cs : List (α × Int)) (hpos : ∀ p ∈ cs, 0 < p.2) : 0 ≤ sumW cs := by
  induction cs with
  | nil => simp [sumW]
  | cons p cs ih =>
    rw [sumW_cons]
    have := hpos p (by simp)
    have := ih (fun q hq => hpos q (by simp [hq]))
    omega

theorem sumW_pos {α : Type} (cs : List (α × Int)) (hpos : ∀ p ∈ cs, 0 < p.2) (hne : cs ≠ []) : 0 < sumW cs := by
  cases cs with
  | nil => exact absurd rfl hne
  | cons p cs =>
    rw [sumW_cons]
    have := hpos p (by simp)
    have := sumW_nonneg cs (fun q hq => hpos q (by simp [hq]))
    omega

theorem cum_nonneg {α : Type} (cs : List (α × Int)) (hpos : ∀ p ∈ cs, 0 < p.2) (i : Nat) : 0 ≤ cum cs i :=
  sumW_nonneg _ (fun p hp => hpos p (List.mem_of_mem_take hp))

theorem walk_eq_walkPos {α : Type} (cs : List (α × Int)) (v : Int) :
    walk cs v = (walkPos cs v).bind fun i => cs[i]?.map (·.1) := by
  induction cs generalizing v with
  | nil => simp [walk, walkPos]
  | cons p cs ih =>
    obtain ⟨k, w⟩ := p
    unfold walk walkPos
    by_cases h : v - w < 0
    · simp [h]
    · simp only [h, if_false]
      rw [ih]
      cases walkPos cs (v - w) <;> simp

theorem cum_zero {α : Type} (cs : List (α × Int)) : cum cs 0 = 0 := by simp [cum, sumW]
theorem cum_succ_cons {α : Type} (p : α × Int) (cs : List (α × Int)) (j : Nat) :
    cum (p :: cs) (j + 1) = p.2 + cum cs j := by simp [cum, sumW_cons]

/-- **partition**: position `i` is returned exactly for the residues in `[c_i, c_{i+1})` -/
theorem walkPos_iff {α : Type} (cs : List (α × Int)) (hpos : ∀ p ∈ cs, 0 < p.2) (r : Int) (hr : 0 ≤ r) (i : Nat) :
    walkPos cs r = some i ↔ i < cs.length ∧ cum cs i ≤ r ∧ r < cum cs (i + 1) := by
  induction cs generalizing r i with
  | nil => simp [walkPos]
  | cons p cs ih =>
    obtain ⟨k, w⟩ := p
    have hw : 0 < w := hpos (k, w) (by simp)
    have hpos' : ∀ q ∈ cs, 0 < q.2 := fun q hq => hpos q (by simp [hq])
    unfold walkPos
    by_cases h : r - w < 0
    · simp only [h, if_true]
      cases i with
      | zero =>
        rw [cum_zero, cum_succ_cons, cum_zero]
        simp; omega
      | succ j =>
        have := cum_nonneg cs hpos' j
        rw [cum_succ_cons]
        constructor
        · intro h'; simp at h'
        · intro ⟨_, h2, _⟩; simp only [] at h2; omega
    · simp only [h, if_false]
      cases i with
      | zero =>
        rw [cum_zero, cum_succ_cons, cum_zero]
        constructor
        · intro h'; cases hx : walkPos cs (r - w) <;> simp [hx] at h'
        · intro ⟨_, _, h3⟩; simp only [] at h3; omega
      | succ j =>
        rw [cum_succ_cons, cum_succ_cons]
        simp only [List.length_cons]
        constructor
        · intro h'
          have hj : walkPos cs (r - w) = some j := by
            cases hx : walkPos cs (r - w) with
            | none => simp [hx] at h'
            | some j' => simp [hx] at h'; subst h'; rfl
          have := (ih hpos' (r - w) (by omega) j).mp hj
          omega
        · intro ⟨h1, h2, h3⟩
          have : walkPos cs (r - w) = some j := (ih hpos' (r - w) (by omega) j).mpr ⟨by omega, by omega, by omega⟩
          simp [this]

theorem walkPos_total {α : Type} (cs : List (α × Int)) (r : Int) (hr : 0 ≤ r) (hlt : r < sumW cs) :
    ∃ i, walkPos cs r = some i ∧ i < cs.length := by
  induction cs generalizing r with
  | nil => simp [sumW] at hlt; omega
  | cons p cs ih =>
    obtain ⟨k, w⟩ := p
    unfold walkPos
    by_cases h : r - w < 0
    · exact ⟨0, by simp [h], by simp⟩
    · rw [sumW_cons] at hlt
      obtain ⟨i, hi, hl⟩ := ih (r - w) (by omega) (by simp only [] at hlt; omega)
      exact ⟨i + 1, by simp [h, hi], by simp; omega⟩

theorem walk_eq_interval {α : Type} (cs : List (α × Int)) (acc v : Int) (hv : 0 ≤ v) :
    intervalPick cs acc (acc + v) = walk cs v := by
  induction cs generalizing acc v with
  | nil => simp [walk, intervalPick]
  | cons p cs ih =>
    obtain ⟨k, w⟩ := p
    unfold walk intervalPick
    by_cases h : v - w < 0
    · have : acc ≤ acc + v ∧ acc + v < acc + w := by omega
      simp [h, this]
    · have : ¬ (acc ≤ acc + v ∧ acc + v < acc + w) := by omega
      simp only [h, this, if_false]
      have := ih (acc + w) (v - w) (by omega)
      have e : acc + w + (v - w) = acc + v := by omega
      rw [e] at this
      exact this

/-- number of naturals `r < W` with `a ≤ r < b` -/
theorem filter_range_interval (W a b : Nat) :
    ((List.range W).filter (fun r => decide (a ≤ r ∧ r < b))).length = min b W - min a W := by
  induction W with
  | zero => simp
  | succ n ih =>
    rw [List.range_succ, List.filter_append, List.length_append, ih]
    by_cases h : a ≤ n ∧ n < b
    · simp [h]; omega
    · simp [h]; omega

/-! ### sorting -/

def Sorted {α : Type} (key : α → String) (l : List α) : Prop := l.Pairwise fun x y => key x ≤ key y

theorem ins_perm {α : Type} (key : α → String) (x : α) (l : List α) : (ins key x l).Perm (x :: l) := by
  induction l with
  | nil => simp [ins]
  | cons y ys ih =>
    unfold ins
    split
    · exact List.Perm.refl _
    · exact (List.Perm.cons y ih).trans (List.Perm.swap x y ys)

theorem ins_sorted {α : Type} (key : α → String) (x : α) (l : List α) (h : Sorted key l) :
    Sorted key (ins key x l) := by
  induction l with
  | nil => simp [ins, Sorted]
  | cons y ys ih =>
    unfold ins
    have hy := List.pairwise_cons.mp h
    split
    · rename_i hle
      refine List.pairwise_cons.mpr ⟨?_, h⟩
      intro z hz
      rcases List.mem_cons.mp hz with rfl | hz
      · exact hle
      · exact String.le_trans hle (hy.1 z hz)
    · rename_i hnle
      have hyx : key y ≤ key x := (String.le_total (key x) (key y)).resolve_left hnle
      refine List.pairwise_cons.mpr ⟨?_, ih hy.2⟩
      intro z hz
      have := (ins_perm key x ys).mem_iff.mp hz
      rcases List.mem_cons.mp this with rfl | hz
      · exact hyx
      · exact hy.1 z hz

theorem isort_perm {α : Type} (key : α → String) (l : List α) : (isort key l).Perm l := by
  induction l with
  | nil => simp [isort]
  | cons x xs ih =>
    have : isort key (x :: xs) = ins key x (isort key xs) := rfl
    rw [this]
    exact (ins_perm key x _).trans (List.Perm.cons x ih)

theorem isort_sorted {α : Type} (key : α → String) (l : List α) : Sorted key (isort key l) := by
  induction l with
  | nil => simp [isort, Sorted]
  | cons x xs ih =>
    have : isort key (x :: xs) = ins key x (isort key xs) := rfl
    rw [this]
    exact ins_sorted key x _ ih

/-- two sorted permutations of a list with pairwise distinct keys are equal -/
theorem sorted_unique {α : Type} (key : α → String) (l1 l2 : List α) (hp : l1.Perm l2)
    (h1 : Sorted key l1) (h2 : Sorted key l2) (hnd : (l1.map key).Nodup) : l1 = l2 := by
  induction l1 generalizing l2 with
  | nil => exact (List.Perm.nil_eq hp)
  | cons a t1 ih =>
    cases l2 with
    | nil => exact absurd hp.length_eq (by simp)
    | cons b t2 =>
      have ha := List.pairwise_cons.mp h1
      have hb := List.pairwise_cons.mp h2
      have hnd' : key a ∉ t1.map key ∧ (t1.map key).Nodup :=
        List.nodup_cons.mp (by rw [List.map_cons] at hnd; exact hnd)
      have hab : key a ≤ key b := by
        have : b ∈ a :: t1 := hp.mem_iff.mpr (by simp)
        rcases List.mem_cons.mp this with rfl | hbt
        · exact String.le_refl _
        · exact ha.1 b hbt
      have hba : key b ≤ key a := by
        have : a ∈ b :: t2 := hp.mem_iff.mp (by simp)
        rcases List.mem_cons.mp this with rfl | hat
        · exact String.le_refl _
        · exact hb.1 a hat
      have hk : key a = key b := String.le_antisymm hab hba
      have heq : a = b := by
        have : b ∈ a :: t1 := hp.mem_iff.mpr (by simp)
        rcases List.mem_cons.mp this with h | hbt
        · exact h.symm
        · exfalso
          apply hnd'.1
          rw [hk]
          exact List.mem_map.mpr ⟨b, hbt, rfl⟩
      subst heq
      have hp' : t1.Perm t2 := List.Perm.cons_inv hp
      rw [ih t2 hp' ha.2 hb.2 hnd'.2]

/-! ### sub-cluster walk -/

def subCands (subs : List Sub) : List (Sub × Int) := (posW subs).map fun s => (s, s.w)

theorem walkSub_of_walk (l : List Sub) (r : Int) (last : Option Sub) (s : Sub)
    (h : walk (subCands l) r = some s) : walkSub l r last = some s := by
  induction l generalizing r last with
  | nil => simp [subCands, posW, walk] at h
  | cons x rest ih =>
    unfold walkSub
    by_cases hx : x.w ≤ 0
    · have : subCands (x :: rest) = subCands rest := by
        have hn : ¬ 0 < x.w := by omega
        simp [subCands, posW, hn]
      rw [this] at h
      simp only [hx, if_true]
      exact ih r _ h
    · have : subCands (x :: rest) = (x, x.w) :: subCands rest := by
        have hn : 0 < x.w := by omega
        simp [subCands, posW, hn]
      rw [this] at h
      unfold walk at h
      simp only [hx, if_false]
      by_cases hlt : r - x.w < 0
      · simp only [hlt, if_true] at h ⊢; exact h
      · simp only [hlt, if_false] at h ⊢; exact ih _ _ h

theorem getLast?_cons_of_ne_nil {α : Type} (a : α) (l : List α) (h : l ≠ []) : (a :: l).getLast? = l.getLast? := by
  cases l with
  | nil => exact absurd rfl h
  | cons b t => simp [List.getLast?_cons_cons]

theorem lastPos_spec (l : List Sub) (i acc : Nat) :
    (posW l ≠ [] → ∃ j, lastPos l i acc = i + j ∧ l[j]? = (posW l).getLast?) ∧
    (posW l = [] → lastPos l i acc = acc) := by
  induction l generalizing i acc with
  | nil => simp [posW, lastPos]
  | cons s rest ih =>
    unfold lastPos
    have ih' := ih (i + 1) (if 0 < s.w then i else acc)
    by_cases hs : 0 < s.w
    · have hp : posW (s :: rest) = s :: posW rest := by simp [posW, hs]
      rw [hp]
      refine ⟨fun _ => ?_, fun h => by simp at h⟩
      by_cases hr : posW rest = []
      · rw [ih'.2 hr, hr]
        exact ⟨0, by simp [hs], by simp⟩
      · obtain ⟨j, hj, hl⟩ := ih'.1 hr
        refine ⟨j + 1, by omega, ?_⟩
        rw [getLast?_cons_of_ne_nil _ _ hr]
        simpa using hl
    · have hp : posW (s :: rest) = posW rest := by simp [posW, hs]
      rw [hp]
      simp only [hs, if_false] at ih' ⊢
      refine ⟨fun hr => ?_, fun hr => ih'.2 hr⟩
      obtain ⟨j, hj, hl⟩ := ih'.1 hr
      exact ⟨j + 1, by omega, by simpa using hl⟩

theorem sumW_append {α : Type} (a b : List (α × Int)) : sumW (a ++ b) = sumW a + sumW b := by
  simp [sumW, List.sum_append]

theorem cum_succ {α : Type} (cs : List (α × Int)) (i : Nat) (hi : i < cs.length) :
    cum cs (i + 1) = cum cs i + cs[i].2 := by
  unfold cum
  rw [List.take_add_one, sumW_append]
  simp [hi, sumW]

theorem cum_le_total {α : Type} (cs : List (α × Int)) (hpos : ∀ p ∈ cs, 0 < p.2) (i : Nat) :
    cum cs i ≤ sumW cs := by
  have h := sumW_append (cs.take i) (cs.drop i)
  rw [List.take_append_drop] at h
  have := sumW_nonneg (cs.drop i) (fun p hp => hpos p (List.mem_of_mem_drop hp))
  unfold cum; omega

theorem candidates_pos (s : List Bk) : ∀ p ∈ candidates s, 0 < p.2 := by
  intro p hp
  unfold candidates at hp
  simp only [List.mem_map, List.mem_filter, Bool.and_eq_true, decide_eq_true_eq] at hp
  obtain ⟨b, ⟨_, _, hw⟩, rfl⟩ := hp
  exact hw

end BfeVerif.C02
