/-
  C02 — model of hash based selection:
    bal_slb.GetHash / stickyBalance        (bfe_balance/bal_slb/bal_rr.go)
    BalanceGslb.Init / subClusterBalance / getHashKey / getHashKeyByHeader   (bfe_balance/bal_gslb/bal_gslb.go)
    murmur3.Sum64 (github.com/spaolacci/murmur3 v1.1.0, seed 0) — modelled too, tied by the correspondence run;
    every theorem quantifies over an arbitrary hash value, so nothing depends on it.
  Core-only.
-/
namespace BfeVerif.C02

/-! ### murmur3 x64_128, first half -/
def c1 : UInt64 := 0x87c37b91114253d5
def c2 : UInt64 := 0x4cf5ad432745937f

def rotl (x : UInt64) (r : UInt64) : UInt64 := (x <<< r) ||| (x >>> (64 - r))

def mixK1 (k : UInt64) : UInt64 := rotl (k * c1) 31 * c2
def mixK2 (k : UInt64) : UInt64 := rotl (k * c2) 33 * c1

def fmix64 (k : UInt64) : UInt64 :=
  let k := k ^^^ (k >>> 33)
  let k := k * 0xff51afd7ed558ccd
  let k := k ^^^ (k >>> 33)
  let k := k * 0xc4ceb9fe1a85ec53
  k ^^^ (k >>> 33)

/-- little endian value of at most 8 bytes -/
def le64 : List UInt8 → UInt64
  | [] => 0
  | b :: rest => b.toUInt64 ||| (le64 rest <<< 8)

/-- block loop `bmix`; `fuel` ≥ number of blocks.  Returns (h1, h2, tail). -/
def bmix : Nat → List UInt8 → UInt64 → UInt64 → UInt64 × UInt64 × List UInt8
  | 0, p, h1, h2 => (h1, h2, p)
  | fuel + 1, p, h1, h2 =>
    if p.length < 16 then (h1, h2, p)
    else
      let k1 := le64 (p.take 8)
      let k2 := le64 ((p.drop 8).take 8)
      let h1 := h1 ^^^ mixK1 k1
      let h1 := rotl h1 27 + h2
      let h1 := h1 * 5 + 0x52dce729
      let h2 := h2 ^^^ mixK2 k2
      let h2 := rotl h2 31 + h1
      let h2 := h2 * 5 + 0x38495ab5
      bmix fuel (p.drop 16) h1 h2

/-- `murmur3.Sum64(data)` -/
def sum64 (data : List UInt8) : UInt64 :=
  let r := bmix (data.length / 16 + 1) data 0 0
  let h1 := r.1
  let h2 := r.2.1
  let tail := r.2.2
  let h2 := if tail.length > 8 then h2 ^^^ mixK2 (le64 (tail.drop 8)) else h2
  let h1 := if tail.length > 0 then h1 ^^^ mixK1 (le64 (tail.take 8)) else h1
  let clen := UInt64.ofNat data.length
  let h1 := h1 ^^^ clen
  let h2 := h2 ^^^ clen
  let h1 := h1 + h2
  let h2 := h2 + h1
  let h1 := fmix64 h1
  let h2 := fmix64 h2
  h1 + h2

/-! ### the cumulative-weight walk -/

/-- `for x in cands { value -= x.weight; if value < 0 { return x } }`; `none` = fell off the end -/
def walk {α : Type} : List (α × Int) → Int → Option α
  | [], _ => none
  | (k, w) :: rest, v => if v - w < 0 then some k else walk rest (v - w)

def sumW {α : Type} (cs : List (α × Int)) : Int := (cs.map (·.2)).sum

/-- `GetHash(key, uint(base))` for a non-nil key with hash `h`: `int(h % uint64(base))`, `0 < base < 2^63` -/
def getHash (h : Nat) (base : Int) : Int := (h : Int) % base

/-- insertion sort by a string key (the model's stand-in for `sort.Sort`; any sorted permutation
    gives the same answer when keys are distinct — `C02_sorted_unique`) -/
def ins {α : Type} (key : α → String) (x : α) : List α → List α
  | [] => [x]
  | y :: ys => if key x ≤ key y then x :: y :: ys else y :: ins key x ys

def isort {α : Type} (key : α → String) (l : List α) : List α := l.foldr (ins key) []

structure Bk where
  addr : String   -- BfeBackend.AddrInfo
  w : Int         -- BackendRR.weight
  avail : Bool
deriving Repr, DecidableEq

inductive Pick (α : Type) where
  | ok : α → Pick α
  | down : Pick α          -- "rr_bal:all backend is down"
  | unreachable : Pick α   -- "rr_bal:stickyBalance fail" (/* never come here */)
deriving Repr, DecidableEq

def candidates (bs : List Bk) : List (Bk × Int) :=
  (bs.filter fun b => b.avail && decide (0 < b.w)).map fun b => (b, b.w)

/-- `stickyBalance` once `brr.backends` is in the order `sorted` -/
def stickyOn (sorted : List Bk) (h : Nat) : Pick Bk :=
  let cands := candidates sorted
  if cands.isEmpty then .down
  else match walk cands (getHash h (sumW cands)) with
    | some b => .ok b
    | none => .unreachable

/-- `stickyBalance` on a list in configuration order -/
def sticky (bs : List Bk) (h : Nat) : Pick Bk := stickyOn (isort (·.addr) bs) h

/-! ### sub-cluster level -/
structure Sub where
  name : String
  w : Int
deriving Repr, DecidableEq

structure Gslb where
  subs : List Sub     -- sorted by name
  total : Int         -- totalWeight
  single : Bool
  avail : Nat
deriving Repr, DecidableEq

def posW (subs : List Sub) : List Sub := subs.filter fun s => decide (0 < s.w)

/-- index of the last sub-cluster with weight > 0 (`bal.avail`), 0 if none -/
def lastPos : List Sub → Nat → Nat → Nat
  | [], _, acc => acc
  | s :: rest, i, acc => lastPos rest (i + 1) (if 0 < s.w then i else acc)

/-- `BalanceGslb.Init` once the map has been iterated in the order `conf`; `none` = "gslb total weight = 0" -/
def gslbInitOn (sorted : List Sub) : Option Gslb :=
  let total := ((posW sorted).map (·.w)).sum
  if total = 0 then none
  else some { subs := sorted, total := total, single := (posW sorted).length == 1, avail := lastPos sorted 0 0 }

def gslbInit (conf : List Sub) : Option Gslb := gslbInitOn (isort (·.name) conf)

/-- the loop of `subClusterBalance`; `last` = the `subCluster` variable -/
def walkSub : List Sub → Int → Option Sub → Option Sub
  | [], _, last => last
  | s :: rest, w, _ =>
    if s.w ≤ 0 then walkSub rest w (some s)
    else if w - s.w < 0 then some s else walkSub rest (w - s.w) (some s)

/-- `subClusterBalance`; `none` = error ("totalWeight is 0") or nil sub-cluster -/
def subBalance (g : Gslb) (h : Nat) : Option Sub :=
  if g.total = 0 then none
  else if g.single then g.subs[g.avail]?
  else walkSub g.subs (getHash h g.total) none

/-! ### getHashKey -/
inductive Strategy | clientIdOnly | clientIpOnly | clientIdPreferred | requestURI
deriving Repr, DecidableEq

structure ReqKeys where
  hdrVal : List UInt8            -- req.HttpRequest.Header.Get(HashHeader) ("" when absent)
  cookieSpec : Bool              -- HashHeader contains ':' (cluster_conf.GetCookieKey ok)
  cookie : Option (List UInt8)   -- value of that cookie if the request carries it
  ip : List UInt8                -- req.ClientAddr.IP (nil -> [])
  uri : List UInt8               -- req.HttpRequest.RequestURI

/-- `getHashKeyByHeader`: `none` = nil -/
def keyByHeader (r : ReqKeys) : Option (List UInt8) :=
  if r.hdrVal.length > 0 then some r.hdrVal
  else if r.cookieSpec then r.cookie   -- `[]byte(cookie.Value)`: non-nil even when the value is empty
  else none

/-- `getHashKey` before the "empty -> 8 random bytes" step -/
def rawKey (s : Strategy) (r : ReqKeys) : List UInt8 :=
  match s with
  | .clientIdOnly => (keyByHeader r).getD []
  | .clientIpOnly => r.ip
  | .clientIdPreferred =>
    let k := (keyByHeader r).getD []
    if k.length = 0 then r.ip else k     -- `if len(hashKey) == 0 { hashKey = clientIP }` (after fix C02-preferred-empty-id)
  | .requestURI => r.uri

/-- `getHashKey`: `none` = the key is 8 random bytes -/
def hashKey (s : Strategy) (r : ReqKeys) : Option (List UInt8) :=
  let k := rawKey s r
  if k.length = 0 then none else some k

/-! ### specification side: interval form over the canonical (sorted) eligible set -/

/-- the target whose half-open interval `[c_{i-1}, c_i)` of cumulative weights contains `r` -/
def intervalPick {α : Type} : List (α × Int) → Int → Int → Option α
  | [], _, _ => none
  | (k, w) :: rest, acc, r => if acc ≤ r ∧ r < acc + w then some k else intervalPick rest (acc + w) r

end BfeVerif.C02
