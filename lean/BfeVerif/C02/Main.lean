import BfeVerif.C02.Driver
def main : IO Unit := BfeVerif.Proto.driverMain BfeVerif.C02.run
