import BfeVerif.C02.Proofs
/-!
  C02 — hash based / sticky selection is deterministic, weight-partitioned and independent of the
  configuration order.  Property theorems only.

  `walk` is the loop shared by `stickyBalance` and `subClusterBalance` (`value -= weight; if value < 0`),
  `walkPos` the same loop returning the position, `cum cs i` the cumulative weight of the first `i` targets.
  Every statement holds for an arbitrary hash value `h` (murmur3 is not assumed to have any property).
-/
namespace BfeVerif.C02

/-- the loop returns the element at the position `walkPos` computes -/
theorem C02_walk_is_walkPos {α : Type} (cs : List (α × Int)) (v : Int) :
    walk cs v = (walkPos cs v).bind fun i => cs[i]?.map (·.1) := walk_eq_walkPos cs v

/-- **Partition**: with positive weights, target `i` is chosen exactly for the residues in the half-open
    interval `[c_i, c_{i+1})` of cumulative weights. -/
theorem C02_partition {α : Type} (cs : List (α × Int)) (hpos : ∀ p ∈ cs, 0 < p.2) (r : Int) (hr : 0 ≤ r) (i : Nat) :
    walkPos cs r = some i ↔ i < cs.length ∧ cum cs i ≤ r ∧ r < cum cs (i + 1) :=
  walkPos_iff cs hpos r hr i

/-- **Exact share**: out of the `W` residues `0..W-1`, exactly `w_i` select target `i`. -/
theorem C02_share {α : Type} (cs : List (α × Int)) (hpos : ∀ p ∈ cs, 0 < p.2) (i : Nat) (hi : i < cs.length) :
    ((List.range (sumW cs).toNat).filter (fun r : Nat => decide (walkPos cs (r : Int) = some i))).length
      = (cs[i].2).toNat := by
  have hc0 := cum_nonneg cs hpos i
  have hc1 := cum_succ cs i hi
  have hle := cum_le_total cs hpos (i + 1)
  have hw : 0 < cs[i].2 := hpos _ (List.getElem_mem hi)
  have hcongr : ∀ r ∈ List.range (sumW cs).toNat,
      decide (walkPos cs (r : Int) = some i) = decide ((cum cs i).toNat ≤ r ∧ r < (cum cs (i + 1)).toNat) := by
    intro r _
    have := walkPos_iff cs hpos (r : Int) (by omega) i
    by_cases hx : walkPos cs (r : Int) = some i
    · have h2 := this.mp hx
      simp only [hx, decide_true]
      symm; rw [decide_eq_true_eq]; omega
    · have : ¬ ((cum cs i).toNat ≤ r ∧ r < (cum cs (i + 1)).toNat) := by
        intro hh; exact hx (this.mpr ⟨hi, by omega, by omega⟩)
      simp only [hx, decide_false]
      symm; rw [decide_eq_false_iff_not]; exact this
  rw [List.filter_congr hcongr, filter_range_interval]
  omega

/-- **Totality**: for `0 ≤ r < W` the walk always finds a target — the
    `/* never come here */` return of `stickyBalance` is dead. -/
theorem C02_total {α : Type} (cs : List (α × Int)) (r : Int) (hr : 0 ≤ r) (hlt : r < sumW cs) :
    ∃ k, walk cs r = some k := by
  obtain ⟨i, hi, hl⟩ := walkPos_total cs r hr hlt
  rw [walk_eq_walkPos, hi]
  exact ⟨cs[i].1, by simp [hl]⟩

/-- The subtractive walk of the code equals the interval search the driver uses as oracle. -/
theorem C02_walk_eq_interval {α : Type} (cs : List (α × Int)) (r : Int) (hr : 0 ≤ r) :
    walk cs r = intervalPick cs 0 r := by
  have := walk_eq_interval cs 0 r hr
  simp at this; exact this.symm

/-- Whatever sorted permutation `sort.Sort` (unstable) produces, it is the same list as long as the keys are distinct. -/
theorem C02_sorted_unique {α : Type} (key : α → String) (l s : List α) (hp : s.Perm l)
    (hs : Sorted key s) (hnd : (l.map key).Nodup) : s = isort key l := by
  apply sorted_unique key s (isort key l) (hp.trans (isort_perm key l).symm) hs (isort_sorted key l)
  exact (hp.map key).nodup_iff.mpr hnd

/-- **Order independence (instances)**: two configurations listing the same backends (distinct `AddrInfo`) in
    different orders select the same backend for every hash value, for every sorted order the sort may produce. -/
theorem C02_sticky_order_independent (bs1 bs2 s1 s2 : List Bk) (h : Nat)
    (hperm : bs1.Perm bs2) (hnd : (bs1.map (·.addr)).Nodup)
    (hp1 : s1.Perm bs1) (hs1 : Sorted (·.addr) s1) (hp2 : s2.Perm bs2) (hs2 : Sorted (·.addr) s2) :
    stickyOn s1 h = stickyOn s2 h := by
  have : s1 = s2 :=
    sorted_unique (·.addr) s1 s2 (hp1.trans (hperm.trans hp2.symm)) hs1 hs2 ((hp1.map _).nodup_iff.mpr hnd)
  rw [this]

theorem C02_sticky_perm (bs1 bs2 : List Bk) (h : Nat) (hperm : bs1.Perm bs2) (hnd : (bs1.map (·.addr)).Nodup) :
    sticky bs1 h = sticky bs2 h :=
  C02_sticky_order_independent bs1 bs2 _ _ h hperm hnd (isort_perm _ _) (isort_sorted _ _)
    (isort_perm _ _) (isort_sorted _ _)

/-- `stickyBalance` never reaches its "stickyBalance fail" return, reports "all backend is down" exactly when
    no backend is available with weight > 0, and otherwise returns the backend whose cumulative-weight
    interval contains `h mod W`. -/
theorem C02_sticky_spec (s : List Bk) (h : Nat) :
    (stickyOn s h = .down ↔ candidates s = []) ∧ stickyOn s h ≠ .unreachable ∧
    (candidates s ≠ [] →
      ∃ b, stickyOn s h = .ok b ∧
        intervalPick (candidates s) 0 ((h : Int) % sumW (candidates s)) = some b) := by
  unfold stickyOn
  simp only []
  by_cases he : candidates s = []
  · simp [he]
  · have hpos := sumW_pos _ (candidates_pos s) he
    have hr0 : 0 ≤ getHash h (sumW (candidates s)) := Int.emod_nonneg _ (by omega)
    have hr1 : getHash h (sumW (candidates s)) < sumW (candidates s) := Int.emod_lt_of_pos _ hpos
    obtain ⟨k, hk⟩ := C02_total (candidates s) _ hr0 hr1
    have hemp : (candidates s).isEmpty = false := by simpa using he
    simp only [hemp, hk, he]
    refine ⟨by simp, by simp, fun _ => ⟨k, rfl, ?_⟩⟩
    have := C02_walk_eq_interval (candidates s) _ hr0
    rw [hk] at this; exact this.symm

/-! ### sub-clusters -/

/-- **Partition (sub-clusters)**: after `Init`, `subClusterBalance` returns the sub-cluster selected by the
    walk over the positive-weight sub-clusters in name order (the `single` shortcut and the skipping of
    non-positive weights included); it never errs and never returns a non-positive-weight sub-cluster. -/
theorem C02_sub_partition (sorted : List Sub) (g : Gslb) (hg : gslbInitOn sorted = some g) (h : Nat) :
    ∃ s, subBalance g h = some s ∧ walk (subCands sorted) (getHash h g.total) = some s ∧ 0 < s.w ∧ s ∈ sorted := by
  unfold gslbInitOn at hg
  simp only [] at hg
  split at hg
  · simp at hg
  · rename_i htot
    simp only [Option.some.injEq] at hg
    subst hg
    have hsum : sumW (subCands sorted) = ((posW sorted).map (·.w)).sum := by
      simp [sumW, subCands, List.map_map, Function.comp_def]
    have hposc : ∀ p ∈ subCands sorted, 0 < p.2 := by
      intro p hp
      simp only [subCands, posW, List.mem_map, List.mem_filter, decide_eq_true_eq] at hp
      obtain ⟨s, ⟨_, hw⟩, rfl⟩ := hp; exact hw
    have hne : subCands sorted ≠ [] := by
      intro hc; rw [hc] at hsum; simp [sumW] at hsum; exact htot hsum.symm
    have hpos := sumW_pos _ hposc hne
    rw [hsum] at hpos
    have hr0 : 0 ≤ getHash h ((posW sorted).map (·.w)).sum := Int.emod_nonneg _ htot
    have hr1 : getHash h ((posW sorted).map (·.w)).sum < sumW (subCands sorted) := by
      rw [hsum]; exact Int.emod_lt_of_pos _ hpos
    obtain ⟨s, hs⟩ := C02_total (subCands sorted) _ hr0 hr1
    have hmem : s ∈ posW sorted := by
      rw [walk_eq_walkPos] at hs
      cases hw : walkPos (subCands sorted) (getHash h ((posW sorted).map (·.w)).sum) with
      | none => simp [hw] at hs
      | some i =>
        simp only [hw, Option.bind_some, Option.map_eq_some_iff] at hs
        obtain ⟨p, hp, rfl⟩ := hs
        have := List.mem_of_getElem? hp
        simp only [subCands, List.mem_map] at this
        obtain ⟨s', hs', rfl⟩ := this
        exact hs'
    have hmem' : s ∈ sorted ∧ 0 < s.w := by
      simp only [posW, List.mem_filter, decide_eq_true_eq] at hmem; exact hmem
    refine ⟨s, ?_, hs, hmem'.2, hmem'.1⟩
    unfold subBalance
    simp only [htot, if_false]
    by_cases hsingle : ((posW sorted).length == 1) = true
    · simp only [hsingle, if_true]
      have hlen : (posW sorted).length = 1 := by simpa using hsingle
      obtain ⟨x, hx⟩ := List.length_eq_one_iff.mp hlen
      have hnn : posW sorted ≠ [] := by rw [hx]; simp
      obtain ⟨j, hj, hl⟩ := (lastPos_spec sorted 0 0).1 hnn
      rw [hj, Nat.zero_add, hl, hx]
      rw [hx] at hmem
      simp at hmem; simp [hmem]
    · simp only [hsingle]
      exact walkSub_of_walk sorted _ none s hs

/-- **Order independence (sub-clusters)**: `Init` builds the same balancer from any iteration order of the
    configuration map (names are map keys, hence distinct). -/
theorem C02_gslb_order_independent (c1 c2 : List Sub) (hperm : c1.Perm c2) (hnd : (c1.map (·.name)).Nodup) :
    gslbInit c1 = gslbInit c2 := by
  unfold gslbInit
  have : isort (·.name) c1 = isort (·.name) c2 :=
    sorted_unique (·.name) _ _ ((isort_perm _ c1).trans (hperm.trans (isort_perm _ c2).symm))
      (isort_sorted _ _) (isort_sorted _ _) (((isort_perm _ c1).map _).nodup_iff.mpr hnd)
  rw [this]

/-! ### hash key -/

/-- The decision table of `getHashKey`, one line per strategy. -/
theorem C02_key_table (r : ReqKeys) :
    rawKey .clientIpOnly r = r.ip ∧ rawKey .requestURI r = r.uri ∧
    rawKey .clientIdOnly r = (keyByHeader r).getD [] ∧
    ((keyByHeader r).getD [] = [] → rawKey .clientIdPreferred r = r.ip) ∧
    ((keyByHeader r).getD [] ≠ [] → rawKey .clientIdPreferred r = (keyByHeader r).getD []) := by
  refine ⟨rfl, rfl, rfl, ?_, ?_⟩
  · intro h; simp [rawKey, h]
  · intro h
    have : ((keyByHeader r).getD []).length ≠ 0 := fun h0 => h (List.eq_nil_of_length_eq_zero h0)
    simp [rawKey, this]

/-- Full-strength expectation for `ClientIdPreferred` ("use CLIENTID to hash, otherwise use CLIENTIP"):
    whenever the client id is absent **or empty** and a client address is known, the key is the address. -/
def PreferredFallsBack : Prop :=
  ∀ r : ReqKeys, (keyByHeader r).getD [] = [] → r.ip ≠ [] → hashKey .clientIdPreferred r = some r.ip

/-- holds for the fixed code (`len(hashKey) == 0` instead of `hashKey == nil`).  The unfixed code failed it on
    a request carrying the id cookie with an EMPTY value (`[]byte("")` is non-nil): witness kept in
    corpus/C02/known.ops. -/
theorem C02_preferred_fallback : PreferredFallsBack := by
  intro r h hip
  unfold hashKey
  have : r.ip.length ≠ 0 := fun h0 => hip (List.eq_nil_of_length_eq_zero h0)
  simp [rawKey, h, this]

/-- the former witness: empty id cookie, known client IP -/
example : hashKey .clientIdPreferred ⟨[], true, some [], [1, 2, 3, 4], []⟩ = some [1, 2, 3, 4] := by decide

/-- The key is a function of the strategy's own inputs only (e.g. the URI never matters for `ClientIpOnly`). -/
theorem C02_key_depends_only (r r' : ReqKeys) :
    (r.ip = r'.ip → hashKey .clientIpOnly r = hashKey .clientIpOnly r') ∧
    (r.uri = r'.uri → hashKey .requestURI r = hashKey .requestURI r') ∧
    (keyByHeader r = keyByHeader r' → hashKey .clientIdOnly r = hashKey .clientIdOnly r') ∧
    (keyByHeader r = keyByHeader r' → r.ip = r'.ip → hashKey .clientIdPreferred r = hashKey .clientIdPreferred r') := by
  refine ⟨?_, ?_, ?_, ?_⟩
  · intro h; simp [hashKey, rawKey, h]
  · intro h; simp [hashKey, rawKey, h]
  · intro h; simp [hashKey, rawKey, h]
  · intro h h'; simp [hashKey, rawKey, h, h']

/-! ### non-vacuity -/
def exCs : List (String × Int) := [("a", 3), ("b", 1), ("c", 2)]
example : (List.range 6).map (fun r : Nat => walk exCs r) =
    [some "a", some "a", some "a", some "b", some "c", some "c"] := by decide
example : walk exCs 6 = none := by decide
def exBs : List Bk := [⟨"10.0.0.2:80", 200, true⟩, ⟨"10.0.0.1:80", 100, true⟩, ⟨"10.0.0.3:80", 300, false⟩]
example : sticky exBs 150 = .ok ⟨"10.0.0.2:80", 200, true⟩ := by decide
example : sticky exBs.reverse 150 = sticky exBs 150 := by decide
example : (gslbInit [⟨"b", 30⟩, ⟨"a", 70⟩, ⟨"z", 0⟩]).map (fun g => (subBalance g 69, subBalance g 70)) =
    some (some ⟨"a", 70⟩, some ⟨"b", 30⟩) := by decide

end BfeVerif.C02
