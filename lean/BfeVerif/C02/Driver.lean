import BfeVerif.Common.Proto
import BfeVerif.C02.Model
/-!
  C02 driver.
  `st <backends> <keys>`            BalanceRR.Balance(WrrSticky, key) per key on a list in configuration order
  `su <old> <backends> <keys>`      the same after Init(old) + one Balance + Update(backends)
  `gs <sticky> <strategy> <hashHeader hex> <subs> <reqs>`   BalanceGslb.Balance per request (crossRetry = 0)
      backends = `addrinfo/weight/avail,...` (`-` = none);  subs = `name=weight=backends;...`
      reqs     = `ip|headerValue|cookieValue|uri,...` (hex; `n` = absent, `-` = empty)
  results: `st`/`su`: per key the AddrInfo or `E:down` / `E:fail`;
           `gs`: per request `<key hex|rnd>;<SubclusterName>;<AddrInfo|*|E>`
-/
namespace BfeVerif.C02
open BfeVerif.Proto

def parseBk (s : String) : Option Bk :=
  match s.splitOn "/" with
  | [a, w, av] => match w.toInt? with
    | some w => some { addr := a, w := w, avail := av == "1" }
    | none => none
  | _ => none

def parseBks (s : String) : Option (List Bk) :=
  if s == "-" then some [] else (s.splitOn ",").mapM parseBk

def hashOf (k : List UInt8) : Nat := (sum64 k).toNat

def showPick : Pick Bk → String
  | .ok b => b.addr
  | .down => "E:down"
  | .unreachable => "E:fail"

/-- specification: canonical eligible set (sorted with the library merge sort), interval form -/
def specSticky (bs : List Bk) (h : Nat) : String :=
  let el := (bs.filter fun b => b.avail && decide (0 < b.w)).mergeSort (fun a b => decide (a.addr ≤ b.addr))
  let cs := el.map fun b => (b.addr, b.w)
  if cs.isEmpty then "E:down"
  else match intervalPick cs 0 ((h : Int) % sumW cs) with
    | some a => a
    | none => "E:fail"

/-- what the walk would give WITHOUT sorting (classifier for order dependence) -/
def unsortedSticky (bs : List Bk) (h : Nat) : String := showPick (stickyOn bs h)

def classify (bs : List Bk) (h : Nat) (impl : String) : Option String :=
  let exp := specSticky bs h
  if impl == exp then none
  else if impl == "E:fail" then some "unreachable-branch"
  else if impl == "E:down" then some "spurious-down"
  else if exp == "E:down" then some "ineligible-returned"
  else if !((bs.filter fun b => b.avail && decide (0 < b.w)).any fun b => b.addr == impl) then some "ineligible-returned"
  else if impl == unsortedSticky bs h then some "order-dependent"
  else some "wrong-interval"

def firstSome : List (Option String) → Option String
  | [] => none
  | some s :: _ => some s
  | none :: r => firstSome r

def runSticky (bs : List Bk) (keys : List (List UInt8)) (impl : String) (extra : List String) : Ans :=
  let hs := keys.map hashOf
  let model := ",".intercalate (hs.map fun h => showPick (sticky bs h))
  let impls := impl.splitOn ","
  let fails := (hs.zip impls).map fun (h, i) => classify bs h i
  let cands := candidates bs
  let W := sumW cands
  let residues := (hs.map fun (h : Nat) => (((h : Int)) % W).toNat).eraseDups
  let tags := extra ++ (if cands.length ≥ 2 then ["nt"] else []) ++
    (if cands.isEmpty then ["down"] else []) ++
    (if cands.length ≥ 2 ∧ residues.length = W.toNat then ["allres"] else []) ++
    (if cands.length < bs.length then ["inelig-present"] else []) ++
    (if isort (·.addr) bs != bs then ["unsorted"] else ["sorted"])
  { model := model
    verdict := if impls.length != hs.length then "FAIL:shape" else
      match firstSome fails with
      | some c => "FAIL:" ++ c
      | none => "ok"
    tags := tags }

/-- `Update`: survivors keep their object, the rest is appended; `stickyBalance` re-sorts, so only the set matters -/
def parseKeys (s : String) : Option (List (List UInt8)) := (s.splitOn ",").mapM bytesOfHex

structure SubC where
  name : String
  w : Int
  bs : List Bk

def parseSub (s : String) : Option SubC :=
  match s.splitOn "=" with
  | [n, w, b] => match w.toInt?, parseBks b with
    | some w, some bs => some { name := n, w := w, bs := bs }
    | _, _ => none
  | _ => none

def optHex (s : String) : Option (Option (List UInt8)) :=
  if s == "n" then some none else (bytesOfHex s).map some

def parseReq (cookieSpec : Bool) (s : String) : Option ReqKeys :=
  match s.splitOn "|" with
  | [ip, hv, ck, uri] =>
    match optHex ip, bytesOfHex hv, optHex ck, bytesOfHex uri with
    | some ip, some hv, some ck, some uri =>
      some { hdrVal := hv, cookieSpec := cookieSpec, cookie := ck, ip := ip.getD [], uri := uri }
    | _, _, _, _ => none
  | _ => none

def stratOf (s : String) : Option Strategy :=
  if s == "0" then some .clientIdOnly else if s == "1" then some .clientIpOnly
  else if s == "2" then some .clientIdPreferred else if s == "3" then some .requestURI else none

/-- the key the property demands: like `hashKey`, but an EMPTY client id also falls back to the client IP -/
def specKey (s : Strategy) (r : ReqKeys) : Option (List UInt8) :=
  let id := (keyByHeader r).getD []
  let k := match s with
    | .clientIdOnly => id
    | .clientIpOnly => r.ip
    | .clientIdPreferred => if id.isEmpty then r.ip else id
    | .requestURI => r.uri
  if k.isEmpty then none else some k

def eligAddrs (bs : List Bk) : List String := (bs.filter fun b => b.avail && decide (0 < b.w)).map (·.addr)

def runGslbReq (g : Gslb) (subs : List SubC) (sticky : Bool) (st : Strategy) (r : ReqKeys) (impl : String) :
    String × Option String × List String :=
  let backendsOf (n : String) : List Bk := match subs.find? (·.name == n) with
    | some s => s.bs
    | none => []
  let beOf (s : Sub) (h : Nat) : String :=
    let bs := backendsOf s.name
    if bs.isEmpty then "E"
    else if sticky then (match BfeVerif.C02.sticky bs h with | .ok b => b.addr | _ => "E")
    else if (eligAddrs bs).isEmpty then "E" else "*"
  let implF := impl.splitOn ";"
  let (iKey, iSub, iBe) := match implF with
    | [a, b, c] => (a, b, c)
    | _ => ("?", "?", "?")
  let sk := specKey st r
  let posNames := (posW g.subs).map (·.name)
  match hashKey st r with
  | none =>
    -- random key inside Balance: repeat the implementation's answer iff it is an allowed one
    let okSub := posNames.contains iSub
    let bs := backendsOf iSub
    let okBe := if bs.isEmpty || (eligAddrs bs).isEmpty then iBe == "E"
      else if sticky then (eligAddrs bs).contains iBe else iBe == "*"
    let model := if okSub && okBe then "rnd;" ++ iSub ++ ";" ++ iBe else "rnd;?;?"
    let f := if sk.isSome then some "preferred-empty-id-random"
      else if iKey != "rnd" then some "key-table" else if !(okSub && okBe) then some "rnd-ineligible" else none
    (model, f, ["rnd"])
  | some k =>
    let h := hashOf k
    let keyS := hexField k
    match subBalance g h with
    | none => (keyS ++ ";?;err", some "no-sub", [])
    | some s =>
      let model := keyS ++ ";" ++ s.name ++ ";" ++ beOf s h
      -- specification: interval form over the name-sorted positive sub-clusters / address-sorted eligible backends
      let ps := ((posW g.subs).mergeSort fun a b => decide (a.name ≤ b.name)).map fun s => (s.name, s.w)
      let expSub := (intervalPick ps 0 ((h : Int) % sumW ps)).getD "?"
      let bs := backendsOf expSub
      let expBe := if bs.isEmpty then "E" else if sticky then
          (let x := specSticky bs h; if x == "E:down" then "E" else x)
        else if (eligAddrs bs).isEmpty then "E" else "*"
      let f := if sk != some k then some "key-table"
        else if iKey != keyS then some "key-table"
        else if iSub != expSub then some "sub-wrong-interval"
        else if iBe != expBe then
          (if sticky ∧ iBe == unsortedSticky bs h then some "order-dependent" else some "backend-wrong-interval")
        else none
      (model, f, [if sticky then "sticky" else "nonsticky"])

def run (op impl : String) : Ans :=
  match op.splitOn " " with
  | ["st", bss, ks] =>
    match parseBks bss, parseKeys ks with
    | some bs, some keys => runSticky bs keys impl ["st"]
    | _, _ => { model := "bad-op", verdict := "skip" }
  | ["su", _, bss, ks] =>
    match parseBks bss, parseKeys ks with
    | some bs, some keys => runSticky bs keys impl ["su"]
    | _, _ => { model := "bad-op", verdict := "skip" }
  | ["gs", stk, strat, spec, subsS, reqsS] =>
    match stratOf strat, bytesOfHex spec, (subsS.splitOn ";").mapM parseSub with
    | some st, some specB, some subs =>
      let cookieSpec := specB.contains (58 : UInt8)
      match (reqsS.splitOn ",").mapM (parseReq cookieSpec) with
      | none => { model := "bad-op", verdict := "skip" }
      | some reqs =>
        match gslbInit (subs.map fun s => { name := s.name, w := s.w }) with
        | none => { model := "init-err", verdict := if impl == "init-err" then "ok" else "FAIL:init", tags := ["gs", "init-err"] }
        | some g =>
          let impls := impl.splitOn ","
          let rs := (reqs.zip impls).map fun (r, i) => runGslbReq g subs (stk == "1") st r i
          let model := ",".intercalate (rs.map (·.1))
          let fails := rs.map (·.2.1)
          let other := firstSome (fails.map fun f => if f == some "preferred-empty-id-random" then none else f)
          let verdict := if impls.length != reqs.length then "FAIL:shape" else
            match other, firstSome fails with
            | some c, _ => "FAIL:" ++ c
            | none, some c => "FAIL:" ++ c
            | none, none => "ok"
          let tags := (["gs", "strat" ++ strat] ++ (rs.map (·.2.2)).flatten ++
            (if (posW g.subs).length ≥ 2 then ["nt", "multi-sub"] else ["single-sub"]) ++
            (if (posW g.subs).length < g.subs.length then ["nonpos-sub"] else [])).eraseDups
          { model := model, verdict := verdict, tags := tags }
    | _, _, _ => { model := "bad-op", verdict := "skip" }
  | _ => { model := "bad-op", verdict := "skip" }

end BfeVerif.C02
