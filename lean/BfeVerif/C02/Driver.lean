import BfeVerif.Common.Proto
import BfeVerif.C02.Model
/-!
  C02 driver.
  `st <backends> <keys>`            BalanceRR.Balance(WrrSticky, key) per key on a list in configuration order
  `su <old> <backends> <keys>`      the same after Init(old) + one Balance + Update(backends)
  `gs <sticky> <strategy> <hashHeader hex> <subs> <reqs>`   BalanceGslb.Balance per request (crossRetry = 0)
      backends = `addrinfo/weight/avail,...` (`-` = none);  subs = `name=weight=backends;...`
      reqs     = script of `ip|headerValue|cookieValue|uri` (hex; `n` = absent, `-` = empty) and control items
                 `R:name=w/...` (Reload)  `B:name=addr/w/a+...` (BackendReload)  `A:name:addrinfo=0|1` (SetAvail)
  results: `st`/`su`: per key the AddrInfo or `E:down` / `E:fail`;
           `gs`: per request `<key hex|rnd>;<SubclusterName>;<AddrInfo|*|E>`
-/
namespace BfeVerif.C02
open BfeVerif.Proto

def parseBk (s : String) : Option Bk :=
  match s.splitOn "/" with
  | [a, w, av] => match w.toInt? with
    | some w => some { addr := a, w := w, avail := av == "1" }
    | none => none
  | _ => none

def parseBks (s : String) : Option (List Bk) :=
  if s == "-" then some [] else (s.splitOn ",").mapM parseBk

def hashOf (k : List UInt8) : Nat := (sum64 k).toNat

def showPick : Pick Bk → String
  | .ok b => b.addr
  | .down => "E:down"
  | .unreachable => "E:fail"

/-- specification: canonical eligible set (sorted with the library merge sort), interval form -/
def specSticky (bs : List Bk) (h : Nat) : String :=
  let el := (bs.filter fun b => b.avail && decide (0 < b.w)).mergeSort (fun a b => decide (a.addr ≤ b.addr))
  let cs := el.map fun b => (b.addr, b.w)
  if cs.isEmpty then "E:down"
  else match intervalPick cs 0 ((h : Int) % sumW cs) with
    | some a => a
    | none => "E:fail"

/-- what the walk would give WITHOUT sorting (classifier for order dependence) -/
def unsortedSticky (bs : List Bk) (h : Nat) : String := showPick (stickyOn bs h)

def classify (bs : List Bk) (h : Nat) (impl : String) : Option String :=
  let exp := specSticky bs h
  if impl == exp then none
  else if impl == "E:fail" then some "unreachable-branch"
  else if impl == "E:down" then some "spurious-down"
  else if exp == "E:down" then some "ineligible-returned"
  else if !((bs.filter fun b => b.avail && decide (0 < b.w)).any fun b => b.addr == impl) then some "ineligible-returned"
  else if impl == unsortedSticky bs h then some "order-dependent"
  else some "wrong-interval"

def firstSome : List (Option String) → Option String
  | [] => none
  | some s :: _ => some s
  | none :: r => firstSome r

def runSticky (bs : List Bk) (keys : List (List UInt8)) (impl : String) (extra : List String) : Ans :=
  let hs := keys.map hashOf
  let model := ",".intercalate (hs.map fun h => showPick (sticky bs h))
  let impls := impl.splitOn ","
  let fails := (hs.zip impls).map fun (h, i) => classify bs h i
  let cands := candidates bs
  let W := sumW cands
  let residues := (hs.map fun (h : Nat) => (((h : Int)) % W).toNat).eraseDups
  let tags := extra ++ (if cands.length ≥ 2 then ["nt"] else []) ++
    (if cands.isEmpty then ["down"] else []) ++
    (if cands.length ≥ 2 ∧ residues.length = W.toNat then ["allres"] else []) ++
    (if cands.length < bs.length then ["inelig-present"] else []) ++
    (if isort (·.addr) bs != bs then ["unsorted"] else ["sorted"])
  { model := model
    verdict := if impls.length != hs.length then "FAIL:shape" else
      match firstSome fails with
      | some c => "FAIL:" ++ c
      | none => "ok"
    tags := tags }

/-- `Update`: survivors keep their object, the rest is appended; `stickyBalance` re-sorts, so only the set matters -/
def parseKeys (s : String) : Option (List (List UInt8)) := (s.splitOn ",").mapM bytesOfHex

structure SubC where
  name : String
  w : Int
  bs : List Bk

def parseSub (s : String) : Option SubC :=
  match s.splitOn "=" with
  | [n, w, b] => match w.toInt?, parseBks b with
    | some w, some bs => some { name := n, w := w, bs := bs }
    | _, _ => none
  | _ => none

def optHex (s : String) : Option (Option (List UInt8)) :=
  if s == "n" then some none else (bytesOfHex s).map some

def parseReq (cookieSpec : Bool) (s : String) : Option ReqKeys :=
  match s.splitOn "|" with
  | [ip, hv, ck, uri] =>
    match optHex ip, bytesOfHex hv, optHex ck, bytesOfHex uri with
    | some ip, some hv, some ck, some uri =>
      some { hdrVal := hv, cookieSpec := cookieSpec, cookie := ck, ip := ip.getD [], uri := uri }
    | _, _, _, _ => none
  | _ => none

def stratOf (s : String) : Option Strategy :=
  if s == "0" then some .clientIdOnly else if s == "1" then some .clientIpOnly
  else if s == "2" then some .clientIdPreferred else if s == "3" then some .requestURI else none

/-- the key the property demands: like `hashKey`, but an EMPTY client id also falls back to the client IP -/
def specKey (s : Strategy) (r : ReqKeys) : Option (List UInt8) :=
  let id := (keyByHeader r).getD []
  let k := match s with
    | .clientIdOnly => id
    | .clientIpOnly => r.ip
    | .clientIdPreferred => if id.isEmpty then r.ip else id
    | .requestURI => r.uri
  if k.isEmpty then none else some k

def eligAddrs (bs : List Bk) : List String := (bs.filter fun b => b.avail && decide (0 < b.w)).map (·.addr)

def runGslbReq (g : Gslb) (subs : List SubC) (sticky : Bool) (st : Strategy) (r : ReqKeys) (impl : String) :
    String × Option String × List String :=
  let backendsOf (n : String) : List Bk := match subs.find? (·.name == n) with
    | some s => s.bs
    | none => []
  let beOf (s : Sub) (h : Nat) : String :=
    let bs := backendsOf s.name
    if bs.isEmpty then "E"
    else if sticky then (match BfeVerif.C02.sticky bs h with | .ok b => b.addr | _ => "E")
    else if (eligAddrs bs).isEmpty then "E" else "*"
  let implF := impl.splitOn ";"
  let (iKey, iSub, iBe) := match implF with
    | [a, b, c] => (a, b, c)
    | _ => ("?", "?", "?")
  let sk := specKey st r
  let posNames := (posW g.subs).map (·.name)
  match hashKey st r with
  | none =>
    -- random key inside Balance: repeat the implementation's answer iff it is an allowed one
    let okSub := posNames.contains iSub
    let bs := backendsOf iSub
    let okBe := if bs.isEmpty || (eligAddrs bs).isEmpty then iBe == "E"
      else if sticky then (eligAddrs bs).contains iBe else iBe == "*"
    let model := if okSub && okBe then "rnd;" ++ iSub ++ ";" ++ iBe else "rnd;?;?"
    let f := if sk.isSome then some "preferred-empty-id-random"
      else if iKey != "rnd" then some "key-table" else if !(okSub && okBe) then some "rnd-ineligible" else none
    (model, f, ["rnd"])
  | some k =>
    let h := hashOf k
    let keyS := hexField k
    match subBalance g h with
    | none => (keyS ++ ";?;err", some "no-sub", [])
    | some s =>
      let model := keyS ++ ";" ++ s.name ++ ";" ++ beOf s h
      -- specification: interval form over the name-sorted positive sub-clusters / address-sorted eligible backends
      let ps := ((posW g.subs).mergeSort fun a b => decide (a.name ≤ b.name)).map fun s => (s.name, s.w)
      let expSub := (intervalPick ps 0 ((h : Int) % sumW ps)).getD "?"
      let bs := backendsOf expSub
      let expBe := if bs.isEmpty then "E" else if sticky then
          (let x := specSticky bs h; if x == "E:down" then "E" else x)
        else if (eligAddrs bs).isEmpty then "E" else "*"
      let f := if sk != some k then some "key-table"
        else if iKey != keyS then some "key-table"
        else if iSub != expSub then some "sub-wrong-interval"
        else if iBe != expBe then
          (if sticky ∧ iBe == unsortedSticky bs h then some "order-dependent" else some "backend-wrong-interval")
        else none
      (model, f, [if sticky then "sticky" else "nonsticky"])

/-- one item of a `gs` script -/
inductive Item where
  | req (r : ReqKeys)
  | reload (conf : List (String × Int))              -- `R:name=w/...`   bal.Reload
  | backends (name : String) (bs : List Bk)          -- `B:name=addr/w/a+...`  bal.BackendReload of one sub-cluster
  | avail (name addr : String) (v : Bool)            -- `A:name:addrinfo=0|1`  SetAvail

def parseItem (cookieSpec : Bool) (s : String) : Option Item :=
  if s.startsWith "R:" then
    (((s.drop 2).toString.splitOn "/").mapM (fun (t : String) => match t.splitOn "=" with
      | [n, w] => (String.toInt? w).map fun w => (n, w)
      | _ => none)).map Item.reload
  else if s.startsWith "B:" then
    match (s.drop 2).toString.splitOn "=" with
    | [n, b] => (parseBks (b.replace "+" ",")).map (Item.backends n)
    | _ => none
  else if s.startsWith "A:" then
    match (s.drop 2).toString.splitOn "=" with
    | [na, v] =>
      match na.splitOn ":" with
      | n :: rest => if rest.isEmpty then none else some (Item.avail n (":".intercalate rest) (v == "1"))
      | [] => none
    | _ => none
  else (parseReq cookieSpec s).map Item.req

structure ScriptSt where
  subs : List SubC
  impls : List String
  outs : List String := []
  fails : List (Option String) := []
  tags : List String := []
  reloadErr : Bool := false

/-- the state a script is judged against depends only on the LAST configuration: a reload keeps the backends of the
    sub-clusters it keeps, a new sub-cluster has none (history independence is built into the oracle) -/
def runScript (sticky : Bool) (st : Strategy) : List Item → ScriptSt → ScriptSt
  | [], s => s
  | .req r :: rest, s =>
    let (tok, impls) := match s.impls with
      | t :: ts => (t, ts)
      | [] => ("", [])
    match gslbInit (s.subs.map fun x => { name := x.name, w := x.w }) with
    | none => runScript sticky st rest { s with impls := impls, outs := "no-cluster" :: s.outs, fails := some "no-cluster" :: s.fails }
    | some g =>
      let x := runGslbReq g s.subs sticky st r tok
      let tags := x.2.2 ++ (if (posW g.subs).length ≥ 2 then ["nt", "multi-sub"] else ["single-sub"]) ++
        (if (posW g.subs).length < g.subs.length then ["nonpos-sub"] else []) ++
        (if r.ip.length == 16 ∧ r.ip.take 12 == [0,0,0,0,0,0,0,0,0,0,255,255] then ["v4mapped"] else [])
      runScript sticky st rest { s with impls := impls, outs := x.1 :: s.outs, fails := x.2.1 :: s.fails, tags := tags.reverse ++ s.tags }
  | .reload conf :: rest, s =>
    if !(conf.any fun p => decide (0 < p.2)) then { s with reloadErr := true }
    else
      let subs := conf.map fun p =>
        { name := p.1, w := p.2, bs := ((s.subs.find? fun x => x.name == p.1).map (·.bs)).getD [] : SubC }
      let same := (subs.map fun x => (x.name, x.w)).mergeSort (fun a b => decide (a.1 ≤ b.1)) ==
                  (s.subs.map fun x => (x.name, x.w)).mergeSort (fun a b => decide (a.1 ≤ b.1))
      runScript sticky st rest { s with subs := subs, tags := (if same then "reload-same" else "reload-changed") :: s.tags }
  | .backends n bs :: rest, s =>
    let same := (s.subs.find? fun x => x.name == n).map (fun x => x.bs.mergeSort (fun a b => decide (a.addr ≤ b.addr))) ==
      some (bs.mergeSort fun a b => decide (a.addr ≤ b.addr))
    runScript sticky st rest { s with subs := s.subs.map fun x => if x.name == n then { x with bs := bs } else x
                                      tags := (if same then "backend-reload-same" else "backend-reload-changed") :: s.tags }
  | .avail n a v :: rest, s =>
    runScript sticky st rest { s with
      subs := s.subs.map fun x => if x.name == n then { x with bs := x.bs.map fun b => if b.addr == a then { b with avail := v } else b } else x
      tags := "avail-flip" :: s.tags }

def run (op impl : String) : Ans :=
  match op.splitOn " " with
  | ["st", bss, ks] =>
    match parseBks bss, parseKeys ks with
    | some bs, some keys => runSticky bs keys impl ["st"]
    | _, _ => { model := "bad-op", verdict := "skip" }
  | ["su", _, bss, ks] =>
    match parseBks bss, parseKeys ks with
    | some bs, some keys => runSticky bs keys impl ["su"]
    | _, _ => { model := "bad-op", verdict := "skip" }
  | ["gs", stk, strat, spec, subsS, scriptS] =>
    match stratOf strat, bytesOfHex spec, (subsS.splitOn ";").mapM parseSub with
    | some st, some specB, some subs =>
      let cookieSpec := specB.contains (58 : UInt8)
      match (scriptS.splitOn ",").mapM (parseItem cookieSpec) with
      | none => { model := "bad-op", verdict := "skip" }
      | some items =>
        match gslbInit (subs.map fun s => { name := s.name, w := s.w }) with
        | none => { model := "init-err", verdict := if impl == "init-err" then "ok" else "FAIL:init", tags := ["gs", "init-err"] }
        | some _ =>
          let r := runScript (stk == "1") st items { subs := subs, impls := impl.splitOn "," }
          if r.reloadErr then
            { model := "reload-err", verdict := if impl == "reload-err" then "ok" else "FAIL:reload-rejected", tags := ["gs", "reload-err"] }
          else
          let model := ",".intercalate r.outs.reverse
          let fails := r.fails.reverse
          let other := firstSome (fails.map fun f => if f == some "preferred-empty-id-random" then none else f)
          let nreq := (items.filter fun i => match i with | .req _ => true | _ => false).length
          let verdict := if (impl.splitOn ",").length != nreq then "FAIL:shape" else
            match other, firstSome fails with
            | some c, _ => "FAIL:" ++ c
            | none, some c => "FAIL:" ++ c
            | none, none => "ok"
          { model := model, verdict := verdict, tags := (["gs", "strat" ++ strat] ++ r.tags.reverse).eraseDups }
    | _, _, _ => { model := "bad-op", verdict := "skip" }
  | _ => { model := "bad-op", verdict := "skip" }

end BfeVerif.C02
