import BfeVerif.Common.Proto
import BfeVerif.C07.Model
/-!
  C07, second model — connection-count bookkeeping of the websocket proxy and the TLS stream proxy
  (bfe_websocket/server_conn.go, bfe_stream/server_conn.go; the two files have the same shape):

    findBackend:  for i := 0; i < connectRetryMax(); i++ {
                      backend, err := balanceHandler(..);  if err != nil { continue }
                      backend.IncConnNum()
                      bc, err := net.DialTimeout("tcp", backend.GetAddrInfo(), timeout)
                      if err != nil { backend.DecConnNum(); continue }
                      return bc, backend, nil }
                  return errRetryTooMany
    serve:        bc, back, err := findBackend(); if err != nil { return }
                  defer back.DecConnNum()   ... handshake / copy loop, any way out (also a panic) ...

  The balance handler's answers are a script, the outcome of dialling backend j is the function `dial`.
  Core-only.  Connections are `RqSt` records (tb = the backend held, invoked = serve started, done = serve returned).
-/
namespace BfeVerif.C07.Px
open BfeVerif.C07

inductive Pick where
  | err | be (j : Nat)
  deriving Inhabited

inductive PEv where
  | balErr | refused (j : Nat) | connected (j : Nat)

/-- findBackend with `n` tries left: (backend held, connNums, events) -/
def find (dial : Nat → Bool) : Nat → List Pick → (Nat → Int) → Option Nat × (Nat → Int) × List PEv
  | 0, _, conn => (none, conn, [])
  | n + 1, [], conn =>
    let r := find dial n [] conn
    (r.1, r.2.1, .balErr :: r.2.2)
  | n + 1, .err :: ps, conn =>
    let r := find dial n ps conn
    (r.1, r.2.1, .balErr :: r.2.2)
  | n + 1, .be j :: ps, conn =>
    let c1 := upd conn j 1
    if dial j then (some j, c1, [.connected j])
    else
      let r := find dial n ps (upd c1 j (-1))
      (r.1, r.2.1, .refused j :: r.2.2)

inductive POut where
  | opened (k : Nat) (evs : List PEv) (est : Option Nat) (conn : Nat → Int)
  | closed (k : Nat) (conn : Nat → Int)
  | bad

structure PG where
  conn : Nat → Int
  conns : List RqSt
  outs : List POut

def PG.init (n : Nat) : PG := ⟨fun _ => 0, List.replicate n {}, []⟩

/-- connectRetryMax(): the configured value if positive, else the default 3 -/
def effRetry (rm : Nat) : Nat := if rm > 0 then rm else 3

def pstep (dial : Nat → Bool) (rm : Nat) (scripts : List (List Pick)) (g : PG) : Step → PG
  | .inv k =>
    match scripts[k]?, g.conns[k]? with
    | some sc, some r =>
      if r.invoked then { g with outs := .bad :: g.outs }
      else
        let f := find dial (effRetry rm) sc g.conn
        { conn := f.2.1, conns := setRq g.conns k { tb := f.1, invoked := true, done := false },
          outs := .opened k f.2.2 f.1 f.2.1 :: g.outs }
    | _, _ => { g with outs := .bad :: g.outs }
  | .fin k =>
    match g.conns[k]? with
    | some r =>
      if !r.invoked || r.done then { g with outs := .bad :: g.outs }
      else
        let conn' := decTb g.conn r.tb
        { conn := conn', conns := setRq g.conns k { tb := none, invoked := true, done := true },
          outs := .closed k conn' :: g.outs }
    | none => { g with outs := .bad :: g.outs }
  | _ => { g with outs := .bad :: g.outs }

def prun (dial : Nat → Bool) (rm : Nat) (scripts : List (List Pick)) : PG → List Step → PG
  | g, [] => g
  | g, st :: rest => prun dial rm scripts (pstep dial rm scripts g st) rest

/-! ### line protocol -/

structure POp where
  rm : Nat
  ups : List Bool
  scripts : List (List Pick)
  sched : List Step

def parsePick (nb : Nat) (c : Char) : Option Pick :=
  if c == 'e' then some .err
  else if c.isDigit then (if c.toNat - 48 < nb then some (.be (c.toNat - 48)) else some .err)
  else none

def parsePStep (n : Nat) (s : String) : Option Step :=
  match s.toList with
  | c :: rest =>
    match (String.ofList rest).toNat? with
    | some k =>
      if k ≥ n then none
      else if c == 'o' then some (.inv k) else if c == 'c' then some (.fin k) else none
    | none => none
  | [] => none

def parsePOp (op : String) : Option POp :=
  match op.splitOn "/" with
  | ["px", k, rm, backs, conns, sched] => do
    if !(k == "w" || k == "s") then none
    let rmN ← rm.toNat?
    let ups ← backs.toList.mapM fun c => if c == 'u' then some true else if c == 'd' then some false else none
    let scripts ← (conns.splitOn ";").mapM fun s =>
      if s == "-" then some [] else s.toList.mapM (parsePick ups.length)
    let st ← (sched.splitOn ".").mapM (parsePStep scripts.length)
    if ups.isEmpty || ups.length > 10 || scripts.length > 8 || rmN > 9 then none else
    some ⟨rmN, ups, scripts, st⟩
  | _ => none

def renderPConn (nb : Nat) (conn : Nat → Int) : String :=
  let parts := (List.range nb).filterMap fun j =>
    if conn j != 0 then some ("b" ++ toString j ++ "=" ++ toString (conn j)) else none
  if parts.isEmpty then "0" else "+".intercalate parts

def renderPEv : PEv → String
  | .balErr => "e"
  | .refused j => toString j ++ "x"
  | .connected j => toString j ++ "+"

def renderPOut (nb : Nat) : POut → String
  | .opened k evs est conn =>
    "o" ++ toString k ++ ":" ++ ",".intercalate (evs.map renderPEv) ++ ";" ++
    (match est with | some j => "est " ++ toString j | none => "fail") ++ ";cn=" ++ renderPConn nb conn
  | .closed k conn => "c" ++ toString k ++ ":cn=" ++ renderPConn nb conn
  | .bad => "bad"

def runPOp (p : POp) : String :=
  let g := prun (fun j => p.ups.getD j false) p.rm p.scripts (PG.init p.scripts.length) p.sched
  if g.outs.any (fun o => match o with | .bad => true | _ => false) then "bad-op"
  else " | ".intercalate (g.outs.reverse.map (renderPOut p.ups.length))

/-! ### spec oracle on the implementation's line: connection k holds backend j from `est j` until `c<k>`;
    at every step the connNums must equal the number of connections holding each backend -/

def pSnap (s : String) : Option (List (String × Int)) :=
  if s == "0" then some []
  else (s.splitOn "+").mapM fun p =>
    match p.splitOn "=" with
    | [l, v] => v.toInt?.map fun n => (l, n)
    | _ => none

def pJudge : List String → List (Option String) → Option String
  | [], _ => none
  | st :: rest, held =>
    match st.splitOn ":" with
    | [hd, body] =>
      match hd.toList with
      | c :: ds =>
        match (String.ofList ds).toNat? with
        | none => some "unparsable"
        | some k =>
          let fs := body.splitOn ";"
          let cnS := ((fs.find? fun f => f.startsWith "cn=").map fun f => (f.drop 3).toString).getD "?"
          match pSnap cnS with
          | none => some "unparsable"
          | some cn =>
            let held' : List (Option String) :=
              if c == 'o' then
                match fs.find? fun f => f.startsWith "est " with
                | some e => held.set k (some ("b" ++ (e.drop 4).toString))
                | none => held.set k none
              else held.set k none
            let labels := cn.map (·.1) ++ held'.filterMap id
            let cnt (l : String) : Int := ((held'.filter fun a => a == some l).length : Nat)
            let val (l : String) : Int := ((cn.find? fun p => p.1 == l).map (·.2)).getD 0
            if labels.all fun l => val l == cnt l then pJudge rest held'
            else if cn.any fun p => p.2 < 0 then some "px-negative"
            else if labels.any fun l => val l > cnt l then some "px-leak"
            else some "px-undercount"
      | [] => some "unparsable"
    | _ => some "unparsable"

def pVerdict (n : Nat) (impl : String) : String :=
  if impl == "HANG" then "FAIL:px-hang" else
  match pJudge (impl.splitOn " | ") (List.replicate n none) with
  | none => "ok"
  | some c => "FAIL:" ++ c

end BfeVerif.C07.Px
