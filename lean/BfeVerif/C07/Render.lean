import BfeVerif.Common.Proto
import BfeVerif.C07.Model
/-!
  C07 / C08 — line protocol of the scenario harness (harness/cmd/c07/sim): parser of the op line,
  renderer of the model result, parser of the implementation's result line (for the spec oracles),
  and the resolution of the `randomSelectExclude` oracle values against the observed trace.
  Core-only.
-/
namespace BfeVerif.C07
open BfeVerif.Proto

/-! ### op line -/

structure Scenario where
  cfg : Cfg
  reqs : List ReqSpec
  methods : List Char
  bodies : List Char
  sched : List Step

def parseParams (s : String) : Option (Int × Int × Nat × Nat × Nat × Nat × Nat) := do
  let kvs ← (s.splitOn ",").mapM fun f =>
    match f.splitOn "=" with
    | [k, v] => v.toInt?.map fun n => (k, n)
    | _ => none
  let get (k : String) : Option Int := (kvs.find? fun p => p.1 == k).map (·.2)
  let rm ← get "rm"
  let cr ← get "cr"
  let rl ← get "rl"
  let h ← get "h"
  let bm ← get "bm"
  let fn ← get "fn"
  let _ ← get "ip"
  let od := (get "od").getD 0
  let nk := if (get "od").isSome then 8 else 7
  if kvs.length != nk || rl < 0 || h < 0 || bm < 0 || bm > 2 || fn < 0 || od < 0 || od > 4 then none else
  some (rm, cr, rl.toNat, h.toNat, bm.toNat, fn.toNat, od.toNat)

def parseBacks : List Char → Option (List Back)
  | [] => some []
  | c :: d :: rest =>
    if (c == 'u' || c == 'd') && d.isDigit then
      (parseBacks rest).map fun l => ⟨c == 'u', (d.toNat - 48 : Nat)⟩ :: l
    else none
  | _ => none

def parseSub (s : String) : Option Sub :=
  match s.splitOn ":" with
  | [name, w, bs] => do
    let wi ← w.toInt?
    let backs ← if bs == "-" then some [] else parseBacks bs.toList
    if name.isEmpty || backs.length > 8 then none else
    some ⟨name, wi, name == "GSLB_BLACKHOLE", backs⟩
  | _ => none

def parseRt (c : Char) : Option Rt :=
  if c == '2' then some (.ok 200) else if c == '5' then some (.ok 503)
  else if c == '4' then some (.ok 404) else if c == '3' then some (.ok 302)
  else if c == 'c' || c == 'C' then some .connect
  else if c == 'w' || c == 'W' then some .write
  else if c == 'v' then some .writeT
  else if c == 'h' || c == 'H' then some .rhdr
  else if c == 't' then some .timeout
  else if c == 'b' then some .broken
  else if c == 'o' then some .other
  else if c == '!' then some .panic
  else none

def parseAttempt (s : String) : Option Attempt :=
  match s.toList with
  | [f, r] =>
    if f == 'g' || f == 'r' || f == 'p' || f == 'c' then (parseRt r).map fun x => ⟨.goon, x⟩
    else if f == 'f' then (parseRt r).map fun x => ⟨.finish, x⟩
    else if f == 'x' then (parseRt r).map fun x => ⟨.replace 0, x⟩
    else if f == 'y' then (parseRt r).map fun x => ⟨.replace 1, x⟩
    else if f == 'z' then (parseRt r).map fun x => ⟨.replace 2, x⟩
    else if f == 'u' then (parseRt r).map fun x => ⟨.replace 3, x⟩
    else if f == '!' then (parseRt r).map fun x => ⟨.panic, x⟩
    else none
  | _ => none

def parseFinV (c : Char) : Option FinV :=
  if c == 'g' then some .goon else if c == 'f' then some .finish
  else if c == 'r' || c == 'p' || c == 'c' then some .other
  else if c == '!' then some .panic else none

def parsePre (s : String) : Option (Option Nat) :=
  if s == "-" then some none else if s == "f" then some (some 1) else if s == "c" then some (some 2)
  else if s == "r" then some (some 0) else none

def parseReq3 (m b sc : String) : Option (ReqSpec × Char × Char) :=
    match m.toList, b.toList with
    | [mc], [bc] =>
      if !(mc == 'G' || mc == 'P' || mc == 'H' || mc == 'g') then none
      else if !(bc == 'n' || bc == 'e' || bc == 'r' || bc == 's' || bc == 'S') then none
      else do
        let script ← if sc == "-" then some [] else (sc.splitOn ".").mapM parseAttempt
        some (⟨mc == 'G', bc == 'n' || bc == 'e' || bc == 's', script, [], none⟩, mc, bc)
    | _, _ => none

def parseReq (s : String) : Option (ReqSpec × Char × Char) :=
  match s.splitOn ":" with
  | [m, b, sc] => parseReq3 m b sc
  | [m, b, sc, fin, pre] => do
    let (rq, mc, bc) ← parseReq3 m b sc
    let fv ← if fin == "-" then some [] else fin.toList.mapM parseFinV
    let pv ← parsePre pre
    if fv.length > 4 then none else
    some ({ rq with finish := fv, pre := pv }, mc, bc)
  | _ => none

/-- backend #k of the cluster (enumeration order) as global id; 1000+k when there is no such backend -/
def flipTarget (cfg : Cfg) (k : Nat) : Nat := (allBids cfg).getD k (1000 + k)

def flipIndex (cfg : Cfg) (b : Nat) : Nat :=
  if b ≥ 1000 then b - 1000 else (allBids cfg).idxOf b

def parseStep (cfg : Cfg) (n : Nat) (s : String) : Option Step :=
  match s.toList with
  | c :: rest =>
    match (String.ofList rest).toNat? with
    | some k =>
      if c == 'u' then (if k > 63 then none else some (.up (flipTarget cfg k)))
      else if c == 'd' then (if k > 63 then none else some (.down (flipTarget cfg k)))
      else if c == 'x' then (if k > 63 then none else some (.remove (flipTarget cfg k)))
      else if k ≥ n then none
      else if c == 'i' then some (.inv k) else if c == 'f' then some (.fin k) else none
    | none => none
  | [] => none

def parseOp (op : String) : Option Scenario :=
  match op.splitOn "/" with
  | [p, ss, rs, sc] => do
    let (rm, cr, rl, h, bm, fn, od) ← parseParams p
    let subs ← (ss.splitOn ";").mapM parseSub
    let reqs ← (rs.splitOn ";").mapM parseReq
    let cfg : Cfg := ⟨rm, cr, rl, h, bm, fn, subs, od⟩
    let sched ← (sc.splitOn ".").mapM (parseStep cfg reqs.length)
    if subs.length > 8 || reqs.length > 8 then none else
    some ⟨cfg, reqs.map (·.1), reqs.map (·.2.1), reqs.map (·.2.2), sched⟩
  | _ => none

/-! ### rendering of the model result (must equal the harness' format byte for byte) -/

def label (cfg : Cfg) (b : Nat) : String :=
  (cfg.subs.getD (b / 8) default).name ++ toString (b % 8)

def renderConn (cfg : Cfg) (conn : Nat → Int) : String :=
  let parts := (allBids cfg).filterMap fun b =>
    if conn b != 0 then some (label cfg b ++ "=" ++ toString (conn b)) else none
  if parts.isEmpty then "0" else "+".intercalate parts

def renderFails (cfg : Cfg) (bs : BalSt) : String :=
  let parts := (allBids cfg).filterMap fun b =>
    let f := (bs.fails.getD (b / 8) []).getD (b % 8) 0
    if f != 0 then some (label cfg b ++ "=" ++ toString f) else none
  if parts.isEmpty then "0" else "+".intercalate parts

def Err.str : Err → String
  | .nil => "nil" | .connect => "connect" | .write => "write" | .rhdr => "rhdr" | .timeout => "timeout"
  | .broken => "broken" | .other => "other" | .toomany => "toomany" | .blackhole => "blackhole"
  | .nobackend => "nobackend" | .nosubcross => "nosubcross" | .crossbal => "crossbal"

def Ec.str : Ec → String
  | .none => "nil" | .connect => "connect" | .write => "write" | .rhdr => "rhdr" | .timeout => "timeout"
  | .broken => "broken" | .blackhole => "blackhole" | .nobackend => "nobackend" | .nosubcross => "nosubcross"

/-- `pick` = the backend Balance returned for this event; shown as `pick~b` when the callback replaced it -/
def renderEv (cfg : Cfg) (pick : Nat) : Ev → String
  | .rt b _ _ snap _ =>
    (if pick != b then label cfg pick ++ "~" else "") ++ label cfg b ++ "@" ++ renderConn cfg snap
  | .fin b _ => label cfg b ++ "F"

/-- the last event of a clusterInvoke that was left by a panicking HandleForward filter is shown as `<backend>P` -/
def renderEvs (cfg : Cfg) (r : LR) : List String :=
  let l := (r.evs.zip r.st.picks.reverse).map fun (e, pk) => renderEv cfg pk e
  if r.act == 9 then
    match r.evs.getLast? with
    | some (.fin b _) => l.dropLast ++ [label cfg b ++ "P"]
    | _ => l
  else l

def renderInv (cfg : Cfg) (k : Nat) (r : LR) : String :=
  "i" ++ toString k ++ ":" ++ ",".intercalate (renderEvs cfg r) ++
  (if r.act == 9 then "!cbpanic" else
    ">res=" ++ (match r.res with | some s => toString s | none => "nil") ++
    ",err=" ++ r.err.str ++ ",act=" ++ toString r.act) ++
  ";rt=" ++ toString r.st.retry ++ ";ec=" ++ r.st.ec.str ++
  ";x=" ++ (if r.st.cross then "1" else "0") ++ ";cn=" ++ renderConn cfg r.st.conn ++
  ";fl=" ++ renderFails cfg r.st.bs

def renderOut (cfg : Cfg) : StepOut → String
  | .inv k r => renderInv cfg k r
  | .fin k act ran panicked conn =>
    "f" ++ toString k ++ ":" ++ (if panicked then "cbpanic" else "act=" ++ toString act) ++
    ";n=" ++ toString ran ++ ";cn=" ++ renderConn cfg conn
  | .flip isUp b conn bs =>
    (if isUp then "u" else "d") ++ toString (flipIndex cfg b) ++ ":cn=" ++ renderConn cfg conn ++
    ";fl=" ++ renderFails cfg bs
  | .removed b conn bs =>
    "x" ++ toString (flipIndex cfg b) ++ ":cn=" ++ renderConn cfg conn ++ ";fl=" ++ renderFails cfg bs
  | .deadFin k conn => "f" ++ toString k ++ ":dead;cn=" ++ renderConn cfg conn
  | .bad => "bad"

/-! ### resolving the `randomSelectExclude` oracle against the observed line -/

def enumChoices (base : Nat) : Nat → List (List Nat)
  | 0 => [[]]
  | n + 1 => ((List.range base).map fun c => (enumChoices base n).map fun l => c :: l).flatten

/-- candidate oracle streams for one clusterInvoke (at most cr+1 cross selections happen) -/
def choiceSpace (cfg : Cfg) : List (List Nat) :=
  let c := (crossCands cfg (primary cfg)).length
  if cfg.cr ≤ 0 || c ≤ 1 then [[]]
  else enumChoices c (min (cfg.cr.toNat + 1) 4)

/-- run the schedule; for every invoke step take the first oracle stream that reproduces the
    implementation's step string (the first stream if none does). Returns the final state and whether a
    real choice existed. -/
def runResolved (sc : Scenario) (implSteps : List String) : G × List (List Nat) :=
  let space := choiceSpace sc.cfg
  let rec go (g : G) (steps : List Step) (impl : List String) (acc : List (List Nat)) : G × List (List Nat) :=
    match steps with
    | [] => (g, acc.reverse)
    | st :: rest =>
      let want := impl.headD ""
      let pick : List Nat :=
        match st with
        | .fin _ | .up _ | .down _ | .remove _ => []
        | .inv _ =>
          match space.find? fun ch =>
              match (step realPolicy sc.cfg sc.reqs g st ch).outs with
              | o :: _ => renderOut sc.cfg o == want
              | [] => false with
          | some ch => ch
          | none => space.headD []
      go (step realPolicy sc.cfg sc.reqs g st pick) rest impl.tail (pick :: acc)
  go (G.init sc.cfg sc.reqs.length) sc.sched implSteps []

def renderG (cfg : Cfg) (g : G) : String :=
  if g.outs.any (fun o => match o with | .bad => true | _ => false) then "bad-op"
  else " | ".intercalate (g.outs.reverse.map (renderOut cfg))

/-! ### the implementation's result line, parsed for the spec oracles -/

structure IEv where
  label : String        -- backend the request was sent to
  pick : String         -- backend Balance had returned (differs when the callback replaced it)
  fin : Bool
  snap : List (String × Int)

structure IStep where
  isInv : Bool
  k : Nat
  evs : List IEv
  panic : Bool
  dead : Bool
  cn : List (String × Int)
  cross : Bool
  flip : Bool := false
  fl : String := ""

def parseSnap (s : String) : Option (List (String × Int)) :=
  if s == "0" then some []
  else (s.splitOn "+").mapM fun p =>
    match p.splitOn "=" with
    | [l, v] => v.toInt?.map fun n => (l, n)
    | _ => none

def parseIEv (s : String) : Option IEv :=
  match s.splitOn "@" with
  | [l, sn] =>
    match l.splitOn "~" with
    | [pk, nl] => (parseSnap sn).map fun x => ⟨nl, pk, false, x⟩
    | _ => (parseSnap sn).map fun x => ⟨l, l, false, x⟩
  | [l] => if l.endsWith "F" || l.endsWith "P" then some ⟨(l.dropEnd 1).toString, (l.dropEnd 1).toString, true, []⟩ else none
  | _ => none

def fieldAfter (pre : String) (fs : List String) : Option String :=
  (fs.find? fun f => f.startsWith pre).map fun f => (f.drop pre.length).toString

def parseIStep (s : String) : Option IStep :=
  match s.splitOn ":" with
  | hd :: tl =>
    let body := ":".intercalate tl
    match hd.toList with
    | c :: ds =>
      match (String.ofList ds).toNat? with
      | none => none
      | some k =>
        let fs := body.splitOn ";"
        match (fieldAfter "cn=" fs).bind parseSnap with
        | none => none
        | some cn =>
          if c == 'u' || c == 'd' || c == 'x' then
            some ⟨false, k, [], false, false, cn, false, true, (fieldAfter "fl=" fs).getD ""⟩
          else if c == 'f' then
            some ⟨false, k, [], (body.splitOn "PANIC").length > 1, body.startsWith "dead", cn, false, false, ""⟩
          else if c == 'i' then
            let panic := (body.splitOn "!PANIC").length > 1
            let cbp := (body.splitOn "!cbpanic").length > 1
            let evPart := ((if panic then body.splitOn "!PANIC" else if cbp then body.splitOn "!cbpanic" else body.splitOn ">").headD "")
            let evs := if evPart.isEmpty then some [] else (evPart.splitOn ",").mapM parseIEv
            evs.map fun e => ⟨true, k, e, panic, cbp, cn, fieldAfter "x=" fs == some "1", false, (fieldAfter "fl=" fs).getD ""⟩
          else none
    | [] => none
  | [] => none

def parseImpl (impl : String) : Option (List IStep) :=
  (impl.splitOn " | ").mapM parseIStep

end BfeVerif.C07
