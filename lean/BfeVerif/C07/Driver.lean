import BfeVerif.Common.Proto
import BfeVerif.C07.Model
import BfeVerif.C07.Render
import BfeVerif.C07.Proxy
/-!
  C07 driver.  op = one scenario line (see harness/cmd/c07/sim); result = the per-step trace.

  Spec oracle (judged on the IMPLEMENTATION's line only): a request is assigned to backend X from its
  RoundTrip to X until its next RoundTrip, a HandleForward Finish verdict, or its FinishReq.  At every
  observation point (each RoundTrip, the end of each clusterInvoke, the end of each FinishReq) the
  connNum of every backend must equal the number of requests assigned to it.
-/
namespace BfeVerif.C07
open BfeVerif.Proto

def countAsg (asg : List (Option String)) (l : String) : Int :=
  ((asg.filter fun a => a == some l).length : Nat)

def snapVal (snap : List (String × Int)) (l : String) : Int :=
  ((snap.find? fun p => p.1 == l).map (·.2)).getD 0

/-- none = consistent, some class = why not -/
def judgeSnap (snap : List (String × Int)) (asg : List (Option String)) : Option String :=
  let labels := snap.map (·.1) ++ asg.filterMap id
  if labels.all fun l => snapVal snap l == countAsg asg l then none
  else if snap.any fun p => p.2 < 0 then some "negative"
  else if labels.any fun l => snapVal snap l > countAsg asg l then some "leak"
  else some "undercount"

def setOpt (l : List (Option String)) (i : Nat) (v : Option String) : List (Option String) :=
  match l, i with
  | [], _ => []
  | _ :: xs, 0 => v :: xs
  | x :: xs, i + 1 => x :: setOpt xs i v

def judgeEvs (k : Nat) : List IEv → List (Option String) → Option String × List (Option String)
  | [], asg => (none, asg)
  | e :: es, asg =>
    if e.fin then judgeEvs k es (setOpt asg k none)
    else
      let asg' := setOpt asg k (some e.label)
      match judgeSnap e.snap asg' with
      | some c => (some c, asg')
      | none => judgeEvs k es asg'

def judgeSteps : List IStep → List (Option String) → Option String
  | [], _ => none
  | s :: ss, asg =>
    if s.panic then some "panic"
    else if s.flip then
      -- a health-check event must leave every counter as it is
      match judgeSnap s.cn asg with
      | some c => some (c ++ "-at-health-event")
      | none => judgeSteps ss asg
    else if s.isInv then
      match judgeEvs s.k s.evs asg with
      | (some c, _) => some c
      | (none, asg') =>
        match judgeSnap s.cn asg' with
        | some c => some c
        | none => judgeSteps ss asg'
    else
      let asg' := setOpt asg s.k none
      match judgeSnap s.cn asg' with
      | some c => some (if s.dead then "leak-after-panic" else c)
      | none => judgeSteps ss asg'

def specVerdict (nreq : Nat) (impl : String) : String :=
  match parseImpl impl with
  | none => "FAIL:unparsable"
  | some steps =>
    match judgeSteps steps (List.replicate nreq none) with
    | none => "ok"
    | some c => "FAIL:" ++ c

def tagsOf (sc : Scenario) (steps : List IStep) (nd : Bool) : List String :=
  let invs := steps.filter (·.isInv)
  let nev : Nat := (invs.map fun s => s.evs.length).foldl (· + ·) 0
  let fin := invs.any fun s => s.evs.any (·.fin)
  let retry := invs.any fun s => s.evs.length ≥ 2
  let cross := invs.any (·.cross)
  let overlap := steps.any fun s => s.isInv && s.evs.any fun e => e.snap.length ≥ 2 || e.snap.any fun p => p.2 ≥ 2
  (if nev ≥ 2 then ["nt"] else []) ++ (if fin then ["fwd-finish"] else []) ++ (if retry then ["retry"] else []) ++
  (if cross then ["cross"] else []) ++ (if overlap then ["overlap"] else []) ++ (if nd then ["nd"] else []) ++
  (if sc.reqs.length ≥ 2 then ["multi"] else ["single"]) ++ (if nev == 0 then ["no-attempt"] else []) ++
  (if sc.cfg.mode == 1 then ["wlc"] else if sc.cfg.mode == 2 then ["sticky"] else ["wrr"]) ++
  (if sc.cfg.failNum > 0 then ["health"] else []) ++
  (if steps.any (·.flip) then ["health-flip"] else []) ++
  (if steps.any (fun s => s.isInv && s.dead) then ["cb-panic"] else []) ++
  (if sc.sched.any (fun st => match st with | .remove _ => true | _ => false) then ["reload-remove"] else []) ++
  (if steps.any (fun s => s.flip && !s.cn.isEmpty) then ["flip-in-flight"] else []) ++
  (if sc.reqs.any fun r => r.finish.any (· == .finish) then ["reqfin-finish"] else []) ++
  (if sc.reqs.any fun r => r.finish.any (· == .panic) then ["reqfin-panic"] else []) ++
  (if sc.reqs.any fun r => r.finish.any (· == .other) then ["reqfin-other"] else []) ++
  (if sc.reqs.any fun r => r.pre.isSome then ["before-location-end"] else []) ++
  (if invs.any fun s => s.evs.any fun e => e.pick != e.label then ["replaced"] else [])

def runProxy (op impl : String) : Ans :=
  match Px.parsePOp op with
  | none => { model := "bad-op", verdict := "skip" }
  | some p =>
    if impl.startsWith "skip:" then { model := impl, verdict := "skip", tags := ["px", "px-env-skip"] } else
    let est := (impl.splitOn "est ").length - 1
    { model := Px.runPOp p
      verdict := Px.pVerdict p.scripts.length impl
      tags := ["px"] ++ (if op.startsWith "px/w" then ["px-websocket"] else ["px-stream"]) ++
              (if est ≥ 1 then ["nt", "px-est"] else []) ++ (if est ≥ 2 then ["px-multi"] else []) ++
              (if (impl.splitOn "x").length > 1 then ["px-refused"] else []) }

def run (op impl : String) : Ans :=
  if op.startsWith "px/" then runProxy op impl else
  match parseOp op with
  | none => { model := "bad-op", verdict := "skip" }
  | some sc =>
    if totalWeight sc.cfg.subs ≤ 0 then { model := "err:init", verdict := "skip", tags := ["init"] }
    else if impl.startsWith "bad-w" then { model := "bad-w", verdict := "skip" }
    else
      let (g, chs) := runResolved sc (impl.splitOn " | ")
      let nd := (choiceSpace sc.cfg).length > 1 && chs.any fun c => !c.isEmpty
      { model := renderG sc.cfg g
        verdict := specVerdict sc.reqs.length impl
        tags := tagsOf sc ((parseImpl impl).getD []) nd }

end BfeVerif.C07
